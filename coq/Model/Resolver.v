(* Resolver model (C02 C08 C09 C14): an executable transcription of what
   pkg/apk/apk/repo.go and version.go:filterPackages do TODAY, quirks included.
   No proofs in this file.

   Go function                              model
   ---------------------------------------  -------------------------------------
   newPkgResolver (nameMap, installIfMap)   new_resolver / build_names / build_iif
   filterPackages                           filter_packages
   comparePackages (compare == nil)         compare_packages
   bestPackage (slices.MinFunc)             best_package
   getDepVersionForName                     dep_version_for_name
   constrain / disqualifyProviders          constrain / disqualify_providers
   disqualifyConflicts / conflictingVersion disqualify_conflicts / conflicting_version
   pick                                     pick
   ResolvePackage (length only) /nextPackage count_candidates / next_package
   resolvePackage                           resolve_package
   getPackageDependencies                   get_deps (fuel) + deps_loop + eval_dep
   GetPackageWithDependencies               get_pkg_core + iif_loop = get_pkg
   GetPackagesWithDependencies              phase1 + phase2 = resolve_with / resolve
   disqualifyDifference                     disqualify_difference / dq_of_arch

   Conventions.
   * A *RepositoryPackage pointer is a [pid]: the position of the package in the
     universe flattened in (index, package) order.  Two structurally equal
     packages at different positions are different packages, as in Go.
   * Every string that Go parses repeatedly through the memo tables
     cachedParseVersion / cachedResolvePackageNameVersionPin is parsed ONCE when
     the resolver is built ("cooked" records [cstr], [cdep], [cpkg]).  The memo
     tables store values of pure functions, so this changes nothing observable;
     it only keeps [vm_compute] fast.  Cooked fields are by construction
     [parse_version] / [resolve_constraint] of the raw strings (see [cook_*]).
   * Go map iteration.  Two loops range over a map:
       (1) newPkgResolver ranges over pkgNameMap to append providers.  The order
           of the providers of one name that have DIFFERENT package names follows
           that iteration.  The model uses first-occurrence order of names.  The
           result of a resolution depends on it only through bestPackage on
           candidates whose versions fail to parse (comparePackages is a total
           preorder refined by the name on packages with valid versions; see
           [compare_packages]); the generators keep such candidates out.
       (2) getPackageDependencies: constraints = keys(options) — affects only
           WHICH error is returned, and errors are observed as a boolean.
           "lowest" is chosen with an explicit tie-break, no order dependence.
     GetPackageWithDependencies' install_if loop used to be a third one
     (`for dep, depPkg := range added`, a map written during the range: findings
     C08-F1, C08-F3, C01-F1).  Since fix c03e0c0 it walks the `dependencies`
     slice by index, the entries it appends included ([iif_loop]); the `added`
     map is only looked up.  No schedule parameter is left: [resolve] is a
     function of the universe, the world and the initial disqualification set.
   * comparePackages: every caller passes compare = nil, so its first two stages
     (repository of `compare`, origin of `compare`) are dead and omitted; the
     remaining seven are modelled in order.  sortPackages is reachable only
     through the exported ResolvePackage, whose result nextPackage uses for its
     LENGTH only, so no sorting is modelled.
   * The `conflicts []string` result (the "!" entries met on the way) is not
     modelled; no property observes it.
   * Errors are a boolean ([Err]).  The panic in conflictingVersion is [Panic].
   * The sentinel tests `next == ""` (nextPackage) is modelled; the sentinel test
     `lowest == ""` in getPackageDependencies is not (it matters only for an
     empty dependency string that some package provides). *)
From Apko Require Import Base.Prelude Base.Regex
  Generated.Regexes Generated.VersionConsts Generated.C03Version Model.Version.
Open Scope string_scope. Open Scope list_scope.

(* ---- packages and universes ---------------------------------------------- *)
Record pkg := {
  p_name : string; p_version : string; p_origin : string;
  p_deps : list string; p_provides : list string; p_install_if : list string;
  p_prio : N;             (* ProviderPriority *)
  p_pin : string;         (* pinnedName: NamedIndex.Name() of its index, "" = not pinned *)
  p_repo : string         (* Repository.URI of its index (only used through URL()) *)
}.
Definition universe := list pkg.      (* all indexes, flattened in (index, package) order *)
Definition pid := nat.

(* RepositoryPackage.URL() = repository URI + "/" + Package.Filename() *)
Definition pkg_url (p : pkg) : string :=
  p_repo p ++ "/" ++ p_name p ++ "-" ++ p_version p ++ ".apk".

(* ---- cooked strings --------------------------------------------------------- *)
(* a constraint string with its parse and the parse of its version part *)
Record cstr := { s_raw : string; s_c : constraint; s_req : option mver }.
Definition cook_str (s : string) : cstr :=
  let c := resolve_constraint s in
  {| s_raw := s; s_c := c; s_req := parse_version (c_version c) |}.
Definition s_name (d : cstr) : string := c_name (s_c d).
Definition s_version (d : cstr) : string := c_version (s_c d).
Definition s_dep (d : cstr) : Z := c_dep (s_c d).
Definition s_pin (d : cstr) : string := c_pin (s_c d).

(* an entry of a dependency list or of the world: [d_neg] is the parse of the
   rest when the string starts with "!" (strings.HasPrefix(dep, "!"), dep[1:]) *)
Record cdep := { d_pos : cstr; d_neg : option cstr }.
Definition bang_rest (s : string) : option string :=
  match s with
  | String c rest => if Ascii.eqb c "!"%char then Some rest else None
  | EmptyString => None
  end.
Definition cook_dep (s : string) : cdep :=
  {| d_pos := cook_str s; d_neg := option_map cook_str (bang_rest s) |}.

Record cpkg := {
  k_pkg : pkg;
  k_ver : option mver;          (* cachedParseVersion(pkg.Version) *)
  k_url : string;
  k_provs : list cstr;          (* pkg.Provides *)
  k_deps : list cdep;           (* pkg.Dependencies *)
  k_iifs : list cstr            (* pkg.InstallIf *)
}.
Definition cook_pkg (p : pkg) : cpkg :=
  {| k_pkg := p; k_ver := parse_version (p_version p); k_url := pkg_url p;
     k_provs := List.map cook_str (p_provides p);
     k_deps := List.map cook_dep (p_deps p);
     k_iifs := List.map cook_str (p_install_if p) |}.
Definition k_name (k : cpkg) : string := p_name (k_pkg k).
Definition k_version (k : cpkg) : string := p_version (k_pkg k).

(* ---- small finite maps -------------------------------------------------------- *)
Fixpoint alookup {A} (k : string) (m : list (string * A)) : option A :=
  match m with
  | [] => None
  | (k', v) :: m' => if String.eqb k' k then Some v else alookup k m'
  end.
Fixpoint aset {A} (k : string) (v : A) (m : list (string * A)) : list (string * A) :=
  match m with
  | [] => [(k, v)]
  | (k', v') :: m' => if String.eqb k' k then (k', v) :: m' else (k', v') :: aset k v m'
  end.
Definition ahas {A} (k : string) (m : list (string * A)) : bool :=
  match alookup k m with Some _ => true | None => false end.
Definition mem_str (s : string) (l : list string) : bool := existsb (String.eqb s) l.
Definition mem_pid (i : pid) (l : list pid) : bool := existsb (Nat.eqb i) l.
Definition dq_add (i : pid) (dq : list pid) : list pid := if mem_pid i dq then dq else i :: dq.

(* name -> packages, each list in append order *)
Definition name_map := list (string * list pid).
Fixpoint nm_add (n : string) (i : pid) (m : name_map) : name_map :=
  match m with
  | [] => [(n, [i])]
  | (k, l) :: m' => if String.eqb k n then (k, l ++ [i]) :: m' else (k, l) :: nm_add n i m'
  end.

(* ---- newPkgResolver --------------------------------------------------------- *)
Fixpoint number_from {A} (i : nat) (l : list A) : list (nat * A) :=
  match l with [] => [] | x :: t => (i, x) :: number_from (S i) t end.

(* first loop: pkgNameMap[pkg.Name] = append(...) in (index, package) order *)
Definition own_names (ks : list cpkg) : name_map :=
  fold_left (fun m ik => nm_add (k_name (snd ik)) (fst ik) m) (number_from 0 ks) [].

(* second loop: for every (snapshot of an) own-name list, in key order [keys],
   every package, every provide: append the package under the provided name *)
Definition add_provides (ks : list cpkg) (own : name_map) (keys : list string) : name_map :=
  fold_left (fun m key =>
    match alookup key own with
    | None => m
    | Some ids =>
        fold_left (fun m i =>
          match nth_error ks i with
          | None => m
          | Some k => fold_left (fun m pv => nm_add (s_name pv) i m) (k_provs k) m
          end) ids m
    end) keys own.

Definition build_names (ks : list cpkg) : name_map :=
  let own := own_names ks in add_provides ks own (List.map fst own).

(* installIfMap: keyed by the RAW install_if string *)
Definition build_iif (ks : list cpkg) : name_map :=
  fold_left (fun m ik =>
    fold_left (fun m d => nm_add (s_raw d) (fst ik) m) (k_iifs (snd ik)) m)
    (number_from 0 ks) [].

Record resolver := { r_pkgs : list cpkg; r_names : name_map; r_iif : name_map }.
Definition new_resolver (U : universe) : resolver :=
  let ks := List.map cook_pkg U in
  {| r_pkgs := ks; r_names := build_names ks; r_iif := build_iif ks |}.

Definition dummy_pkg : pkg :=
  {| p_name := ""; p_version := ""; p_origin := ""; p_deps := []; p_provides := [];
     p_install_if := []; p_prio := 0%N; p_pin := ""; p_repo := "" |}.
Definition dummy_cpkg : cpkg := cook_pkg dummy_pkg.
(* every pid the resolver handles comes out of r_names / r_iif and is in range *)
Definition getp (R : resolver) (i : pid) : cpkg := nth i (r_pkgs R) dummy_cpkg.

(* ---- filterPackages ----------------------------------------------------------- *)
Record fopts := {
  fo_allow : string; fo_prefer : string;
  fo_dep : Z; fo_req : option mver;       (* withVersion(version, compare); fo_req = parse of version *)
  fo_installed : option pid
}.

(* compare.satisfies(own version, required) or some VERSIONED provide — of any
   provided name, the code does not look at the name — satisfies it.  Invalid
   versions are skipped.  (A provide without version has version "" which does
   not parse, so the test `version == ""` needs no separate case.) *)
Definition version_passes (k : cpkg) (dep : Z) (req : mver) : bool :=
  match k_ver k with
  | None => false
  | Some a =>
      satisfies dep a req ||
      existsb (fun pv => match s_req pv with
                         | Some a' => satisfies dep a' req
                         | None => false
                         end) (k_provs k)
  end.

Definition pin_allowed (R : resolver) (o : fopts) (k : cpkg) : bool :=
  let pn := p_pin (k_pkg k) in
  negb (negb (String.eqb pn "") && negb (String.eqb pn (fo_allow o)) && negb (String.eqb pn (fo_prefer o))
        && match fo_installed o with
           | None => true
           | Some j => negb (String.eqb (k_url (getp R j)) (k_url k))
           end).

Definition filter_packages (R : resolver) (dq : list pid) (o : fopts) (cands : list pid) : list pid :=
  let base := List.filter (fun i => negb (mem_pid i dq) && pin_allowed R o (getp R i)) cands in
  if (fo_dep o =? dep_versionAny)%Z then base
  else match fo_req o with
       | None => []      (* `return nil` on an unparsable required version *)
       | Some req => List.filter (fun i => version_passes (getp R i) (fo_dep o) req) base
       end.

(* ---- comparePackages / bestPackage ---------------------------------------------- *)
(* getDepVersionForName: version string and its parse *)
Definition dep_version_for_name (k : cpkg) (name : string) : string * option mver :=
  if String.eqb name "" || String.eqb name (k_name k) then (k_version k, k_ver k)
  else match List.find (fun pv => String.eqb (s_name pv) name) (k_provs k) with
       | Some pv => if String.eqb (s_version pv) "" then (k_version k, k_ver k)
                    else (s_version pv, s_req pv)
       | None => ("", None)
       end.

Definition str_cmp (a b : string) : Z :=
  match String.compare a b with Lt => (-1)%Z | Eq => 0%Z | Gt => 1%Z end.

(* negative: a is preferred *)
Definition compare_packages (R : resolver) (name : string)
    (existing : list (string * pid)) (origins : list string) (pin : string) (a b : pid) : Z :=
  let ka := getp R a in let kb := getp R b in
  let matched k := match alookup (k_name k) existing with
                   | Some j => String.eqb (k_version (getp R j)) (k_version k)
                   | None => false
                   end in
  let ma := matched ka in let mb := matched kb in
  (* an existing package of that name with that very version *)
  if ma && negb mb then (-1)%Z else if mb && negb ma then 1%Z else
  (* origin already installed *)
  let oa := mem_str (p_origin (k_pkg ka)) origins in
  let ob := mem_str (p_origin (k_pkg kb)) origins in
  if oa && negb ob then (-1)%Z else if ob && negb oa then 1%Z else
  (* pinned repository *)
  let pa := String.eqb (p_pin (k_pkg ka)) pin in
  let pb := String.eqb (p_pin (k_pkg kb)) pin in
  if pa && negb pb then (-1)%Z else if negb pa && pb then 1%Z else
  (* provider priority, higher first *)
  if negb (N.eqb (p_prio (k_pkg ka)) (p_prio (k_pkg kb))) then
    (if N.ltb (p_prio (k_pkg kb)) (p_prio (k_pkg ka)) then (-1)%Z else 1%Z)
  else
  (* version under which [name] is provided, higher first *)
  let '(sa, va) := dep_version_for_name ka name in
  let '(sb', vb) := dep_version_for_name kb name in
  match va with
  | None => 1%Z
  | Some xa =>
    match vb with
    | None => (-1)%Z
    | Some xb =>
      let c := compare_versions xa xb in
      if negb (c =? cmp_equal)%Z then (-1 * c)%Z else
      let own_k :=
        (* package versions, when the provided versions were something else *)
        if negb (String.eqb sa (k_version ka)) || negb (String.eqb sb' (k_version kb)) then
          match k_ver ka with
          | None => Some 1%Z
          | Some ya =>
            match k_ver kb with
            | None => Some (-1)%Z
            | Some yb => let c2 := compare_versions ya yb in
                         if negb (c2 =? cmp_equal)%Z then Some (-1 * c2)%Z else None
            end
          end
        else None in
      match own_k with
      | Some z => z
      | None => str_cmp (k_name ka) (k_name kb)      (* cmp.Compare(a.Name, b.Name) *)
      end
    end
  end.

(* slices.MinFunc: the first minimal element, by a left-to-right scan that
   replaces the current minimum only on a strictly negative comparison *)
Definition best_package (R : resolver) (name : string) (existing : list (string * pid))
    (origins : list string) (pin : string) (cands : list pid) : option pid :=
  match cands with
  | [] => None
  | x :: t => Some (fold_left (fun m y =>
                 if (compare_packages R name existing origins pin y m <? 0)%Z then y else m) t x)
  end.

(* ---- disqualification ------------------------------------------------------------ *)
(* conflictingVersion; None = the panic at its end *)
Definition conflicting_version (c : constraint) (conflict : cpkg) : option bool :=
  if negb (String.eqb (c_version c) "") then Some true
  else if String.eqb (k_name conflict) (c_name c) then Some (negb (String.eqb (k_version conflict) (c_version c)))
  else match List.find (fun pv => String.eqb (s_name pv) (c_name c)) (k_provs conflict) with
       | Some pv => Some (negb (String.eqb (s_version pv) (c_version c)))
       | None => None
       end.

Definition disqualify_conflicts (R : resolver) (i : pid) (dq : list pid) : res (list pid) :=
  fold_left (fun acc pv =>
    do dq <- acc;
    match alookup (s_name pv) (r_names R) with
    | None => Ok dq
    | Some providers =>
        fold_left (fun acc j =>
          do dq <- acc;
          if Nat.eqb j i then Ok dq
          else if mem_pid j dq then Ok dq
          else match conflicting_version (s_c pv) (getp R j) with
               | None => Panic
               | Some false => Ok dq
               | Some true => Ok (j :: dq)
               end) providers (Ok dq)
    end) (k_provs (getp R i)) (Ok dq).

Definition world_opts (w : cstr) : fopts :=
  {| fo_allow := ""; fo_prefer := s_pin w; fo_dep := s_dep w; fo_req := s_req w; fo_installed := None |}.

(* disqualifyProviders: everything that filterPackages lets through for the
   constraint after the "!" *)
Definition disqualify_providers (R : resolver) (c : cstr) (dq : list pid) : list pid :=
  match alookup (s_name c) (r_names R) with
  | None => dq
  | Some providers => fold_left (fun dq j => dq_add j dq) (filter_packages R dq (world_opts c) providers) dq
  end.

(* one provider against one versioned constraint (inner loop of constrain) *)
Definition constrain_provider (c : cstr) (req : mver) (k : cpkg) : bool (* disqualify? *) :=
  if String.eqb (k_name k) (s_name c) then
    match k_ver k with
    | None => true
    | Some a => negb (satisfies (s_dep c) a req)
    end
  else
    existsb (fun pv =>
      String.eqb (s_name pv) (s_name c) &&
      match s_req pv with          (* an unversioned provide has version "" : parse error *)
      | None => true
      | Some a => negb (satisfies (s_dep c) a req)
      end) (k_provs k).

Definition constrain (R : resolver) (cs : list cdep) (dq : list pid) : res (list pid) :=
  fold_left (fun acc d =>
    do dq <- acc;
    match d_neg d with
    | Some rest => Ok (disqualify_providers R rest dq)
    | None =>
      let c := d_pos d in
      if (s_dep c =? dep_versionAny)%Z then Ok dq else
      match alookup (s_name c) (r_names R) with
      | None => Ok dq
      | Some providers =>
        match s_req c with
        | None => Err
        | Some req =>
            Ok (fold_left (fun dq j => if constrain_provider c req (getp R j) then dq_add j dq else dq) providers dq)
        end
      end
    end) cs (Ok dq).

(* ---- pick --------------------------------------------------------------------------- *)
Fixpoint pick_provs (i : pid) (provs : list cstr) (sel : list (string * pid)) : res (list (string * pid)) :=
  match provs with
  | [] => Ok sel
  | pv :: t =>
      if ahas (s_name pv) sel then Err
      else if String.eqb (s_version pv) "" then pick_provs i t sel
      else pick_provs i t (aset (s_name pv) i sel)
  end.

Definition pick (R : resolver) (i : pid) (sel : list (string * pid)) : res (list (string * pid)) :=
  let k := getp R i in
  match alookup (k_name k) sel with
  | Some j => if Nat.eqb j i then Ok sel else Err
  | None => pick_provs i (k_provs k) (aset (k_name k) i sel)
  end.

(* ---- resolution state ---------------------------------------------------------------- *)
Record rstate := {
  st_dq : list pid;                      (* set; reasons projected away *)
  st_selected : list (string * pid);     (* PkgResolver.selected *)
  st_existing : list (string * pid);     (* localExisting: shared by all recursion levels of one get_pkg *)
  st_origins : list string               (* existingOrigins, same sharing *)
}.
Definition with_dq (st : rstate) (dq : list pid) : rstate :=
  {| st_dq := dq; st_selected := st_selected st; st_existing := st_existing st; st_origins := st_origins st |}.
Definition with_selected (st : rstate) (s : list (string * pid)) : rstate :=
  {| st_dq := st_dq st; st_selected := s; st_existing := st_existing st; st_origins := st_origins st |}.

(* ---- getPackageDependencies ----------------------------------------------------------- *)
Definition my_provides (k : cpkg) (s : string) : bool :=
  existsb (fun pv => String.eqb (s_raw pv) s || String.eqb (s_name pv) s) (k_provs k).

Inductive dep_eval := DSkip | DFail | DOpts (l : list pid).

(* the loop over picked.Provides; None = a parse error *)
Fixpoint selected_provides_satisfy (name : string) (req : mver) (provs : list cstr) : option bool :=
  match provs with
  | [] => Some false
  | pv :: t =>
      if negb (String.eqb (s_name pv) name) then selected_provides_satisfy name req t
      else if String.eqb (s_version pv) "" then selected_provides_satisfy name req t
      else match s_req pv with
           | None => None
           | Some prover =>
               (* NB: the operator of the PROVIDE (pcompare), not of the dependency *)
               if satisfies (s_dep pv) prover req then Some true
               else selected_provides_satisfy name req t
           end
  end.

(* body of `for _, dep := range constraints` for one non-"!" dependency *)
Definition eval_dep (R : resolver) (st : rstate) (k : cpkg) (allow_pin : string) (d : cstr) : dep_eval :=
  let name := s_name d in
  if my_provides k name || my_provides k (s_raw d) then DSkip else
  if String.eqb (k_name k) name &&
     match k_ver k with
     | None => false
     | Some a => if (s_dep d =? dep_versionAny)%Z then true
                 else match s_req d with Some r => satisfies (s_dep d) a r | None => false end
     end then DSkip else
  match alookup name (st_selected st) with
  | Some j =>
      if String.eqb (s_version d) "" then DSkip else
      let picked := getp R j in
      match k_ver picked, s_req d with
      | Some actual, Some req =>
          match selected_provides_satisfy name req (k_provs picked) with
          | None => DFail
          | Some true => DSkip
          | Some false => if satisfies (s_dep d) actual req then DSkip else DFail
          end
      | _, _ => DFail
      end
  | None =>
      match alookup name (r_names R) with
      | None => DFail
      | Some cands =>
          match filter_packages R (st_dq st)
                  {| fo_allow := allow_pin; fo_prefer := ""; fo_dep := s_dep d; fo_req := s_req d;
                     fo_installed := alookup name (st_existing st) |} cands with
          | [] => DFail
          | l => DOpts l
          end
      end
  end.

(* options: dependency string -> candidates; keys in first-insertion order *)
Definition options := list (string * (cstr * list pid)).
Fixpoint eval_all (R : resolver) (st : rstate) (k : cpkg) (allow_pin : string)
    (cs : list cstr) (opts : options) : option options :=
  match cs with
  | [] => Some opts
  | d :: t =>
      match eval_dep R st k allow_pin d with
      | DSkip => eval_all R st k allow_pin t opts
      | DFail => None
      | DOpts l => eval_all R st k allow_pin t (aset (s_raw d) (d, l) opts)
      end
  end.

(* fewest candidates; ties: the smaller string *)
Definition lowest_step (best : cstr * list pid) (e : string * (cstr * list pid)) : cstr * list pid :=
  let '(d, l) := snd e in
  let '(bd, bl) := best in
  if Nat.ltb (List.length l) (List.length bl) then (d, l)
  else if Nat.eqb (List.length l) (List.length bl) && String.ltb (s_raw d) (s_raw bd) then (d, l)
  else best.
Definition lowest (opts : options) : option (cstr * list pid) :=
  match opts with
  | [] => None
  | (_, x) :: t => Some (fold_left lowest_step t x)
  end.

Definition note_existing (R : resolver) (sub : list pid) (st : rstate) : rstate :=
  fold_left (fun st j =>
    let kj := getp R j in
    {| st_dq := st_dq st; st_selected := st_selected st;
       st_existing := aset (k_name kj) j (st_existing st);
       st_origins := if mem_str (p_origin (k_pkg kj)) (st_origins st) then st_origins st
                     else p_origin (k_pkg kj) :: st_origins st |}) sub st.

Section DepsLoop.
  Variable R : resolver.
  (* the recursive call: package, allowPin, parents, state *)
  Variable rec : pid -> string -> list string -> rstate -> res (rstate * list pid).
  Variable self : pid.
  Variable allow_pin : string.
  Variable parents : list string.

  (* `for len(constraints) != 0`: one key of `options` leaves per round *)
  Fixpoint deps_loop (n : nat) (cs : list cstr) (st : rstate) (acc : list pid) : res (rstate * list pid) :=
    match cs with
    | [] => Ok (st, acc)
    | _ =>
      match n with
      | O => OutOfFuel
      | S n' =>
        let k := getp R self in
        match eval_all R st k allow_pin cs [] with
        | None => Err
        | Some opts =>
          match lowest opts with
          | None => Ok (st, acc)
          | Some (d, cands) =>
            let cs' := List.filter (fun e => negb (String.eqb (s_raw e) (s_raw d))) (List.map (fun e => fst (snd e)) opts) in
            match best_package R (s_name d) (st_existing st) (st_origins st) "" cands with
            | None => Err
            | Some best =>
              do dq1 <- disqualify_conflicts R best (st_dq st);
              do sel1 <- pick R self (st_selected st);
              let st1 := with_selected (with_dq st dq1) sel1 in
              do r <- rec best allow_pin (k_name k :: parents) st1;
              let '(st2, sub) := r in
              deps_loop n' cs' (note_existing R sub st2) (acc ++ sub ++ [best])
            end
          end
        end
      end
    end.
End DepsLoop.

Definition positive_deps (k : cpkg) : list cstr :=
  List.map d_pos (List.filter (fun d => match d_neg d with None => true | Some _ => false end) (k_deps k)).

Fixpoint get_deps (fuel : nat) (R : resolver) (i : pid) (allow_pin : string)
    (parents : list string) (st : rstate) : res (rstate * list pid) :=
  match fuel with
  | O => OutOfFuel
  | S f =>
      let k := getp R i in
      if mem_str (k_name k) parents then Ok (st, [])
      else
        do dq1 <- constrain R (k_deps k) (st_dq st);
        let cs := positive_deps k in
        deps_loop R (get_deps f R) i allow_pin parents (S (List.length cs)) cs (with_dq st dq1) []
  end.

(* distinct package names + 2 (DESIGN 1.3): [parents] gains one new name per level *)
Definition names_of (R : resolver) : list string := nodup string_dec (List.map k_name (r_pkgs R)).
Definition fuel_bound (R : resolver) : nat := S (S (List.length (names_of R))).

(* ---- resolvePackage / nextPackage ------------------------------------------------------ *)
Definition candidates (R : resolver) (dq : list pid) (w : cstr) : list pid :=
  match alookup (s_name w) (r_names R) with
  | None => []
  | Some cands => filter_packages R dq (world_opts w) cands
  end.

Definition resolve_package (R : resolver) (dq : list pid) (w : cstr) : res pid :=
  match best_package R (s_name w) [] [] (s_pin w) (candidates R dq w) with
  | None => Err            (* "nothing provides" / maybedqerror *)
  | Some i => Ok i
  end.

(* first entry with the strictly smallest number of candidates; "" = not yet chosen *)
Fixpoint next_package (R : resolver) (dq : list pid) (cs : list cstr) (next : cstr) (least : nat) : res cstr :=
  match cs with
  | [] => Ok next
  | w :: t =>
      match List.length (candidates R dq w) with
      | O => Err
      | n => if String.eqb (s_raw next) "" then next_package R dq t w n
             else if Nat.ltb n least then next_package R dq t w n
             else next_package R dq t next least
      end
  end.

(* ---- GetPackageWithDependencies --------------------------------------------------------- *)
Definition dedup_by_name (R : resolver) (deps : list pid) : list pid * list (string * pid) :=
  fold_left (fun acc j =>
    let '(l, added) := acc in
    let n := k_name (getp R j) in
    if ahas n added then acc else (l ++ [j], added ++ [(n, j)])) deps ([], []).

Definition iif_matches (R : resolver) (added : list (string * pid)) (sub : cstr) : bool :=
  ahas (s_raw sub) added ||
  match alookup (s_name sub) added with
  | Some j => String.eqb (k_version (getp R j)) (s_version sub)
  | None => false
  end.

(* body of the loop for one visited entry dependencies[i] = j, with the `added`
   map as it is then: the packages it appends (in the order of the install_if
   list of the key) and the `added` map afterwards *)
Definition iif_visit (R : resolver) (j : pid) (added : list (string * pid)) : list pid * list (string * pid) :=
  let kj := getp R j in
  let lst := match alookup (k_name kj) (r_iif R) with
             | Some l => Some l
             | None => alookup (k_name kj ++ "=" ++ k_version kj) (r_iif R)
             end in
  match lst with
  | None => ([], added)
  | Some l =>
      fold_left (fun st q =>
        let '(news, added) := st in
        let kq := getp R q in
        if forallb (iif_matches R added) (k_iifs kq) && negb (ahas (k_name kq) added)
        then (news ++ [q], added ++ [(k_name kq, q)]) else st) l ([], added)
  end.

(* `for i := 0; i < len(dependencies); i++`: the list is read by index and grows
   during the loop; the appended entries are visited too.  Every appended
   package has a name that is not yet a key of `added`, so the loop ends after
   at most (distinct package names + 1) visits; [fuel] counts visits. *)
Fixpoint iif_loop (fuel : nat) (R : resolver) (i : nat) (deps : list pid) (added : list (string * pid)) : res (list pid) :=
  match nth_error deps i with
  | None => Ok deps
  | Some j =>
      match fuel with
      | O => OutOfFuel
      | S f => let '(news, added') := iif_visit R j added in
               iif_loop f R (S i) (deps ++ news) added'
      end
  end.

Definition initial_origins (R : resolver) (existing : list (string * pid)) : list string :=
  fold_left (fun os e =>
    let o := p_origin (k_pkg (getp R (snd e))) in
    if String.eqb o "" || mem_str o os then os else o :: os) existing [].

(* everything before the install_if loop: shared state after, the package,
   de-duplicated dependencies, the `added` map *)
Definition get_pkg_core (R : resolver) (w : cstr) (dq : list pid) (sel : list (string * pid))
    (existing : list (string * pid)) : res (list pid * list (string * pid) * pid * list pid * list (string * pid)) :=
  do i <- resolve_package R dq w;
  let st := {| st_dq := dq; st_selected := sel; st_existing := existing; st_origins := initial_origins R existing |} in
  do r <- get_deps (fuel_bound R) R i (s_pin w) [] st;
  let '(st', deps) := r in
  let '(l, added) := dedup_by_name R deps in
  Ok (st_dq st', st_selected st', i, l, added).

Definition get_pkg (R : resolver) (w : cstr) (dq : list pid) (sel : list (string * pid))
    (existing : list (string * pid)) : res (list pid * list (string * pid) * pid * list pid) :=
  do r <- get_pkg_core R w dq sel existing;
  let '(dq', sel', i, l, added) := r in
  do deps <- iif_loop (fuel_bound R) R 0 l added;
  Ok (dq', sel', i, deps).

(* ---- GetPackagesWithDependencies ---------------------------------------------------------- *)
(* first loop: fix the requested packages, most constrained first *)
Fixpoint phase1 (n : nat) (R : resolver) (cs : list cstr) (dq : list pid) (depmap : list (string * pid))
  : res (list pid * list (string * pid)) :=
  match cs with
  | [] => Ok (dq, depmap)
  | _ =>
    match n with
    | O => OutOfFuel
    | S n' =>
      do next <- next_package R dq cs (cook_str "") 0;
      do i <- resolve_package R dq next;
      let depmap' := aset (k_name (getp R i)) i depmap in
      let cs' := List.filter (fun w => negb (String.eqb (s_raw w) (s_raw next))) cs in
      do dq' <- disqualify_conflicts R i dq;
      phase1 n' R cs' dq' depmap'
    end
  end.

Definition track (R : resolver) (j : pid) (st : list pid * list string * list (string * pid))
  : list pid * list string * list (string * pid) :=
  let '(to_install, tracked, depmap) := st in
  let n := k_name (getp R j) in
  let '(to_install, tracked) := if mem_str n tracked then (to_install, tracked) else (to_install ++ [j], n :: tracked) in
  (to_install, tracked, if ahas n depmap then depmap else aset n j depmap).

(* second loop: one get_pkg per requested package, in the order given *)
Fixpoint phase2 (R : resolver) (ws : list cstr) (dq : list pid)
    (sel : list (string * pid)) (acc : list pid * list string * list (string * pid)) : res (list pid) :=
  match ws with
  | [] => Ok (fst (fst acc))
  | w :: ws' =>
      do r <- get_pkg R w dq sel (snd acc);
      let '(dq', sel', i, deps) := r in
      phase2 R ws' dq' sel' (track R i (fold_left (fun a j => track R j a) deps acc))
  end.

(* [dq0]: what globalDisqualifyCache.Get returned (a fresh copy), restricted
   to this resolver's packages *)
Definition resolve_with (R : resolver) (world : list string) (dq0 : list pid) : res (list pid) :=
  let cw := List.map cook_dep world in
  let ws := List.map d_pos cw in
  do dq1 <- constrain R cw dq0;
  do r <- phase1 (List.length ws) R ws dq1 [];
  let '(dq2, depmap) := r in
  phase2 R ws dq2 [] ([], [], depmap).

Definition resolve (U : universe) (world : list string) (dq0 : list pid) : res (list pid) :=
  resolve_with (new_resolver U) world dq0.

(* the observable compared with Go: ordered (name, version) list, or an error *)
Definition observe (R : resolver) (r : res (list pid)) : res (list (string * string)) :=
  match r with
  | Ok l => Ok (List.map (fun i => (k_name (getp R i), k_version (getp R i))) l)
  | Err => Err | Panic => Panic | OutOfFuel => OutOfFuel
  end.

(* ---- disqualifyDifference --------------------------------------------------------------------- *)
Definition available_in (V : universe) (p : pkg) : bool :=
  existsb (fun q => String.eqb (p_name q) (p_name p) && String.eqb (p_version q) (p_version p)) V.

(* the packages of U whose (name, version) some universe of [others] lacks *)
Definition dq_of_arch (others : list universe) (U : universe) : list pid :=
  List.map fst (List.filter (fun ip => existsb (fun V => negb (available_in V (snd ip))) others) (number_from 0 U)).

(* byArch: architecture -> universe (distinct keys).  One architecture: nothing
   to compare.  (Zero architectures: the loops do nothing.) *)
Definition disqualify_difference (by_arch : list (string * universe)) : list (string * pid) :=
  if Nat.eqb (List.length by_arch) 1 then []
  else flat_map (fun au =>
         let others := List.map snd (List.filter (fun bv => negb (String.eqb (fst bv) (fst au))) by_arch) in
         List.map (fun i => (fst au, i)) (dq_of_arch others (snd au))) by_arch.

Definition dq_for (by_arch : list (string * universe)) (arch : string) : list pid :=
  List.map snd (List.filter (fun ai => String.eqb (fst ai) arch) (disqualify_difference by_arch)).
