(* C11 — executable model of pkg/sbom/generator/spdx/spdx.go: stringToIdentifier,
   Generate (imagePackage / layerPackage / addSourcePackage / apkPackage, the
   numbering of an id that is taken by another package (fix 7c2586e; whether and
   how the source does it is read by goextract: Generated.C11Prov.apk_id_policy),
   ProcessInternalApkSBOM, copySBOMElements, replacePackage, the final
   de-duplication) and GenerateIndex.  Documents are projected to
   (packages, relationships, describes); a package to (id, name, version,
   checksums).  No proofs here. *)
From Coq Require Import DecimalString DecimalN.
From Apko Require Import Base.Prelude Base.Regex Base.C11Lib Generated.Regexes Generated.C11Prov.
Open Scope string_scope. Open Scope list_scope.
Notation "a +++ b" := (String.append a b) (right associativity, at level 60).

(* ---- stringToIdentifier --------------------------------------------------
   Go: strings.ReplaceAll(in, ":", "-"), then validIDCharsRe.ReplaceAllStringFunc
   with a callback that renders every BYTE of the matched run as C<decimal>.
   validIDCharsRe is `class+` (pinned by c11_regex_shape), so its matches are the
   maximal runs of class bytes and the callback is per byte: the function is a
   byte-wise map.  [bad_byte] asks the regex goextract read from spdx.go. *)
Definition bad_byte (c : N) : bool := matches valid_id_chars_re [c].

Definition digit (n : N) : ascii := ascii_of_N (48 + n).
(* %d of a byte value (< 1000) *)
Definition dec_byte (c : N) : string :=
  if (c <? 10)%N then String (digit c) ""
  else if (c <? 100)%N then String (digit (c / 10)) (String (digit (c mod 10)) "")
  else String (digit (c / 100)) (String (digit ((c / 10) mod 10)) (String (digit (c mod 10)) "")).

Definition enc (a : ascii) : string :=
  let c := N_of_ascii a in
  if (c =? 58)%N then "-"
  else if bad_byte c then String "C" (dec_byte c)
  else String a "".

Fixpoint string_to_identifier (s : string) : string :=
  match s with
  | EmptyString => EmptyString
  | String a t => enc a +++ string_to_identifier t
  end.
Notation sti := string_to_identifier.

(* ---- small string helpers -------------------------------------------------- *)
Definition trim_prefix (p s : string) : string :=
  if String.prefix p s then substring (String.length p) (String.length s - String.length p) s else s.

(* strings.Cut(s, sep) for a one-byte separator *)
Fixpoint cut_at (sep : ascii) (s : string) : option (string * string) :=
  match s with
  | EmptyString => None
  | String a t =>
      if Ascii.eqb a sep then Some ("", t)
      else match cut_at sep t with
           | Some (x, y) => Some (String a x, y)
           | None => None
           end
  end.

Definition hex_digit (n : N) : ascii :=
  if (n <? 10)%N then ascii_of_N (48 + n) else ascii_of_N (87 + n).
(* fmt.Sprintf("%x", []byte) *)
Fixpoint hex_of_bytes (l : list N) : string :=
  match l with
  | [] => ""
  | c :: t => String (hex_digit (c / 16)) (String (hex_digit (c mod 16)) (hex_of_bytes t))
  end.

Definition is_digit (a : ascii) : bool :=
  let c := N_of_ascii a in ((48 <=? c) && (c <=? 57))%N.
Fixpoint drop_digits (l : list ascii) : list ascii :=
  match l with
  | a :: t => if is_digit a then drop_digits t else l
  | [] => []
  end.
(* regexp `-r\d+$` replaced by "" (locateApkSBOM) *)
Definition strip_release (v : string) : string :=
  let r := rev (list_ascii_of_string v) in
  let r' := drop_digits r in
  if (List.length r' <? List.length r)%nat then
    match r' with
    | "r"%char :: "-"%char :: t => string_of_list_ascii (rev t)
    | _ => v
    end
  else v.

Definition mem (x : string) (l : list string) : bool := existsb (String.eqb x) l.
Definition add (x : string) (l : list string) : list string := if mem x l then l else l ++ [x].
Fixpoint dedup (l : list string) : list string :=
  match l with
  | [] => []
  | x :: t => if mem x t then dedup t else x :: dedup t
  end.

(* ---- documents ------------------------------------------------------------- *)
Record pkg := { p_id : string; p_name : string; p_version : string; p_sums : list (string * string) }.
Record rel := { r_elem : string; r_type : string; r_related : string }.
Record doc := { d_pkgs : list pkg; d_rels : list rel; d_desc : list string }.

Definition ids (d : doc) : list string := List.map p_id (d_pkgs d).

(* v1.Hash as (algorithm, hex); hashToString returns "" for the zero value *)
Definition hash := (string * string)%type.
Definition hash_string (h : hash) : string := fst h +++ ":" +++ snd h.
Definition hash_to_string (h : hash) : string :=
  if String.eqb (fst h) "" && String.eqb (snd h) "" then "" else hash_string h.

Record apk := { a_name : string; a_version : string; a_sum : list N }.

(* what the image filesystem holds at <apkSBOMdir>/<key> *)
Inductive fsent := FDoc (d : doc) | FBad | FDir.

Record gen_in := {
  g_image : string;                 (* opts.ImageInfo.ImageDigest *)
  g_layers : list hash;             (* opts.ImageInfo.Layers[i].Digest *)
  g_osver : string;                 (* opts.OS.Version *)
  g_vcs : string;                   (* opts.ImageInfo.VCSUrl *)
  g_apks : list apk;                (* opts.Packages, in order *)
  g_fs : list (string * fsent)      (* files under /var/lib/db/sbom *)
}.

Definition pfx := "SPDXRef-Package-".
Definition file_pfx := "SPDXRef-File-".

Definition image_package (img : string) : pkg :=
  {| p_id := sti (pfx +++ img); p_name := img; p_version := img;
     p_sums := [("SHA256", trim_prefix "sha256:" img)] |}.

Definition layer_package (osver : string) (h : hash) : pkg :=
  let n := hash_to_string h in
  {| p_id := pfx +++ sti n; p_name := n; p_version := osver; p_sums := [] |}.

Definition apk_package (nonce : string) (a : apk) : pkg :=
  {| p_id := sti (pfx +++ nonce +++ "-" +++ a_name a +++ "-" +++ a_version a);
     p_name := a_name a; p_version := a_version a;
     p_sums := [("SHA1", hex_of_bytes (a_sum a))] |}.

(* addSourcePackage, called with vcsURL <> "" *)
Definition source_package (vcs : string) : pkg :=
  let '(nm, ver, sums) :=
    match cut_at "@"%char vcs with
    | Some (u, c) => (u, c, [("SHA1", c)])
    | None => (vcs, "", [])
    end in
  let nm := trim_prefix "https://" (trim_prefix "git://" (trim_prefix "git+ssh://" nm)) in
  {| p_id := pfx +++ sti vcs; p_name := nm; p_version := ver; p_sums := sums |}.

Definition add_source (vcs : string) (parent : string) (d : doc) : doc :=
  let sp := source_package vcs in
  {| d_pkgs := d_pkgs d ++ [sp];
     d_rels := d_rels d ++ [{| r_elem := parent; r_type := "GENERATED_FROM"; r_related := p_id sp |}];
     d_desc := d_desc d |}.

(* ---- replacePackage --------------------------------------------------------- *)
Fixpoint replace_first (o n : string) (l : list string) : list string :=
  match l with
  | [] => []
  | x :: t => if String.eqb x o then n :: t else x :: replace_first o n t
  end.
Definition subst_id (o n x : string) : string := if String.eqb x o then n else x.

Definition replace_package (d : doc) (o n : string) : doc :=
  let kept := filter (fun p => negb (String.eqb (p_id p) o)) (d_pkgs d) in
  {| d_pkgs := match kept with [] => d_pkgs d | _ => kept end;   (* "if replaced" *)
     d_rels := List.map (fun r => {| r_elem := subst_id o n (r_elem r); r_type := r_type r;
                                     r_related := subst_id o n (r_related r) |}) (d_rels d);
     d_desc := replace_first o n (d_desc d) |}.

(* ---- copySBOMElements ------------------------------------------------------- *)
(* one sweep over the source relationships; additions are visible at once *)
Definition sweep (rels : list rel) (todo : list string) : list string :=
  fold_left (fun td r =>
    if String.prefix file_pfx (r_related r) then td
    else if mem (r_elem r) td then add (r_related r) td else td) rels todo.

(* for prev, next := 0, len(todo); next != prev; prev, next = next, len(todo) { sweep } *)
Fixpoint closure (fuel : nat) (rels : list rel) (prev : nat) (todo : list string) : res (list string) :=
  if Nat.eqb (List.length todo) prev then Ok todo
  else match fuel with
       | O => OutOfFuel
       | S f => closure f rels (List.length todo) (sweep rels todo)
       end.

Definition closure_fuel (rels : list rel) : nat := S (List.length rels).

Definition copy_elements (src tgt : doc) (todo0 : list string) : res doc :=
  do todo <- closure (closure_fuel (d_rels src)) (d_rels src) 0 todo0;
  let ps := filter (fun p => mem (p_id p) todo) (d_pkgs src) in
  let rs := filter (fun r => mem (r_elem r) todo && negb (String.prefix file_pfx (r_related r))) (d_rels src) in
  if forallb (fun x => mem x (List.map p_id ps)) todo
  then Ok {| d_pkgs := d_pkgs tgt ++ ps; d_rels := d_rels tgt ++ rs; d_desc := d_desc tgt |}
  else Err.      (* "unable to find N elements in source document" *)

(* ---- ProcessInternalApkSBOM -------------------------------------------------- *)
Definition candidates (name version : string) : list string :=
  [ name +++ "-" +++ version +++ ".spdx.json";
    name +++ "-" +++ strip_release version +++ ".spdx.json";
    name +++ ".spdx.json" ].

Fixpoint lookup (k : string) (fs : list (string * fsent)) : option fsent :=
  match fs with
  | [] => None
  | (k', e) :: t => if String.eqb k k' then Some e else lookup k t
  end.

(* locateApkSBOM: first candidate that exists *)
Fixpoint locate (fs : list (string * fsent)) (cands : list string) : option fsent :=
  match cands with
  | [] => None
  | c :: t => match lookup c fs with Some e => Some e | None => locate fs t end
  end.

(* ids of the described packages of the embedded document that carry the apk's
   name, in package order, once each (targetElementIDs, a Go map) *)
Definition targets (pname : string) (e : doc) : list string :=
  dedup (List.map p_id
    (filter (fun q => String.eqb pname (p_name q) && mem (p_id q) (d_desc e)) (d_pkgs e))).

(* the first package carrying the apk's name that is not the imported element
   itself (fix 494ce81: replacing an element by itself deleted it) *)
Definition replace_step (pname : string) (d : doc) (id : string) : doc :=
  match find (fun q => String.eqb (p_name q) pname && negb (String.eqb (p_id q) id)) (d_pkgs d) with
  | Some q => replace_package d (p_id q) id
  | None => d
  end.

(* [perm] is the order in which Go ranges over the targetElementIDs map *)
Definition process_internal (perm : list string -> list string) (fs : list (string * fsent))
    (d : doc) (pname pversion : string) : res doc :=
  match locate fs (candidates pname pversion) with
  | None => Ok d
  | Some FDir => Err                      (* "directory found at SBOM path" *)
  | Some FBad => Ok d                     (* parse errors are ignored *)
  | Some (FDoc e) =>
      let tg := targets pname e in
      do d1 <- copy_elements e d tg;
      Ok (fold_left (replace_step pname) (perm tg) d1)
  end.

(* ---- Generate ------------------------------------------------------------------ *)
Fixpoint dedup_pkgs (seen : list string) (ps : list pkg) : list pkg :=
  match ps with
  | [] => []
  | p :: t => if mem (p_id p) seen then dedup_pkgs seen t else p :: dedup_pkgs (p_id p :: seen) t
  end.

(* ---- the id of an apk element that is already taken (fix 7c2586e) ----------------------
   for base, n := p.ID, <first>; idTakenByAnother(doc, &p); n++ { p.ID = fmt.Sprintf("%s-%d", base, n) } *)
(* fmt.Sprintf("%d", n) for n >= 0 *)
Definition dec (n : N) : string := NilEmpty.string_of_uint (N.to_uint n).
Definition numbered (base : string) (n : N) : string := base +++ "-" +++ dec n.

(* idTakenByAnother: a package with this id and another name or version *)
Definition taken (ps : list pkg) (name version c : string) : bool :=
  existsb (fun q => String.eqb (p_id q) c && negb (String.eqb (p_name q) name && String.eqb (p_version q) version)) ps.

(* the loop after its first test: try base-n, base-(n+1), ... *)
Fixpoint pick_from (fuel : nat) (ps : list pkg) (name version base : string) (n : N) : res string :=
  match fuel with
  | O => OutOfFuel
  | S f => let c := numbered base n in
           if taken ps name version c then pick_from f ps name version base (n + 1) else Ok c
  end.
(* among |ps|+1 numbered candidates one is free (pick_id_ok in Proofs/SbomRepairProofs.v) *)
Definition pick_id_from (first : N) (ps : list pkg) (name version base : string) : res string :=
  if taken ps name version base then pick_from (S (List.length ps)) ps name version base first else Ok base.
Definition pick_id := pick_id_from 2.

Definition mint_id (pol : id_policy) (ps : list pkg) (name version base : string) : res string :=
  match pol with
  | IdNumbered first => pick_id_from first ps name version base
  | IdAsIs => Ok base
  | IdOther _ => Ok base
  end.

Definition with_id (p : pkg) (i : string) : pkg :=
  {| p_id := i; p_name := p_name p; p_version := p_version p; p_sums := p_sums p |}.

Fixpoint process_apks (perm : list string -> list string) (fs : list (string * fsent))
    (nonce : string) (apks : list apk) (d : doc) : res doc :=
  match apks with
  | [] => Ok d
  | a :: t =>
      let p0 := apk_package nonce a in
      do i <- mint_id apk_id_policy (d_pkgs d) (a_name a) (a_version a) (p_id p0);
      let d1 := {| d_pkgs := d_pkgs d ++ [with_id p0 i]; d_rels := d_rels d; d_desc := d_desc d |} in
      do d2 <- process_internal perm fs d1 (a_name a) (a_version a);
      process_apks perm fs nonce t d2
  end.

(* the apk loop BEFORE fix 7c2586e (ids as minted; kept as a proof device, for the
   conservativity statement and for the regression replay of C11-F1) *)
Fixpoint process_apks_u (perm : list string -> list string) (fs : list (string * fsent))
    (nonce : string) (apks : list apk) (d : doc) : res doc :=
  match apks with
  | [] => Ok d
  | a :: t =>
      let p := apk_package nonce a in
      let d1 := {| d_pkgs := d_pkgs d ++ [p]; d_rels := d_rels d; d_desc := d_desc d |} in
      do d2 <- process_internal perm fs d1 (a_name a) (a_version a);
      process_apks_u perm fs nonce t d2
  end.

(* the document before the apk loop *)
Definition base_doc (g : gen_in) : doc :=
  let lps := List.map (layer_package (g_osver g)) (g_layers g) in
  if String.eqb (g_image g) "" then
    {| d_pkgs := lps; d_rels := [];
       d_desc := match rev lps with l :: _ => [p_id l] | [] => [] end |}
  else
    let ip := image_package (g_image g) in
    let d0 := {| d_pkgs := ip :: lps;
                 d_rels := List.map (fun l => {| r_elem := p_id ip; r_type := "CONTAINS"; r_related := p_id l |}) lps;
                 d_desc := [p_id ip] |} in
    if String.eqb (g_vcs g) "" then d0 else add_source (g_vcs g) (p_id ip) d0.

Definition nonce_of (g : gen_in) : string :=
  if String.eqb (g_image g) "" then "thismakestestspass" else p_id (image_package (g_image g)).

Definition generate (perm : list string -> list string) (g : gen_in) : res doc :=
  match g_layers g with
  | [] => Panic            (* opts.ImageInfo.Layers[0] *)
  | _ =>
      do d <- process_apks perm (g_fs g) (nonce_of g) (g_apks g) (base_doc g);
      Ok {| d_pkgs := dedup_pkgs [] (d_pkgs d); d_rels := d_rels d; d_desc := d_desc d |}
  end.

(* Generate before fix 7c2586e *)
Definition generate_u (perm : list string -> list string) (g : gen_in) : res doc :=
  match g_layers g with
  | [] => Panic
  | _ =>
      do d <- process_apks_u perm (g_fs g) (nonce_of g) (g_apks g) (base_doc g);
      Ok {| d_pkgs := dedup_pkgs [] (d_pkgs d); d_rels := d_rels d; d_desc := d_desc d |}
  end.

(* ---- GenerateIndex --------------------------------------------------------------- *)
Record idx_in := { x_index : hash; x_images : list hash; x_vcs : string }.

Definition index_package (h : hash) : pkg :=
  {| p_id := pfx +++ sti (hash_string h); p_name := hash_string h; p_version := hash_string h;
     p_sums := [("SHA256", snd h)] |}.
Definition arch_image_package (h : hash) : pkg :=
  {| p_id := pfx +++ sti (hash_string h); p_name := "sha256:" +++ snd h; p_version := "sha256:" +++ snd h;
     p_sums := [("SHA256", snd h)] |}.

Definition generate_index (x : idx_in) : res doc :=
  match x_images x with
  | [] => Err
  | _ =>
      let ip := index_package (x_index x) in
      let ims := List.map arch_image_package (x_images x) in
      let d0 := {| d_pkgs := ip :: ims;
                   d_rels := List.map (fun i => {| r_elem := sti (p_id ip); r_type := "VARIANT_OF"; r_related := p_id i |}) ims;
                   d_desc := [p_id ip] |} in
      Ok (if String.eqb (x_vcs x) "" then d0 else add_source (x_vcs x) (p_id ip) d0)
  end.
