(* C11 — executable model of the licensing side of pkg/sbom/generator/spdx/spdx.go:
   mergeLicensingInfos and its use in ProcessInternalApkSBOM / Generate.  The
   document model of Model/Sbom.v is left as it is; the extracted licensing
   infos (hasExtractedLicensingInfos: licenseId, extractedText) of the embedded
   documents are a second map with the same keys as g_fs, and the merged list is
   computed next to the document.  No proofs here. *)
From Apko Require Import Base.Prelude Model.Sbom.
Open Scope string_scope. Open Scope list_scope.

Record linfo := { l_id : string; l_text : string }.
Definition lic_ids (l : list linfo) : list string := List.map l_id l.

(* the inner loop: the FIRST target info carrying the id *)
Fixpoint find_lic (id : string) (tgt : list linfo) : option linfo :=
  match tgt with
  | [] => None
  | t :: r => if String.eqb (l_id t) id then Some t else find_lic id r
  end.

(* mergeLicensingInfos(sourceDoc, targetDoc): for every source info, in order:
   the first target info with that id must have the same text (else error),
   no such info: append it (later source infos see the appended one) *)
Fixpoint merge_licensing (src tgt : list linfo) : res (list linfo) :=
  match src with
  | [] => Ok tgt
  | s :: r =>
      match find_lic (l_id s) tgt with
      | Some t => if String.eqb (l_text t) (l_text s) then merge_licensing r tgt else Err
      | None => merge_licensing r (tgt ++ [s])
      end
  end.

(* locateApkSBOM as the NAME of the first candidate that exists *)
Fixpoint locate_key (fs : list (string * fsent)) (cands : list string) : option string :=
  match cands with
  | [] => None
  | c :: t => match lookup c fs with Some _ => Some c | None => locate_key fs t end
  end.

(* the file whose document ProcessInternalApkSBOM uses for this apk (it exists,
   is no directory and parses) *)
Definition used_key (fs : list (string * fsent)) (a : apk) : option string :=
  match locate_key fs (candidates (a_name a) (a_version a)) with
  | Some k => match lookup k fs with Some (FDoc _) => Some k | _ => None end
  | None => None
  end.

Fixpoint lookup_lics (k : string) (lfs : list (string * list linfo)) : list linfo :=
  match lfs with
  | [] => []
  | (k', l) :: t => if String.eqb k k' then l else lookup_lics k t
  end.

Definition used_lics (fs : list (string * fsent)) (lfs : list (string * list linfo)) (a : apk) : list linfo :=
  match used_key fs a with Some k => lookup_lics k lfs | None => [] end.

(* the licensing side of the apk loop of Generate *)
Fixpoint process_lics (fs : list (string * fsent)) (lfs : list (string * list linfo))
    (apks : list apk) (acc : list linfo) : res (list linfo) :=
  match apks with
  | [] => Ok acc
  | a :: t => do acc' <- merge_licensing (used_lics fs lfs a) acc; process_lics fs lfs t acc'
  end.

(* Generate with the licensing infos: the document of Model/Sbom.v and the merged
   list.  An error of mergeLicensingInfos makes Generate fail like an error of
   copySBOMElements does (the observable is "an error"); the panic on an empty
   layer list comes before everything else. *)
Definition generate_full (perm : list string -> list string) (g : gen_in)
    (lfs : list (string * list linfo)) : res (doc * list linfo) :=
  match generate perm g with
  | Ok d =>
      match process_lics (g_fs g) lfs (g_apks g) [] with
      | Ok l => Ok (d, l)
      | _ => Err
      end
  | Err => Err
  | Panic => Panic
  | OutOfFuel => OutOfFuel
  end.
