(* C11 — executable model of pkg/build/sbom.go: what GenerateImageSBOM and
   GenerateIndexSBOM hand to the SPDX generator, given what was built.  The
   assignments are not transcribed by hand: Generated/C11Prov.v says, for every
   input of the generator, where the source takes it from today (goextract traces
   the right-hand sides), and this file interprets those answers over a record of
   the built artifacts.  No proofs here. *)
From Apko Require Import Base.Prelude Base.C01Lib Base.C11Lib Model.Sbom Model.SbomLic Generated.C11Prov.
Open Scope string_scope. Open Scope list_scope.

(* one paragraph of the image's installed database: name, version, checksum, and
   the A: field (the image's architecture, "noarch", or another architecture) *)
Record inst := { i_apk : apk; i_arch : string }.

(* what one architecture's build produced *)
Record built := {
  b_layers : list hash;              (* img.Manifest().Layers[k].Digest, in manifest order *)
  b_digest : hash;                   (* img.Digest() *)
  b_installed : list inst;           (* bc.apk.GetInstalled(), in database order *)
  b_version_id : string;             (* VERSION_ID of /etc/os-release ("unknown" without the file) *)
  b_vcs : string;                    (* the image configuration's vcs-url *)
  b_fs : list (string * fsent)       (* /var/lib/db/sbom of the build filesystem *)
}.

Definition sel_layers (p : prov) (b : built) : option (list hash) :=
  match p with PManifestLayers => Some (b_layers b) | _ => None end.
Definition sel_packages (p : prov) (b : built) : option (list apk) :=
  match p with PInstalled => Some (List.map i_apk (b_installed b)) | _ => None end.
Definition sel_string (p : prov) (b : built) : option string :=
  match p with
  | PImageDigestString => Some (hash_string (b_digest b))
  | PReleaseVersionID => Some (b_version_id b)
  | PConfigVCSUrl => Some (b_vcs b)
  | _ => None
  end.
Definition sel_fs (p : prov) (b : built) : option (list (string * fsent)) :=
  match p with PBuildFS => Some (b_fs b) | _ => None end.

(* the options GenerateImageSBOM passes to Generate; None = the source does
   something this model has no reading for *)
Definition image_sbom_input (b : built) : option gen_in :=
  match sel_string image_sbom_image_digest b, sel_layers image_sbom_layers b,
        sel_string image_sbom_os_version b, sel_string image_sbom_vcs_url b,
        sel_packages image_sbom_packages b, sel_fs image_sbom_fs b with
  | Some img, Some ls, Some osv, Some vcs, Some apks, Some fs =>
      Some {| g_image := img; g_layers := ls; g_osver := osv; g_vcs := vcs; g_apks := apks; g_fs := fs |}
  | _, _, _, _, _, _ => None
  end.

(* sbom-<arch>.spdx.json *)
Definition image_sbom (perm : list string -> list string) (b : built) : res doc :=
  match image_sbom_input b with
  | Some g => generate perm g
  | None => Err
  end.

(* ... with the extracted licensing infos of the embedded documents (Model/SbomLic.v) *)
Definition image_sbom_full (perm : list string -> list string) (b : built) (lfs : list (string * list linfo)) : res (doc * list linfo) :=
  match image_sbom_input b with
  | Some g => generate_full perm g lfs
  | None => Err
  end.

(* ---- the index ---------------------------------------------------------------- *)
(* the images map of GenerateIndexSBOM: architecture (its String()) to image digest;
   a Go map, so the keys are pairwise distinct and the range order is arbitrary *)
Record built_index := {
  bi_digest : hash;                       (* the digest of the index that was written *)
  bi_images : list (string * hash);
  bi_vcs : string
}.

Definition arch_leb (a b : string * hash) : bool := sleb (fst a) (fst b).
Definition sort_images (o : sort_order) (l : list (string * hash)) : list (string * hash) :=
  match o with
  | SortByArchStringAsc => isort arch_leb l
  | SortByArchStringDesc => isort (fun a b => arch_leb b a) l
  | SortOther _ => l
  end.

(* [ord] is the order in which Go ranges over the images map *)
Definition index_sbom_input (ord : list (string * hash) -> list (string * hash)) (bi : built_index) : option idx_in :=
  match index_sbom_index_digest, index_sbom_archs, index_sbom_image_digest, index_sbom_skips_none, index_sbom_vcs_url with
  | PIndexDigest, PAllMapKeys, PArchImageDigest, true, PConfigVCSUrl =>
      Some {| x_index := bi_digest bi;
              x_images := List.map snd (sort_images index_sbom_order (ord (bi_images bi)));
              x_vcs := bi_vcs bi |}
  | _, _, _, _, _ => None
  end.

(* sbom-index.spdx.json *)
Definition index_sbom (ord : list (string * hash) -> list (string * hash)) (bi : built_index) : res doc :=
  match index_sbom_input ord bi with
  | Some x => generate_index x
  | None => Err
  end.
