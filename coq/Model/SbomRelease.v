(* C11 — executable model of pkg/build/sbom.go:readReleaseData, the parser of
   /etc/os-release whose VERSION_ID becomes the version of every layer element and
   whose NAME becomes the supplier: bufio.Scanner lines (split at n, one trailing
   r dropped, no empty last line), empty lines and lines starting with # skipped,
   strings.Cut at the first '=', a line without '=' is an error, the value is
   strings.Trim(after, '''), a later assignment of a key replaces an earlier one.
   No proofs here. *)
From Apko Require Import Base.Prelude Base.C11Lib Generated.C11Prov Model.Sbom.
Open Scope string_scope. Open Scope list_scope.

Definition ch_nl : ascii := ascii_of_N 10.
Definition ch_cr : ascii := ascii_of_N 13.
(* the path, the three keys and the three defaults are GENERATED (Generated/C11Prov.v: goextract reads them,
   by shape, from the function whose result GenerateImageSBOM assigns to opts.OS; pinned by
   c11_os_release_literals_read_from_source); comment prefix, separator and cutset are written here and
   compared by the correspondence *)
Definition ch_quote : ascii := ascii_of_N 34.
Definition ch_eq : ascii := ascii_of_N 61.

(* strings.Split(s, sep) for a one-byte separator: at least one segment *)
Fixpoint split_on (sep : ascii) (s : string) : list string :=
  match s with
  | EmptyString => [EmptyString]
  | String a t =>
      if Ascii.eqb a sep then EmptyString :: split_on sep t
      else match split_on sep t with
           | h :: r => String a h :: r
           | [] => [String a EmptyString]
           end
  end.

(* dropCR of bufio.ScanLines *)
Fixpoint drop_cr (s : string) : string :=
  match s with
  | EmptyString => EmptyString
  | String a t =>
      match t with
      | EmptyString => if Ascii.eqb a ch_cr then EmptyString else s
      | _ => String a (drop_cr t)
      end
  end.

Definition is_empty (s : string) : bool := match s with EmptyString => true | _ => false end.

(* the tokens bufio.Scanner yields with the default split function (lines shorter than
   bufio.MaxScanTokenSize): the segments between newlines, no token for nothing after the
   last newline *)
Definition scan_lines (s : string) : list string :=
  let segs := split_on ch_nl s in
  let segs' := match rev segs with
               | l :: r => if is_empty l then rev r else segs
               | [] => segs
               end in
  List.map drop_cr segs'.

Fixpoint drop_quotes (l : list ascii) : list ascii :=
  match l with
  | a :: t => if Ascii.eqb a ch_quote then drop_quotes t else l
  | [] => []
  end.
(* strings.Trim(s, ''') *)
Definition trim_quotes (s : string) : string :=
  string_of_list_ascii (rev (drop_quotes (rev (drop_quotes (list_ascii_of_string s))))).

Definition skipped (l : string) : bool := is_empty l || String.prefix "#" l.

Fixpoint parse_lines (ls : list string) (kv : list (string * string)) : res (list (string * string)) :=
  match ls with
  | [] => Ok kv
  | l :: t =>
      if skipped l then parse_lines t kv
      else match cut_at ch_eq l with
           | None => Err                                  (* 'invalid os-release line' *)
           | Some (k, after) => parse_lines t ((k, trim_quotes after) :: kv)   (* kv[before] = ... *)
           end
  end.

Fixpoint get (k : string) (kv : list (string * string)) : string :=
  match kv with
  | [] => ""
  | (k', v) :: t => if String.eqb k' k then v else get k t
  end.

Record release := { rd_id : string; rd_name : string; rd_version : string }.

(* [f] = the content of /etc/os-release, None when the file does not exist *)
Definition read_release (f : option string) : res release :=
  match f with
  | None => Ok {| rd_id := os_release_default_id; rd_name := os_release_default_name; rd_version := os_release_default_version |}
  | Some s =>
      do kv <- parse_lines (scan_lines s) [];
      Ok {| rd_id := get os_release_key_id kv; rd_name := get os_release_key_name kv; rd_version := get os_release_key_version kv |}
  end.

(* what GenerateImageSBOM puts into opts.OS.Version (a build whose os-release does not parse fails) *)
Definition release_version_of (f : option string) : string :=
  match read_release f with Ok r => rd_version r | _ => "" end.
