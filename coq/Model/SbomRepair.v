(* C11 — executable model of spdx.go with two repairs as switches:
   [f1] = /verif/fixes/C11-F1.patch, IN /repo since 7c2586e (Model.Sbom.generate is
   generate_r true false: model_is_numbered in Proofs/SbomNumbered.v);
   [f3] = /verif/fixes/C11-F3.patch, a proposal, NOT in /repo:
   [f1] Generate numbers the id of an apk element whose id is already taken by a
        package with another name or version
        (for base, n := p.ID, 2; idTakenByAnother(doc, &p); n++ { p.ID = base-n }),
   [f3] the replace loop of ProcessInternalApkSBOM never picks one of the imported
        target elements as the element to replace.
   generate_r false false is Model.Sbom.generate_u, the code before 7c2586e (repair_off in
   Proofs/SbomRepairProofs.v).  dec / numbered / taken / pick_id / with_id live in Model/Sbom.v.
   No proofs here. *)
From Coq Require Import DecimalString DecimalN.
From Apko Require Import Base.Prelude Base.Regex Generated.Regexes Model.Sbom.
Open Scope string_scope. Open Scope list_scope.

(* one iteration of the replace loop; [tg] = the keys of targetElementIDs *)
Definition replace_step_r (f3 : bool) (pname : string) (tg : list string) (d : doc) (id : string) : doc :=
  match find (fun q => String.eqb (p_name q) pname &&
                       negb (if f3 then mem (p_id q) tg else String.eqb (p_id q) id)) (d_pkgs d) with
  | Some q => replace_package d (p_id q) id
  | None => d
  end.

Definition process_internal_r (f3 : bool) (perm : list string -> list string) (fs : list (string * fsent))
    (d : doc) (pname pversion : string) : res doc :=
  match locate fs (candidates pname pversion) with
  | None => Ok d
  | Some FDir => Err
  | Some FBad => Ok d
  | Some (FDoc e) =>
      let tg := targets pname e in
      do d1 <- copy_elements e d tg;
      Ok (fold_left (replace_step_r f3 pname tg) (perm tg) d1)
  end.

Fixpoint process_apks_r (f1 f3 : bool) (perm : list string -> list string) (fs : list (string * fsent))
    (nonce : string) (apks : list apk) (d : doc) : res doc :=
  match apks with
  | [] => Ok d
  | a :: t =>
      let p0 := apk_package nonce a in
      do i <- (if f1 then pick_id (d_pkgs d) (a_name a) (a_version a) (p_id p0) else Ok (p_id p0));
      let d1 := {| d_pkgs := d_pkgs d ++ [with_id p0 i]; d_rels := d_rels d; d_desc := d_desc d |} in
      do d2 <- process_internal_r f3 perm fs d1 (a_name a) (a_version a);
      process_apks_r f1 f3 perm fs nonce t d2
  end.

Definition generate_r (f1 f3 : bool) (perm : list string -> list string) (g : gen_in) : res doc :=
  match g_layers g with
  | [] => Panic
  | _ =>
      do d <- process_apks_r f1 f3 perm (g_fs g) (nonce_of g) (g_apks g) (base_doc g);
      Ok {| d_pkgs := dedup_pkgs [] (d_pkgs d); d_rels := d_rels d; d_desc := d_desc d |}
  end.
