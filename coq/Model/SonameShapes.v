(* C03 — the so: rescaling of ResolvePackageNameVersionPin in its two shapes.
   [so_rewrite_run] is the readable hand form of TODAY's code (since fix C03-F2, commit 0f275a6: "0." goes behind the whole
   run of operator characters); Proofs/SonameProofs.v proves Model.Version.so_rewrite - which interprets the shape goextract
   read from the source - equal to it.
   [so_rewrite_old] / [resolve_constraint_old] are the HYPOTHETICAL old shape (strings.Cut at the first "=", as the code was
   before the fix): kept so that the defect stays stated (Properties/C03.v, the c03_soname_old_shape theorems) and so that a revert of the
   fix lands on a model that exists.  No proofs here. *)
From Apko Require Import Base.Prelude Base.Regex Model.Version
  Generated.Regexes Generated.VersionConsts Generated.C03Version.
Open Scope string_scope. Open Scope list_scope. Open Scope Z_scope.

(* i := strings.IndexAny(pkgName, "=><~"); j := end of the run of such characters starting at i;
   if !endsWithReleaseStr.MatchString(pkgName[j:]) { pkgName = pkgName[:j] + "0." + pkgName[j:] } *)
Definition so_rewrite_run (s : list N) : list N :=
  match strip_prefix (bytes_of_string "so:") s with
  | None => s
  | Some _ =>
      let (name, r1) := span (fun c => negb (is_opchar c)) s in
      let (ops, v) := span is_opchar r1 in
      match ops with
      | [] => s
      | _ => if search_suffix ends_with_release_re v then s
             else name ++ ops ++ bytes_of_string "0." ++ v
      end
  end.

(* before the fix: onlyPkgName, pkgVersion, found := strings.Cut(pkgName, "=");
   if found && !endsWithReleaseStr.MatchString(pkgVersion) { pkgName = onlyPkgName + "=0." + pkgVersion } *)
Definition so_rewrite_old : list N -> list N := so_rewrite_with (SoCutAt "=" "=0.").

(* ResolvePackageNameVersionPin with the rewrite step as a parameter (resolve_constraint = resolve_with so_rewrite) *)
Definition resolve_with (rw : list N -> list N) (s0 : string) : constraint :=
  let s := rw (bytes_of_string s0) in
  let str := string_of_bytes s in
  if full_match package_name_regex str then
    let '(name, ops, v, pin) := split_constraint s in
    {| c_name := string_of_bytes name; c_version := string_of_bytes v;
       c_dep := match ops with [] => dep_versionAny | _ => dep_of_matcher (string_of_bytes ops) end;
       c_pin := string_of_bytes pin |}
  else {| c_name := str; c_version := ""; c_dep := dep_versionAny; c_pin := "" |}.

Definition resolve_constraint_old : string -> constraint := resolve_with so_rewrite_old.
