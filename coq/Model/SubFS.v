(* C17 — executable model of the sub-filesystem view (pkg/apk/fs/sub.go, SubFS;
   what memFS.Sub / tarfs memFS.Sub / apkfs.Sub return): every method joins its
   name to the root with filepath.Join(s.Root, name) and calls the parent (since
   fix 44061d3 Symlink and Link too: Symlink joins the new name and keeps the
   target as given, Link joins both names).  Files returned by OpenFile / Create are the parent's files, so the
   handle operations go through unchanged.  No proofs in this file.

   The root is a non-empty string (Sub returns the parent itself for "."), kept
   split like every path; filepath.Join(root, name) = Clean(root + "/" + name)
   (an empty name adds nothing: the cleaning drops the trailing slash).

   Not modelled: the constructors (memFS.Sub stats the directory, apkfs.Sub tests
   fs.ValidPath), Open / OpenReaderAt (fs.ValidPath + Join; not in the operation
   alphabet), SubFS.Sub. *)
From Apko Require Export Model.MemFS.
Open Scope string_scope. Open Scope list_scope.

Definition sjoin (root p : path) : path := go_clean (rooted root) (root ++ p).

Definition sub_op (root : path) (o : op) : op :=
  let j := sjoin root in
  match o with
  | Mkdir p m => Mkdir (j p) m | MkdirAll p m => MkdirAll (j p) m
  | OpenFile p fl m => OpenFile (j p) fl m | Create p => Create (j p)
  | ReadFile p => ReadFile (j p) | WriteFile p b m => WriteFile (j p) b m
  | ReadDir p => ReadDir (j p) | Stat p => Stat (j p) | Lstat p => Lstat (j p)
  | Symlink t p => Symlink t (j p)                  (* the target is kept as given *)
  | Link old new => Link (j old) (j new)
  | Readlink p => Readlink (j p) | Remove p => Remove (j p)
  | Chmod p m => Chmod (j p) m | Chown p u g => Chown (j p) u g | Chtimes p t => Chtimes (j p) t
  | Mknod p m dv => Mknod (j p) m dv | Readnod p => Readnod (j p)
  | SetXattr p a v => SetXattr (j p) a v | GetXattr p a => GetXattr (j p) a
  | RemoveXattr p a => RemoveXattr (j p) a | ListXattrs p => ListXattrs (j p)
  | Read _ _ | ReadAt _ _ _ | Write _ _ | Seek _ _ _ | Close _ => o
  end.

Definition sub_step (b : backend) (root : path) (s : st) (o : op) : st * out := model_step b s (sub_op root o).

(* a run in which some operations go through the sub-filesystem ([true]) and the
   others to the parent directly *)
Definition mixed_step (b : backend) (root : path) (s : st) (via : bool) (o : op) : st * out :=
  if via then sub_step b root s o else model_step b s o.

(* ---- what the view stands for: the operation at root/name --------------------------------------
   [keepc]: the components filepath.Clean keeps when there is no ".." *)
Definition keepc (c : string) : bool := negb (String.eqb c "" || String.eqb c ".").
Definition no_dotdot (p : path) : bool := forallb (fun c => negb (String.eqb c "..")) p.

(* the names of an operation that SubFS joins to its root (a link's target is not one) *)
Definition sub_paths (o : op) : list path :=
  match o with
  | Mkdir p _ | MkdirAll p _ | OpenFile p _ _ | Create p | ReadFile p | WriteFile p _ _ | ReadDir p | Stat p | Lstat p
  | Symlink _ p | Readlink p | Remove p | Chmod p _ | Chown p _ _ | Chtimes p _ | Mknod p _ _ | Readnod p
  | SetXattr p _ _ | GetXattr p _ | RemoveXattr p _ | ListXattrs p => [p]
  | Link old new => [old; new]
  | Read _ _ | ReadAt _ _ _ | Write _ _ | Seek _ _ _ | Close _ => []
  end.

(* the operation at root/name *)
Definition at_root (root : path) (o : op) : op :=
  let j := fun p => root ++ filter keepc p in
  match o with
  | Mkdir p m => Mkdir (j p) m | MkdirAll p m => MkdirAll (j p) m
  | OpenFile p fl m => OpenFile (j p) fl m | Create p => Create (j p)
  | ReadFile p => ReadFile (j p) | WriteFile p b m => WriteFile (j p) b m
  | ReadDir p => ReadDir (j p) | Stat p => Stat (j p) | Lstat p => Lstat (j p)
  | Symlink t p => Symlink t (j p)
  | Link old new => Link (j old) (j new)
  | Readlink p => Readlink (j p) | Remove p => Remove (j p)
  | Chmod p m => Chmod (j p) m | Chown p u g => Chown (j p) u g | Chtimes p t => Chtimes (j p) t
  | Mknod p m dv => Mknod (j p) m dv | Readnod p => Readnod (j p)
  | SetXattr p a v => SetXattr (j p) a v | GetXattr p a => GetXattr (j p) a
  | RemoveXattr p a => RemoveXattr (j p) a | ListXattrs p => ListXattrs (j p)
  | Read _ _ | ReadAt _ _ _ | Write _ _ | Seek _ _ _ | Close _ => o
  end.

