(* C06 / C10 — abstract tar entries, filesystem trees, the walk that
   pkg/build/tarball.go:walkFS performs over a tarfs / memfs tree, and a
   reference extractor.  Executable model only; no proofs in this file.

   What is transcribed (pkg/build/tarball.go, pkg/tarfs/fs.go, pkg/apk/fs/memfs.go):
   - fs.WalkDir(fsys, ".") : depth first, a directory before its contents,
     ReadDir sorts the children bytewise by name ([sort_by_name]); "." is skipped;
   - tar.FileInfoHeader(info, link) + the overrides walkFS applies: Name = full
     path, ModTime, Uname/Gname from the LAST passwd/group entry with that id
     (a Go map filled in file order), Devmajor/Devminor for character devices,
     Typeflag = TypeSymlink whenever Readlink returned a non-empty target,
     xattrs copied only when the type is TypeReg or TypeDir;
   - the tarfs side channel memFileInfo.Sys(): a path is emitted as TypeLink
     (size 0, Linkname from the recorded header) only if the node's
     [hardlinks] table has an entry for that path, i.e. the link arrived with a
     tar header; any other additional name of an inode is an ordinary file. *)
From Apko Require Import Base.Prelude.
Open Scope string_scope. Open Scope list_scope.

Definition path := list string.          (* components, root = [] *)

Inductive kind := KDir | KReg | KSym | KChr | KLink.

(* mode: permission bits plus 0o4000 setuid / 0o2000 setgid / 0o1000 sticky;
   mtime: seconds since the Unix epoch and nanoseconds; xattrs sorted by key *)
Record meta := { m_mode : N; m_uid : Z; m_gid : Z; m_mtime : Z; m_mnsec : N;
                 m_xattrs : list (string * string) }.

Inductive leaf :=
| LReg (cid size : N)          (* content: opaque id (hash prefix) and length *)
| LSym (target : string)
| LChr (maj min : N).

(* [hard = Some q]: this name is an additional hard link to the inode first
   known as q (the node is shared in Go; here its fields are a copy) *)
Inductive tree :=
| Dir (m : meta) (cs : list (string * tree))
| File (m : meta) (l : leaf) (hard : option path).
Definition forest := list (string * tree).   (* children of the root; order = Go map order *)

Record entry := {
  e_path : path; e_kind : kind; e_mode : N; e_uid : Z; e_gid : Z;
  e_uname : option string; e_gname : option string; e_link : string;
  e_devmaj : N; e_devmin : N; e_xattrs : list (string * string);
  e_mtime : Z; e_mnsec : N; e_cid : N; e_size : N }.

(* ---- small utilities -------------------------------------------------- *)
Definition path_eqb (a b : path) : bool := list_eqb String.eqb a b.

Fixpoint join_slash (p : path) : string :=
  match p with
  | [] => ""
  | [x] => x
  | x :: r => x ++ "/" ++ join_slash r
  end.

(* split at '/', dropping empty components *)
Fixpoint split_slash_aux (s : string) (cur : string) : list string :=
  match s with
  | EmptyString => if String.eqb cur "" then [] else [cur]
  | String c r =>
      if Ascii.eqb c "/"%char
      then (if String.eqb cur "" then [] else [cur]) ++ split_slash_aux r ""
      else split_slash_aux r (cur ++ String c EmptyString)
  end.
Definition split_slash (s : string) : path := split_slash_aux s "".

(* bytewise order of names, as Go's < on strings *)
Definition name_leb (a b : string) : bool :=
  match String.compare a b with Gt => false | _ => true end.

Fixpoint insert_by_name {A} (x : string * A) (l : list (string * A)) : list (string * A) :=
  match l with
  | [] => [x]
  | y :: r => if name_leb (fst x) (fst y) then x :: l else y :: insert_by_name x r
  end.
Fixpoint sort_by_name {A} (l : list (string * A)) : list (string * A) :=
  match l with [] => [] | x :: r => insert_by_name x (sort_by_name r) end.

Fixpoint find_name {A} (x : string) (l : list (string * A)) : option A :=
  match l with
  | [] => None
  | (y, v) :: r => if String.eqb x y then Some v else find_name x r
  end.
Fixpoint replace_name {A} (x : string) (v : A) (l : list (string * A)) : list (string * A) :=
  match l with
  | [] => []
  | (y, w) :: r => if String.eqb x y then (y, v) :: r else (y, w) :: replace_name x v r
  end.

(* users[int(u.UID)] = u.UserName in file order: the last entry wins *)
Fixpoint lookup_last (tbl : list (Z * string)) (id : Z) : option string :=
  match tbl with
  | [] => None
  | (i, n) :: r =>
      match lookup_last r id with
      | Some x => Some x
      | None => if Z.eqb i id then Some n else None
      end
  end.

(* ---- the walk ----------------------------------------------------------- *)
Record env := { users : list (Z * string); groups : list (Z * string);
                has_hdr : path -> bool  (* tarfs: node.hardlinks has this path *) }.

Definition mk_entry (ev : env) (p : path) (k : kind) (m : meta) (lnk : string)
    (maj mi : N) (xa : list (string * string)) (cid sz : N) : entry :=
  {| e_path := p; e_kind := k; e_mode := m_mode m; e_uid := m_uid m; e_gid := m_gid m;
     e_uname := lookup_last (users ev) (m_uid m); e_gname := lookup_last (groups ev) (m_gid m);
     e_link := lnk; e_devmaj := maj; e_devmin := mi; e_xattrs := xa;
     e_mtime := m_mtime m; e_mnsec := m_mnsec m; e_cid := cid; e_size := sz |}.

Definition dir_entry (ev : env) (p : path) (m : meta) : entry :=
  mk_entry ev p KDir m "" 0 0 (m_xattrs m) 0 0.

Definition file_entry (ev : env) (p : path) (m : meta) (l : leaf) (hard : option path) : entry :=
  let linked := match hard with Some q => if has_hdr ev p then Some q else None | None => None end in
  match linked, l with
  | None, LReg cid sz => mk_entry ev p KReg m "" 0 0 (m_xattrs m) cid sz
  | None, LSym tgt => mk_entry ev p KSym m tgt 0 0 [] 0 0
  | None, LChr maj mi => mk_entry ev p KChr m "" maj mi [] 0 0
  (* recorded hard link: FileInfoHeader turns the header into TypeLink, size 0,
     Linkname = recorded name; walkFS then re-types it as a symlink when the
     node is a symlink with a non-empty target, and still reads device numbers *)
  | Some q, LReg _ _ => mk_entry ev p KLink m (join_slash q) 0 0 [] 0 0
  | Some q, LSym tgt =>
      mk_entry ev p (if String.eqb tgt "" then KLink else KSym) m (join_slash q) 0 0 [] 0 0
  | Some q, LChr maj mi => mk_entry ev p KLink m (join_slash q) maj mi [] 0 0
  end.

Fixpoint walk_tree (ev : env) (p : path) (t : tree) {struct t} : list entry :=
  match t with
  | File m l h => [file_entry ev p m l h]
  | Dir m cs =>
      dir_entry ev p m ::
      List.concat (map snd (sort_by_name
        (map (fun nc : string * tree => let (n, c) := nc in (n, walk_tree ev (p ++ [n]) c)) cs)))
  end.

Definition walk_forest (ev : env) (p : path) (f : forest) : list entry :=
  List.concat (map snd (sort_by_name
    (map (fun nc : string * tree => let (n, c) := nc in (n, walk_tree ev (p ++ [n]) c)) f))).

Definition walk (ev : env) (f : forest) : list entry := walk_forest ev [] f.

(* children in the order ReadDir yields them, recursively *)
Fixpoint canon (t : tree) : tree :=
  match t with
  | File m l h => File m l h
  | Dir m cs =>
      Dir m (sort_by_name (map (fun nc : string * tree => let (n, c) := nc in (n, canon c)) cs))
  end.
Definition canon_forest (f : forest) : forest :=
  sort_by_name (map (fun nc : string * tree => let (n, c) := nc in (n, canon c)) f).

(* ---- the reference extractor ------------------------------------------- *)
Fixpoint lookup (f : forest) (p : path) : option tree :=
  match p with
  | [] => None
  | [x] => find_name x f
  | x :: r => match find_name x f with Some (Dir _ cs) => lookup cs r | _ => None end
  end.

Definition meta_of (e : entry) : meta :=
  {| m_mode := e_mode e; m_uid := e_uid e; m_gid := e_gid e; m_mtime := e_mtime e;
     m_mnsec := e_mnsec e; m_xattrs := e_xattrs e |}.

(* the node an entry creates; a hard link shares the inode of a file that must
   already exist (its own header fields are ignored, as extractors do) *)
Definition payload_of (root : forest) (e : entry) : res tree :=
  match e_kind e with
  | KDir => Ok (Dir (meta_of e) [])
  | KReg => Ok (File (meta_of e) (LReg (e_cid e) (e_size e)) None)
  | KSym => Ok (File (meta_of e) (LSym (e_link e)) None)
  | KChr => Ok (File (meta_of e) (LChr (e_devmaj e) (e_devmin e)) None)
  | KLink =>
      match lookup root (split_slash (e_link e)) with
      | Some (File m l _) => Ok (File m l (Some (split_slash (e_link e))))
      | _ => Err
      end
  end.

(* place node [n] at path [p]: the parent must exist and be a directory; an
   existing directory hit by a directory entry keeps its children and takes the
   new metadata (layer application); any other collision is an error *)
Fixpoint insert (p : path) (n : tree) (f : forest) : res forest :=
  match p with
  | [] => Err
  | x :: r =>
      match r with
      | [] =>
          match find_name x f with
          | None => Ok (f ++ [(x, n)])
          | Some (Dir _ cs) =>
              match n with
              | Dir m' _ => Ok (replace_name x (Dir m' cs) f)
              | _ => Err
              end
          | Some _ => Err
          end
      | _ =>
          match find_name x f with
          | Some (Dir m cs) =>
              do cs' <- insert r n cs; Ok (replace_name x (Dir m cs') f)
          | _ => Err
          end
      end
  end.

Definition extract_step (acc : res forest) (e : entry) : res forest :=
  do f <- acc; do n <- payload_of f e; insert (e_path e) n f.
Definition extract_from (f : forest) (es : list entry) : res forest :=
  fold_left extract_step es (Ok f).
Definition extract (es : list entry) : res forest := extract_from [] es.

(* ---- what archive/tar does to the entries walkFS hands it ------------------
   tar.Writer with Format unset rounds ModTime to the nearest second (half away
   from zero) before encoding. Everything else is carried unchanged. *)
Definition round_mtime (sec : Z) (nsec : N) : Z :=
  if (500000000 <=? nsec)%N then (sec + 1)%Z else sec.
Definition tar_written (e : entry) : entry :=
  {| e_path := e_path e; e_kind := e_kind e; e_mode := e_mode e; e_uid := e_uid e; e_gid := e_gid e;
     e_uname := e_uname e; e_gname := e_gname e; e_link := e_link e;
     e_devmaj := e_devmaj e; e_devmin := e_devmin e; e_xattrs := e_xattrs e;
     e_mtime := round_mtime (e_mtime e) (e_mnsec e); e_mnsec := 0; e_cid := e_cid e; e_size := e_size e |}.

(* ---- the tee structure of newLayerWriter ----------------------------------
   tar bytes go to sha256 (diff-id) and to gzip; gzip's output goes to sha256
   (digest) and to the file; Size is the file's length. *)
Section Digest.
  Variable bytes : Type.
  Variable gz : bytes -> bytes.
  Variable sha : bytes -> string.
  Variable blen : bytes -> N.
  Record layer_desc := { l_file : bytes; l_digest : string; l_diffid : string; l_size : N }.
  Definition layer_writer (tarbytes : bytes) : layer_desc :=
    let z := gz tarbytes in
    {| l_file := z; l_digest := sha z; l_diffid := sha tarbytes; l_size := blen z |}.
End Digest.
