(* C06 — byte-level model of the tar stream of a layer: what archive/tar's
   Writer (Go 1.23) emits for the headers pkg/build/tarball.go:walkFS/writeTar
   hand it, and what archive/tar's Reader makes of such a stream.
   Executable model only; proofs are in Proofs/TarBytes*.v.

   Transcribed (archive/tar: writer.go, reader.go, common.go, strconv.go,
   format.go; path.Clean/Join/Split):
   - Writer.WriteHeader: TypeRegA promotion, ModTime rounding when
     Header.Format is unset, Header.allowedFormats (which of USTAR / PAX / GNU can
     carry the header, and the PAX records needed), the choice USTAR, else PAX,
     else GNU; writeUSTARHeader (prefix/name split), writePAXHeader (the 'x'
     member "PaxHeaders.0", records "<len> key=value\n" sorted by key, then the
     main header with best-effort ASCII fields), writeGNUHeader (././@LongLink
     members, base-256 numbers); templateV7Plus; formatString (incl. the
     trailing-slash quirk), formatOctal, formatNumeric; block.setFormat (magic,
     checksum "dddddd\0 "); body, zero padding to 512, two zero blocks at Close;
   - Reader.Next: zero-block end detection (and the clean ends on 0 bytes, on one
     zero block, on a truncated padding), block.getFormat (checksum, unsigned or
     signed; magic), parseString / parseOctal / parseNumeric, the V7 / USTAR /
     PAX / GNU / STAR field layouts, 'x' / 'g' members (parsePAX, mergePAX),
     'L' / 'K' members, TypeRegA promotion, the body and its padding.
   Outside the model (the Writer cannot produce them): GNU sparse files — old
   format 'S' in a GNU header and PAX GNU.sparse.* records; the reader model
   answers [unmodelled_sparse] (= Err) on them. Header.Xattrs, AccessTime and
   ChangeTime are zero in every header walkFS builds (goextract checks that it
   assigns none of them); Header.Format of the headers read back is not observed.

   Bytes are [ascii]; numbers Z / N.  The second half of the file derives the
   members of a layer from the abstract entries of Model/Tar.v. *)
From Apko Require Import Base.Prelude Model.Tar Generated.C06Tar.
Open Scope list_scope.

Definition bytes := list ascii.
Definition bN (c : ascii) : N := N_of_ascii c.
Definition Nb (n : N) : ascii := ascii_of_N n.
Definition NUL : ascii := Ascii.zero.
Definition lit (s : string) : bytes := list_ascii_of_string s.
Definition zeros (n : nat) : bytes := repeat NUL n.
Definition beqb (a b : bytes) : bool := list_eqb Ascii.eqb a b.
Definition is_nil {A} (l : list A) : bool := match l with [] => true | _ => false end.

(* bytewise order of Go strings *)
Fixpoint bcmp (a b : bytes) : comparison :=
  match a, b with
  | [], [] => Eq
  | [], _ :: _ => Lt
  | _ :: _, [] => Gt
  | x :: a', y :: b' => match N.compare (bN x) (bN y) with Eq => bcmp a' b' | c => c end
  end.

Fixpoint set_nth {A} (n : nat) (x : A) (l : list A) : list A :=
  match l, n with
  | [], _ => []
  | _ :: r, O => x :: r
  | y :: r, S n' => y :: set_nth n' x r
  end.

Fixpoint drop_while (p : ascii -> bool) (l : bytes) : bytes :=
  match l with
  | [] => []
  | c :: r => if p c then drop_while p r else l
  end.
Definition trim_right (p : ascii -> bool) (l : bytes) : bytes := rev (drop_while p (rev l)).
Definition trim (p : ascii -> bool) (l : bytes) : bytes := trim_right p (drop_while p l).

Definition is_slash (c : ascii) : bool := Ascii.eqb c "/"%char.
Definition is_sp_nul (c : ascii) : bool := Ascii.eqb c " "%char || Ascii.eqb c NUL.

(* strings.Cut(s, sep) for a one-byte separator *)
Fixpoint cut (sep : ascii) (l : bytes) : option (bytes * bytes) :=
  match l with
  | [] => None
  | c :: r => if Ascii.eqb c sep then Some ([], r)
              else match cut sep r with Some (a, b) => Some (c :: a, b) | None => None end
  end.

Fixpoint has_prefix (p l : bytes) : bool :=
  match p, l with
  | [], _ => true
  | x :: p', y :: l' => Ascii.eqb x y && has_prefix p' l'
  | _ :: _, [] => false
  end.

(* ---- numbers as text ------------------------------------------------------ *)
Definition digit (d : N) : ascii := Nb (48 + d).
Definition digit_val (base : N) (c : ascii) : option N :=
  let n := bN c in if ((48 <=? n) && (n <? 48 + base))%N then Some (n - 48)%N else None.
Fixpoint digits_val (base : N) (l : bytes) (acc : N) : option N :=
  match l with
  | [] => Some acc
  | c :: r => match digit_val base c with
              | Some d => digits_val base r (acc * base + d)%N
              | None => None
              end
  end.
(* strconv.ParseUint(s, base, 64) without the range check: no sign, no
   underscores (the base is explicit), at least one digit *)
Definition parse_uint (base : N) (l : bytes) : option N :=
  match l with [] => None | _ => digits_val base l 0%N end.

(* strconv.ParseInt(s, 10, 64) *)
Definition parse_int (l : bytes) : option Z :=
  match l with
  | [] => None
  | c :: r =>
      let neg := Ascii.eqb c "-"%char in
      let ds := if neg || Ascii.eqb c "+"%char then r else l in
      match parse_uint 10 ds with
      | None => None
      | Some n =>
          if neg then (if (n <=? 9223372036854775808)%N then Some (- Z.of_N n)%Z else None)
          else (if (n <? 9223372036854775808)%N then Some (Z.of_N n) else None)
      end
  end.

(* strconv.FormatInt(n, 10): least significant digit first, fuel = an upper
   bound of the number of digits (TarBytesNum.digits_le_fuel) *)
Fixpoint digits_le (fuel : nat) (n : N) : list N :=
  match fuel with
  | O => []
  | S f => if (n <? 10)%N then [n] else (n mod 10)%N :: digits_le f (n / 10)%N
  end.
Definition dec_N (n : N) : bytes := map digit (rev (digits_le (S (N.to_nat (N.log2 n))) n)).
Definition dec_Z (z : Z) : bytes :=
  match z with Zneg p => "-"%char :: dec_N (Npos p) | _ => dec_N (Z.to_N z) end.

(* k digits, most significant first (value mod base^k) *)
Fixpoint fixed_digits (base : N) (k : nat) (n : N) : bytes :=
  match k with
  | O => []
  | S k' => fixed_digits base k' (n / base)%N ++ [digit (n mod base)%N]
  end.

(* ---- strconv.go of archive/tar --------------------------------------------- *)
Definition has_nul (s : bytes) : bool := existsb (Ascii.eqb NUL) s.
Definition ascii_char (c : ascii) : bool := let n := bN c in ((1 <=? n) && (n <? 128))%N.
Definition is_ascii (s : bytes) : bool := forallb ascii_char s.
Definition to_ascii (s : bytes) : bytes := filter ascii_char s.

(* parseString: up to the first NUL *)
Fixpoint parse_string (b : bytes) : bytes :=
  match b with
  | [] => []
  | c :: r => if Ascii.eqb c NUL then [] else c :: parse_string r
  end.

(* formatString into a zeroed field of w bytes (errors are the caller's: the
   string is cut to the field); a field whose last byte is '/' when the string
   was cut gets a NUL over the first of its trailing slashes *)
Definition fstr (w : nat) (s : bytes) : bytes :=
  let t := firstn w s in
  let b := t ++ zeros (w - List.length t) in
  if ((w <? List.length s)%nat && is_slash (last b NUL))%bool
  then set_nth (List.length (trim_right is_slash (firstn (w - 1) s))) NUL b
  else b.

Definition fits_octal (w : nat) (x : Z) : bool :=
  ((0 <=? x)%Z && ((22 <=? w)%nat || (x <? 8 ^ Z.of_nat (w - 1))%Z))%bool.
Definition fits_b256 (w : nat) (x : Z) : bool :=
  ((9 <=? w)%nat || ((- 2 ^ Z.of_nat (8 * (w - 1)) <=? x)%Z && (x <? 2 ^ Z.of_nat (8 * (w - 1)))%Z))%bool.

(* formatOctal: (field, no error) *)
Definition fmt_octal (w : nat) (x : Z) : bytes * bool :=
  let ok := fits_octal w x in
  let v := if ok then Z.to_N x else 0%N in
  (fstr w (fixed_digits 8 (w - 1) v), ok).

Fixpoint b256_fixed (k : nat) (x : Z) : bytes :=
  match k with
  | O => []
  | S k' => b256_fixed k' (x / 256)%Z ++ [Nb (Z.to_N (x mod 256)%Z)]
  end.
Definition set_high (l : bytes) : bytes :=
  match l with c :: r => Nb (N.lor (bN c) 128) :: r | [] => [] end.
(* formatNumeric *)
Definition fmt_numeric (w : nat) (x : Z) : bytes * bool :=
  if fits_octal w x then fmt_octal w x
  else if fits_b256 w x then (set_high (b256_fixed w x), true)
  else (fst (fmt_octal w 0%Z), false).

(* parseOctal: trim NULs and spaces, cut at a NUL, ParseUint(…, 8, 64), int64() *)
Definition wrap64 (n : N) : Z :=
  if (n <? 9223372036854775808)%N then Z.of_N n else (Z.of_N n - 18446744073709551616)%Z.
Definition parse_octal (b : bytes) : res Z :=
  match trim is_sp_nul b with
  | [] => Ok 0%Z
  | t => match parse_uint 8 (parse_string t) with
         | Some n => if (n <? 18446744073709551616)%N then Ok (wrap64 n) else Err
         | None => Err
         end
  end.

(* parseNumeric: base-256 when the first bit is set *)
Fixpoint b256_acc (inv : bool) (first : bool) (l : bytes) (x : N) : option N :=
  match l with
  | [] => Some x
  | c :: r =>
      let c1 := if inv then N.lxor (bN c) 255 else bN c in
      let c2 := if first then N.land c1 127 else c1 in
      if (0 <? N.shiftr x 56)%N then None
      else b256_acc inv false r (N.lor (N.shiftl x 8) c2)
  end.
Definition parse_numeric (b : bytes) : res Z :=
  match b with
  | c :: _ =>
      if N.testbit (bN c) 7 then
        let inv := N.testbit (bN c) 6 in
        match b256_acc inv true b 0%N with
        | None => Err
        | Some x => if (0 <? N.shiftr x 63)%N then Err
                    else Ok (if inv then (- Z.of_N x - 1)%Z else Z.of_N x)
        end
      else parse_octal b
  | [] => parse_octal b
  end.

(* ---- PAX records ------------------------------------------------------------- *)
Definition k_path := lit "path".
Definition k_linkpath := lit "linkpath".
Definition k_size := lit "size".
Definition k_uid := lit "uid".
Definition k_gid := lit "gid".
Definition k_uname := lit "uname".
Definition k_gname := lit "gname".
Definition k_mtime := lit "mtime".
Definition k_atime := lit "atime".
Definition k_ctime := lit "ctime".
Definition pax_schily_xattr := lit "SCHILY.xattr.".
Definition pax_gnu_sparse := lit "GNU.sparse.".
Definition basic_key (k : bytes) : bool :=
  existsb (beqb k) [k_path; k_linkpath; k_size; k_uid; k_gid; k_uname; k_gname; k_mtime; k_atime; k_ctime].

Definition valid_pax_record (k v : bytes) : bool :=
  if (is_nil k || existsb (Ascii.eqb "="%char) k)%bool then false
  else if existsb (beqb k) [k_path; k_linkpath; k_uname; k_gname] then negb (has_nul v)
  else negb (has_nul k).

(* formatPAXRecord: "<size> k=v\n", the size counting its own digits *)
Definition fmt_pax_record (k v : bytes) : bytes :=
  let base := (List.length k + List.length v + 3)%nat in
  let size1 := (base + List.length (dec_N (N.of_nat base)))%nat in
  let body := " "%char :: k ++ "="%char :: v ++ [Nb 10] in
  let rec1 := dec_N (N.of_nat size1) ++ body in
  if (List.length rec1 =? size1)%nat then rec1
  else dec_N (N.of_nat (List.length rec1)) ++ body.

(* parsePAXRecord *)
Definition parse_pax_record (s : bytes) : res (bytes * bytes * bytes) :=
  match cut " "%char s with
  | None => Err
  | Some (nstr, rest) =>
      match parse_int nstr with
      | None => Err
      | Some n =>
          if ((n <? 5)%Z || (Z.of_nat (List.length s) <? n)%Z)%bool then Err
          else
            let m := (n - Z.of_nat (List.length nstr + 1))%Z in
            if (m <=? 0)%Z then Err
            else
              let mm := Z.to_nat m in
              let rec := firstn (mm - 1) rest in
              let nl := firstn 1 (skipn (mm - 1) rest) in
              let rem := skipn mm rest in
              if negb (beqb nl [Nb 10]) then Err
              else match cut "="%char rec with
                   | None => Err
                   | Some (k, v) => if valid_pax_record k v then Ok (k, v, rem) else Err
                   end
      end
  end.

(* a Go map[string]string, kept as an association list sorted by key *)
Definition pmap := list (bytes * bytes).
Fixpoint pm_set (k v : bytes) (m : pmap) : pmap :=
  match m with
  | [] => [(k, v)]
  | (k', v') :: r =>
      match bcmp k k' with
      | Lt => (k, v) :: m
      | Eq => (k, v) :: r
      | Gt => (k', v') :: pm_set k v r
      end
  end.
Fixpoint pm_get (k : bytes) (m : pmap) : option bytes :=
  match m with
  | [] => None
  | (k', v') :: r => if beqb k k' then Some v' else pm_get k r
  end.
Definition pm_of_list (l : list (bytes * bytes)) : pmap :=
  fold_left (fun m kv => pm_set (fst kv) (snd kv) m) l [].

(* the time stamps of PAX records: formatPAXTime / parsePAXTime *)
Definition fmt_pax_time (sec : Z) (nsec : N) : bytes :=
  if (nsec =? 0)%N then dec_Z sec
  else
    let neg := (sec <? 0)%Z in
    let s := if neg then (- (sec + 1))%Z else sec in
    let ns := if neg then (1000000000 - nsec)%N else nsec in
    trim_right (Ascii.eqb "0"%char)
      ((if neg then ["-"%char] else []) ++ dec_Z s ++ "."%char :: fixed_digits 10 9 ns).

Definition parse_pax_time (s : bytes) : res (Z * N) :=
  let '(ss, sn) := match cut "."%char s with Some (a, b) => (a, b) | None => (s, []) end in
  match parse_int ss with
  | None => Err
  | Some secs =>
      match sn with
      | [] => Ok (secs, 0%N)
      | _ =>
          if negb (forallb (fun c => match digit_val 10 c with Some _ => true | None => false end) sn) then Err
          else
            let sn9 := firstn 9 (sn ++ repeat "0"%char 9) in
            let ns := match digits_val 10 sn9 0%N with Some n => n | None => 0%N end in
            if (match ss with c :: _ => Ascii.eqb c "-"%char | [] => false end && (0 <? ns)%N)%bool
            then Ok ((secs - 1)%Z, (1000000000 - ns)%N)
            else Ok (secs, ns)
      end
  end.

(* parsePAX: the records of an extended header, later ones win *)
Fixpoint parse_pax (fuel : nat) (s : bytes) (m : pmap) : res pmap :=
  match s with
  | [] => Ok m
  | _ =>
      match fuel with
      | O => OutOfFuel
      | S f =>
          do kvr <- parse_pax_record s;
          let '(k, v, r) := kvr in
          if (beqb k (lit "GNU.sparse.offset") || beqb k (lit "GNU.sparse.numbytes"))%bool then Err (* unmodelled_sparse *)
          else parse_pax f r (pm_set k v m)
      end
  end.

(* ---- headers ------------------------------------------------------------------ *)
(* tar.Header as walkFS fills it.  h_mtime/h_mnsec: ModTime.Unix() and
   ModTime.Nanosecond(); Go's zero time.Time is (zero_time_sec, 0). *)
Record thdr := {
  h_type : ascii; h_name : bytes; h_link : bytes;
  h_mode : Z; h_uid : Z; h_gid : Z; h_size : Z;
  h_mtime : Z; h_mnsec : N;
  h_uname : bytes; h_gname : bytes;
  h_devmaj : Z; h_devmin : Z;
  h_pax : list (bytes * bytes)      (* Header.PAXRecords *)
}.
Definition member := (thdr * bytes)%type.

Definition zero_time_sec : Z := (-62135596800)%Z.
Definition is_zero_time (sec : Z) (nsec : N) : bool := ((sec =? zero_time_sec)%Z && (nsec =? 0)%N)%bool.

Definition T_REG : ascii := "0"%char.
Definition T_LINK : ascii := "1"%char.
Definition T_SYM : ascii := "2"%char.
Definition T_CHR : ascii := "3"%char.
Definition T_BLK : ascii := "4"%char.
Definition T_DIR : ascii := "5"%char.
Definition T_FIFO : ascii := "6"%char.
Definition T_XHDR : ascii := "x"%char.
Definition T_XGLOBAL : ascii := "g"%char.
Definition T_SPARSE : ascii := "S"%char.
Definition T_LONGNAME : ascii := "L"%char.
Definition T_LONGLINK : ascii := "K"%char.

Definition header_only (t : ascii) : bool :=
  existsb (Ascii.eqb t) [T_LINK; T_SYM; T_CHR; T_BLK; T_DIR; T_FIFO].

Definition ends_with_slash (s : bytes) : bool := is_slash (last s NUL).

(* Time.Round(time.Second): half a second and more goes up *)
Definition round_sec (sec : Z) (nsec : N) : Z := if (500000000 <=? nsec)%N then (sec + 1)%Z else sec.

(* strings.LastIndex(l, "/") *)
Fixpoint last_index_aux (c : ascii) (l : bytes) (i : nat) (acc : option nat) : option nat :=
  match l with
  | [] => acc
  | x :: r => last_index_aux c r (S i) (if Ascii.eqb x c then Some i else acc)
  end.
Definition last_index (c : ascii) (l : bytes) : option nat := last_index_aux c l O None.

(* splitUSTARPath *)
Definition split_ustar (name : bytes) : option (bytes * bytes) :=
  let n := List.length name in
  if ((n <=? 100)%nat || negb (is_ascii name))%bool then None
  else
    let len := if (156 <? n)%nat then 156%nat
               else if is_slash (nth (n - 1) name NUL) then (n - 1)%nat else n in
    match last_index "/"%char (firstn len name) with
    | None => None
    | Some i =>
        let nlen := (n - i - 1)%nat in
        if ((i =? 0)%nat || (100 <? nlen)%nat || (nlen =? 0)%nat || (155 <? i)%nat)%bool then None
        else Some (firstn i name, skipn (S i) name)
    end.

(* Format bits *)
Definition F_USTAR : N := 2. Definition F_PAX : N := 4. Definition F_GNU : N := 8.

Record afst := { af_u : bool; af_p : bool; af_g : bool; af_pref : bool; af_pax : pmap }.

Definition user_match (user : pmap) (key val : bytes) (pax : pmap) : pmap :=
  match pm_get key user with
  | Some v => if beqb v val then pm_set key v pax else pax
  | None => pax
  end.

Definition vstr (user : pmap) (s : bytes) (size : nat) (key : bytes) (st : afst) : afst :=
  let too_long := (size <? List.length s)%nat in
  let allow_long_gnu := (beqb key k_path || beqb key k_linkpath)%bool in
  let needs := (negb (is_ascii s) || too_long)%bool in
  let can_split := (beqb key k_path && match split_ustar s with Some _ => true | None => false end)%bool in
  {| af_u := (af_u st && negb (needs && negb can_split))%bool;
     af_p := af_p st;
     af_g := (af_g st && negb (has_nul s || (too_long && negb allow_long_gnu)))%bool;
     af_pref := af_pref st;
     af_pax := user_match user key s (if needs then pm_set key s (af_pax st) else af_pax st) |}.

(* key = [] is paxNone *)
Definition vnum (user : pmap) (n : Z) (size : nat) (key : bytes) (st : afst) : afst :=
  let fo := fits_octal size n in
  {| af_u := (af_u st && fo)%bool;
     af_p := (af_p st && (fo || negb (is_nil key)))%bool;
     af_g := (af_g st && fits_b256 size n)%bool;
     af_pref := af_pref st;
     af_pax := user_match user key (dec_Z n)
                 (if (fo || is_nil key)%bool then af_pax st else pm_set key (dec_Z n) (af_pax st)) |}.

(* verifyTime for ModTime (12-byte field, key mtime) *)
Definition vmtime (user : pmap) (sec : Z) (nsec : N) (st : afst) : afst :=
  if is_zero_time sec nsec then st
  else
    let fo := fits_octal 12 sec in
    let pref := (negb fo || negb (nsec =? 0)%N)%bool in
    {| af_u := (af_u st && fo)%bool; af_p := af_p st; af_g := af_g st;
       af_pref := (af_pref st || pref)%bool;
       af_pax := user_match user k_mtime (fmt_pax_time sec nsec)
                   (if pref then pm_set k_mtime (fmt_pax_time sec nsec) (af_pax st) else af_pax st) |}.

Definition add_user_record (global : bool) (pax : pmap) (kv : bytes * bytes) : pmap :=
  let '(k, v) := kv in
  match pm_get k pax with
  | Some _ => pax
  | None => if (global || (negb (basic_key k) && negb (has_prefix pax_gnu_sparse k)))%bool
            then pm_set k v pax else pax
  end.

(* Header.allowedFormats; want = Header.Format (0 = unknown).  The header given
   has its ModTime already rounded by WriteHeader when want = 0. *)
Definition af_chain (user : pmap) (h : thdr) : afst :=
  vmtime user (h_mtime h) (h_mnsec h)
    (vnum user (h_devmin h) 8 []
      (vnum user (h_devmaj h) 8 []
        (vnum user (h_size h) 12 k_size
          (vnum user (h_gid h) 8 k_gid
            (vnum user (h_uid h) 8 k_uid
              (vnum user (h_mode h) 8 []
                (vstr user (h_gname h) 32 k_gname
                  (vstr user (h_uname h) 32 k_uname
                    (vstr user (h_link h) 100 k_linkpath
                      (vstr user (h_name h) 100 k_path
                        {| af_u := true; af_p := true; af_g := true; af_pref := false; af_pax := [] |})))))))))).

Definition allowed_formats (want : N) (h : thdr) : res afst :=
  let user := pm_of_list (h_pax h) in
  let s11 := af_chain user h in
  let t := h_type h in
  let global := Ascii.eqb t T_XGLOBAL in
  if (existsb (Ascii.eqb t) [T_REG; T_CHR; T_BLK; T_FIFO; T_SPARSE] && ends_with_slash (h_name h))%bool then Err
  else if existsb (Ascii.eqb t) [T_XHDR; T_LONGNAME; T_LONGLINK] then Err
  else if (global && negb (is_nil (h_link h) && (h_mode h =? 0)%Z && (h_uid h =? 0)%Z && (h_gid h =? 0)%Z && (h_size h =? 0)%Z
                            && is_zero_time (h_mtime h) (h_mnsec h) && is_nil (h_uname h) && is_nil (h_gname h)
                            && (h_devmaj h =? 0)%Z && (h_devmin h =? 0)%Z))%bool then Err
  else if (negb (header_only t) && (h_size h <? 0)%Z)%bool then Err
  else
    let only_pax := (global || negb (is_nil user))%bool in
    let pax := fold_left (add_user_record global) user (af_pax s11) in
    if negb (forallb (fun kv => valid_pax_record (fst kv) (snd kv)) pax) then Err
    else
      let u := (af_u s11 && negb only_pax)%bool in
      let p := af_p s11 in
      let g := (af_g s11 && negb only_pax)%bool in
      let '(u, p, g) :=
        if (want =? 0)%N then (u, p, g)
        else
          let w := if (N.testbit want 2 && negb (af_pref s11))%bool then N.lor want F_USTAR else want in
          ((u && N.testbit w 1)%bool, (p && N.testbit w 2)%bool, (g && N.testbit w 3)%bool) in
      if (u || p || g)%bool
      then Ok {| af_u := u; af_p := p; af_g := g; af_pref := af_pref s11; af_pax := pax |}
      else Err.

(* ---- blocks --------------------------------------------------------------------- *)
Definition magic_ustar : bytes := lit "ustar" ++ [NUL] ++ lit "00".
Definition magic_gnu : bytes := lit "ustar  " ++ [NUL].

Fixpoint bsum (l : bytes) : N := match l with [] => 0%N | c :: r => (bN c + bsum r)%N end.
Fixpoint bsum_signed (l : bytes) : Z :=
  match l with
  | [] => 0%Z
  | c :: r => ((if (bN c <? 128)%N then Z.of_N (bN c) else Z.of_N (bN c) - 256) + bsum_signed r)%Z
  end.

(* the block: fields before the checksum (148 bytes), fields after it (356
   bytes); the checksum is taken with its own field as spaces and written as six
   octal digits, NUL, space *)
Definition with_checksum (pre post : bytes) : bytes :=
  pre ++ (fixed_digits 8 6 (bsum pre + 256 + bsum post)%N ++ [NUL; " "%char]) ++ post.

Record fields := {
  f_name : bytes; f_mode : bytes; f_uid : bytes; f_gid : bytes; f_size : bytes; f_mtime : bytes;
  f_type : ascii; f_link : bytes; f_magic : bytes; f_uname : bytes; f_gname : bytes;
  f_devmaj : bytes; f_devmin : bytes; f_ext : bytes   (* the 167 bytes after devminor *)
}.
Definition block_of (f : fields) : bytes :=
  with_checksum (f_name f ++ f_mode f ++ f_uid f ++ f_gid f ++ f_size f ++ f_mtime f)
                (f_type f :: f_link f ++ f_magic f ++ f_uname f ++ f_gname f ++ f_devmaj f ++ f_devmin f ++ f_ext f).

Definition pad_len (n : nat) : nat := ((512 - n mod 512) mod 512)%nat.

(* templateV7Plus with the string and number formatters of the format; the
   flag says whether every formatter call succeeded *)
Definition template (h : thdr) (name : bytes) (fs : nat -> bytes -> bytes * bool) (fn : nat -> Z -> bytes * bool)
    (magic ext : bytes) : bytes * bool :=
  let mt := if is_zero_time (h_mtime h) (h_mnsec h) then 0%Z else h_mtime h in
  let '(nm, o1) := fs 100%nat name in
  let '(lk, o2) := fs 100%nat (h_link h) in
  let '(mo, o3) := fn 8%nat (h_mode h) in
  let '(ui, o4) := fn 8%nat (h_uid h) in
  let '(gi, o5) := fn 8%nat (h_gid h) in
  let '(sz, o6) := fn 12%nat (h_size h) in
  let '(mti, o7) := fn 12%nat mt in
  let '(un, o8) := fs 32%nat (h_uname h) in
  let '(gn, o9) := fs 32%nat (h_gname h) in
  let '(dj, o10) := fn 8%nat (h_devmaj h) in
  let '(dn, o11) := fn 8%nat (h_devmin h) in
  (block_of {| f_name := nm; f_mode := mo; f_uid := ui; f_gid := gi; f_size := sz; f_mtime := mti;
               f_type := h_type h; f_link := lk; f_magic := magic; f_uname := un; f_gname := gn;
               f_devmaj := dj; f_devmin := dn; f_ext := ext |},
   (o1 && o2 && o3 && o4 && o5 && o6 && o7 && o8 && o9 && o10 && o11)%bool).

Definition fs_plain (w : nat) (s : bytes) : bytes * bool := (fstr w s, (List.length s <=? w)%nat).
Definition fs_ascii (w : nat) (s : bytes) : bytes * bool := fs_plain w (to_ascii s).

(* writeRawFile: a minimal member holding [data] (with its padding) *)
Definition raw_file (name data : bytes) (flag : ascii) (magic : bytes) : res bytes :=
  let nm := trim_right is_slash (firstn 100 (to_ascii name)) in
  let '(sz, ok) := fmt_octal 12 (Z.of_nat (List.length data)) in
  if negb ok then Err
  else
    Ok (block_of {| f_name := fstr 100 nm; f_mode := fst (fmt_octal 8 0); f_uid := fst (fmt_octal 8 0);
                    f_gid := fst (fmt_octal 8 0); f_size := sz; f_mtime := fst (fmt_octal 12 0);
                    f_type := flag; f_link := zeros 100; f_magic := magic; f_uname := zeros 32; f_gname := zeros 32;
                    f_devmaj := zeros 8; f_devmin := zeros 8; f_ext := zeros 167 |}
        ++ data ++ zeros (pad_len (List.length data))).

(* path.Split, path.Join(dir, "PaxHeaders.0", file), path.Clean *)
Fixpoint split_on (sep : ascii) (l : bytes) (cur : bytes) : list bytes :=
  match l with
  | [] => [rev cur]
  | c :: r => if Ascii.eqb c sep then rev cur :: split_on sep r [] else split_on sep r (c :: cur)
  end.
Fixpoint join_with (sep : ascii) (ps : list bytes) : bytes :=
  match ps with
  | [] => []
  | [p] => p
  | p :: r => p ++ sep :: join_with sep r
  end.
Definition dotdot : bytes := lit "..".
(* the stack is kept reversed *)
Fixpoint clean_comps (rooted : bool) (cs : list bytes) (stack : list bytes) : list bytes :=
  match cs with
  | [] => rev stack
  | c :: r =>
      if (is_nil c || beqb c (lit "."))%bool then clean_comps rooted r stack
      else if beqb c dotdot then
        match stack with
        | top :: st' => if beqb top dotdot then clean_comps rooted r (c :: stack) else clean_comps rooted r st'
        | [] => if rooted then clean_comps rooted r stack else clean_comps rooted r [c]
        end
      else clean_comps rooted r (c :: stack)
  end.
Definition path_clean (p : bytes) : bytes :=
  match p with
  | [] => lit "."
  | c :: _ =>
      let rooted := is_slash c in
      let out := join_with "/"%char (clean_comps rooted (split_on "/"%char p []) []) in
      if rooted then "/"%char :: out else if is_nil out then lit "." else out
  end.
Definition pax_header_name (name : bytes) : bytes :=
  let '(dir, file) := match last_index "/"%char name with
                      | Some i => (firstn (S i) name, skipn (S i) name)
                      | None => ([], name)
                      end in
  path_clean ((if is_nil dir then [] else dir ++ ["/"%char]) ++ lit "PaxHeaders.0" ++ "/"%char :: file).

Definition pax_data (pax : pmap) : bytes := List.concat (map (fun kv => fmt_pax_record (fst kv) (snd kv)) pax).
(* maxSpecialFileSize = 1 MiB *)
Definition too_long_special (n : nat) : bool := (1048576 <? N.of_nat n)%N.

(* what WriteHeader writes, and the number of body bytes the writer then expects *)
Definition write_header (want : N) (h0 : thdr) : res (bytes * nat) :=
  let t0 := h_type h0 in
  let t := if Ascii.eqb t0 NUL then (if ends_with_slash (h_name h0) then T_DIR else T_REG) else t0 in
  let '(sec, nsec) := if (want =? 0)%N then (round_sec (h_mtime h0) (h_mnsec h0), 0%N) else (h_mtime h0, h_mnsec h0) in
  let h := {| h_type := t; h_name := h_name h0; h_link := h_link h0; h_mode := h_mode h0; h_uid := h_uid h0;
              h_gid := h_gid h0; h_size := h_size h0; h_mtime := sec; h_mnsec := nsec; h_uname := h_uname h0;
              h_gname := h_gname h0; h_devmaj := h_devmaj h0; h_devmin := h_devmin h0; h_pax := h_pax h0 |} in
  do a <- allowed_formats want h;
  let body := if header_only t then O else Z.to_nat (h_size h) in
  if af_u a then
    let '(prefix, name) := match split_ustar (h_name h) with Some (p, s) => (p, s) | None => ([], h_name h) end in
    let '(blk, ok) := template h name fs_plain fmt_octal magic_ustar (fstr 155 prefix ++ zeros 12) in
    if ok then Ok (blk, body) else Err
  else if af_p a then
    let global := Ascii.eqb t T_XGLOBAL in
    do xhdr <-
      (if (negb (is_nil (af_pax a)) || global)%bool then
         let data := pax_data (af_pax a) in
         let name := if global then (if is_nil (h_name h) then lit "GlobalHead.0.0" else h_name h)
                     else pax_header_name (h_name h) in
         if too_long_special (List.length data) then Err
         else raw_file name data (if global then T_XGLOBAL else T_XHDR) magic_ustar
       else Ok []);
    if global then Ok (xhdr, O)
    else
      let '(blk, _) := template h (h_name h) fs_ascii fmt_octal magic_ustar (zeros 167) in
      Ok (xhdr ++ blk, body)
  else
    do ln <- (if (100 <? List.length (h_name h))%nat
              then raw_file (lit "././@LongLink") (h_name h ++ [NUL]) T_LONGNAME magic_gnu else Ok []);
    do lk <- (if (100 <? List.length (h_link h))%nat
              then raw_file (lit "././@LongLink") (h_link h ++ [NUL]) T_LONGLINK magic_gnu else Ok []);
    let '(blk, _) := template h (h_name h) fs_plain fmt_numeric magic_gnu (zeros 167) in
    Ok (ln ++ lk ++ blk, body).

(* WriteHeader, the body through Writer.Write, the padding of the next Flush *)
Definition write_member (want : N) (m : member) : res bytes :=
  let '(h, body) := m in
  do hb <- write_header want h;
  let '(hbytes, n) := hb in
  if (n =? List.length body)%nat then Ok (hbytes ++ body ++ zeros (pad_len n)) else Err.

Fixpoint write_members (want : N) (ms : list member) : res bytes :=
  match ms with
  | [] => Ok []
  | m :: r => do a <- write_member want m; do b <- write_members want r; Ok (a ++ b)
  end.

(* writeTar: every member, then Close (two zero blocks) *)
Definition write_archive_gen (want : N) (closes : bool) (ms : list member) : res bytes :=
  do b <- write_members want ms; Ok (b ++ (if closes then zeros 1024 else [])).
Definition write_archive (ms : list member) : res bytes :=
  write_archive_gen c06_header_format c06_writer_closes ms.

(* ---- the reader ------------------------------------------------------------------- *)
Inductive tfmt := TV7 | TUSTAR | TGNU | TSTAR.

Fixpoint chop (ws : list nat) (l : bytes) : list bytes :=
  match ws with
  | [] => [l]
  | w :: r => firstn w l :: chop r (skipn w l)
  end.

Definition unmodelled_sparse {A} : res A := Err.

Definition all_zero (b : bytes) : bool := forallb (Ascii.eqb NUL) b.

(* block.getFormat + Reader.readHeader on one 512-byte block *)
Definition parse_header (blk : bytes) : res (thdr * tfmt) :=
  match chop [100; 8; 8; 8; 12; 12; 8; 1; 100; 8; 32; 32; 8; 8]%nat blk with
  | [name; mode; uid; gid; size; mtime; chk; typ; link; magic; uname; gname; dmaj; dmin; ext] =>
      let pre := firstn 148 blk in
      let post := skipn 156 blk in
      match parse_octal chk with
      | Ok v =>
          if negb ((v =? Z.of_N (bsum pre + 256 + bsum post))%Z || (v =? bsum_signed pre + 256 + bsum_signed post)%Z) then Err
          else
            let ustar_magic := beqb (firstn 6 magic) (firstn 6 magic_ustar) in
            let fmt := if (ustar_magic && beqb (skipn 163 ext) (lit "tar" ++ [NUL]))%bool then TSTAR
                       else if ustar_magic then TUSTAR
                       else if beqb magic magic_gnu then TGNU else TV7 in
            do sz <- parse_numeric size;
            do mo <- parse_numeric mode;
            do ui <- parse_numeric uid;
            do gi <- parse_numeric gid;
            do mt <- parse_numeric mtime;
            let mk nm un gn dj dn :=
              {| h_type := hd NUL typ; h_name := nm; h_link := parse_string link; h_mode := mo; h_uid := ui; h_gid := gi;
                 h_size := sz; h_mtime := mt; h_mnsec := 0%N; h_uname := un; h_gname := gn; h_devmaj := dj; h_devmin := dn;
                 h_pax := [] |} in
            let nm := parse_string name in
            match fmt with
            | TV7 => Ok (mk nm [] [] 0%Z 0%Z, TV7)
            | _ =>
                do dj <- parse_numeric dmaj;
                do dn <- parse_numeric dmin;
                let un := parse_string uname in
                let gn := parse_string gname in
                let withp (p : bytes) := if is_nil p then nm else p ++ "/"%char :: nm in
                match fmt with
                | TUSTAR => Ok (mk (withp (parse_string (firstn 155 ext))) un gn dj dn, TUSTAR)
                | TSTAR =>
                    do _a <- parse_numeric (firstn 12 (skipn 131 ext));
                    do _c <- parse_numeric (firstn 12 (skipn 143 ext));
                    Ok (mk (withp (parse_string (firstn 131 ext))) un gn dj dn, TSTAR)
                | _ =>
                    (* GNU: atime / ctime are parsed when their first byte is not NUL; if that
                       fails the area is read as a pre-Go1.8 USTAR prefix when it is ASCII *)
                    let at_ := firstn 12 ext in
                    let ct_ := firstn 12 (skipn 12 ext) in
                    let bad (b : bytes) := match b with
                                           | c :: _ => if Ascii.eqb c NUL then false
                                                       else match parse_numeric b with Ok _ => false | _ => true end
                                           | [] => false
                                           end in
                    if (bad at_ || bad ct_)%bool then
                      let s := parse_string (firstn 155 ext) in
                      Ok (mk (if is_ascii s then withp s else nm) un gn dj dn, TGNU)
                    else Ok (mk nm un gn dj dn, TGNU)
                end
            end
      | _ => Err
      end
  | _ => Err
  end.

(* mergePAX: every key of the map acts on its own field; an empty value keeps
   the field; any unparsable number is ErrHeader *)
Definition pax_field (m : pmap) (k : bytes) (dflt : bytes) : bytes :=
  match pm_get k m with
  | Some v => if is_nil v then dflt else v
  | None => dflt
  end.
Definition pax_int (m : pmap) (k : bytes) (dflt : Z) : res Z :=
  match pm_get k m with
  | Some v => if is_nil v then Ok dflt else match parse_int v with Some z => Ok z | None => Err end
  | None => Ok dflt
  end.
Definition pax_time (m : pmap) (k : bytes) (dflt : Z * N) : res (Z * N) :=
  match pm_get k m with
  | Some v => if is_nil v then Ok dflt else parse_pax_time v
  | None => Ok dflt
  end.
Definition merge_pax (h : thdr) (m : pmap) : res thdr :=
  do ui <- pax_int m k_uid (h_uid h);
  do gi <- pax_int m k_gid (h_gid h);
  do sz <- pax_int m k_size (h_size h);
  do mt <- pax_time m k_mtime (h_mtime h, h_mnsec h);
  do _a <- pax_time m k_atime (0%Z, 0%N);
  do _c <- pax_time m k_ctime (0%Z, 0%N);
  Ok {| h_type := h_type h; h_name := pax_field m k_path (h_name h); h_link := pax_field m k_linkpath (h_link h);
        h_mode := h_mode h; h_uid := ui; h_gid := gi; h_size := sz; h_mtime := fst mt; h_mnsec := snd mt;
        h_uname := pax_field m k_uname (h_uname h); h_gname := pax_field m k_gname (h_gname h);
        h_devmaj := h_devmaj h; h_devmin := h_devmin h; h_pax := m |}.

(* readGNUSparsePAXHeaders: versions 0.0, 0.1 and 1.0 are sparse files; a missing
   record reads as "" *)
Definition has_sparse_records (m : pmap) : bool :=
  let get k := match pm_get (lit k) m with Some v => v | None => [] end in
  let major := get "GNU.sparse.major" in
  let minor := get "GNU.sparse.minor" in
  ((beqb major (lit "0") && (beqb minor (lit "0") || beqb minor (lit "1")))
   || (beqb major (lit "1") && beqb minor (lit "0"))
   || (is_nil major && is_nil minor && negb (is_nil (get "GNU.sparse.map"))))%bool.

Record rstate := { r_pax : option pmap; r_name : bytes; r_link : bytes }.
Definition rstate0 : rstate := {| r_pax := None; r_name := []; r_link := [] |}.

Inductive rstep :=
| REnd                                   (* io.EOF: the archive ends here *)
| RFail                                  (* ErrHeader / io.ErrUnexpectedEOF / ErrFieldTooLong *)
| RMeta (st : rstate) (rest : bytes)     (* an 'x', 'L' or 'K' member was consumed *)
| RMember (m : member) (rest : bytes).

(* the data of a member ([n] bytes) and what follows its padding; a padding
   cut short ends the archive cleanly at the next Next() *)
Definition take_data (n : nat) (l : bytes) : option (bytes * bytes) :=
  if (List.length l <? n)%nat then None
  else Some (firstn n l, skipn (n + pad_len n) l).

Definition read_step (bs : bytes) (st : rstate) : rstep :=
  match bs with
  | [] => REnd
  | _ =>
      if (List.length bs <? 512)%nat then RFail
      else
        let blk := firstn 512 bs in
        let rest := skipn 512 bs in
        if all_zero blk then
          match rest with
          | [] => REnd
          | _ => if (List.length rest <? 512)%nat then RFail
                 else if all_zero (firstn 512 rest) then REnd else RFail
          end
        else
          match parse_header blk with
          | Ok (h, fmt) =>
              let t := h_type h in
              if (negb (header_only t) && (h_size h <? 0)%Z)%bool then RFail
              else
                let nb := if header_only t then O else Z.to_nat (h_size h) in
                if (Ascii.eqb t T_XHDR || Ascii.eqb t T_XGLOBAL)%bool then
                  if too_long_special nb then RFail
                  else match take_data nb rest with
                       | None => RFail
                       | Some (data, rest') =>
                           match parse_pax (S (List.length data)) data [] with
                           | Ok m =>
                               if Ascii.eqb t T_XGLOBAL then
                                 match merge_pax h m with
                                 | Ok h' =>
                                     RMember ({| h_type := t; h_name := h_name h'; h_link := []; h_mode := 0; h_uid := 0; h_gid := 0;
                                                 h_size := 0; h_mtime := zero_time_sec; h_mnsec := 0; h_uname := []; h_gname := [];
                                                 h_devmaj := 0; h_devmin := 0; h_pax := m |}, []) rest'
                                 | _ => RFail  (* Go: a header with some of the records merged, in map order *)
                                 end
                               else RMeta {| r_pax := Some m; r_name := r_name st; r_link := r_link st |} rest'
                           | _ => RFail
                           end
                       end
                else if (Ascii.eqb t T_LONGNAME || Ascii.eqb t T_LONGLINK)%bool then
                  if too_long_special nb then RFail
                  else match take_data nb rest with
                       | None => RFail
                       | Some (data, rest') =>
                           let s := parse_string data in
                           RMeta (if Ascii.eqb t T_LONGNAME
                                  then {| r_pax := r_pax st; r_name := s; r_link := r_link st |}
                                  else {| r_pax := r_pax st; r_name := r_name st; r_link := s |}) rest'
                       end
                else
                  match merge_pax h (match r_pax st with Some m => m | None => [] end) with
                  | Ok h1 =>
                      let nm := if is_nil (r_name st) then h_name h1 else r_name st in
                      let lk := if is_nil (r_link st) then h_link h1 else r_link st in
                      let t' := if Ascii.eqb t NUL then (if ends_with_slash nm then T_DIR else T_REG) else t in
                      if (negb (header_only t') && (h_size h1 <? 0)%Z)%bool then RFail
                      else if (Ascii.eqb t' T_SPARSE || has_sparse_records (h_pax h1))%bool then RFail (* unmodelled_sparse *)
                      else
                        let nb' := if header_only t' then O else Z.to_nat (h_size h1) in
                        match take_data nb' rest with
                        | None => RFail
                        | Some (data, rest') =>
                            RMember ({| h_type := t'; h_name := nm; h_link := lk; h_mode := h_mode h1; h_uid := h_uid h1;
                                        h_gid := h_gid h1; h_size := h_size h1; h_mtime := h_mtime h1; h_mnsec := h_mnsec h1;
                                        h_uname := h_uname h1; h_gname := h_gname h1; h_devmaj := h_devmaj h1;
                                        h_devmin := h_devmin h1; h_pax := h_pax h1 |}, data) rest'
                        end
                  | _ => RFail
                  end
          | _ => RFail
          end
  end.

Fixpoint read_members (fuel : nat) (bs : bytes) (st : rstate) : res (list member) :=
  match fuel with
  | O => OutOfFuel
  | S f =>
      match read_step bs st with
      | REnd => Ok []
      | RFail => Err
      | RMeta st' rest => read_members f rest st'
      | RMember m rest => do ms <- read_members f rest rstate0; Ok (m :: ms)
      end
  end.

(* every step but the last consumes at least one block, so the fuel is never
   exhausted (TarBytesProofs.read_archive_fuel) *)
Definition read_archive (bs : bytes) : res (list member) :=
  read_members (S (List.length bs)) bs rstate0.

(* ---- from the entries of Model/Tar.v to members ----------------------------------- *)
Definition typeflag_of (k : kind) : ascii :=
  match k with KDir => T_DIR | KReg => T_REG | KSym => T_SYM | KChr => T_CHR | KLink => T_LINK end.
Definition opt_bytes (o : option string) : bytes := match o with Some s => lit s | None => [] end.

(* the header walkFS hands to WriteHeader for an entry: PAXRecords hold the
   extended attributes under the prefix of pkg/build/tarball.go *)
Definition hdr_of_entry (e : entry) : thdr :=
  {| h_type := typeflag_of (e_kind e); h_name := lit (join_slash (e_path e)); h_link := lit (e_link e);
     h_mode := Z.of_N (e_mode e); h_uid := e_uid e; h_gid := e_gid e; h_size := Z.of_N (e_size e);
     h_mtime := e_mtime e; h_mnsec := e_mnsec e;
     h_uname := opt_bytes (e_uname e); h_gname := opt_bytes (e_gname e);
     h_devmaj := Z.of_N (e_devmaj e); h_devmin := Z.of_N (e_devmin e);
     h_pax := map (fun kv => (lit c06_xattr_prefix ++ lit (fst kv), lit (snd kv))) (e_xattrs e) |}.

(* content of regular files by content id *)
Definition content_of (cs : list (N * bytes)) (cid : N) : bytes :=
  match find (fun p => (fst p =? cid)%N) cs with Some p => snd p | None => [] end.

(* writeTar copies a body when the file is regular and header.Size > 0; every
   entry of kind KReg is a regular file and a recorded hard link has Size 0 *)
Definition member_of_entry (cs : list (N * bytes)) (e : entry) : member :=
  (hdr_of_entry e,
   match e_kind e with KReg => if (0 <? e_size e)%N then content_of cs (e_cid e) else [] | _ => [] end).

Definition layer_bytes (ev : env) (cs : list (N * bytes)) (f : forest) : res bytes :=
  write_archive (map (member_of_entry cs) (walk ev f)).

(* what an extractor reads from a member: the xattrs are the records under
   archive/tar's own SCHILY.xattr. prefix (Header.Xattrs) *)
Definition strip_prefix (p l : bytes) : option bytes :=
  if has_prefix p l then Some (skipn (List.length p) l) else None.
Definition kind_of_typeflag (t : ascii) : option kind :=
  if Ascii.eqb t T_DIR then Some KDir else if Ascii.eqb t T_REG then Some KReg else if Ascii.eqb t T_SYM then Some KSym
  else if Ascii.eqb t T_CHR then Some KChr else if Ascii.eqb t T_LINK then Some KLink else None.
Definition str (b : bytes) : string := string_of_list_ascii b.
Definition opt_str (b : bytes) : option string := if is_nil b then None else Some (str b).
Definition xattrs_of_pax (m : list (bytes * bytes)) : list (string * string) :=
  flat_map (fun kv => match strip_prefix pax_schily_xattr (fst kv) with
                      | Some k => [(str k, str (snd kv))]
                      | None => []
                      end) m.
Definition entry_of_member (cid_of : bytes -> N) (m : member) : option entry :=
  let '(h, body) := m in
  match kind_of_typeflag (h_type h) with
  | None => None
  | Some k =>
      Some {| e_path := split_slash (str (h_name h)); e_kind := k; e_mode := Z.to_N (h_mode h); e_uid := h_uid h; e_gid := h_gid h;
              e_uname := opt_str (h_uname h); e_gname := opt_str (h_gname h); e_link := str (h_link h);
              e_devmaj := Z.to_N (h_devmaj h); e_devmin := Z.to_N (h_devmin h); e_xattrs := xattrs_of_pax (h_pax h);
              e_mtime := h_mtime h; e_mnsec := h_mnsec h; e_cid := cid_of body; e_size := Z.to_N (h_size h) |}
  end.
