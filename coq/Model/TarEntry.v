(* C17 — the tar-entry channel of pkg/tarfs/fs.go: regular files that are backed by
   an entry of a package's tar stream (WriteHeader + lazy reads through the opener),
   on top of the model of the in-memory tree (Model/MemFS.v, backend TarFS).
   No proofs in this file.

   What the code keeps per node: [te] (header with Size, checksum, the opener tfs,
   the package) next to [data].  "len(data) == 0 && te.Size != 0" means "not loaded
   yet": Stat reports te.Size; a read-only open hands out the OPENER's file (mf.rc):
   Read / ReadAt go to it, Seek and Write answer ErrInvalid; an open with write
   intent (O_APPEND, O_RDWR or O_WRONLY) first buffers the entry's bytes into data.
   O_TRUNC empties data and sets te.Size to 0 (a copy of te: the entry stays for
   package ownership).

   State added to the tree model: [t_te] inode -> (the entry's bytes, "Size is still
   the entry's": false after a truncation), [t_rc] handle index -> (the bytes the
   opener's file reads, its position).

   WriteHeader is modelled for regular files (TypeReg) and symbolic links (TypeSymlink)
   with a checksum record, directories (TypeDir) and hard links (TypeLink), no
   xattr records, all entries from packages of one origin with no `replaces`: a fresh
   name gets a node with the entry; an existing node with the same checksum (or, if it
   has no entry, with exactly these bytes in memory) is left alone ("not installed");
   an existing entry-backed node with another checksum is REPLACED by a new node; an
   existing node without entry and without data (a directory, a link, an empty file)
   or with other bytes is a conflict error.  Its results: ONum 1 = installed, ONum 0 =
   not installed.  The opener's files are the harness's: they read the entry's bytes
   the way memFile reads data.  (Conflicts between packages of different origins / with `replaces`: C07.) *)
From Apko Require Export Model.MemFS.
Open Scope string_scope. Open Scope list_scope.

Record tst := mkT { t_base : st; t_te : list (nat * (list N * bool)); t_rc : list (nat * (list N * Z)) }.
Definition tinit : tst := mkT init_st [] [].

Inductive top :=
| TOp (o : op)
| TWriteHeader (p : path) (content : list N) (perm : N)             (* tar.TypeReg *)
| TWriteHeaderDir (p : path) (perm : N) (t : Z)                      (* tar.TypeDir, ModTime t *)
| TWriteHeaderSym (p : path) (tgt : path) (cid : list N)             (* tar.TypeSymlink; [cid]: the bytes the checksum record is the SHA-1 of *)
| TWriteHeaderLink (old new : path).                                 (* tar.TypeLink: Linkname, Name *)

Fixpoint nlookup {A} (k : nat) (l : list (nat * A)) : option A :=
  match l with
  | [] => None
  | (k', v) :: l' => if Nat.eqb k k' then Some v else nlookup k l'
  end.
Definition nremove {A} (k : nat) (l : list (nat * A)) : list (nat * A) := filter (fun x => negb (Nat.eqb (fst x) k)) l.
Definition nset {A} (k : nat) (v : A) (l : list (nat * A)) : list (nat * A) := (k, v) :: nremove k l.

(* anode.te != nil && len(anode.data) == 0 && anode.te.header.Size != 0 *)
Definition lazy (te : list (nat * (list N * bool))) (h : list node) (i : nat) : option (list N) :=
  match nlookup i te with
  | Some (c, true) => match n_data (get h i), c with [], _ :: _ => Some c | _, _ => None end
  | _ => None
  end.
(* newMemFile with O_TRUNC: te.header.Size = 0 *)
Definition kill (i : nat) (te : list (nat * (list N * bool))) : list (nat * (list N * bool)) :=
  match nlookup i te with Some (c, true) => nset i (c, false) te | _ => te end.

Definition write_intent (fl : oflags) : bool := f_app fl || match f_acc fl with ARd => false | _ => true end.

Definition t_open (ts : tst) (p : path) (fl : oflags) (perm : N) : tst * out :=
  let s := t_base ts in
  match open_at TarFS (openfile_depth TarFS) (heap s) p fl perm with
  | OpErr e => (ts, OErr e)
  | OpNode h i =>
      let k := List.length (handles s) in
      let te' := if f_trunc fl then kill i (t_te ts) else t_te ts in
      match lazy (t_te ts) h i with
      | Some c =>
          if write_intent fl then
            (* anode.data, err = io.ReadAll(f) *)
            let '(h1, hd) := new_handle (upd h i (set_data c)) i fl in
            (mkT (mkSt h1 (handles s ++ [hd])) te' (t_rc ts), OOk)
          else
            (* mf.rc = f *)
            let '(h1, hd) := new_handle h i fl in
            (mkT (mkSt h1 (handles s ++ [hd])) te' (nset k (c, 0%Z) (t_rc ts)), OOk)
      | None =>
          let '(h1, hd) := new_handle h i fl in
          (mkT (mkSt h1 (handles s ++ [hd])) te' (t_rc ts), OOk)
      end
  end.

Definition lift (ts : tst) (x : st * out) : tst * out := (mkT (fst x) (t_te ts) (t_rc ts), snd x).

Definition t_info (ts : tst) (i : nat) : out :=
  let n := get (heap (t_base ts)) i in
  match lazy (t_te ts) (heap (t_base ts)) i with
  | Some c => OInfo (n_kind n) (n_perm n) (N.of_nat (List.length c)) (n_uid n) (n_gid n) (n_mtime n)
  | None => info_of n
  end.

(* a handle operation on a handle that is the opener's file *)
Definition with_rc (ts : tst) (i : nat) (k : list N -> Z -> tst * out) (other : tst * out) : tst * out :=
  match nth_error (handles (t_base ts)) i with
  | Some hd => if h_open hd then match nlookup i (t_rc ts) with Some (c, pos) => k c pos | None => other end else other
  | None => other
  end.

Definition t_op (ts : tst) (o : op) : tst * out :=
  let s := t_base ts in
  let plain := lift ts (model_step TarFS s o) in
  match o with
  | OpenFile p fl perm => t_open ts p fl perm
  | Create p => t_open ts p rdwr_create_trunc 438%N
  | ReadFile p =>
      match open_at TarFS (openfile_depth TarFS) (heap s) p rdonly 420%N with
      | OpErr e => (ts, OErr e)
      | OpNode h i => (ts, OBytes (match lazy (t_te ts) h i with Some c => c | None => n_data (get h i) end))
      end
  | WriteFile p bs perm =>
      match open_at TarFS (openfile_depth TarFS) (heap s) p rdwr_create_trunc perm with
      | OpErr e => (ts, OErr e)
      | OpNode h i => (mkT (seth s (upd h i (set_data bs))) (kill i (t_te ts)) (t_rc ts), OOk)
      end
  | Stat p | Lstat p =>
      match get_node TarFS (heap s) p with inr e => (ts, OErr e) | inl i => (ts, t_info ts i) end
  | Read i n =>
      with_rc ts i (fun c pos =>
        if (pos >=? blen c)%Z then (ts, OErr EEOF)
        else let bs := firstn n (skipn (Z.to_nat pos) c) in
             (mkT s (t_te ts) (nset i (c, (pos + blen bs)%Z) (t_rc ts)), OBytes bs)) plain
  | ReadAt i n off =>
      with_rc ts i (fun c _ =>
        if (off <? 0)%Z then (ts, OErr EOther)
        else if (off >=? blen c)%Z then (ts, OErr EEOF)
        else (ts, OBytes (firstn n (skipn (Z.to_nat off) c)))) plain
  | Seek i _ _ => with_rc ts i (fun _ _ => (ts, OErr EOther)) plain        (* fs.ErrInvalid *)
  | Write i _ => with_rc ts i (fun _ _ => (ts, OErr EOther)) plain         (* fs.ErrInvalid *)
  | Close i =>
      let '(s1, r) := model_step TarFS s o in
      (mkT s1 (t_te ts) (match r with OOk => nremove i (t_rc ts) | _ => t_rc ts end), r)
  | _ => plain
  end.

(* writeHeader(name, te): [n] the node a fresh name gets, [c] what the entry's checksum is of,
   [live] whether te.header.Size is not 0 *)
Definition t_wh (ts : tst) (p : path) (c : list N) (n : node) (live : bool) : tst * out :=
  let s := t_base ts in let h := heap s in
  match get_node TarFS h (go_dir p) with
  | inr e => (ts, OErr e)
  | inl pi =>
      if negb (is_dir h pi) then (ts, OErr EOther)
      else
        let fresh := let '(h', i) := create h pi (go_base p) n in
                     (mkT (seth s h') (nset i (c, live) (t_te ts)) (t_rc ts), ONum 1%Z) in
        match lookup (go_base p) (n_children (get h pi)) with
        | None => fresh
        | Some x =>
            match nlookup x (t_te ts) with
            | None =>
                match n_data (get h x) with
                | [] => (ts, OErr EOther)                    (* "conflicting file ... has no tar entry" *)
                | d => if list_eqb N.eqb d c then (ts, ONum 0%Z) else (ts, OErr EOther)
                end
            | Some (c0, _) => if list_eqb N.eqb c0 c then (ts, ONum 0%Z) else fresh
            end
        end
  end.
Definition t_writeheader (ts : tst) (p : path) (c : list N) (perm : N) : tst * out :=
  t_wh ts p c (empty_node KReg perm) true.

(* tar.TypeSymlink: nothing to do when Readlink(name) already answers the target; otherwise
   writeHeader with a link node (mode ModeSymlink|0777 from the header, Size 0: never "not loaded") *)
Definition t_writeheader_sym (ts : tst) (p tgt : path) (cid : list N) : tst * out :=
  match snd (model_step TarFS (t_base ts) (Readlink p)) with
  | OPath t => if path_eqb t tgt then (ts, ONum 0%Z)
               else t_wh ts p cid (mkNode KSym 511%N 0%Z 0%Z [] None tgt 0%N [] []) false
  | _ => t_wh ts p cid (mkNode KSym 511%N 0%Z 0%Z [] None tgt 0%N [] []) false
  end.

(* tar.TypeDir: (the "existing symlink to a directory" test asks Stat, which follows the link, for
   ModeSymlink: it never holds) MkdirAll, then Chtimes; the first error is returned, what MkdirAll
   made stays *)
Definition t_writeheader_dir (ts : tst) (p : path) (perm : N) (t : Z) : tst * out :=
  let '(s1, r1) := model_step TarFS (t_base ts) (MkdirAll p perm) in
  match r1 with
  | OOk => let '(s2, r2) := model_step TarFS s1 (Chtimes p t) in
           (mkT s2 (t_te ts) (t_rc ts), match r2 with OOk => ONum 1%Z | r => r end)
  | r => (mkT s1 (t_te ts) (t_rc ts), r)
  end.

(* tar.TypeLink: m.link(Linkname, Name, &hdr) — Link, and the header is remembered in the target's
   hardlinks map (only seen through FileInfo.Sys: not observed) *)
Definition t_writeheader_link (ts : tst) (old new : path) : tst * out :=
  let '(s1, r) := model_step TarFS (t_base ts) (Link old new) in
  (mkT s1 (t_te ts) (t_rc ts), match r with OOk => ONum 1%Z | r => r end).

Definition tstep (ts : tst) (o : top) : tst * out :=
  match o with
  | TOp o => t_op ts o
  | TWriteHeader p c perm => t_writeheader ts p c perm
  | TWriteHeaderDir p perm t => t_writeheader_dir ts p perm t
  | TWriteHeaderSym p tgt cid => t_writeheader_sym ts p tgt cid
  | TWriteHeaderLink old new => t_writeheader_link ts old new
  end.

Fixpoint trun (ts : tst) (ops : list top) : tst * list out :=
  match ops with
  | [] => (ts, [])
  | o :: ops' => let '(t1, r) := tstep ts o in let '(t2, rs) := trun t1 ops' in (t2, r :: rs)
  end.

(* ---- the plain filesystem a state stands for: an entry that is not loaded yet is the
   file's content, a handle that is the opener's file is a handle at that file's position *)
Fixpoint flat_heap (te : list (nat * (list N * bool))) (h0 h : list node) (i : nat) : list node :=
  match h with
  | [] => []
  | n :: h' => (match lazy te h0 i with Some c => set_data c n | None => n end) :: flat_heap te h0 h' (S i)
  end.
Fixpoint flat_handles (rc : list (nat * (list N * Z))) (l : list handle) (i : nat) : list handle :=
  match l with
  | [] => []
  | hd :: l' => (match nlookup i rc with Some (_, pos) => set_off pos hd | None => hd end) :: flat_handles rc l' (S i)
  end.
Definition flat (ts : tst) : st :=
  mkSt (flat_heap (t_te ts) (heap (t_base ts)) (heap (t_base ts)) 0) (flat_handles (t_rc ts) (handles (t_base ts)) 0).
