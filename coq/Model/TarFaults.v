(* C06 — faults during serialisation: what walkFS (pkg/build/tarball.go) yields
   when the context is cancelled or the filesystem reports an error while
   fs.WalkDir runs.  Executable model only.

   The fs.WalkDir callback of walkFS starts with three tests, in this order in
   the source: the context (`ctx.Err()`), the root path (`path == "."`: return
   nil), the error fs.WalkDir reports (`err != nil`: return err).
   - a cancelled context is seen by the NEXT callback; [ctx_returned] says
     whether the callback returns its error (goextract: c06_ctx_err_returned) —
     otherwise the walk just ends (fs.SkipAll / nil);
   - fs.WalkDir reports an error of Stat(root) or ReadDir(root) by calling the
     callback for "." with that error; [root_checked] says whether the error test
     comes before the root test (c06_root_err_checked) — otherwise the error is
     dropped and the walk ends with nothing yielded;
   - an error of ReadDir of another directory, of Readlink, Readnod, or of Open
     of a file's content (writeTar) is returned. *)
From Apko Require Import Base.Prelude Model.Tar.
Open Scope list_scope.

Inductive fault :=
| FCancelBefore            (* the context is cancelled before the walk *)
| FCancelAt (k : nat)      (* … while the k-th entry (1-based, walk order) is being produced *)
| FErrEntry (k : nat)      (* ReadDir / Readlink / Readnod / Open fails for the k-th entry *)
| FErrRoot.                (* Stat(".") or ReadDir(".") fails *)

(* what the consumer of walkFS sees: an error, or the entries yielded *)
Definition walk_under_fault (ctx_returned root_checked : bool) (ev : env) (f : forest) (ft : fault) : res (list entry) :=
  let w := walk ev f in
  match ft with
  | FCancelBefore => if ctx_returned then Err else Ok []
  | FCancelAt k =>
      if (k <? List.length w)%nat then (if ctx_returned then Err else Ok (firstn k w)) else Ok w
  | FErrEntry _ => Err
  | FErrRoot => if root_checked then Err else Ok []
  end.
