(* C20 — executable model of pkg/apk/apk/transport.go (rangeRetryReader).
   The environment is adversarial and explicit: every body.Read and every
   client.Do consumes one scripted event. No proofs here. *)
From Apko Require Import Base.Prelude Generated.Transport.

Inductive skind := HonoursRange | IgnoresRange | RejectsRange.
(* bare: the server's error responses (416, 4xx, 5xx) carry no body
   (Content-Length: 0). net/http hands such a response over with
   Body == http.NoBody, and reset returns (resp, nil) BEFORE it looks at the
   status, leaving the previous, closed body in place: the retry loop goes on
   and every further body read fails. With a body, reset fails on the status. *)
Record server := { data : list N; kind : skind; bare : bool }.

(* one body.Read outcome: deliver up to [rk] bytes (at least one when not
   failing), then report a non-EOF error if [rfail]; [reager] = report EOF
   together with the last bytes instead of on the next call *)
Record rd_ev := { rk : nat; rfail : bool; reager : bool }.
(* one client.Do outcome *)
(* CServeAs k: this connection is answered by a backend of kind k, whatever the
   session's default kind (a CDN whose nodes differ).
   CCloseDelim k n: answered by a backend of kind k with a response that carries
   neither Content-Length nor chunked encoding (its end is the end of the
   connection) and whose connection is closed CLEANLY after n body bytes: to
   net/http, and so to the reader, that is a body of n bytes followed by EOF.
   Every other response is framed: net/http turns an early close into a non-EOF
   error (a failing rd_ev). *)
Inductive conn_ev := CServe | CErr | CStatus | CServeAs (k : skind) | CCloseDelim (k : skind) (n : nat).

Inductive err := ENone | EEOF | EFail.

Record body := { rest : list N; dead : bool (* closed, or failed once *) }.

Record st := {
  progress : nat;
  bdy : body;
  reads : list rd_ev;
  conns : list conn_ev;
  reqs : list (option nat)      (* Range offsets requested, oldest first *)
}.

Definition default_rd : rd_ev := {| rk := 0; rfail := false; reager := false |}.
(* an exhausted script behaves like a healthy connection: full reads *)
Definition next_rd (lenp : nat) (l : list rd_ev) : rd_ev * list rd_ev :=
  match l with [] => ({| rk := lenp; rfail := false; reager := false |}, []) | e :: t => (e, t) end.
Definition next_conn (l : list conn_ev) : conn_ev * list conn_ev :=
  match l with [] => (CServe, []) | e :: t => (e, t) end.

(* body.Read(p) with len p = lenp *)
Definition body_read (b : body) (lenp : nat) (evs : list rd_ev)
  : list N * err * body * list rd_ev :=
  if dead b then ([], EFail, b, evs)
  else match lenp with
  | O => ([], ENone, b, evs)
  | _ =>
    let (ev, evs') := next_rd lenp evs in
    let want := if rfail ev then rk ev else Nat.max 1 (rk ev) in
    let n := Nat.min want (Nat.min lenp (List.length (rest b))) in
    let out := firstn n (rest b) in
    let rest' := skipn n (rest b) in
    if rfail ev then (out, EFail, {| rest := rest'; dead := true |}, evs')
    else match rest b with
    | [] => ([], EEOF, b, evs')
    | _ =>
      match rest' with
      | [] => (out, if reager ev then EEOF else ENone, {| rest := rest'; dead := false |}, evs')
      | _ => (out, ENone, {| rest := rest'; dead := false |}, evs')
      end
    end
  end.

Definition discard_buf : nat := N.to_nat 8192.

(* io.CopyN(io.Discard, body, left): [fuel] starts at [left]; each successful
   read removes at least one byte. None = the copy failed. *)
Fixpoint discard (fuel left : nat) (b : body) (evs : list rd_ev) : res (option body * list rd_ev) :=
  match left with
  | O => Ok (Some b, evs)
  | _ =>
    match fuel with
    | O => OutOfFuel
    | S fuel' =>
      let '(out, e, b', evs') := body_read b (Nat.min discard_buf left) evs in
      let left' := left - List.length out in
      (* io.CopyN: "if written == n { return n, nil }" — an error that arrives
         together with the last byte to discard is swallowed *)
      match left' with
      | O => Ok (Some b', evs')
      | _ =>
        match e with
        | EFail | EEOF => Ok (None, evs')
        | ENone => discard fuel' left' b' evs'
        end
      end
    end
  end.

(* reset: returns the new state and whether it succeeded *)
Definition reset (srv : server) (s : st) : res (st * bool) :=
  let closed := {| rest := rest (bdy s); dead := true |} in
  let rng := match progress s with O => None | p => Some p end in
  let (c, conns') := next_conn (conns s) in
  let s1 := {| progress := progress s; bdy := closed; reads := reads s; conns := conns'; reqs := reqs s ++ [rng] |} in
  let knd := match c with CServeAs k | CCloseDelim k _ => k | _ => kind srv end in
  (* an error status: reset fails, unless the response has no body (see [bare]);
     a close-delimited response always has one *)
  let refused := Ok (s1, match c with CCloseDelim _ _ => false | _ => bare srv end) in
  (* what of a response body reaches the reader before the clean end *)
  let upto (l : list N) := match c with CCloseDelim _ n => firstn n l | _ => l end in
  match c with
  | CErr => Ok (s1, false)
  | CStatus => refused
  | CServe | CServeAs _ | CCloseDelim _ _ =>
    match rng with
    | None => Ok ({| progress := progress s; bdy := {| rest := upto (data srv); dead := false |};
                     reads := reads s; conns := conns'; reqs := reqs s1 |}, true)
    | Some p =>
      match knd with
      | RejectsRange => refused
      | HonoursRange =>
          if Nat.ltb p (List.length (data srv))
          then Ok ({| progress := p; bdy := {| rest := upto (skipn p (data srv)); dead := false |};
                      reads := reads s; conns := conns'; reqs := reqs s1 |}, true)
          else refused            (* 416 *)
      | IgnoresRange =>
          do r <- discard p p {| rest := upto (data srv); dead := false |} (reads s);
          match r with
          | (Some b, evs') => Ok ({| progress := p; bdy := b; reads := evs'; conns := conns'; reqs := reqs s1 |}, true)
          | (None, evs') => Ok ({| progress := p; bdy := closed; reads := evs'; conns := conns'; reqs := reqs s1 |}, false)
          end
      end
    end
  end.

(* the retry loop of Read; [last] is the (n, err) pair of the previous attempt,
   returned if the schedule runs out right after a successful reset *)
Fixpoint attempts (srv : server) (sched : list bool) (lenp : nat) (s : st) (last : list N * err)
  : res (st * (list N * err)) :=
  match sched with
  | [] => Ok (s, last)
  | retry :: more =>
    let '(out, e, b', evs') := body_read (bdy s) lenp (reads s) in
    let s1 := {| progress := progress s; bdy := b'; reads := evs'; conns := conns s; reqs := reqs s |} in
    match e with
    | ENone | EEOF => Ok (s1, (out, e))
    | EFail =>
      if retry then
        do r <- reset srv s1;
        let (s2, ok) := r in
        if ok then attempts srv more lenp s2 (out, e) else Ok (s2, (out, EFail))
      else Ok (s1, (out, EFail))
    end
  end.

(* one Read(p): the deferred progress update happens on every exit path *)
Definition read_call (srv : server) (sched : list bool) (s : st) (lenp : nat) : res (st * (list N * err)) :=
  do r <- attempts srv sched lenp s ([], ENone);
  let '(s', (out, e)) := r in
  Ok ({| progress := progress s' + List.length out; bdy := bdy s'; reads := reads s';
         conns := conns s'; reqs := reqs s' |}, (out, e)).

(* RoundTrip: the initial reset with progress 0, and the callers' status check
   (FetchPackage and fetchRepositoryIndex refuse any status but 200): at
   progress 0 the only reset that returns without a live body is the one that
   met a no-body error response *)
Definition open (srv : server) (rds : list rd_ev) (cns : list conn_ev) : res (st * bool) :=
  do r <- reset srv {| progress := 0; bdy := {| rest := []; dead := true |}; reads := rds; conns := cns; reqs := [] |};
  let (s, ok) := r in Ok (s, ok && negb (dead (bdy s))).

Fixpoint read_calls (srv : server) (sched : list bool) (s : st) (bufs : list nat)
  : res (st * list (list N * err)) :=
  match bufs with
  | [] => Ok (s, [])
  | n :: more =>
    do r <- read_call srv sched s n;
    let (s1, o) := r in
    do r2 <- read_calls srv sched s1 more;
    let (s2, os) := r2 in
    Ok (s2, o :: os)
  end.

(* a whole session: open, then one Read per buffer size, whatever each returns *)
Definition session (srv : server) (sched : list bool) rds cns (bufs : list nat)
  : res (option (st * list (list N * err))) :=
  do r <- open srv rds cns;
  let (s, ok) := r in
  if ok then do r2 <- read_calls srv sched s bufs; Ok (Some r2) else Ok None.

Definition delivered (outs : list (list N * err)) : list N := List.concat (List.map fst outs).
