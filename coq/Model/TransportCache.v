(* C20 — the index download when a cache directory is configured
   (pkg/apk/apk/cache.go: cacheTransport.fetchAndCache / get / retrieveAndSaveFile).
   On this path the range-retry reader sits ABOVE the cache transport and only
   ever reads the local file; the network body is read once, by io.Copy into a
   temporary file, with no retry, and the file is advertised under its final
   (etag) name afterwards. Same adversarial environment as Model.Transport: one
   [conn_ev] for the GET, one [rd_ev] per body read. The three facts about the
   text that matter are read from the source by goextract. No proofs here. *)
From Apko Require Import Base.Prelude Generated.TransportShape Model.Transport.

Record cshape := {
  (* an error of io.Copy is the result of the copying step, and the download ends there *)
  copy_decides : bool;
  (* ... after the temporary file was removed (fix c5d0145) *)
  removes_tmp : bool;
  (* the copying step stands before paths.AdvertiseCachedFile *)
  copy_first : bool
}.

Definition code_cshape : cshape :=
  {| copy_decides := copy_error_fails_download;
     removes_tmp := failed_copy_removes_temp;
     copy_first := copy_precedes_advertise |}.

Definition cshape_okb (cs : cshape) : bool := copy_decides cs && removes_tmp cs && copy_first cs.

(* the cache directory of one index URL under one etag: what is advertised under
   the final name, and the temporary files lying around *)
Record cdir := { adv : option (list N); tmps : list (list N) }.

Definition copy_buf : nat := N.to_nat 32768.

(* io.Copy(tmp, resp.Body): read, write what was read, stop at EOF (nil) or at
   the first error (which is returned). Result: bytes written, nil error?, script left *)
Fixpoint copy_all (fuel : nat) (b : body) (evs : list rd_ev) (acc : list N) : res (list N * bool * list rd_ev) :=
  match fuel with
  | O => OutOfFuel
  | S fuel' =>
    let '(out, e, b', evs') := body_read b copy_buf evs in
    match e with
    | EEOF => Ok (acc ++ out, true, evs')
    | EFail => Ok (acc ++ out, false, evs')
    | ENone => copy_all fuel' b' evs' (acc ++ out)
    end
  end.

(* retrieveAndSaveFile: t.wrapped.Do(request) — no Range header, so every kind of
   server answers 200 with the whole body; an error or another status ends it;
   then temp file, copy, advertise *)
Definition retrieve (cs : cshape) (dat : list N) (c : conn_ev) (rds : list rd_ev) (d : cdir)
  : res (cdir * bool * list rd_ev) :=
  match c with
  | CErr | CStatus => Ok (d, false, rds)
  | CServe | CServeAs _ | CCloseDelim _ _ =>
    let b := {| rest := match c with CCloseDelim _ n => firstn n dat | _ => dat end; dead := false |} in
    do r <- copy_all (S (S (List.length dat))) b rds [];
    let '(written, ok, rds') := r in
    if ok || negb (copy_decides cs)
    then Ok ({| adv := Some written; tmps := tmps d |}, true, rds')
    else if copy_first cs
         then Ok ({| adv := adv d; tmps := if removes_tmp cs then tmps d else tmps d ++ [written] |}, false, rds')
         else Ok ({| adv := Some written; tmps := tmps d |}, false, rds')   (* already advertised when the copy failed *)
  end.

(* fetchAndCache after the HEAD gave the etag: get (stat the etag's file; else
   download once), open the file, answer 200 with it as the body. What
   fetchRepositoryIndex then returns (RoundTrip + io.ReadAll over a local file,
   whose reads do not fail) is the content of that file; None = an error *)
Definition cached_fetch (cs : cshape) (dat : list N) (c : conn_ev) (rds : list rd_ev) (d : cdir)
  : res (cdir * option (list N) * list rd_ev) :=
  match adv d with
  | Some content => Ok (d, Some content, rds)
  | None =>
    do r <- retrieve cs dat c rds d;
    let '(d', ok, rds') := r in
    Ok (d', if ok then adv d' else None, rds')
  end.

(* io.ReadAll over a sequence of Read results: the bytes up to the first EOF, an
   error if a Read failed first; None = the sequence ended before either *)
Fixpoint read_all (outs : list (list N * err)) (acc : list N) : option (option (list N)) :=
  match outs with
  | [] => None
  | (bs, e) :: more =>
    match e with
    | ENone => read_all more (acc ++ bs)
    | EEOF => Some (Some (acc ++ bs))
    | EFail => Some None
    end
  end.

(* ---- the cache directory as another process sees it WHILE the download runs ------------
   retrieveAndSaveFile writes into an os.CreateTemp file ("*.tmp", a name no reader looks up)
   and links it under the final name afterwards. [into_temp] = that is what the text does
   (Generated.copy_goes_into_temporary_file); false = the bytes go straight into the file
   that carries the final name. One state after the file was created and one after every
   body read of io.Copy, then the state retrieveAndSaveFile leaves behind. *)
Definition dir_during (into_temp : bool) (d : cdir) (written : list N) : cdir :=
  if into_temp then {| adv := adv d; tmps := tmps d ++ [written] |}
  else {| adv := Some written; tmps := tmps d |}.

Fixpoint copy_trace (fuel : nat) (into_temp : bool) (d : cdir) (b : body) (evs : list rd_ev) (acc : list N) : list cdir :=
  match fuel with
  | O => []
  | S fuel' =>
    let '(out, e, b', evs') := body_read b copy_buf evs in
    let now := dir_during into_temp d (acc ++ out) in
    match e with
    | ENone => now :: copy_trace fuel' into_temp d b' evs' (acc ++ out)
    | EEOF | EFail => [now]
    end
  end.

Definition retrieve_trace (cs : cshape) (into_temp : bool) (dat : list N) (c : conn_ev) (rds : list rd_ev) (d : cdir) : list cdir :=
  match c with
  | CErr | CStatus => [d]
  | CServe | CServeAs _ | CCloseDelim _ _ =>
    let b := {| rest := match c with CCloseDelim _ n => firstn n dat | _ => dat end; dead := false |} in
    dir_during into_temp d [] :: copy_trace (S (S (List.length dat))) into_temp d b rds [] ++
    match retrieve cs dat c rds d with
    | Ok (d', ok, _) =>
        if into_temp then [d']
        else [match copy_all (S (S (List.length dat))) b rds [] with
              | Ok (w, okc, _) => if okc || negb (copy_decides cs) || negb (removes_tmp cs)
                                  then {| adv := Some w; tmps := tmps d |} else {| adv := None; tmps := tmps d |}
              | _ => d
              end]
    | _ => []
    end
  end.
