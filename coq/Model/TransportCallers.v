(* C20 — the caller fetchRepositoryIndex on top of the reader of
   Model/TransportReq.v: RoundTrip, the status test, io.ReadAll, and the
   decision what to do with ReadAll's error, which goextract reads from the
   source (Generated/TransportShape.readall_error_returned). FetchPackage hands
   the reader to its consumer: its "caller" is the consumer's Read loop, i.e.
   [session_r] over the consumer's buffer sizes. No proofs here. *)
From Apko Require Import Base.Prelude Generated.Transport Generated.TransportShape Model.Transport Model.TransportReq.

(* io.ReadAll: b := make([]byte, 0, 512); loop { n, err := r.Read(b[len(b):cap(b)]); ... grow when full }.
   As long as fewer than 512 bytes were read the buffer handed to Read has 512 - len(b) bytes; how the
   slice grows beyond that is the runtime's business, so this model is used for bodies below 512 bytes
   (c20_readall_complete_or_error covers every sequence of buffer sizes). *)
Definition readall_cap : nat := 512.

(* [err_returned]: `if err != nil { return nil, err }` after ReadAll; false = some other condition stands
   there, in the worst case the error is dropped and the bytes read so far are returned *)
Fixpoint read_all_r (fuel : nat) (err_returned : bool) (sh : shape) (srv : server_r) (sched : list bool)
    (s : st_r) (acc : list N) : res (st_r * option (list N)) :=
  match fuel with
  | O => OutOfFuel
  | S fuel' =>
    do r <- read_call_r sh srv sched s (readall_cap - List.length acc);
    let '(s', (out, e)) := r in
    match e with
    | ENone => read_all_r fuel' err_returned sh srv sched s' (acc ++ out)
    | EEOF => Ok (s', Some (acc ++ out))
    | EFail => Ok (s', if err_returned then None else Some (acc ++ out))
    end
  end.

(* fetchRepositoryIndex: None = it returned an error *)
Definition index_fetch_r (err_returned : bool) (sh : shape) (srv : server_r) (sched : list bool) rds cns
  : res (option st_r * option (list N)) :=
  do r <- open_r sh srv rds cns;
  let (s, ok) := r in
  if ok then
    do r2 <- read_all_r (S (S (List.length (data (base srv))))) err_returned sh srv sched s [];
    let (s', b) := r2 in Ok (Some s', b)
  else Ok (None, None).
