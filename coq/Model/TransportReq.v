(* C20 — the range-retry reader one step closer to the text of transport.go:
   the REQUEST side (the Range header lives in the Header map that the shallow
   request copies of every attempt share, so what one attempt writes the next
   one sends again), error responses WITH their bodies (which object ends up in
   r.body, and who closes it), explicit status codes and the callers' test of
   them. The four yes/no facts about the text that decide these questions are
   read from the source by goextract (Generated/TransportShape.v) and enter as
   a [shape]; Model/Transport.v is the abstraction in which they have been
   decided the right way, and Proofs/TransportReqProofs.v proves that this model
   refines it for every shape that is [shape_ok]. No proofs here. *)
From Apko Require Import Base.Prelude Generated.Transport Generated.TransportShape Model.Transport.

Record shape := {
  (* reset writes the header with Header.Add (append a value) instead of Header.Set (replace) *)
  range_add : bool;
  (* the request of an attempt is a shallow copy (r.req.WithContext): its Header map IS the
     original's, whatever reset writes is still there on the next attempt *)
  hdr_shared : bool;
  (* reset assigns r.body = resp.Body before it looks at the status code *)
  install_early : bool;
  (* when reset reports an error, Read closes the response's body before it returns *)
  fail_closes : bool
}.

(* transport.go as goextract reads it on this run *)
Definition code_shape : shape :=
  {| range_add := range_header_appended;
     hdr_shared := request_copy_shares_header;
     install_early := body_installed_before_status_check;
     fail_closes := failed_reset_closes_response |}.

(* the shapes for which the reader is right: stale Range values cannot pile up,
   and the body of an error response cannot stay open in r.body *)
Definition shape_okb (sh : shape) : bool :=
  (negb (range_add sh) || negb (hdr_shared sh)) && (negb (install_early sh) || fail_closes sh).

(* the server, now with the bytes its error responses carry when they carry any *)
Record server_r := { base : server; ebody : list N }.

Inductive status := SOk | SPartial | SError.
(* r_body = None: Content-Length 0, net/http hands over http.NoBody *)
Record resp := { r_status : status; r_body : option body }.

(* what comes back for a request whose Range header holds the values [h]; the
   server side looks at the first one (Header.Get), like net/http's ServeContent
   and the harness's servers *)
Definition answer (srv : server_r) (c : conn_ev) (h : list nat) : option resp :=
  let knd := match c with CServeAs k | CCloseDelim k _ => k | _ => kind (base srv) end in
  let upto (l : list N) := match c with CCloseDelim _ n => firstn n l | _ => l end in
  let live (l : list N) := Some {| rest := l; dead := false |} in
  let refuse := Some {| r_status := SError;
                        r_body := match c with
                                  | CCloseDelim _ _ => live (upto (ebody srv))
                                  | _ => if bare (base srv) then None else live (ebody srv)
                                  end |} in
  match c with
  | CErr => None
  | CStatus => refuse
  | CServe | CServeAs _ | CCloseDelim _ _ =>
    match h with
    | [] => Some {| r_status := SOk; r_body := live (upto (data (base srv))) |}
    | p :: _ =>
      match knd with
      | RejectsRange => refuse
      | HonoursRange =>
          if Nat.ltb p (List.length (data (base srv)))
          then Some {| r_status := SPartial; r_body := live (upto (skipn p (data (base srv)))) |}
          else refuse
      | IgnoresRange => Some {| r_status := SOk; r_body := live (upto (data (base srv))) |}
      end
    end
  end.

Record st_r := {
  rprogress : nat;
  rbdy : body;                        (* r.body *)
  rreads : list rd_ev;
  rconns : list conn_ev;
  rhdr : list nat;                    (* values of "Range" in r.req.Header *)
  rsent : list (nat * list nat)       (* per request sent: r.progress at that moment, Range values it carried *)
}.

(* io.CopyN(io.Discard, body, left) as in Model.Transport.discard, but the body
   is handed back in the failing case too: with [install_early] it is r.body *)
Fixpoint discard_r (fuel left : nat) (b : body) (evs : list rd_ev) : res (bool * body * list rd_ev) :=
  match left with
  | O => Ok (true, b, evs)
  | _ =>
    match fuel with
    | O => OutOfFuel
    | S fuel' =>
      let '(out, e, b', evs') := body_read b (Nat.min discard_buf left) evs in
      let left' := left - List.length out in
      match left' with
      | O => Ok (true, b', evs')
      | _ =>
        match e with
        | EFail | EEOF => Ok (false, b', evs')
        | ENone => discard_r fuel' left' b' evs'
        end
      end
    end
  end.

(* reset's two results: (resp, err) with err != nil, or (resp, nil) *)
Inductive rres := RFail | RResp (code : status).

Definition reset_r (sh : shape) (srv : server_r) (s : st_r) : res (st_r * rres) :=
  (* if r.body != nil { _ = r.body.Close() } *)
  let closed := {| rest := rest (rbdy s); dead := true |} in
  let p := rprogress s in
  (* req := r.req.WithContext(r.ctx); if r.progress != 0 { req.Header.Set("Range", "bytes=<progress>-") } *)
  let h0 := if hdr_shared sh then rhdr s else [] in
  let h1 := match p with O => h0 | _ => if range_add sh then h0 ++ [p] else [p] end in
  let hkeep := if hdr_shared sh then h1 else rhdr s in
  let (c, conns') := next_conn (rconns s) in
  let s1 := {| rprogress := p; rbdy := closed; rreads := rreads s; rconns := conns'; rhdr := hkeep;
               rsent := rsent s ++ [(p, h1)] |} in
  let with_body (b : body) (evs : list rd_ev) :=
    {| rprogress := p; rbdy := b; rreads := evs; rconns := conns'; rhdr := hkeep; rsent := rsent s1 |} in
  (* resp, err := r.client.Do(req) *)
  match answer srv c h1 with
  | None => Ok (s1, RFail)
  | Some rsp =>
    match r_body rsp with
    | None => Ok (s1, RResp (r_status rsp))       (* resp.Body == http.NoBody: return resp, nil *)
    | Some b =>
      match r_status rsp with
      | SOk =>
        match p with
        | O => Ok (with_body b (rreads s), RResp SOk)
        | _ =>
          do r <- discard_r p p b (rreads s);
          let '(ok, b', evs') := r in
          if ok then Ok (with_body b' evs', RResp SOk)
          else Ok (with_body (if install_early sh then b' else closed) evs', RFail)
        end
      | SPartial => Ok (with_body b (rreads s), RResp SPartial)
      | SError => Ok (with_body (if install_early sh then b else closed) (rreads s), RFail)
      end
    end
  end.

Definition close_r (s : st_r) : st_r :=
  {| rprogress := rprogress s; rbdy := {| rest := rest (rbdy s); dead := true |}; rreads := rreads s;
     rconns := rconns s; rhdr := rhdr s; rsent := rsent s |}.

Fixpoint attempts_r (sh : shape) (srv : server_r) (sched : list bool) (lenp : nat) (s : st_r) (last : list N * err)
  : res (st_r * (list N * err)) :=
  match sched with
  | [] => Ok (s, last)
  | retry :: more =>
    let '(out, e, b', evs') := body_read (rbdy s) lenp (rreads s) in
    let s1 := {| rprogress := rprogress s; rbdy := b'; rreads := evs'; rconns := rconns s; rhdr := rhdr s; rsent := rsent s |} in
    match e with
    | ENone | EEOF => Ok (s1, (out, e))
    | EFail =>
      if retry then
        do r <- reset_r sh srv s1;
        let (s2, o) := r in
        match o with
        | RResp _ => attempts_r sh srv more lenp s2 (out, e)
        (* if rerr != nil { if resp != nil && resp.Body != nil { resp.Body.Close() }; return n, ... }:
           resp.Body is the reader itself when the body was installed, the raw body otherwise
           (then r.body is the previous one, closed when reset began) *)
        | RFail => Ok (if fail_closes sh then close_r s2 else s2, (out, EFail))
        end
      else Ok (s1, (out, EFail))
    end
  end.

Definition read_call_r (sh : shape) (srv : server_r) (sched : list bool) (s : st_r) (lenp : nat)
  : res (st_r * (list N * err)) :=
  do r <- attempts_r sh srv sched lenp s ([], ENone);
  let '(s', (out, e)) := r in
  Ok ({| rprogress := rprogress s' + List.length out; rbdy := rbdy s'; rreads := rreads s';
         rconns := rconns s'; rhdr := rhdr s'; rsent := rsent s' |}, (out, e)).

Definition init_r (rds : list rd_ev) (cns : list conn_ev) : st_r :=
  {| rprogress := 0; rbdy := {| rest := []; dead := true |}; rreads := rds; rconns := cns; rhdr := []; rsent := [] |}.

(* RoundTrip, then FetchPackage / fetchRepositoryIndex: an error, or any status
   but 200, ends the download before a byte is read *)
Definition open_r (sh : shape) (srv : server_r) (rds : list rd_ev) (cns : list conn_ev) : res (st_r * bool) :=
  do r <- reset_r sh srv (init_r rds cns);
  let (s, o) := r in Ok (s, match o with RResp SOk => true | _ => false end).

Fixpoint read_calls_r (sh : shape) (srv : server_r) (sched : list bool) (s : st_r) (bufs : list nat)
  : res (st_r * list (list N * err)) :=
  match bufs with
  | [] => Ok (s, [])
  | n :: more =>
    do r <- read_call_r sh srv sched s n;
    let (s1, o) := r in
    do r2 <- read_calls_r sh srv sched s1 more;
    let (s2, os) := r2 in
    Ok (s2, o :: os)
  end.

Definition session_r (sh : shape) (srv : server_r) (sched : list bool) rds cns (bufs : list nat)
  : res (option (st_r * list (list N * err))) :=
  do r <- open_r sh srv rds cns;
  let (s, ok) := r in
  if ok then do r2 <- read_calls_r sh srv sched s bufs; Ok (Some r2) else Ok None.

(* the Range values a request made at progress [p] is meant to carry *)
Definition range_values (p : nat) : list nat := match p with O => [] | _ => [p] end.
