(* C03 — executable model of pkg/apk/apk/version.go: ParseVersion,
   CompareVersions, includesVersion, versionDependency.satisfies,
   ResolvePackageNameVersionPin, ParsedConstraint.SatisfiedBy. No proofs. *)
From Apko Require Import Base.Prelude Base.Regex
  Generated.Regexes Generated.VersionConsts Generated.C03Version Generated.C03Ladders.
Local Open Scope string_scope. Open Scope Z_scope.

(* the Go struct Version, enum fields as their integer values *)
Record mver := {
  m_nums : list Z; m_letter : Z;
  m_pre : Z; m_pre_n : Z; m_post : Z; m_post_n : Z; m_rev : Z
}.

(* ---- byte-string helpers ------------------------------------------------- *)
Definition is_digit (c : N) : bool := ((48 <=? c) && (c <=? 57))%N.
Definition is_lower (c : N) : bool := ((97 <=? c) && (c <=? 122))%N.

Fixpoint span (p : N -> bool) (s : list N) : list N * list N :=
  match s with
  | c :: t => if p c then let (a, b) := span p t in (c :: a, b) else ([], s)
  | [] => ([], [])
  end.

Fixpoint strip_prefix (pre s : list N) : option (list N) :=
  match pre, s with
  | [], _ => Some s
  | x :: pre', y :: s' => if (x =? y)%N then strip_prefix pre' s' else None
  | _ :: _, [] => None
  end.

Definition digits_value (ds : list N) : Z :=
  fold_left (fun acc d => acc * 10 + (Z.of_N d - 48)) ds 0.

(* strconv.Atoi on a non-empty digit string: out of range above MaxInt64 *)
Definition max_int : Z := 9223372036854775807.
Definition atoi (ds : list N) : option Z :=
  let v := digits_value ds in if v <=? max_int then Some v else None.

(* ---- tokenizer (only consulted on strings the regex accepted) ------------- *)
(* (\.[0-9]+)* : fuel = remaining length *)
Fixpoint dotted (fuel : nat) (s : list N) : list (list N) * list N :=
  match fuel with
  | O => ([], s)
  | S f =>
    match s with
    | 46%N :: t =>
        let (ds, r) := span is_digit t in
        match ds with
        | [] => ([], s)
        | _ => let (more, r') := dotted f r in (ds :: more, r')
        end
    | _ => ([], s)
    end
  end.

(* first alternative of the table that prefixes s *)
Fixpoint take_suffix (table : list (string * Z)) (s : list N) : option (Z * list N) :=
  match table with
  | [] => None
  | (name, code) :: more =>
      match name with
      | EmptyString => take_suffix more s           (* the "" row = no suffix *)
      | _ => match strip_prefix (bytes_of_string name) s with
             | Some r => Some (code, r)
             | None => take_suffix more s
             end
      end
  end.

Definition lookup_empty (table : list (string * Z)) : Z :=
  match find (fun p => match fst p with EmptyString => true | _ => false end) table with
  | Some (_, c) => c | None => 0
  end.

Record fields := {
  f_first : list N; f_rest : list (list N); f_letter : Z;
  f_pre : Z; f_pre_digits : list N; f_post : Z; f_post_digits : list N; f_rev_digits : list N
}.

Definition tokenize_with (pre_table post_table : list (string * Z)) (s : list N) : fields :=
  let (d1, r1) := span is_digit s in
  let (ds, r2) := dotted (List.length r1) r1 in
  let (letter, r3) := match r2 with c :: t => if is_lower c then (Z.of_N c, t) else (0, r2) | [] => (0, r2) end in
  let '(pre, pd, r4) :=
    match take_suffix pre_table r3 with
    | Some (code, r) => let (d, r') := span is_digit r in (code, d, r')
    | None => (lookup_empty pre_table, [], r3)
    end in
  let '(post, qd, r5) :=
    match take_suffix post_table r4 with
    | Some (code, r) => let (d, r') := span is_digit r in (code, d, r')
    | None => (lookup_empty post_table, [], r4)
    end in
  let rd := match strip_prefix [45; 114]%N r5 with Some r => fst (span is_digit r) | None => [] end in
  {| f_first := d1; f_rest := ds; f_letter := letter; f_pre := pre; f_pre_digits := pd;
     f_post := post; f_post_digits := qd; f_rev_digits := rd |}.

Definition tokenize := tokenize_with pre_suffix_table post_suffix_table.

Definition atoi_opt (ds : list N) : option Z :=     (* "" means absent: 0 *)
  match ds with [] => Some 0 | _ => atoi ds end.

Fixpoint atoi_all (l : list (list N)) : option (list Z) :=
  match l with
  | [] => Some []
  | ds :: t => match atoi ds, atoi_all t with Some v, Some vs => Some (v :: vs) | _, _ => None end
  end.

Definition version_of_fields (f : fields) : option mver :=
  match atoi (f_first f), atoi_all (f_rest f), atoi_opt (f_pre_digits f), atoi_opt (f_post_digits f), atoi_opt (f_rev_digits f) with
  | Some n0, Some ns, Some pn, Some qn, Some rv =>
      Some {| m_nums := n0 :: ns; m_letter := f_letter f; m_pre := f_pre f; m_pre_n := pn;
              m_post := f_post f; m_post_n := qn; m_rev := rv |}
  | _, _, _, _, _ => None
  end.

Definition parse_version (s : string) : option mver :=
  if full_match version_regex s then version_of_fields (tokenize (bytes_of_string s)) else None.

(* ---- CompareVersions: the if-ladder ------------------------------------- *)
Fixpoint cmp_numbers (a b : list Z) : option Z :=      (* the for loop; None = fell through *)
  match a, b with
  | x :: a', y :: b' =>
      if x >? y then Some cmp_greater else if x <? y then Some cmp_less else cmp_numbers a' b'
  | _, _ => None
  end.

Definition ladder (x y : Z) (k : Z) : Z :=
  if x >? y then cmp_greater else if x <? y then cmp_less else k.

(* struct fields by their Go names *)
Definition field_of (f : string) (m : mver) : Z :=
  if String.eqb f "letter" then m_letter m
  else if String.eqb f "preSuffix" then m_pre m
  else if String.eqb f "preSuffixNumber" then m_pre_n m
  else if String.eqb f "postSuffix" then m_post m
  else if String.eqb f "postSuffixNumber" then m_post_n m
  else if String.eqb f "revision" then m_rev m
  else 0.
Definition slice_of (f : string) (m : mver) : list Z :=
  if String.eqb f "numbers" then m_nums m else [].
Definition zlen (l : list Z) : Z := Z.of_nat (List.length l).
Definition map_value (from to x : Z) : Z := if x =? from then to else x.

(* CompareVersions = the rungs goextract recognised in the source, in source
   order (Generated.C03Ladders.compare_ladder), ending in "return equal" *)
Fixpoint interp_compare (rs : list rung) (a r : mver) : Z :=
  match rs with
  | [] => cmp_equal
  | RLoopNums f :: rest =>
      match cmp_numbers (slice_of f a) (slice_of f r) with
      | Some c => c
      | None => interp_compare rest a r
      end
  | RLen f :: rest => ladder (zlen (slice_of f a)) (zlen (slice_of f r)) (interp_compare rest a r)
  | RField f :: rest => ladder (field_of f a) (field_of f r) (interp_compare rest a r)
  | RMapped f from to :: rest =>
      ladder (map_value from to (field_of f a)) (map_value from to (field_of f r)) (interp_compare rest a r)
  end.

Definition compare_versions (a r : mver) : Z := interp_compare compare_ladder a r.

(* ---- includesVersion: the guards goextract recognised, in source order ----- *)
(* for i := 0; i < len(r); i++ { if a[i] != r[i] { return false } } ; None = index out of range *)
Fixpoint loop_prefix (r a : list Z) : option bool :=
  match r, a with
  | [], _ => Some true
  | _ :: _, [] => None
  | x :: r', y :: a' => if x =? y then loop_prefix r' a' else Some false
  end.

Fixpoint interp_includes (rs : list irung) (a r : mver) : option bool :=
  match rs with
  | [] => Some true
  | ILenLt f :: rest =>
      if zlen (slice_of f a) <? zlen (slice_of f r) then Some false else interp_includes rest a r
  | ILoopPrefix f :: rest =>
      match loop_prefix (slice_of f r) (slice_of f a) with
      | None => None
      | Some false => Some false
      | Some true => interp_includes rest a r
      end
  | ILenGt f :: rest =>
      if zlen (slice_of f a) >? zlen (slice_of f r) then Some true else interp_includes rest a r
  | IFieldIfSet f zero :: rest =>
      if negb (field_of f r =? zero) && negb (field_of f a =? field_of f r) then Some false
      else interp_includes rest a r
  end.

(* None = the Go code would panic (index out of range) *)
Definition includes_version_res (a r : mver) : option bool := interp_includes includes_ladder a r.
Definition includes_version (a r : mver) : bool :=
  match includes_version_res a r with Some b => b | None => false end.

(* ---- versionDependency.satisfies ------------------------------------------ *)
Definition satisfies (dep : Z) (a r : mver) : bool :=
  if dep =? dep_versionTilde then includes_version a r
  else
    let c := compare_versions a r in
    match find (fun row => fst row =? dep) satisfies_table with
    | Some (_, accepted) => existsb (fun x => x =? c) accepted
    | None => false
    end.

(* ---- ResolvePackageNameVersionPin ----------------------------------------- *)
Record constraint := { c_name : string; c_version : string; c_dep : Z; c_pin : string }.

Definition is_opchar (c : N) : bool := ((c =? 61) || (c =? 62) || (c =? 60) || (c =? 126))%N.   (* = > < ~ *)
Definition is_namechar (c : N) : bool := negb (is_opchar c) && negb (c =? 64)%N.
Definition not_at (c : N) : bool := negb (c =? 64)%N.

(* unanchored search for a regex of the form  r $  *)
Definition search_suffix (r : re) (s : list N) : bool :=
  match strip_eot r with
  | Some r' => if no_anchor r' then matches (Cat (Star (Cls [(0, 255)]%N)) r') s else false
  | None => false
  end.

(* strings.Cut(s, sep) for a one-byte separator *)
Fixpoint cut_byte (b : N) (s : list N) : option (list N * list N) :=
  match s with
  | [] => None
  | c :: t => if (c =? b)%N then Some ([], t)
              else match cut_byte b t with Some (x, y) => Some (c :: x, y) | None => None end
  end.
Definition cut_eq : list N -> option (list N * list N) := cut_byte 61.

Definition byte_in (chars : string) (c : N) : bool := existsb (N.eqb c) (bytes_of_string chars).

(* the so: block of ResolvePackageNameVersionPin, by the shape goextract read from the source
   (Generated.C03Version.so_rewrite_shape):
   SoOperatorRun chars ins (since fix C03-F2, commit 0f275a6): i := strings.IndexAny(pkgName, chars); j := end of the run of
     such characters starting at i; unless pkgName[j:] ends in a release suffix, pkgName = pkgName[:j] + ins + pkgName[j:];
   SoCutAt sep ins (before): name, v, found := strings.Cut(pkgName, sep); unless v ends in a release suffix,
     pkgName = name + ins + v. *)
Definition so_rewrite_with (shape : so_shape) (s : list N) : list N :=
  match strip_prefix (bytes_of_string "so:") s with
  | None => s
  | Some _ =>
      match shape with
      | SoOperatorRun chars ins =>
          let (name, r1) := span (fun c => negb (byte_in chars c)) s in
          let (ops, v) := span (byte_in chars) r1 in
          match ops with
          | [] => s
          | _ => if search_suffix ends_with_release_re v then s
                 else name ++ ops ++ bytes_of_string ins ++ v
          end
      | SoCutAt sep ins =>
          match (match bytes_of_string sep with [b] => cut_byte b s | _ => None end) with
          | Some (name, v) =>
              if search_suffix ends_with_release_re v then s
              else name ++ bytes_of_string ins ++ v
          | None => s
          end
      end
  end.

Definition so_rewrite : list N -> list N := so_rewrite_with so_rewrite_shape.

(* sub-match boundaries of packageNameRegex on a string it accepts: the name is
   the maximal run of name characters; the operator run is maximal unless that
   would leave the version empty, in which case it gives up its last character;
   the version runs to the first '@' *)
Definition split_constraint (s : list N) : list N * list N * list N * list N :=
  let (name, r1) := span is_namechar s in
  let (ops, r2) := span is_opchar r1 in
  let (v, r3) := span not_at r2 in
  let '(ops', v') :=
    match ops, v with
    | [], _ => ([], [])                       (* no operator group at all *)
    | _, _ :: _ => (ops, v)
    | _, [] => (removelast ops, match rev ops with c :: _ => [c] | [] => [] end)
    end in
  let pin := match r3 with _ :: p => p | [] => [] end in
  (name, ops', v', pin).

Definition dep_of_matcher (m : string) : Z :=
  match find (fun row => String.eqb (fst row) m) matcher_table with
  | Some (_, c) => c
  | None => matcher_default
  end.

Definition resolve_constraint (s0 : string) : constraint :=
  let s := so_rewrite (bytes_of_string s0) in
  let str := string_of_bytes s in
  if full_match package_name_regex str then
    let '(name, ops, v, pin) := split_constraint s in
    {| c_name := string_of_bytes name; c_version := string_of_bytes v;
       c_dep := match ops with [] => dep_versionAny | _ => dep_of_matcher (string_of_bytes ops) end;
       c_pin := string_of_bytes pin |}
  else {| c_name := str; c_version := ""; c_dep := dep_versionAny; c_pin := "" |}.

(* ParsedConstraint.SatisfiedBy: None = the error result *)
Definition satisfied_by (c : constraint) (v : mver) : option bool :=
  match c_version c with
  | EmptyString => Some true
  | _ => match parse_version (c_version c) with
         | Some pv => Some (satisfies (c_dep c) v pv)
         | None => None
         end
  end.
