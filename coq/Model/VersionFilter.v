(* filterPackages (pkg/apk/apk/version.go) seen by ONE candidate that is neither
   disqualified nor pinned: the operator dispatch the resolver uses when it asks
   "which packages answer this versioned constraint".  The candidate passes by its
   own version or by the version of one of its provides (the loop does not look at
   the provide's name: the candidates were looked up by that name).  Executable,
   no proofs here; compared with the real function by the C03 `filter` stage. *)
From Apko Require Import Base.Prelude Model.Version Generated.VersionConsts.
Open Scope string_scope. Open Scope list_scope. Open Scope Z_scope.

Definition prov_version_passes (dep : Z) (req : mver) (prov : string) : bool :=
  let pv := c_version (resolve_constraint prov) in
  if String.eqb pv "" then false
  else match parse_version pv with
       | Some b => satisfies dep b req
       | None => false                       (* "again, we skip invalid ones" *)
       end.

Definition filter_one (c : constraint) (ver : string) (provs : list string) : bool :=
  if c_dep c =? dep_versionAny then true
  else match parse_version (c_version c) with
       | None => false                       (* required version invalid: `return nil` *)
       | Some req =>
           match parse_version ver with
           | None => false                   (* "skip invalid ones" *)
           | Some a => satisfies (c_dep c) a req || existsb (prov_version_passes (c_dep c) req) provs
           end
       end.
