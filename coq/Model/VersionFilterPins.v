(* filterPackages (pkg/apk/apk/version.go) as the whole loop over a candidate LIST, with the disqualification map, the two
   pins (allowPin / preferPin) and the installed package: Model/VersionFilter.v (one candidate, neither disqualified nor
   pinned) extended by everything else the function looks at.  A candidate's URL (RepositoryPackage.URL()) and that of the
   installed package are inputs here (observed by the harness, not computed).  Executable, no proofs; compared with the real
   function by the C03 `pins` stage through the hook VerifFilterList. *)
From Apko Require Import Base.Prelude Model.Version Model.VersionFilter Generated.VersionConsts.
Open Scope string_scope. Open Scope list_scope. Open Scope Z_scope.

Record fcand := {
  fc_id : N;                 (* position in the list handed to filterPackages *)
  fc_ver : string; fc_provs : list string;
  fc_url : string;           (* pkg.URL() *)
  fc_pinned : string;        (* pinnedName, "" = not pinned *)
  fc_dq : bool               (* is a key of the dq map *)
}.

Record fpins := { fp_allow : string; fp_prefer : string; fp_installed : option string (* installed.URL() *) }.

(* (pkg.pinnedName != "" && pkg.pinnedName != o.allowPin && pkg.pinnedName != o.preferPin) &&
   (o.installed == nil || installedURL != pkg.URL()) *)
Definition pin_rejects (o : fpins) (k : fcand) : bool :=
  (negb (String.eqb (fc_pinned k) "") && negb (String.eqb (fc_pinned k) (fp_allow o)) &&
   negb (String.eqb (fc_pinned k) (fp_prefer o))) &&
  match fp_installed o with
  | None => true
  | Some u => negb (String.eqb u (fc_url k))
  end.

(* the loop; None = `return nil` (the required version does not parse, met at the first candidate that gets that far) *)
Fixpoint filter_loop (c : constraint) (o : fpins) (cands : list fcand) : option (list fcand) :=
  match cands with
  | [] => Some []
  | k :: t =>
      let keep := match filter_loop c o t with Some l => Some (k :: l) | None => None end in
      if fc_dq k then filter_loop c o t
      else if pin_rejects o k then filter_loop c o t
      else if c_dep c =? dep_versionAny then keep
      else match parse_version (c_version c) with
           | None => None
           | Some req =>
               match parse_version (fc_ver k) with
               | None => filter_loop c o t
               | Some a =>
                   if satisfies (c_dep c) a req || existsb (prov_version_passes (c_dep c) req) (fc_provs k)
                   then keep else filter_loop c o t
               end
           end
  end.

Definition filter_list (c : constraint) (o : fpins) (cands : list fcand) : list fcand :=
  match filter_loop c o cands with Some l => l | None => [] end.
