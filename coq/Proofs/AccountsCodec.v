(* C13 — the passwd/group text codec of Model/Accounts.v round-trips:
   reading back what was written gives the entries again, for fields free of
   the separator and of newlines. *)
From Apko Require Import Base.Prelude Model.C13Fs Model.Accounts Generated.C13Consts.
From Coq Require Import DecimalString DecimalN DecimalPos.
Open Scope string_scope. Open Scope list_scope.

(* ---- characters in strings ---------------------------------------------------- *)
Fixpoint has_char (c : ascii) (s : string) : bool :=
  match s with EmptyString => false | String a s' => Ascii.eqb a c || has_char c s' end.

Lemma has_char_app : forall c a b, has_char c (a ++ b)%string = has_char c a || has_char c b.
Proof. induction a as [|x a IH]; intro b; simpl; [reflexivity|]. rewrite IH, orb_assoc. reflexivity. Qed.

Lemma split_on_nonnil : forall c s, split_on c s <> [].
Proof. destruct s as [|a s]; simpl; [discriminate|]. destruct (Ascii.eqb a c); [discriminate|]. destruct (split_on c s); discriminate. Qed.

Lemma split_on_no_sep : forall c s, has_char c s = false -> split_on c s = [s].
Proof.
  induction s as [|a s IH]; simpl; intro H; [reflexivity|].
  apply orb_false_iff in H. destruct H as [H1 H2]. rewrite H1, (IH H2). reflexivity.
Qed.
Lemma split_on_app_sep : forall c a b, has_char c a = false ->
  split_on c (a ++ String c b)%string = a :: split_on c b.
Proof.
  induction a as [|x a IH]; simpl; intros b H.
  - rewrite Ascii.eqb_refl. reflexivity.
  - apply orb_false_iff in H. destruct H as [H1 H2]. rewrite H1, (IH b H2). reflexivity.
Qed.

Lemma append_nil_r : forall s, (s ++ "")%string = s.
Proof. induction s; simpl; congruence. Qed.
Lemma append_assoc : forall a b c, ((a ++ b) ++ c)%string = (a ++ (b ++ c))%string.
Proof. induction a; simpl; intros; congruence. Qed.

(* ---- TrimSpace is the identity on lines that neither start nor end with a space *)
Definition starts_space (s : string) : bool := match s with String a _ => ascii_space a | _ => false end.
Fixpoint ends_space (s : string) : bool :=
  match s with
  | EmptyString => false
  | String a EmptyString => ascii_space a
  | String _ s' => ends_space s'
  end.

Lemma trim_left_id : forall s, starts_space s = false -> trim_left s = s.
Proof. destruct s as [|a s]; simpl; intro H; [reflexivity|]. rewrite H. reflexivity. Qed.
Lemma trim_right_id : forall s, ends_space s = false -> trim_right s = s.
Proof.
  induction s as [|a s IH]; [reflexivity|]. intro H. simpl.
  destruct s as [|b s].
  - simpl in *. rewrite H. reflexivity.
  - assert (Hs : ends_space (String b s) = false) by exact H.
    rewrite (IH Hs). reflexivity.
Qed.
Lemma trim_space_id : forall s, starts_space s = false -> ends_space s = false -> trim_space s = s.
Proof. intros s H1 H2. unfold trim_space. rewrite (trim_left_id s H1). apply trim_right_id, H2. Qed.

Lemma ends_space_app : forall a b, b <> "" -> ends_space (a ++ b)%string = ends_space b.
Proof.
  induction a as [|x a IH]; intros b Hb; [reflexivity|]. simpl.
  destruct (a ++ b)%string eqn:E.
  - destruct a; simpl in E; [congruence | discriminate].
  - rewrite <- E. apply IH, Hb.
Qed.
Lemma drop_cr_id : forall s, ends_space s = false -> drop_cr s = s.
Proof.
  induction s as [|a s IH]; [reflexivity|]. intro H. simpl. destruct s as [|b s].
  - simpl in H. destruct (Ascii.eqb_spec a cr) as [->|]; [discriminate H | reflexivity].
  - rewrite (IH H). reflexivity.
Qed.

(* ---- decimal numbers ------------------------------------------------------------ *)
Lemma dec_nonnil : forall n, N.to_uint n <> Decimal.Nil.
Proof. destruct n; simpl; [discriminate | apply Unsigned.to_uint_nonnil]. Qed.

Lemma atoi_dec : forall n, (n < 4294967296)%N -> atoi_u32 (dec n) = Some n.
Proof.
  intros n Hn. unfold atoi_u32, dec.
  pose proof (dec_nonnil n) as Hnn. pose proof (NilEmpty.usu (N.to_uint n)) as Hu.
  destruct (N.to_uint n) eqn:E; try contradiction; cbn [NilEmpty.string_of_uint] in *;
    rewrite Hu; cbn match; rewrite <- E, DecimalN.Unsigned.of_to;
    (replace (n <=? int64_max)%N with true by (symmetry; apply N.leb_le; unfold int64_max; lia));
    rewrite N.mod_small by lia; reflexivity.
Qed.

Lemma dec_digits : forall n, has_char ":"%char (dec n) = false /\ has_char nl (dec n) = false /\
                             starts_space (dec n) = false /\ dec n <> "".
Proof.
  intro n. unfold dec. pose proof (dec_nonnil n) as Hnn.
  assert (G : forall d, has_char ":"%char (NilEmpty.string_of_uint d) = false /\ has_char nl (NilEmpty.string_of_uint d) = false).
  { induction d; simpl; auto. }
  destruct (G (N.to_uint n)) as [G1 G2]. repeat split; auto.
  - destruct (N.to_uint n); try contradiction; reflexivity.
  - destruct (N.to_uint n); try contradiction; discriminate.
Qed.

(* ---- one passwd line -------------------------------------------------------------- *)
Definition field_ok (s : string) : bool := negb (has_char ":"%char s) && negb (has_char nl s).

Definition user_line (e : user_entry) : string :=
  (ue_name e ++ ":" ++ ue_pw e ++ ":" ++ dec (ue_uid e) ++ ":" ++ dec (ue_gid e) ++ ":" ++
   ue_info e ++ ":" ++ ue_home e ++ ":" ++ ue_shell e)%string.
Lemma write_user_line : forall e, write_user e = (user_line e ++ String nl "")%string.
Proof.
  intro e. unfold write_user, user_line. change passwd_format with "%s:%s:%d:%d:%s:%s:%s
".
  cbn [sprintf Ascii.eqb Bool.eqb orb show_arg]. simpl.
  repeat (rewrite ?append_assoc; simpl). reflexivity.
Qed.

Definition wf_user (e : user_entry) : bool :=
  field_ok (ue_name e) && field_ok (ue_pw e) && field_ok (ue_info e) && field_ok (ue_home e) && field_ok (ue_shell e) &&
  negb (starts_space (ue_name e)) && negb (ends_space (ue_shell e)) &&
  (ue_uid e <? 4294967296)%N && (ue_gid e <? 4294967296)%N &&
  Nat.ltb (String.length (user_line e)) line_limit.

Ltac break_wf H :=
  unfold wf_user, field_ok in H;
  repeat (let K := fresh "W" in apply andb_true_iff in H; destruct H as [H K]);
  repeat match goal with X : _ && _ = true |- _ => let K := fresh "V" in apply andb_true_iff in X; destruct X as [X K] end;
  repeat match goal with X : negb _ = true |- _ => apply negb_true_iff in X end.
Ltac colons :=
  repeat match goal with |- context [(":" ++ ?x)%string] => change (":" ++ x)%string with (String ":"%char x) end.

Lemma field_ok_inv : forall s, field_ok s = true -> has_char ":"%char s = false /\ has_char nl s = false.
Proof. intros s H. unfold field_ok in H. apply andb_true_iff in H. destruct H as [A B]. apply negb_true_iff in A, B. auto. Qed.

Lemma colon_not_space : ascii_space ":"%char = false. Proof. reflexivity. Qed.

Lemma starts_space_app : forall a b, starts_space (a ++ b)%string = if String.eqb a "" then starts_space b else starts_space a.
Proof. destruct a; reflexivity. Qed.

Lemma user_line_trim : forall e, wf_user e = true -> trim_space (user_line e) = user_line e.
Proof.
  intros e H. unfold wf_user in H. repeat (apply andb_true_iff in H; destruct H as [H ?]).
  apply trim_space_id.
  - unfold user_line. rewrite starts_space_app. destruct (String.eqb (ue_name e) ""); [reflexivity|].
    apply negb_true_iff. assumption.
  - unfold user_line.
    repeat (rewrite ends_space_app; [|solve [discriminate | destruct (dec_digits (ue_uid e)) as (_&_&_&?); destruct (dec (ue_uid e)); [congruence|discriminate]
                                            | destruct (dec_digits (ue_gid e)) as (_&_&_&?); destruct (dec (ue_gid e)); [congruence|discriminate]
                                            | destruct (ue_pw e); discriminate | destruct (ue_info e); discriminate | destruct (ue_home e); discriminate]]).
    destruct (ue_shell e) as [|a s] eqn:E; [reflexivity|].
    change (":" ++ String a s)%string with (String ":"%char (String a s)).
    change (ends_space (String ":"%char (String a s))) with (ends_space (String a s)).
    apply negb_true_iff. assumption.
Qed.

Lemma user_line_split : forall e, wf_user e = true ->
  split_on ":"%char (user_line e) =
  [ue_name e; ue_pw e; dec (ue_uid e); dec (ue_gid e); ue_info e; ue_home e; ue_shell e].
Proof.
  intros e H. break_wf H.
  destruct (dec_digits (ue_uid e)) as (U1 & _). destruct (dec_digits (ue_gid e)) as (G1 & _).
  unfold user_line. colons.
  repeat (rewrite split_on_app_sep by assumption).
  rewrite split_on_no_sep by assumption. reflexivity.
Qed.

Lemma parse_user_line : forall e, wf_user e = true -> parse_user (user_line e) = Some e.
Proof.
  intros e H. unfold parse_user. change (sep_char passwd_sep) with ":"%char.
  rewrite (user_line_trim e H), (user_line_split e H).
  change (negb (N.eqb passwd_fields 7)) with false. cbn match.
  unfold wf_user in H. repeat (apply andb_true_iff in H; destruct H as [H ?]).
  rewrite !atoi_dec by (apply N.ltb_lt; assumption).
  destruct e; reflexivity.
Qed.

(* ---- the whole file ------------------------------------------------------------------ *)
Lemma concat_cons : forall x xs, String.concat "" (x :: xs) = (x ++ String.concat "" xs)%string.
Proof. intros x [|y ys]; simpl; [symmetry; apply append_nil_r | reflexivity]. Qed.

Lemma split_lines_written : forall (lines : list string),
  Forall (fun l => has_char nl l = false) lines ->
  split_on nl (String.concat "" (List.map (fun l => (l ++ String nl "")%string) lines)) = lines ++ [""].
Proof.
  induction lines as [|l t IH]; intro H; [reflexivity|].
  inversion H; subst. cbn [List.map]. rewrite concat_cons, append_assoc.
  change (String nl "" ++ ?x)%string with (String nl x).
  rewrite split_on_app_sep by assumption. rewrite IH by assumption. reflexivity.
Qed.

Lemma scan_lines_written : forall lines,
  Forall (fun l => has_char nl l = false /\ ends_space l = false) lines ->
  scan_lines (String.concat "" (List.map (fun l => (l ++ String nl "")%string) lines)) = lines.
Proof.
  intros lines H. unfold scan_lines.
  rewrite split_lines_written by (eapply Forall_impl; [|exact H]; intros a [A _]; exact A).
  rewrite rev_app_distr. cbn [rev app]. rewrite rev_involutive.
  induction lines as [|l t IH]; [reflexivity|]. inversion H as [|? ? [_ Hl] Ht]; subst.
  cbn [List.map]. rewrite (drop_cr_id l Hl), (IH Ht). reflexivity.
Qed.

Lemma has_nl_user_line : forall e, wf_user e = true -> has_char nl (user_line e) = false /\ ends_space (user_line e) = false.
Proof.
  intros e H. split.
  - break_wf H.
    destruct (dec_digits (ue_uid e)) as (_ & U & _). destruct (dec_digits (ue_gid e)) as (_ & G & _).
    unfold user_line. rewrite !has_char_app.
    repeat match goal with X : has_char nl _ = false |- _ => rewrite X; clear X end. reflexivity.
  - pose proof (user_line_trim e H) as T. unfold trim_space in T.
    (* trim is the identity, so the line does not end with a space *)
    destruct (ends_space (user_line e)) eqn:E; [|reflexivity]. exfalso.
    assert (G : forall s, ends_space s = true -> trim_right s <> s).
    { induction s as [|a s IHs]; [discriminate|]. intro Hs. simpl. destruct s as [|b s].
      - simpl in Hs. rewrite Hs. discriminate.
      - specialize (IHs Hs). destruct (trim_right (String b s)) eqn:R.
        + destruct (ascii_space a); discriminate.
        + intro K. inversion K. apply IHs. congruence. }
    assert (L : trim_left (user_line e) = user_line e).
    { apply trim_left_id. break_wf H.
      unfold user_line. rewrite starts_space_app. destruct (String.eqb (ue_name e) ""); [reflexivity|].
      assumption. }
    rewrite L in T. exact (G _ E T).
Qed.

Lemma write_users_lines : forall es,
  write_users es = String.concat "" (List.map (fun l => (l ++ String nl "")%string) (List.map user_line es)).
Proof.
  intro es. unfold write_users. rewrite List.map_map. f_equal. apply List.map_ext. intro e. apply write_user_line.
Qed.

Theorem parse_write_users : forall es, forallb wf_user es = true -> parse_users (write_users es) = Some es.
Proof.
  intros es H. unfold parse_users. rewrite write_users_lines, scan_lines_written.
  - induction es as [|e t IH]; [reflexivity|]. cbn [forallb] in H. apply andb_true_iff in H. destruct H as [He Ht].
    cbn [List.map parse_lines].
    assert (Hl : Nat.leb line_limit (String.length (user_line e)) = false).
    { unfold wf_user in He. repeat (apply andb_true_iff in He; destruct He as [He ?]).
      apply Nat.leb_gt. apply Nat.ltb_lt. assumption. }
    rewrite Hl, (parse_user_line e He), (IH Ht). reflexivity.
  - apply Forall_forall. intros l Hin. apply in_map_iff in Hin. destruct Hin as (e & <- & Hin).
    apply has_nl_user_line. rewrite forallb_forall in H. auto.
Qed.

(* ---- groups ------------------------------------------------------------------------- *)
Definition comma : ascii := ","%char.
(* since fix 4aa2cd2 an empty member field is read as NO members; the one list
   that does not come back as written is the single empty member [""] *)
Definition norm_members (ms : list string) : list string := if String.eqb (join "," ms) "" then [] else ms.
Definition norm_group (e : group_entry) : group_entry := mkGE (ge_name e) (ge_pw e) (ge_gid e) (norm_members (ge_members e)).

Lemma join_has_char : forall c ms, c <> comma -> forallb (fun m => negb (has_char c m)) ms = true ->
  has_char c (join "," ms) = false.
Proof.
  intros c ms Hc. induction ms as [|m t IH]; intro H; [reflexivity|].
  cbn [forallb] in H. apply andb_true_iff in H. destruct H as [Hm Ht]. apply negb_true_iff in Hm.
  destruct t as [|m' t']; [exact Hm|].
  change (join "," (m :: m' :: t')) with (m ++ "," ++ join "," (m' :: t'))%string.
  rewrite !has_char_app, Hm, (IH Ht). cbn [has_char orb].
  destruct (Ascii.eqb_spec ","%char c) as [E|E]; [exfalso; apply Hc; symmetry; exact E | reflexivity].
Qed.

Lemma split_join : forall ms, ms <> [] -> forallb (fun m => negb (has_char comma m)) ms = true ->
  split_on comma (join "," ms) = ms.
Proof.
  induction ms as [|m t IH]; intros Hne H; [contradiction|].
  cbn [forallb] in H. apply andb_true_iff in H. destruct H as [Hm Ht]. apply negb_true_iff in Hm.
  destruct t as [|m' t'].
  - simpl. apply split_on_no_sep, Hm.
  - change (join "," (m :: m' :: t')) with (m ++ String comma (join "," (m' :: t')))%string.
    rewrite split_on_app_sep by exact Hm. rewrite IH; [reflexivity | discriminate | exact Ht].
Qed.
Lemma split_join_norm : forall ms, forallb (fun m => negb (has_char comma m)) ms = true ->
  (if String.eqb (join "," ms) "" then [] else split_on comma (join "," ms)) = norm_members ms.
Proof.
  intros ms H. unfold norm_members. destruct (String.eqb (join "," ms) "") eqn:E; [reflexivity|].
  destruct ms as [|m t]; [discriminate E|]. apply split_join; [discriminate | exact H].
Qed.
Lemma join_empty : forall ms, join "," ms = "" -> ms = [] \/ ms = [""].
Proof.
  intros [|m [|m' t]] H; auto.
  - right. simpl in H. rewrite H. reflexivity.
  - exfalso. change (join "," (m :: m' :: t)) with (m ++ "," ++ join "," (m' :: t))%string in H.
    destruct m; discriminate H.
Qed.
Lemma norm_members_id : forall ms, ms <> [""] -> norm_members ms = ms.
Proof.
  intros ms H. unfold norm_members. destruct (String.eqb_spec (join "," ms) "") as [E|E]; [|reflexivity].
  destruct (join_empty ms E) as [->| ->]; [reflexivity | contradiction].
Qed.

Definition group_line (e : group_entry) : string :=
  (ge_name e ++ ":" ++ ge_pw e ++ ":" ++ dec (ge_gid e) ++ ":" ++ join "," (ge_members e))%string.
Lemma write_group_line : forall e, write_group e = (group_line e ++ String nl "")%string.
Proof.
  intro e. unfold write_group, group_line. change group_format with "%s:%s:%d:%s
". change members_sep with ",".
  cbn [sprintf Ascii.eqb Bool.eqb orb show_arg]. simpl.
  repeat (rewrite ?append_assoc; simpl). reflexivity.
Qed.

Definition member_ok (m : string) : bool :=
  negb (has_char ":"%char m) && negb (has_char nl m) && negb (has_char comma m).
Definition wf_group (e : group_entry) : bool :=
  field_ok (ge_name e) && field_ok (ge_pw e) && forallb member_ok (ge_members e) &&
  negb (starts_space (ge_name e)) && negb (ends_space (join "," (ge_members e))) &&
  (ge_gid e <? 4294967296)%N && Nat.ltb (String.length (group_line e)) line_limit.

Lemma members_ok_inv : forall ms, forallb member_ok ms = true ->
  forallb (fun m => negb (has_char ":"%char m)) ms = true /\
  forallb (fun m => negb (has_char nl m)) ms = true /\
  forallb (fun m => negb (has_char comma m)) ms = true.
Proof.
  induction ms as [|m t IH]; intro H; [auto|]. cbn [forallb] in *. apply andb_true_iff in H. destruct H as [Hm Ht].
  unfold member_ok in Hm. apply andb_true_iff in Hm. destruct Hm as [Hm C]. apply andb_true_iff in Hm. destruct Hm as [A B].
  destruct (IH Ht) as (I1 & I2 & I3). rewrite A, B, C, I1, I2, I3. auto.
Qed.

Ltac break_wfg H :=
  unfold wf_group, field_ok in H;
  repeat (let K := fresh "W" in apply andb_true_iff in H; destruct H as [H K]);
  repeat match goal with X : _ && _ = true |- _ => let K := fresh "V" in apply andb_true_iff in X; destruct X as [X K] end;
  repeat match goal with X : negb _ = true |- _ => apply negb_true_iff in X end.

Lemma group_line_facts : forall e, wf_group e = true ->
  trim_space (group_line e) = group_line e /\
  split_on ":"%char (group_line e) = [ge_name e; ge_pw e; dec (ge_gid e); join "," (ge_members e)] /\
  has_char nl (group_line e) = false /\ ends_space (group_line e) = false.
Proof.
  intros e H. break_wfg H.
  match goal with X : forallb member_ok _ = true |- _ => destruct (members_ok_inv _ X) as (M1 & M2 & M3) end.
  destruct (dec_digits (ge_gid e)) as (D1 & D2 & _ & D4).
  assert (J1 : has_char ":"%char (join "," (ge_members e)) = false) by (apply join_has_char; [discriminate | exact M1]).
  assert (J2 : has_char nl (join "," (ge_members e)) = false) by (apply join_has_char; [discriminate | exact M2]).
  assert (E : ends_space (group_line e) = false).
  { unfold group_line.
    repeat (rewrite ends_space_app; [|solve [discriminate | destruct (dec (ge_gid e)); [congruence|discriminate] | destruct (ge_pw e); discriminate]]).
    destruct (join "," (ge_members e)) as [|a s] eqn:EJ; [reflexivity|].
    change (":" ++ String a s)%string with (String ":"%char (String a s)).
    change (ends_space (String ":"%char (String a s))) with (ends_space (String a s)). assumption. }
  split; [|split; [|split]]; auto.
  - apply trim_space_id; [|exact E]. unfold group_line. rewrite starts_space_app.
    destruct (String.eqb (ge_name e) ""); [reflexivity | assumption].
  - unfold group_line. colons. repeat (rewrite split_on_app_sep by assumption).
    rewrite split_on_no_sep by assumption. reflexivity.
  - unfold group_line. rewrite !has_char_app.
    repeat match goal with X : has_char nl _ = false |- _ => rewrite X; clear X end. reflexivity.
Qed.

Lemma parse_group_line : forall e, wf_group e = true -> parse_group (group_line e) = Some (norm_group e).
Proof.
  intros e H. destruct (group_line_facts e H) as (T & S & _ & _).
  unfold parse_group. change (sep_char group_sep) with ":"%char. rewrite T, S.
  change (negb (N.eqb group_fields 4)) with false. cbn match.
  break_wfg H. rewrite atoi_dec by (apply N.ltb_lt; assumption).
  change (sep_char members_sep) with comma.
  match goal with X : forallb member_ok _ = true |- _ => destruct (members_ok_inv _ X) as (_ & _ & M3) end.
  change group_empty_members_nil with true. cbn [andb].
  rewrite (split_join_norm _ M3). reflexivity.
Qed.

Lemma write_groups_lines : forall es,
  write_groups es = String.concat "" (List.map (fun l => (l ++ String nl "")%string) (List.map group_line es)).
Proof.
  intro es. unfold write_groups. rewrite List.map_map. f_equal. apply List.map_ext. intro e. apply write_group_line.
Qed.

Theorem parse_write_groups : forall es, forallb wf_group es = true ->
  parse_groups (write_groups es) = Some (List.map norm_group es).
Proof.
  intros es H. unfold parse_groups. rewrite write_groups_lines, scan_lines_written.
  - induction es as [|e t IH]; [reflexivity|]. cbn [forallb] in H. apply andb_true_iff in H. destruct H as [He Ht].
    cbn [List.map parse_lines].
    assert (Hl : Nat.leb line_limit (String.length (group_line e)) = false).
    { pose proof He as He'. break_wfg He'. apply Nat.leb_gt. apply Nat.ltb_lt. assumption. }
    rewrite Hl, (parse_group_line e He), (IH Ht). reflexivity.
  - apply Forall_forall. intros l Hin. apply in_map_iff in Hin. destruct Hin as (e & <- & Hin).
    rewrite forallb_forall in H. destruct (group_line_facts e (H e Hin)) as (_ & _ & A & B). auto.
Qed.

(* entries produced from a configuration are well-formed when its fields are *)
Lemma wf_examples :
  wf_user (mkUE "app" "x" 4294967295 0 "Account created by apko" "/home/app" "/bin/sh") = true /\
  wf_group (mkGE "g" "x" 5 ["a"; "b"]) = true /\ wf_group (mkGE "h" "x" 6 []) = true.
Proof. repeat split; vm_compute; reflexivity. Qed.

(* the normalisation does not show in the written text *)
Lemma write_group_norm : forall e, write_group (norm_group e) = write_group e.
Proof.
  intros [n p g ms]. unfold write_group, norm_group. cbn [ge_name ge_pw ge_gid ge_members].
  unfold norm_members. destruct (String.eqb_spec (join "," ms) "") as [E|E]; [|reflexivity].
  change members_sep with ",". rewrite E. reflexivity.
Qed.
Lemma write_groups_norm : forall es, write_groups (List.map norm_group es) = write_groups es.
Proof.
  intro es. unfold write_groups. rewrite List.map_map. f_equal. apply List.map_ext. intro e. apply write_group_norm.
Qed.

(* what mutateAccounts writes is read back as the same entries: the old ones
   followed by the configured ones *)
Corollary reread_users : forall old users,
  forallb wf_user old = true -> forallb wf_user (List.map user_to_entry users) = true ->
  parse_users (write_users (old ++ List.map user_to_entry users)) = Some (old ++ List.map user_to_entry users).
Proof. intros old users H1 H2. apply parse_write_users. rewrite forallb_app, H1, H2. reflexivity. Qed.
Corollary reread_groups : forall old groups,
  forallb wf_group old = true -> forallb wf_group (List.map group_to_entry groups) = true ->
  parse_groups (write_groups (old ++ List.map group_to_entry groups)) =
    Some (List.map norm_group (old ++ List.map group_to_entry groups)).
Proof. intros old groups H1 H2. apply parse_write_groups. rewrite forallb_app, H1, H2. reflexivity. Qed.
