(* C13 — the home directories made by mutateAccounts, in full: the node Mkdir
   made IS what Stat(home) finds afterwards (0700, owned by the entry, empty);
   every other node the step added is a 0755 root-owned directory (the missing
   parents); nothing that was there before is changed, directories only gain
   entries. *)
From Apko Require Import Base.Prelude Model.C13Fs Model.Accounts Generated.C13Consts Spec.AccountsSpec
  Proofs.AccountsProofs Proofs.PathMutResolve.
Open Scope nat_scope. Open Scope string_scope. Open Scope list_scope.

(* Stat never says "does not exist" about the root *)
Lemma stat_notexist_nonroot : forall maxl f p, stat maxl f p = FNotExist -> p_comps p <> [].
Proof.
  intros maxl f p H E. unfold stat, gnode, gn in H. rewrite E, getnode_walk in H.
  cbn [walk_from fbind] in H. destruct (get f root_ino); discriminate H.
Qed.

Lemma home_path_shape : forall home, p_trail (home_path home) = false.
Proof. intro home. unfold home_path. change home_is_cleaned with true. reflexivity. Qed.

(* an absolute home: filepath.Clean leaves no "." / ".." *)
Lemma home_path_abs_tidy : forall home, is_abs home = true -> forallb tidy (p_comps (home_path home)) = true.
Proof.
  intros home H. unfold home_path. change home_is_cleaned with true. cbv iota.
  apply pclean_abs_tidy. unfold path_of. destruct (String.eqb_spec home ".") as [->|_]; [discriminate|]. exact H.
Qed.

Lemma chown_new_node : forall maxl f p i n u g f',
  gn maxl f p = FOk i -> get f i = Some n -> chown maxl f p u g = FOk f' ->
  f' = set_nth f i (with_owner n u g).
Proof.
  intros maxl f p i n u g f' Hg Hn H. unfold chown in H. rewrite Hg in H. simpl in H.
  unfold upd_res in H. rewrite Hn in H. inversion H. reflexivity.
Qed.

(* resolution is blind to mode and owner *)
Lemma getnode_set_owner : forall d f i n u g cs,
  get f i = Some n -> getnode d (set_nth f i (with_owner n u g)) cs = getnode d f cs.
Proof.
  intros d f i n u g cs Hn. rewrite !getnode_walk. revert cs. generalize root_ino. generalize (@nil string).
  revert d. induction d as [|d IHd].
  - intros trav cur cs. revert cur trav. induction cs as [|p ps IH]; intros cur trav; [reflexivity|]. simpl.
    assert (G : forall j, match get (set_nth f i (with_owner n u g)) j, get f j with
                          | Some a, Some b => nkind a = nkind b /\ ntarget a = ntarget b /\ nchildren a = nchildren b
                          | None, None => True | _, _ => False end).
    { intro j. destruct (Nat.eq_dec i j) as [<-|Hne].
      - rewrite (get_set_eq f i n _ Hn), Hn. repeat split.
      - rewrite (get_set_neq f i j _ Hne). destruct (get f j); [repeat split | exact I]. }
    pose proof (G cur) as Gc. destruct (get (set_nth f i (with_owner n u g)) cur) as [a|], (get f cur) as [b|]; try contradiction; [|reflexivity].
    destruct Gc as (_ & _ & Ec). rewrite Ec. destruct (lookup p (nchildren b)) as [c|]; [|reflexivity].
    pose proof (G c) as Gcc. destruct (get (set_nth f i (with_owner n u g)) c) as [ca|], (get f c) as [cb|]; try contradiction; [|reflexivity].
    destruct Gcc as (Ek & _ & _). rewrite Ek. destruct (nkind cb); auto.
  - intros trav cur cs. revert cur trav. induction cs as [|p ps IH]; intros cur trav; [reflexivity|]. simpl.
    assert (G : forall j, match get (set_nth f i (with_owner n u g)) j, get f j with
                          | Some a, Some b => nkind a = nkind b /\ ntarget a = ntarget b /\ nchildren a = nchildren b
                          | None, None => True | _, _ => False end).
    { intro j. destruct (Nat.eq_dec i j) as [<-|Hne].
      - rewrite (get_set_eq f i n _ Hn), Hn. repeat split.
      - rewrite (get_set_neq f i j _ Hne). destruct (get f j); [repeat split | exact I]. }
    pose proof (G cur) as Gc. destruct (get (set_nth f i (with_owner n u g)) cur) as [a|], (get f cur) as [b|]; try contradiction; [|reflexivity].
    destruct Gc as (_ & _ & Ec). rewrite Ec. destruct (lookup p (nchildren b)) as [c|]; [|reflexivity].
    pose proof (G c) as Gcc. destruct (get (set_nth f i (with_owner n u g)) c) as [ca|], (get f c) as [cb|]; try contradiction; [|reflexivity].
    destruct Gcc as (Ek & Et & _). rewrite Ek, Et. destruct (nkind cb); auto.
    rewrite !getnode_walk, IHd. destruct (walk_from d f root_ino [] (link_comps trav (ntarget cb))); auto.
Qed.

(* the missing-home case, in full *)
Theorem ensure_home_created : forall maxl f e f',
  let h := home_path (ue_home e) in
  ue_home e <> no_home -> forallb tidy (p_comps h) = true ->
  stat maxl f h = FNotExist -> ensure_home maxl f e = FOk f' ->
  exists i,
    (* Stat(home) finds the node Mkdir made: an empty 0700 directory owned by the entry *)
    (List.length f <= i)%nat /\ gn maxl f' h = FOk i /\
    stat maxl f' h = FOk (mkNode KDir home_perm (ue_uid e) (ue_gid e) "" "" [] "") /\
    (* nothing that existed is changed; directories only gain entries *)
    fs_ext f f' /\
    (* everything else that was added is a 0755 directory owned by root: the missing parents *)
    (forall j n, (List.length f <= j)%nat -> j <> i -> get f' j = Some n -> fresh_dir home_parent_perm n).
Proof.
  intros maxl f e f' h Hn Ht Hs H.
  destruct (ensure_home_missing maxl f e f' Hn Hs H) as (f1 & f2 & H1 & H2 & H3). fold h in H1, H2, H3.
  destruct (mkdirall_spec _ _ _ _ _ H1) as (E1 & L1 & N1).
  assert (Htr : p_trail h = false) by apply home_path_shape.
  assert (Hne : p_comps h <> []) by (eapply stat_notexist_nonroot; eauto).
  destruct (mkdir_spec _ _ _ _ _ Ht Htr Hne H2) as (E2 & L2 & G2 & N2).
  pose proof (chown_new_node _ _ _ _ _ _ _ _ G2 N2 H3) as Ef'. subst f'.
  exists (List.length f1). split; [exact L1|].
  assert (Gf : gn maxl (set_nth f2 (List.length f1) (with_owner (new_dir home_perm) (ue_uid e) (ue_gid e))) h = FOk (List.length f1)).
  { unfold gn. rewrite (getnode_set_owner _ _ _ _ _ _ _ N2). exact G2. }
  split; [exact Gf|]. split.
  - unfold stat, gnode. rewrite Gf. cbn [fbind]. rewrite (get_set_eq _ _ _ _ N2). reflexivity.
  - split.
    + intros j n Hj. destruct (E1 j n Hj) as (n1 & G1 & X1). destruct (E2 j n1 G1) as (n2 & G2' & X2).
      exists n2. split; [|eapply node_ext_trans; eauto].
      rewrite get_set_neq; [exact G2'|]. apply get_lt in G1. lia.
    + intros j n Hj Hne' Hg. rewrite get_set_neq in Hg by auto.
      assert (Hlt : j < List.length f2) by (eapply get_lt; eauto). rewrite L2 in Hlt.
      assert (Hj1 : j < List.length f1) by lia.
      destruct (get f1 j) as [n1|] eqn:G1; [|unfold get in G1; apply nth_error_None in G1; lia].
      destruct (E2 j n1 G1) as (n2 & G2' & (K & P & U & G & T & D & B & _)). rewrite Hg in G2'. inversion G2'; subst n2.
        destruct (N1 j n1 Hj G1) as (K1 & P1 & U1 & G1' & T1 & D1 & B1).
        unfold fresh_dir. repeat split; congruence.
Qed.

(* ---- the whole homes loop ------------------------------------------------------------ *)
Definition abs_home (e : user_entry) : bool := String.eqb (ue_home e) no_home || is_abs (ue_home e).

(* one iteration only adds (for an absolute home) *)
Lemma ensure_home_ext : forall maxl f e f',
  abs_home e = true -> ensure_home maxl f e = FOk f' -> fs_ext f f'.
Proof.
  intros maxl f e f' Ha H. pose proof H as H0. unfold ensure_home in H.
  destruct (String.eqb_spec (ue_home e) no_home) as [E|E].
  - inversion H; subst. apply fs_ext_refl.
  - unfold abs_home in Ha. destruct (String.eqb_spec (ue_home e) no_home); [contradiction|]. simpl in Ha.
    destruct (stat maxl f (home_path (ue_home e))) as [sn| | |] eqn:Hs; try discriminate.
    + destruct (is_dir sn); [|discriminate]. inversion H; subst. apply fs_ext_refl.
    + destruct (ensure_home_created maxl f e f' E (home_path_abs_tidy _ Ha) Hs H0) as (i & _ & _ & _ & X & _). exact X.
Qed.

Lemma ensure_homes_ext : forall maxl es f f',
  forallb abs_home es = true -> ensure_homes maxl f es = FOk f' -> fs_ext f f'.
Proof.
  intros maxl. induction es as [|e t IH]; intros f f' Ha H; simpl in H.
  - inversion H; subst. apply fs_ext_refl.
  - cbn [forallb] in Ha. apply andb_true_iff in Ha. destruct Ha as [Ha Ht].
    apply fbind_ok_r in H. destruct H as (f1 & H1 & H2).
    eapply fs_ext_trans; [eapply ensure_home_ext; eauto | eapply IH; eauto].
Qed.

Lemma ensure_homes_app : forall maxl a b f,
  ensure_homes maxl f (a ++ b) = fdo f1 <- ensure_homes maxl f a; ensure_homes maxl f1 b.
Proof.
  intros maxl. induction a as [|e t IH]; intros b f; simpl; [reflexivity|].
  destruct (ensure_home maxl f e); simpl; auto.
Qed.

(* every entry whose home was missing when its turn came has, at the END of the
   loop (whatever homes were made after it, below it or elsewhere), a 0700
   directory owned by it under its home path *)
Theorem ensure_homes_final : forall maxl pre e post f fk f',
  forallb abs_home (pre ++ e :: post) = true ->
  ensure_homes maxl f (pre ++ e :: post) = FOk f' ->
  ensure_homes maxl f pre = FOk fk ->
  ue_home e <> no_home -> stat maxl fk (home_path (ue_home e)) = FNotExist ->
  fs_ext f f' /\
  exists n, stat maxl f' (home_path (ue_home e)) = FOk n /\
            nkind n = KDir /\ nperm n = home_perm /\ nuid n = ue_uid e /\ ngid n = ue_gid e.
Proof.
  intros maxl pre e post f fk f' Ha H Hk Hn Hs.
  split; [eapply ensure_homes_ext; eauto|].
  rewrite ensure_homes_app, Hk in H. cbn [fbind ensure_homes] in H.
  apply fbind_ok_r in H. destruct H as (f1 & H1 & H2).
  rewrite forallb_app in Ha. apply andb_true_iff in Ha. destruct Ha as [_ Ha].
  cbn [forallb] in Ha. apply andb_true_iff in Ha. destruct Ha as [Hae Hap].
  assert (Habs : is_abs (ue_home e) = true).
  { unfold abs_home in Hae. destruct (String.eqb_spec (ue_home e) no_home); [contradiction | exact Hae]. }
  destruct (ensure_home_created maxl fk e f1 Hn (home_path_abs_tidy _ Habs) Hs H1) as (i & _ & Gi & Si & _ & _).
  pose proof (ensure_homes_ext _ _ _ _ Hap H2) as E2.
  unfold stat, gnode in Si. rewrite Gi in Si. cbn [fbind] in Si.
  destruct (get f1 i) as [ni|] eqn:Gni; [|discriminate]. inversion Si; subst ni. clear Si.
  destruct (E2 i _ Gni) as (n' & Gn' & (K & P & U & G & _)).
  exists n'. split.
  - unfold stat, gnode, gn. unfold gn in Gi. rewrite (getnode_ext _ _ _ _ _ E2 Gi). cbn [fbind]. rewrite Gn'. reflexivity.
  - cbn in *. auto.
Qed.
