(* C13 — (1) entries obtained by PARSING a passwd/group text are well-formed in
   every respect but the length of the line they will be re-written as, so the
   file mutateAccounts writes re-reads as old ++ configured with hypotheses on
   the configured entries and on line lengths only;
   (2) configured groups that collide with a pre-existing entry (same name,
   same gid, or both): both lines are in the file, the old one first, nothing
   is merged or dropped;
   (3) Validate as it is in the source, and what a configured field holding ':'
   or a newline does to the file (finding C13-F5). *)
From Apko Require Import Base.Prelude Model.C13Fs Model.Accounts Generated.C13Consts Spec.AccountsSpec
  Proofs.AccountsProofs Proofs.AccountsCodec Spec.AccountsClean.
From Coq Require Import DecimalString DecimalN.
Open Scope string_scope. Open Scope list_scope.

(* ---- well-formedness without the length of the line ------------------------------------------- *)
Lemma wf_user_split : forall e, wf_user e = wf_user_fields e && short_user e.
Proof. reflexivity. Qed.

Lemma wf_group_split : forall e, wf_group e = wf_group_fields e && short_group e.
Proof. reflexivity. Qed.

(* ---- split_on / join ----------------------------------------------------------------------------- *)
Lemma split_on_fields_no_sep : forall c s x, In x (split_on c s) -> has_char c x = false.
Proof.
  intros c. induction s as [|a s IH]; intros x H; simpl in H.
  - destruct H as [<-|[]]. reflexivity.
  - destruct (Ascii.eqb a c) eqn:E.
    + destruct H as [<-|H]; [reflexivity | auto].
    + destruct (split_on c s) as [|h t] eqn:R; [destruct H as [<-|[]]; simpl; rewrite E; reflexivity|].
      destruct H as [<-|H]; [simpl; rewrite E; apply IH; left; reflexivity | apply IH; right; exact H].
Qed.

Lemma join_split : forall c s, join (String c "") (split_on c s) = s.
Proof.
  intros c. induction s as [|a s IH]; [reflexivity|]. simpl.
  pose proof (split_on_nonnil c s) as Hne.
  destruct (split_on c s) as [|h t] eqn:R; [contradiction|].
  destruct (Ascii.eqb_spec a c) as [->|Hac].
  - change (join (String c "") ("" :: h :: t)) with ("" ++ String c "" ++ join (String c "") (h :: t))%string. rewrite IH. reflexivity.
  - destruct t as [|h' t']; simpl in *; rewrite <- IH; reflexivity.
Qed.

Lemma has_char_join_in : forall d sep l x, In x l -> has_char d x = true -> has_char d (join sep l) = true.
Proof.
  intros d sep. induction l as [|y t IH]; intros x Hin Hx; [contradiction|].
  destruct t as [|y' t'].
  - destruct Hin as [<-|[]]. exact Hx.
  - change (join sep (y :: y' :: t')) with (y ++ sep ++ join sep (y' :: t'))%string. rewrite !has_char_app.
    destruct Hin as [<-|Hin]; [rewrite Hx; reflexivity|]. rewrite (IH x Hin Hx). rewrite !orb_true_r. reflexivity.
Qed.
Lemma split_on_fields_keep : forall d c s x, has_char d s = false -> In x (split_on c s) -> has_char d x = false.
Proof.
  intros d c s x Hs Hin. destruct (has_char d x) eqn:E; [|reflexivity].
  rewrite <- (join_split c s) in Hs. rewrite (has_char_join_in d _ _ x Hin E) in Hs. discriminate.
Qed.

(* ---- TrimSpace ------------------------------------------------------------------------------------- *)
Lemma has_char_trim_left : forall d s, has_char d s = false -> has_char d (trim_left s) = false.
Proof.
  intros d. induction s as [|a s IH]; intro H; [reflexivity|]. simpl. destruct (ascii_space a); [|exact H].
  simpl in H. apply orb_false_iff in H. apply IH, H.
Qed.
Lemma has_char_trim_right : forall d s, has_char d s = false -> has_char d (trim_right s) = false.
Proof.
  intros d. induction s as [|a s IH]; intro H; [reflexivity|]. simpl in *. apply orb_false_iff in H. destruct H as [H1 H2].
  specialize (IH H2). destruct (trim_right s) as [|b r].
  - destruct (ascii_space a); [reflexivity | simpl; rewrite H1; reflexivity].
  - cbn [has_char] in *. rewrite H1. exact IH.
Qed.
Lemma has_char_trim_space : forall d s, has_char d s = false -> has_char d (trim_space s) = false.
Proof. intros. unfold trim_space. apply has_char_trim_right, has_char_trim_left. assumption. Qed.

Lemma starts_space_trim_left : forall s, starts_space (trim_left s) = false.
Proof. induction s as [|a s IH]; [reflexivity|]. simpl. destruct (ascii_space a) eqn:E; [exact IH | simpl; exact E]. Qed.
Lemma starts_space_trim_right : forall s, starts_space s = false -> starts_space (trim_right s) = false.
Proof.
  destruct s as [|a s]; intro H; [reflexivity|]. simpl in H. simpl. destruct (trim_right s); [rewrite H; simpl; exact H | simpl; exact H].
Qed.
Lemma ends_space_trim_right : forall s, ends_space (trim_right s) = false.
Proof.
  induction s as [|a s IH]; [reflexivity|]. simpl. destruct (trim_right s) as [|b r] eqn:R.
  - destruct (ascii_space a) eqn:E; [reflexivity | simpl; exact E].
  - exact IH.
Qed.
Lemma trim_space_ends : forall s, starts_space (trim_space s) = false /\ ends_space (trim_space s) = false.
Proof.
  intro s. unfold trim_space. split; [apply starts_space_trim_right, starts_space_trim_left | apply ends_space_trim_right].
Qed.

(* first and last field of a line that neither starts nor ends with a blank *)
Lemma first_field_no_space : forall a rest, starts_space (a ++ rest)%string = false -> starts_space a = false.
Proof. intros [|x a] rest H; [reflexivity | exact H]. Qed.
Lemma last_field_no_space : forall pre g, ends_space (pre ++ String ":"%char g)%string = false -> ends_space g = false.
Proof.
  intros pre g H. rewrite ends_space_app in H by discriminate. destruct g as [|x g]; [reflexivity | exact H].
Qed.

(* ---- strconv.Atoi + uint32 ------------------------------------------------------------------------- *)
Lemma atoi_u32_range : forall s v, atoi_u32 s = Some v -> (v < 4294967296)%N.
Proof.
  intros s v H. unfold atoi_u32 in H.
  destruct (match s with
            | String "-"%char r => (true, r)
            | String "+"%char r => (false, r)
            | _ => (false, s) end) as [neg body].
  destruct body as [|b0 body']; [discriminate|].
  destruct (NilEmpty.uint_of_string (String b0 body')) as [u|]; [|discriminate].
  destruct neg.
  - destruct (N.of_uint u <=? int64_max + 1)%N; [|discriminate]. inversion H; subst v.
    pose proof (Z.mod_pos_bound (- Z.of_N (N.of_uint u)) 4294967296 ltac:(lia)) as B.
    apply N2Z.inj_lt. rewrite Z2N.id by lia. change (Z.of_N 4294967296) with 4294967296%Z. lia.
  - destruct (N.of_uint u <=? int64_max)%N; [|discriminate]. inversion H; subst v.
    apply N.mod_lt. discriminate.
Qed.

(* ---- one line ----------------------------------------------------------------------------------------- *)
Lemma colon_join7 : forall a b c d e f g,
  join ":" [a; b; c; d; e; f; g] = (a ++ ":" ++ b ++ ":" ++ c ++ ":" ++ d ++ ":" ++ e ++ ":" ++ f ++ ":" ++ g)%string.
Proof. reflexivity. Qed.

Theorem parse_user_fields_wf : forall line e,
  has_char nl line = false -> parse_user line = Some e -> wf_user_fields e = true.
Proof.
  intros line e Hnl H. unfold parse_user in H. change (sep_char passwd_sep) with ":"%char in H.
  set (t := trim_space line) in *.
  assert (Tnl : has_char nl t = false) by (apply has_char_trim_space; exact Hnl).
  destruct (trim_space_ends line) as (Ts & Te). fold t in Ts, Te.
  pose proof (join_split ":"%char t) as J.
  pose proof (split_on_fields_no_sep ":"%char t) as Fsep.
  pose proof (fun x => split_on_fields_keep nl ":"%char t x Tnl) as Fnl.
  destruct (split_on ":"%char t) as [|a [|b [|c [|d [|e5 [|f6 [|g [|x l]]]]]]]]; try discriminate.
  change (negb (N.eqb passwd_fields 7)) with false in H. cbn match in H.
  destruct (atoi_u32 c) as [uid|] eqn:Eu; [|discriminate]. destruct (atoi_u32 d) as [gid|] eqn:Eg; [|discriminate].
  inversion H; subst e. clear H.
  unfold wf_user_fields, field_ok. cbn [ue_name ue_pw ue_info ue_home ue_shell ue_uid ue_gid].
  rewrite (Fsep a), (Fsep b), (Fsep e5), (Fsep f6), (Fsep g) by (simpl; tauto).
  rewrite (Fnl a), (Fnl b), (Fnl e5), (Fnl f6), (Fnl g) by (simpl; tauto).
  change (String ":"%char "") with ":" in J. rewrite colon_join7 in J.
  assert (Sa : starts_space a = false) by (eapply first_field_no_space; rewrite J; exact Ts).
  assert (Sg : ends_space g = false).
  { apply (last_field_no_space (a ++ ":" ++ b ++ ":" ++ c ++ ":" ++ d ++ ":" ++ e5 ++ ":" ++ f6) g).
    replace ((a ++ ":" ++ b ++ ":" ++ c ++ ":" ++ d ++ ":" ++ e5 ++ ":" ++ f6) ++ String ":"%char g)%string with t; [exact Te|].
    rewrite <- J. repeat (rewrite ?append_assoc; simpl). reflexivity. }
  rewrite Sa, Sg. apply atoi_u32_range in Eu, Eg. apply N.ltb_lt in Eu, Eg. rewrite Eu, Eg. reflexivity.
Qed.

Lemma member_ok_fields : forall d, has_char ":"%char d = false -> has_char nl d = false ->
  forallb member_ok (split_on comma d) = true.
Proof.
  intros d H1 H2. apply forallb_forall. intros x Hx. unfold member_ok.
  rewrite (split_on_fields_keep ":"%char comma d x H1 Hx), (split_on_fields_keep nl comma d x H2 Hx), (split_on_fields_no_sep comma d x Hx).
  reflexivity.
Qed.

Theorem parse_group_fields_wf : forall line e,
  has_char nl line = false -> parse_group line = Some e -> wf_group_fields e = true.
Proof.
  intros line e Hnl H. unfold parse_group in H. change (sep_char group_sep) with ":"%char in H.
  set (t := trim_space line) in *.
  assert (Tnl : has_char nl t = false) by (apply has_char_trim_space; exact Hnl).
  destruct (trim_space_ends line) as (Ts & Te). fold t in Ts, Te.
  pose proof (join_split ":"%char t) as J.
  pose proof (split_on_fields_no_sep ":"%char t) as Fsep.
  pose proof (fun x => split_on_fields_keep nl ":"%char t x Tnl) as Fnl.
  destruct (split_on ":"%char t) as [|a [|b [|c [|d [|x l]]]]]; try discriminate.
  change (negb (N.eqb group_fields 4)) with false in H. cbn match in H.
  destruct (atoi_u32 c) as [gid|] eqn:Eg; [|discriminate].
  inversion H; subst e. clear H.
  change (sep_char members_sep) with comma.
  unfold wf_group_fields, field_ok. cbn [ge_name ge_pw ge_gid ge_members].
  rewrite (Fsep a), (Fsep b), (Fnl a), (Fnl b) by (simpl; tauto).
  change (String ":"%char "") with ":" in J.
  assert (J' : t = (a ++ ":" ++ b ++ ":" ++ c ++ ":" ++ d)%string) by (rewrite <- J; reflexivity).
  assert (Sa : starts_space a = false) by (eapply first_field_no_space; rewrite <- J'; exact Ts).
  assert (Sd : ends_space d = false).
  { apply (last_field_no_space (a ++ ":" ++ b ++ ":" ++ c) d).
    replace ((a ++ ":" ++ b ++ ":" ++ c) ++ String ":"%char d)%string with t; [exact Te|].
    rewrite J'. repeat (rewrite ?append_assoc; simpl). reflexivity. }
  rewrite Sa. apply atoi_u32_range in Eg. apply N.ltb_lt in Eg. rewrite Eg.
  assert (Hd1 : has_char ":"%char d = false) by (apply Fsep; simpl; tauto).
  assert (Hd2 : has_char nl d = false) by (apply Fnl; simpl; tauto).
  change group_empty_members_nil with true. cbn [andb].
  destruct (String.eqb_spec d "") as [->|Hd]; [reflexivity|].
  pose proof (member_ok_fields d Hd1 Hd2) as M. unfold comma in M. rewrite M.
  rewrite (join_split ","%char d), Sd. reflexivity.
Qed.

(* ---- whole files -------------------------------------------------------------------------------------- *)
Lemma has_char_drop_cr : forall d s, has_char d s = false -> has_char d (drop_cr s) = false.
Proof.
  intros d. induction s as [|a s IH]; intro H; [reflexivity|]. simpl in *. apply orb_false_iff in H. destruct H as [H1 H2].
  destruct s as [|b s'].
  - destruct (Ascii.eqb a cr); [reflexivity | simpl; rewrite H1; reflexivity].
  - cbn [has_char]. rewrite H1. apply IH. exact H2.
Qed.
Lemma scan_lines_no_nl : forall txt l, In l (scan_lines txt) -> has_char nl l = false.
Proof.
  intros txt l H. unfold scan_lines in H. apply in_map_iff in H. destruct H as (r & <- & Hr).
  apply has_char_drop_cr. apply (split_on_fields_no_sep nl txt).
  destruct (rev (split_on nl txt)) as [|h t] eqn:R; [exact Hr|].
  assert (E : split_on nl txt = rev t ++ [h]).
  { change (rev t ++ [h]) with (rev (h :: t)). rewrite <- R. symmetry. apply rev_involutive. }
  destruct h as [|x y]; [|exact Hr]. rewrite E. apply in_or_app. left. exact Hr.
Qed.
Lemma parse_lines_all : forall {E} (p : string -> option E) (Q : E -> Prop) (R : string -> Prop) ls es,
  (forall l e, R l -> p l = Some e -> Q e) -> (forall l, In l ls -> R l) ->
  parse_lines p ls = Some es -> forall e, In e es -> Q e.
Proof.
  intros E p Q R. induction ls as [|l t IH]; intros es HQ HR H e He; cbn [parse_lines] in H.
  - inversion H; subst. contradiction.
  - destruct (Nat.leb line_limit (String.length l)); [discriminate|].
    destruct (p l) as [x|] eqn:Hp; [|discriminate]. destruct (parse_lines p t) as [xs|] eqn:Ht; [|discriminate].
    inversion H; subst es. destruct He as [<-|He].
    + eapply HQ; [|exact Hp]. apply HR. left. reflexivity.
    + eapply (IH xs); eauto. intros l0 Hl0. apply HR. right. exact Hl0.
Qed.

Theorem parsed_users_wf : forall txt es, parse_users txt = Some es -> forallb wf_user_fields es = true.
Proof.
  intros txt es H. apply forallb_forall. intros e He. unfold parse_users in H.
  eapply (parse_lines_all parse_user (fun e => wf_user_fields e = true) (fun l => has_char nl l = false)); eauto.
  - intros l e0 Hl Hp. eapply parse_user_fields_wf; eauto.
  - intros l Hl. eapply scan_lines_no_nl; eauto.
Qed.
Theorem parsed_groups_wf : forall txt es, parse_groups txt = Some es -> forallb wf_group_fields es = true.
Proof.
  intros txt es H. apply forallb_forall. intros e He. unfold parse_groups in H.
  eapply (parse_lines_all parse_group (fun e => wf_group_fields e = true) (fun l => has_char nl l = false)); eauto.
  - intros l e0 Hl Hp. eapply parse_group_fields_wf; eauto.
  - intros l Hl. eapply scan_lines_no_nl; eauto.
Qed.

Lemma forallb_ext_eq : forall {A} (p q : A -> bool) l, (forall x, p x = q x) -> forallb p l = forallb q l.
Proof. intros A p q l H. induction l as [|x t IH]; [reflexivity|]. cbn [forallb]. rewrite H, IH. reflexivity. Qed.
Lemma forallb_and : forall {A} (p q : A -> bool) l, forallb p l = true -> forallb q l = true -> forallb (fun x => p x && q x) l = true.
Proof. intros A p q l H1 H2. rewrite forallb_forall in *. intros x Hx. rewrite (H1 x Hx), (H2 x Hx). reflexivity. Qed.

(* what mutateAccounts writes re-reads as old ++ configured: hypotheses on the
   CONFIGURED entries' fields and on the length of the written lines only *)
Theorem reread_parsed_users : forall txt old users,
  parse_users txt = Some old ->
  forallb wf_user_fields (List.map user_to_entry users) = true ->
  forallb short_user (old ++ List.map user_to_entry users) = true ->
  parse_users (write_users (old ++ List.map user_to_entry users)) = Some (old ++ List.map user_to_entry users).
Proof.
  intros txt old users Hp Hu Hs. apply parse_write_users.
  rewrite (forallb_ext_eq _ _ _ wf_user_split).
  apply forallb_and; [|exact Hs]. rewrite forallb_app, (parsed_users_wf _ _ Hp), Hu. reflexivity.
Qed.
Theorem reread_parsed_groups : forall txt old groups,
  parse_groups txt = Some old ->
  forallb wf_group_fields (List.map group_to_entry groups) = true ->
  forallb short_group (old ++ List.map group_to_entry groups) = true ->
  parse_groups (write_groups (old ++ List.map group_to_entry groups)) =
    Some (List.map norm_group (old ++ List.map group_to_entry groups)).
Proof.
  intros txt old groups Hp Hu Hs. apply parse_write_groups.
  rewrite (forallb_ext_eq _ _ _ wf_group_split).
  apply forallb_and; [|exact Hs]. rewrite forallb_app, (parsed_groups_wf _ _ Hp), Hu. reflexivity.
Qed.

(* the one thing parsing does not give back: the length of the re-written line *)
Lemma parsed_line_may_grow :
  exists line e, parse_user line = Some e /\ (String.length line < String.length (user_line e))%nat.
Proof. exists "n:x:-1:+5:i:/dev/null:/bin/sh". eexists. split; [vm_compute; reflexivity | vm_compute; lia]. Qed.

(* ---- colliding groups ------------------------------------------------------------------------------------ *)
Lemma write_groups_app : forall a b, write_groups (a ++ b) = (write_groups a ++ write_groups b)%string.
Proof.
  intros a b. unfold write_groups. rewrite List.map_app. induction (List.map write_group a) as [|x t IH]; [reflexivity|].
  cbn [app]. rewrite !concat_cons, IH, append_assoc. reflexivity.
Qed.

(* appendGroup appends, whatever is there: for EVERY pre-existing entry e and
   configured group g — same name and other gid, same gid and other name, same
   both, or no relation at all — e stays where it was, g's entry is in the
   file after all old entries with exactly its configured name, gid and
   members, and the number of lines is old + configured *)
Theorem group_collisions : forall maxl f groups f',
  groups <> [] -> mutate_groups maxl f groups = FOk f' ->
  exists fa txt old fb i,
    read_or_create maxl f etc_group group_open_perm = FOk (fa, txt) /\ parse_groups txt = Some old /\
    openfile maxl maxl fa etc_group create_perm = FOk (fb, i) /\
    let final := old ++ List.map group_to_entry groups in
    f' = upd fb i (fun n => trunc_write n (write_groups final)) /\
    write_groups final = (write_groups old ++ write_groups (List.map group_to_entry groups))%string /\
    List.length final = (List.length old + List.length groups)%nat /\
    (forall k e, nth_error old k = Some e -> nth_error final k = Some e) /\
    (forall k g, nth_error groups k = Some g ->
       nth_error final (List.length old + k)%nat = Some (mkGE (cg_name g) group_password (cg_gid g) (cg_members g))).
Proof.
  intros maxl f groups f' Hne H. destruct (mutate_groups_inv _ _ _ _ Hne H) as (fa & txt & old & fb & i & H1 & H2 & H3 & H4).
  exists fa, txt, old, fb, i. split; [exact H1|]. split; [exact H2|]. split; [exact H3|]. cbv zeta.
  split; [exact H4|]. split; [apply write_groups_app|]. split; [rewrite app_length, map_length; reflexivity|]. split.
  - intros k e Hk. rewrite nth_error_app1; [exact Hk|]. apply nth_error_Some. congruence.
  - intros k g Hk. rewrite nth_error_app2 by lia. replace (List.length old + k - List.length old)%nat with k by lia.
    rewrite nth_error_map, Hk. reflexivity.
Qed.

(* the three collision kinds on a concrete file: the package's line stays, the
   configured line follows, members are not merged *)
Lemma group_collision_examples :
  let old := [mkGE "bin" "x" 1 ["root"; "bin"]] in
  let tree := [mkNode KDir 493 0 0 "" "" [("etc", 1%nat)] ""; mkNode KDir 493 0 0 "" "" [("group", 2%nat)] "";
               mkNode KFile 420 0 0 "" (write_groups old) [] ""] in
  forall g, In g [mkCG "bin" 1 ["app"]; mkCG "bin" 7 []; mkCG "other" 1 ["bin"]] ->
    match mutate_groups 40 tree [g] with
    | FOk f' => match gnode 40 f' etc_group with
                | FOk n => ndata n = (write_groups old ++ write_group (group_to_entry g))%string
                | _ => False end
    | _ => False end.
Proof. intros old tree g [<-|[<-|[<-|[]]]]; vm_compute; reflexivity. Qed.

(* ---- Validate, and fields that hold a separator ----------------------------------------------------------- *)
Definition tree_etc : fs := [mkNode KDir 493 0 0 "" "" [("etc", 1%nat)] ""; mkNode KDir 493 0 0 "" "" [] ""].
Definition passwd_after (users : list cuser) : option string :=
  match mutate_accounts 40 tree_etc users [] "" with
  | FOk (f', _) => match gnode 40 f' etc_passwd with FOk n => Some (edata n) | _ => None end
  | _ => None
  end.

(* ---- Validate as repaired (fix 3dfd539, was finding C13-F5) ----------------------------------------------
   The strings.ContainsAny tests goextract reads from Validate forbid ':' and every
   ASCII blank (newline included) in user names, shells, group names and members
   (',' as well in members), ':' and newline in home directories.  Hence every
   configuration Validate accepts is CLEAN, and (parsed entries being well-formed)
   the files mutateAccounts writes re-read as old ++ configured, with no entry
   nobody configured. *)
Definition blanks : list ascii := List.map ascii_of_N [9; 10; 11; 12; 13; 32]%N.
Fixpoint no_blank (s : string) : bool :=
  match s with EmptyString => true | String a r => negb (ascii_space a) && no_blank r end.

Lemma ascii_space_blanks : forall a, ascii_space a = true -> In a blanks.
Proof. intros [[] [] [] [] [] [] [] []] H; vm_compute in H; try discriminate; vm_compute; tauto. Qed.

Lemma contains_any_false : forall s chars, contains_any s chars = false -> forall c, has_char c chars = true -> has_char c s = false.
Proof.
  intros s. induction chars as [|x r IH]; intros H c Hc; [discriminate|]. cbn [contains_any] in H. apply orb_false_iff in H. destruct H as [H1 H2].
  cbn [has_char] in Hc. apply orb_true_iff in Hc. destruct Hc as [Hc|Hc]; [apply Ascii.eqb_eq in Hc; subst x; exact H1 | apply IH; assumption].
Qed.
Lemma has_char_head : forall a s, has_char a (String a s) = true.
Proof. intros. cbn [has_char]. rewrite Ascii.eqb_refl. reflexivity. Qed.
Lemma no_blank_of : forall s, (forall c, In c blanks -> has_char c s = false) -> no_blank s = true.
Proof.
  induction s as [|a r IH]; intro H; [reflexivity|]. cbn [no_blank]. apply andb_true_iff. split.
  - apply negb_true_iff. destruct (ascii_space a) eqn:E; [|reflexivity]. rewrite <- (H a (ascii_space_blanks a E)). symmetry. apply has_char_head.
  - apply IH. intros c Hc. specialize (H c Hc). cbn [has_char] in H. apply orb_false_iff in H. apply H.
Qed.
Lemma no_blank_ends : forall s, no_blank s = true -> starts_space s = false /\ ends_space s = false.
Proof.
  intros s H. split.
  - destruct s as [|a r]; [reflexivity|]. cbn [no_blank] in H. apply andb_true_iff in H. destruct H as [H _]. apply negb_true_iff in H. exact H.
  - induction s as [|a r IH]; [reflexivity|]. cbn [no_blank] in H. apply andb_true_iff in H. destruct H as [Ha Hr]. apply negb_true_iff in Ha.
    destruct r as [|b r']; [exact Ha | exact (IH Hr)].
Qed.
Lemma no_blank_app : forall a b, no_blank (a ++ b)%string = no_blank a && no_blank b.
Proof. induction a as [|x a IH]; intro b; [reflexivity|]. cbn [append no_blank]. rewrite IH, andb_assoc. reflexivity. Qed.
Lemma no_blank_join : forall ms, forallb no_blank ms = true -> no_blank (join "," ms) = true.
Proof.
  induction ms as [|m t IH]; intro H; [reflexivity|]. cbn [forallb] in H. apply andb_true_iff in H. destruct H as [Hm Ht].
  destruct t as [|m' t']; [exact Hm|].
  change (join "," (m :: m' :: t')) with (m ++ "," ++ join "," (m' :: t'))%string. rewrite !no_blank_app, Hm, (IH Ht). reflexivity.
Qed.

(* what the character sets read from the source forbid (the [reflexivity] steps
   below evaluate [validate_forbidden]: they fail should a test disappear) *)
Definition forbids (k : string) (cs : list ascii) : bool := forallb (fun c => has_char c (chars_for k)) cs.
Lemma validate_forbidden_sets :
  forbids "u.UserName" (":"%char :: blanks) = true /\ forbids "u.Shell" (":"%char :: blanks) = true /\
  forbids "u.HomeDir" [":"%char; nl] = true /\ forbids "g.GroupName" (":"%char :: blanks) = true /\
  forbids "m" (":"%char :: ","%char :: blanks) = true.
Proof. repeat split; vm_compute; reflexivity. Qed.

Lemma allowed_field : forall s k cs, forbids k cs = true -> contains_any s (chars_for k) = false ->
  forall c, In c cs -> has_char c s = false.
Proof.
  intros s k cs Hf Hc c Hin. eapply contains_any_false; [exact Hc|]. unfold forbids in Hf. rewrite forallb_forall in Hf. apply Hf. exact Hin.
Qed.
Lemma nl_blank : In nl blanks. Proof. vm_compute. tauto. Qed.

Theorem validated_user_clean : forall u,
  validate_user u = true -> (cu_uid u < 4294967296)%N -> (forall g, cu_gid u = Some g -> (g < 4294967296)%N) -> clean_user u = true.
Proof.
  intros u H Hu Hg. destruct validate_forbidden_sets as (Fn & Fs & Fh & _ & _).
  unfold validate_user in H. repeat (apply andb_true_iff in H; destruct H as [H ?]).
  repeat match goal with X : negb _ = true |- _ => apply negb_true_iff in X end.
  match goal with X : contains_any (cu_name u) _ = false |- _ => pose proof (allowed_field _ _ _ Fn X) as An end.
  match goal with X : contains_any (cu_shell u) _ = false |- _ => pose proof (allowed_field _ _ _ Fs X) as As end.
  match goal with X : contains_any (cu_home u) _ = false |- _ => pose proof (allowed_field _ _ _ Fh X) as Ah end.
  assert (Nn : no_blank (cu_name u) = true) by (apply no_blank_of; intros c Hc; apply An; right; exact Hc).
  assert (Ns : no_blank (cu_shell u) = true) by (apply no_blank_of; intros c Hc; apply As; right; exact Hc).
  assert (Cn : has_char ":"%char (cu_name u) = false) by (apply An; left; reflexivity).
  assert (Ln : has_char nl (cu_name u) = false) by (apply An; right; exact nl_blank).
  assert (Cs : has_char ":"%char (cu_shell u) = false) by (apply As; left; reflexivity).
  assert (Ls : has_char nl (cu_shell u) = false) by (apply As; right; exact nl_blank).
  assert (Ch : has_char ":"%char (cu_home u) = false) by (apply Ah; left; reflexivity).
  assert (Lh : has_char nl (cu_home u) = false) by (apply Ah; right; left; reflexivity).
  unfold clean_user, wf_user_fields, user_to_entry, field_ok. cbn [ue_name ue_pw ue_info ue_home ue_shell ue_uid ue_gid].
  rewrite Cn, Ln. change (has_char ":"%char entry_password) with false. change (has_char nl entry_password) with false.
  change (has_char ":"%char entry_info) with false. change (has_char nl entry_info) with false.
  rewrite (proj1 (no_blank_ends _ Nn)).
  assert (Hhome : has_char ":"%char (if String.eqb (cu_home u) "" then (home_prefix ++ cu_name u)%string else cu_home u) = false /\
                  has_char nl (if String.eqb (cu_home u) "" then (home_prefix ++ cu_name u)%string else cu_home u) = false).
  { destruct (String.eqb (cu_home u) ""); [|auto]. rewrite !has_char_app, Cn, Ln. split; reflexivity. }
  destruct Hhome as (Hh1 & Hh2). rewrite Hh1, Hh2.
  assert (Hshell : has_char ":"%char (if String.eqb (cu_shell u) "" then default_shell else cu_shell u) = false /\
                   has_char nl (if String.eqb (cu_shell u) "" then default_shell else cu_shell u) = false /\
                   ends_space (if String.eqb (cu_shell u) "" then default_shell else cu_shell u) = false).
  { destruct (String.eqb (cu_shell u) ""); [repeat split; reflexivity|]. repeat split; auto. apply (no_blank_ends _ Ns). }
  destruct Hshell as (Hs1 & Hs2 & Hs3). rewrite Hs1, Hs2, Hs3.
  apply N.ltb_lt in Hu. rewrite Hu. cbn [negb andb].
  destruct (cu_gid u) as [g|]; [apply N.ltb_lt, Hg; reflexivity | exact Hu].
Qed.

Theorem validated_group_clean : forall g, validate_group g = true -> (cg_gid g < 4294967296)%N -> clean_group g = true.
Proof.
  intros g H Hg. destruct validate_forbidden_sets as (_ & _ & _ & Fg & Fm).
  unfold validate_group in H. repeat (apply andb_true_iff in H; destruct H as [H ?]).
  repeat match goal with X : negb _ = true |- _ => apply negb_true_iff in X end.
  match goal with X : contains_any (cg_name g) _ = false |- _ => pose proof (allowed_field _ _ _ Fg X) as An end.
  assert (Nn : no_blank (cg_name g) = true) by (apply no_blank_of; intros c Hc; apply An; right; exact Hc).
  assert (Cn : has_char ":"%char (cg_name g) = false) by (apply An; left; reflexivity).
  assert (Ln : has_char nl (cg_name g) = false) by (apply An; right; exact nl_blank).
  match goal with X : forallb _ (cg_members g) = true |- _ => rename X into Hm end.
  assert (Mok : forallb member_ok (cg_members g) = true /\ forallb no_blank (cg_members g) = true).
  { rewrite !forallb_forall in *. split; intros m Hin; specialize (Hm m Hin); apply negb_true_iff in Hm; pose proof (allowed_field _ _ _ Fm Hm) as Am.
    - unfold member_ok. rewrite (Am ":"%char), (Am nl), (Am comma); [reflexivity | right; left; reflexivity | right; right; exact nl_blank | left; reflexivity].
    - apply no_blank_of. intros c Hc. apply Am. right; right. exact Hc. }
  destruct Mok as (M1 & M2).
  unfold clean_group, wf_group_fields, group_to_entry, field_ok. cbn [ge_name ge_pw ge_gid ge_members].
  rewrite Cn, Ln, M1. change (has_char ":"%char group_password) with false. change (has_char nl group_password) with false.
  rewrite (proj1 (no_blank_ends _ Nn)), (proj2 (no_blank_ends _ (no_blank_join _ M2))).
  apply N.ltb_lt in Hg. rewrite Hg. reflexivity.
Qed.

Definition ids_in_range (users : list cuser) (groups : list cgroup) : Prop :=
  (forall u, In u users -> (cu_uid u < 4294967296)%N /\ forall g, cu_gid u = Some g -> (g < 4294967296)%N) /\
  (forall g, In g groups -> (cg_gid g < 4294967296)%N).

Theorem validated_accounts_clean : forall users groups,
  validate_accounts users groups = true -> ids_in_range users groups ->
  forallb clean_user users = true /\ forallb clean_group groups = true.
Proof.
  intros users groups H (Ru & Rg). unfold validate_accounts in H. apply andb_true_iff in H. destruct H as [Hu Hg].
  rewrite !forallb_forall in *. split.
  - intros u Hin. destruct (Ru u Hin). apply validated_user_clean; auto.
  - intros g Hin. apply validated_group_clean; auto.
Qed.

(* the old witnesses of finding C13-F5 are refused now *)
Definition inject_user : cuser := mkCU "app" 1000 None (String.append "/bin/sh" (String nl "root2:x:0:0::/root:/bin/sh")) "".
Definition colon_user : cuser := mkCU "a:b" 1000 None "" "".
Lemma separators_refused :
  validate_accounts [inject_user] [] = false /\ validate_accounts [colon_user] [] = false /\
  validate_accounts [mkCU " app" 1000 None "" "/home/app"] [] = false /\ validate_accounts [mkCU "svc" 1001 None "/bin/sh " ""] [] = false /\
  validate_accounts [] [mkCG "g:h" 7 []] = false /\ validate_accounts [] [mkCG "g" 7 ["a,b"]] = false /\
  validate_accounts [] [mkCG "g" 7 [String.append "a" (String nl "root:x:0:app")]] = false.
Proof. repeat split; vm_compute; reflexivity. Qed.

(* HYPOTHETICAL shape (not the build pipeline): a configuration that does not go
   through Validate — mutateAccounts called directly, as the accounts stage of the
   harness does, or Validate without its character tests ([validate_basic], the
   shape before fix 3dfd539).  mutateAccounts itself still writes fields
   verbatim; Validate is the only protection. *)
Definition validate_basic (users : list cuser) (groups : list cgroup) : bool :=
  forallb (fun u => negb (String.eqb (cu_name u) "") && negb (N.eqb (cu_uid u) 0)) users &&
  forallb (fun g => negb (String.eqb (cg_name g) "")) groups.
Lemma hypothetical_unvalidated_separators :
  validate_basic [inject_user] [] = true /\ validate_basic [colon_user] [] = true /\
  clean_user inject_user = false /\ clean_user colon_user = false /\
  (exists txt, passwd_after [inject_user] = Some txt /\
     parse_users txt = Some [user_to_entry (mkCU "app" 1000 None "/bin/sh" ""); mkUE "root2" "x" 0 0 "" "/root" "/bin/sh"] /\
     parse_users txt <> Some (List.map user_to_entry [inject_user])) /\
  (exists txt, passwd_after [colon_user] = Some txt /\ parse_users txt = None).
Proof.
  split; [vm_compute; reflexivity|]. split; [vm_compute; reflexivity|].
  split; [vm_compute; reflexivity|]. split; [vm_compute; reflexivity|]. split.
  - eexists. split; [vm_compute; reflexivity|]. split; [vm_compute; reflexivity|]. vm_compute. discriminate.
  - eexists. split; [vm_compute; reflexivity|]. vm_compute. reflexivity.
Qed.

(* ... and for clean configurations the file does re-read as old ++ configured *)
Theorem clean_accounts_reread : forall txt old users,
  parse_users txt = Some old -> forallb clean_user users = true ->
  forallb short_user (old ++ List.map user_to_entry users) = true ->
  parse_users (write_users (old ++ List.map user_to_entry users)) = Some (old ++ List.map user_to_entry users).
Proof.
  intros txt old users Hp Hc Hs. eapply reread_parsed_users; eauto.
  rewrite forallb_forall in *. intros e He. apply in_map_iff in He. destruct He as (u & <- & Hu). apply (Hc u Hu).
Qed.

(* accepted by Validate ==> the written files re-read as old ++ configured *)
Theorem validated_accounts_reread : forall utxt gtxt oldu oldg users groups,
  validate_accounts users groups = true -> ids_in_range users groups ->
  parse_users utxt = Some oldu -> parse_groups gtxt = Some oldg ->
  forallb short_user (oldu ++ List.map user_to_entry users) = true ->
  forallb short_group (oldg ++ List.map group_to_entry groups) = true ->
  parse_users (write_users (oldu ++ List.map user_to_entry users)) = Some (oldu ++ List.map user_to_entry users) /\
  parse_groups (write_groups (oldg ++ List.map group_to_entry groups)) =
    Some (List.map norm_group (oldg ++ List.map group_to_entry groups)).
Proof.
  intros utxt gtxt oldu oldg users groups Hv Hr Hpu Hpg Hsu Hsg.
  destruct (validated_accounts_clean _ _ Hv Hr) as (Cu & Cg). split.
  - eapply clean_accounts_reread; eauto.
  - eapply reread_parsed_groups; eauto.
    rewrite forallb_forall in *. intros e He. apply in_map_iff in He. destruct He as (g & <- & Hg). apply (Cg g Hg).
Qed.
