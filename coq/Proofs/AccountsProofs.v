(* C13 (accounts half) — proofs about Model/Accounts.v against Spec/AccountsSpec.v. *)
From Apko Require Import Base.Prelude Model.C13Fs Model.Accounts Generated.C13Consts Spec.AccountsSpec.
Open Scope string_scope. Open Scope list_scope.

(* ---- the constants read from the source are the documented defaults ------- *)
Lemma consts_are_spec :
  default_shell = spec_default_shell /\ home_prefix = spec_home_prefix /\
  validate_home_prefix = spec_home_prefix /\ no_home = spec_no_home /\
  home_perm = spec_home_mode /\ home_parent_perm = spec_parent_mode /\ gid_defaults_to_uid = true.
Proof. repeat split; reflexivity. Qed.

(* ---- userToUserEntry / appendGroup realise the configured account --------- *)
Lemma user_to_entry_realised : forall u, UserRealised u (user_to_entry u).
Proof. intro u. unfold UserRealised, user_to_entry, spec_gid, spec_shell, spec_home. cbn. repeat split; reflexivity. Qed.
Lemma group_to_entry_realised : forall g, GroupRealised g (group_to_entry g).
Proof. intro g. unfold GroupRealised, group_to_entry. cbn. repeat split; reflexivity. Qed.

Lemma map_realised : forall users, Forall2 UserRealised users (List.map user_to_entry users).
Proof. induction users; simpl; constructor; auto using user_to_entry_realised. Qed.
Lemma map_group_realised : forall gs, Forall2 GroupRealised gs (List.map group_to_entry gs).
Proof. induction gs; simpl; constructor; auto using group_to_entry_realised. Qed.

(* defaults exactly when unset *)
Lemma defaults_exactly_when_unset : forall u,
  let e := user_to_entry u in
  (cu_shell u = "" -> ue_shell e = default_shell) /\ (cu_shell u <> "" -> ue_shell e = cu_shell u) /\
  (cu_home u = "" -> ue_home e = (home_prefix ++ cu_name u)%string) /\ (cu_home u <> "" -> ue_home e = cu_home u) /\
  (cu_gid u = None -> ue_gid e = cu_uid u) /\ (forall g, cu_gid u = Some g -> ue_gid e = g) /\
  ue_uid e = cu_uid u /\ ue_name e = cu_name u.
Proof.
  intro u. cbn. unfold user_to_entry. cbn.
  repeat split.
  - intros ->. reflexivity.
  - intro H. destruct (String.eqb_spec (cu_shell u) ""); [contradiction | reflexivity].
  - intros ->. reflexivity.
  - intro H. destruct (String.eqb_spec (cu_home u) ""); [contradiction | reflexivity].
  - intros ->. reflexivity.
  - intros g ->. reflexivity.
Qed.

(* ---- run-as ----------------------------------------------------------------- *)
Lemma resolve_run_as_spec : forall ra es, ra <> "" ->
  RunAsResolved ra es (resolve_run_as ra es).
Proof.
  intros ra es Hne. unfold RunAsResolved.
  destruct (String.eqb_spec ra ""); [contradiction|].
  induction es as [|e t IH]; simpl; [reflexivity|].
  destruct (String.eqb (ue_name e) ra); [reflexivity | exact IH].
Qed.

Lemma first_named_app : forall nm a b,
  first_named nm (a ++ b) = match first_named nm a with Some e => Some e | None => first_named nm b end.
Proof. induction a as [|e t IH]; intro b; simpl; [reflexivity|]. destruct (String.eqb (ue_name e) nm); auto. Qed.

(* ---- mutateAccounts: what is written, and what run-as becomes ----------------- *)
Lemma fbind_ok' : forall {A B} (r : fres A) (k : A -> fres B) b,
  fbind r k = FOk b -> exists a, r = FOk a /\ k a = FOk b.
Proof. intros A B r k b H. destruct r; simpl in H; try discriminate. eauto. Qed.

(* A successful passwd half: the old text parsed, the homes loop ran over
   old ++ configured, the file finally opened by Create holds exactly the
   written form of old ++ configured, and run-as is the uid of the FIRST entry
   of that name in old ++ configured (old = package-provided entries first). *)
Lemma mutate_users_inv : forall maxl f users ra f' ra',
  mutate_users maxl f users ra = FOk (f', ra') ->
  exists f1 txt old f2 f3 i,
    read_or_create maxl f etc_passwd passwd_open_perm = FOk (f1, txt) /\
    parse_users txt = Some old /\
    let es := old ++ List.map user_to_entry users in
    ensure_homes maxl f1 es = FOk f2 /\
    openfile maxl maxl f2 etc_passwd create_perm = FOk (f3, i) /\
    f' = upd f3 i (fun n => trunc_write n (write_users es)) /\
    RunAsResolved ra es ra'.
Proof.
  intros maxl f users ra f' ra' H. unfold mutate_users in H.
  apply fbind_ok' in H. destruct H as ([f1 txt] & Hr & H).
  destruct (parse_users txt) as [old|] eqn:Hp; [|discriminate].
  apply fbind_ok' in H. destruct H as (f2 & Hh & H).
  apply fbind_ok' in H. destruct H as (f3' & Hc & H).
  unfold create_write in Hc. apply fbind_ok' in Hc. destruct Hc as ([f3 i] & Ho & Hc).
  inversion Hc; subst f3'. inversion H; subst. clear H Hc.
  exists f1, txt, old, f2, f3, i. repeat split; auto.
  unfold RunAsResolved. destruct (String.eqb_spec ra "") as [E|E]; [exact E|].
  pose proof (resolve_run_as_spec ra (old ++ List.map user_to_entry users) E) as HR.
  unfold RunAsResolved in HR. destruct (String.eqb_spec ra ""); [contradiction|exact HR].
Qed.

Lemma mutate_groups_inv : forall maxl f groups f',
  groups <> [] -> mutate_groups maxl f groups = FOk f' ->
  exists f1 txt old f2 i,
    read_or_create maxl f etc_group group_open_perm = FOk (f1, txt) /\
    parse_groups txt = Some old /\
    openfile maxl maxl f1 etc_group create_perm = FOk (f2, i) /\
    f' = upd f2 i (fun n => trunc_write n (write_groups (old ++ List.map group_to_entry groups))).
Proof.
  intros maxl f groups f' Hne H. unfold mutate_groups in H.
  destruct groups as [|g gs]; [contradiction|].
  apply fbind_ok' in H. destruct H as ([f1 txt] & Hr & H).
  destruct (parse_groups txt) as [old|] eqn:Hp; [|discriminate].
  unfold create_write in H. apply fbind_ok' in H. destruct H as ([f2 i] & Ho & H).
  inversion H; subst. exists f1, txt, old, f2, i. repeat split; auto.
Qed.
Lemma mutate_groups_none : forall maxl f, mutate_groups maxl f [] = FOk f.
Proof. reflexivity. Qed.

(* run-as: package-provided entries win over configured ones *)
Lemma run_as_prefers_old : forall ra old added e r,
  ra <> "" -> first_named ra old = Some e -> RunAsResolved ra (old ++ added) r -> r = dec (ue_uid e).
Proof.
  intros ra old added e r Hne Hf H. unfold RunAsResolved in H.
  destruct (String.eqb_spec ra ""); [contradiction|].
  rewrite first_named_app, Hf in H. exact H.
Qed.
Lemma run_as_unchanged : forall ra es r,
  first_named ra es = None -> RunAsResolved ra es r -> r = ra.
Proof.
  intros ra es r Hf H. unfold RunAsResolved in H.
  destruct (String.eqb_spec ra ""); [congruence|]. rewrite Hf in H. exact H.
Qed.

(* ---- homes ---------------------------------------------------------------------- *)
Lemma ensure_home_homeless : forall maxl f e, ue_home e = no_home -> ensure_home maxl f e = FOk f.
Proof. intros maxl f e H. unfold ensure_home. rewrite H. reflexivity. Qed.

(* an existing directory (also through a symlink) is left alone: the whole
   filesystem is unchanged by this entry *)
Lemma ensure_home_existing_dir : forall maxl f e n,
  stat maxl f (home_path (ue_home e)) = FOk n -> is_dir n = true -> ensure_home maxl f e = FOk f.
Proof.
  intros maxl f e n Hs Hd. unfold ensure_home.
  destruct (String.eqb (ue_home e) no_home); [reflexivity|]. rewrite Hs, Hd. reflexivity.
Qed.
(* an existing non-directory is an error *)
Lemma ensure_home_non_directory : forall maxl f e n,
  ue_home e <> no_home ->
  stat maxl f (home_path (ue_home e)) = FOk n -> is_dir n = false -> ensure_home maxl f e = FErr.
Proof.
  intros maxl f e n Hn Hs Hd. unfold ensure_home.
  destruct (String.eqb_spec (ue_home e) no_home); [contradiction|]. rewrite Hs, Hd. reflexivity.
Qed.
(* a missing home: parents with 0755, Mkdir with 0700, Chown to the entry *)
Lemma ensure_home_missing : forall maxl f e f',
  ue_home e <> no_home ->
  stat maxl f (home_path (ue_home e)) = FNotExist -> ensure_home maxl f e = FOk f' ->
  let h := home_path (ue_home e) in
  exists f1 f2, mkdirall maxl f (pdir h) home_parent_perm = FOk f1 /\
                mkdir maxl f1 h home_perm = FOk f2 /\
                chown maxl f2 h (ue_uid e) (ue_gid e) = FOk f'.
Proof.
  intros maxl f e f' Hn Hs H. unfold ensure_home in H.
  destruct (String.eqb_spec (ue_home e) no_home); [contradiction|]. rewrite Hs in H.
  apply fbind_ok' in H. destruct H as (f1 & H1 & H). apply fbind_ok' in H. destruct H as (f2 & H2 & H).
  exists f1, f2. auto.
Qed.

(* the created home on a tree where nothing is in the way: 0700, owned by the
   entry, parents 0755 — a concrete instance (non-vacuity), and the trailing-slash
   witness of finding C13-F3 *)
Definition tree_with_etc : fs :=
  [mkNode KDir 493 0 0 "" "" [("etc", 1%nat)] ""; mkNode KDir 493 0 0 "" "" [] ""].

Lemma home_created_example :
  exists f', ensure_home 40 tree_with_etc (mkUE "app" "x" 1000 1000 "" "/home/app" "/bin/sh") = FOk f' /\
    option_map sinfo_of (match stat 40 f' (path_of "/home/app") with FOk n => Some n | _ => None end)
      = Some (mkSinfo KDir spec_home_mode 1000 1000) /\
    option_map sinfo_of (match stat 40 f' (path_of "/home") with FOk n => Some n | _ => None end)
      = Some (mkSinfo KDir spec_parent_mode 0 0).
Proof. eexists. split; [vm_compute; reflexivity|]. split; vm_compute; reflexivity. Qed.

(* the replay of the former finding C13-F3 (fixed by 82f3aa3): a missing home
   declared as "/srv/ts/" is now the 0700 directory itself *)
Lemma home_trailing_slash_fixed :
  exists e f', ue_home e = "/srv/ts/" /\ ensure_home 40 tree_with_etc e = FOk f' /\
    stat 40 tree_with_etc (path_of (ue_home e)) = FNotExist /\
    home_realised_b (ue_uid e) (ue_gid e) None
      (option_map sinfo_of (match stat 40 f' (path_of (ue_home e)) with FOk n => Some n | _ => None end)) = true /\
    stat 40 f' (path_of "/srv/ts/ts") = FNotExist.
Proof.
  exists (mkUE "ts" "x" 5 6 "" "/srv/ts/" "/bin/sh"). eexists.
  split; [reflexivity|]. split; [vm_compute; reflexivity|]. repeat split; vm_compute; reflexivity.
Qed.

(* ---- the validators decide the readable statements ---------------------------- *)
Lemma run_as_resolved_b_iff : forall ra es r, run_as_resolved_b ra es r = true <-> RunAsResolved ra es r.
Proof.
  intros ra es r. unfold run_as_resolved_b, RunAsResolved.
  destruct (String.eqb ra ""); [apply String.eqb_eq|].
  destruct (first_named ra es); apply String.eqb_eq.
Qed.

Lemma kind_eqb_iff : forall a b, kind_eqb a b = true <-> a = b.
Proof. intros [] []; simpl; split; congruence. Qed.
Lemma sinfo_eqb_iff : forall a b, sinfo_eqb a b = true <-> a = b.
Proof.
  intros [k p u g] [k' p' u' g']. unfold sinfo_eqb. cbn [si_kind si_perm si_uid si_gid].
  rewrite !andb_true_iff, kind_eqb_iff, !N.eqb_eq. split.
  - intros [[[-> ->] ->] ->]. reflexivity.
  - intro H. inversion H. auto.
Qed.
Lemma home_realised_b_iff : forall u g b a, home_realised_b u g b a = true <-> HomeRealised u g b a.
Proof.
  intros u g [b|] a; unfold home_realised_b, HomeRealised.
  - rewrite andb_true_iff, kind_eqb_iff. destruct a as [a|]; simpl.
    + rewrite sinfo_eqb_iff. split; [intros [H ->]; auto | intros [H E]; inversion E; auto].
    + split; [intros [_ H]; discriminate | intros [_ H]; discriminate].
  - destruct a as [a|]; simpl.
    + rewrite sinfo_eqb_iff. split; [intros ->; reflexivity | intro E; inversion E; reflexivity].
    + split; discriminate.
Qed.

Lemma user_realised_b_iff : forall u e, user_realised_b u e = true <-> UserRealised u e.
Proof.
  intros u e. unfold user_realised_b, UserRealised.
  rewrite !andb_true_iff, !String.eqb_eq, !N.eqb_eq. tauto.
Qed.
Lemma ue_eqb_iff : forall a b, ue_eqb a b = true <-> a = b.
Proof.
  intros [n p u g i h s] [n' p' u' g' i' h' s']. unfold ue_eqb. cbn.
  rewrite !andb_true_iff, !String.eqb_eq, !N.eqb_eq. split.
  - intros [[[[[[-> ->] ->] ->] ->] ->] ->]. reflexivity.
  - intro H. inversion H. tauto.
Qed.
Lemma forall2b_iff : forall {A B} (p : A -> B -> bool) (P : A -> B -> Prop),
  (forall a b, p a b = true <-> P a b) ->
  forall l l', forall2b p l l' = true <-> Forall2 P l l'.
Proof.
  intros A B p P H. induction l as [|x l IH]; destruct l' as [|y l']; simpl; split; intro E;
    try discriminate; try constructor; try solve [inversion E].
  - apply andb_true_iff in E. apply H, E.
  - apply andb_true_iff in E. apply IH, E.
  - inversion E; subst. apply andb_true_iff. split; [apply H | apply IH]; assumption.
Qed.
Lemma passwd_realised_b_iff : forall old users new,
  passwd_realised_b old users new = true <-> PasswdRealised old users new.
Proof.
  intros old users new. unfold passwd_realised_b, PasswdRealised.
  rewrite andb_true_iff, (list_eqb_spec ue_eqb ue_eqb_iff), (forall2b_iff _ _ user_realised_b_iff).
  split.
  - intros [H1 H2]. exists (skipn (List.length old) new). split; [|exact H2].
    rewrite <- H1 at 1. symmetry. apply firstn_skipn.
  - intros (added & -> & H). split.
    + rewrite firstn_app, Nat.sub_diag, firstn_all. simpl. apply app_nil_r.
    + rewrite skipn_app, Nat.sub_diag, skipn_all. exact H.
Qed.
