(* C13 (accounts half) — proofs about Model/Accounts.v against Spec/AccountsSpec.v. *)
From Apko Require Import Base.Prelude Model.C13Fs Model.Accounts Generated.C13Consts Spec.AccountsSpec.
Open Scope string_scope. Open Scope list_scope.

(* ---- the constants read from the source are the documented defaults ------- *)
Lemma consts_are_spec :
  default_shell = spec_default_shell /\ home_prefix = spec_home_prefix /\
  validate_home_prefix = spec_home_prefix /\ no_home = spec_no_home /\
  home_perm = spec_home_mode /\ home_parent_perm = spec_parent_mode /\ gid_defaults_to_uid = true.
Proof. repeat split; reflexivity. Qed.

(* ---- userToUserEntry / appendGroup realise the configured account --------- *)
Lemma user_to_entry_realised : forall u, UserRealised u (user_to_entry u).
Proof. intro u. unfold UserRealised, user_to_entry, spec_gid, spec_shell, spec_home. cbn. repeat split; reflexivity. Qed.
Lemma group_to_entry_realised : forall g, GroupRealised g (group_to_entry g).
Proof. intro g. unfold GroupRealised, group_to_entry. cbn. repeat split; reflexivity. Qed.

Lemma map_realised : forall users, Forall2 UserRealised users (List.map user_to_entry users).
Proof. induction users; simpl; constructor; auto using user_to_entry_realised. Qed.
Lemma map_group_realised : forall gs, Forall2 GroupRealised gs (List.map group_to_entry gs).
Proof. induction gs; simpl; constructor; auto using group_to_entry_realised. Qed.

(* defaults exactly when unset *)
Lemma defaults_exactly_when_unset : forall u,
  let e := user_to_entry u in
  (cu_shell u = "" -> ue_shell e = default_shell) /\ (cu_shell u <> "" -> ue_shell e = cu_shell u) /\
  (cu_home u = "" -> ue_home e = (home_prefix ++ cu_name u)%string) /\ (cu_home u <> "" -> ue_home e = cu_home u) /\
  (cu_gid u = None -> ue_gid e = cu_uid u) /\ (forall g, cu_gid u = Some g -> ue_gid e = g) /\
  ue_uid e = cu_uid u /\ ue_name e = cu_name u.
Proof.
  intro u. cbn. unfold user_to_entry. cbn.
  repeat split.
  - intros ->. reflexivity.
  - intro H. destruct (String.eqb_spec (cu_shell u) ""); [contradiction | reflexivity].
  - intros ->. reflexivity.
  - intro H. destruct (String.eqb_spec (cu_home u) ""); [contradiction | reflexivity].
  - intros ->. reflexivity.
  - intros g ->. reflexivity.
Qed.

(* ---- run-as ----------------------------------------------------------------- *)
Lemma resolve_run_as_spec : forall ra es, ra <> "" ->
  RunAsResolved ra es (resolve_run_as ra es).
Proof.
  intros ra es Hne. unfold RunAsResolved.
  destruct (String.eqb_spec ra ""); [contradiction|].
  induction es as [|e t IH]; simpl; [reflexivity|].
  destruct (String.eqb (ue_name e) ra); [reflexivity | exact IH].
Qed.

Lemma first_named_app : forall nm a b,
  first_named nm (a ++ b) = match first_named nm a with Some e => Some e | None => first_named nm b end.
Proof. induction a as [|e t IH]; intro b; simpl; [reflexivity|]. destruct (String.eqb (ue_name e) nm); auto. Qed.
