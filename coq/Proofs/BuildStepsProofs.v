(* C10 — the order of the build steps (Model/BuildSteps.v over Generated/C10Steps.v):
   the trace depends on the conditions only through the finitely many condition
   texts of the source, so a statement about every configuration is decided by
   enumerating their valuations; under the order the source has, the layered build
   and the single-layer build serialise related filesystem states. *)
From Apko Require Import Base.Prelude Model.BuildSteps.
Open Scope string_scope. Open Scope list_scope.
Arguments in_list : simpl never.

(* ---- the trace looks at [cond] only at the condition texts it meets ---------------------------- *)
Lemma guards_hold_ext : forall cond cond' gs, (forall c, In c (map fst gs) -> cond c = cond' c) ->
  guards_hold cond gs = guards_hold cond' gs.
Proof.
  intros cond cond' gs H. unfold guards_hold. induction gs as [| g r IH]; simpl; [reflexivity|].
  rewrite (H (fst g)) by (simpl; auto). rewrite IH; [reflexivity|]. intros c Hc. apply H. simpl. auto.
Qed.

Lemma find_def_conds : forall n defs cb, find_def n defs = Some cb -> incl (conds_body cb) (conds_of defs).
Proof.
  induction defs as [| [m b] r IH]; intros cb H; simpl in H; [discriminate|].
  unfold conds_of. simpl. destruct (String.eqb n m).
  - inversion H; subst. apply incl_appl. apply incl_refl.
  - apply incl_appr. exact (IH cb H).
Qed.

Lemma trace_unfold : forall k defs cond b,
  trace (S k) defs cond b =
  match b with
  | [] => ([], Cont)
  | (gs, name) :: rest =>
      if guards_hold cond gs then
        if String.eqb name "return" then ([], Cont)
        else if String.eqb name "fail" then ([], Failed)
        else
          let '(t1, s1) := match find_def name defs with
                           | Some cb => trace k defs cond cb
                           | None => ([name], Cont)
                           end in
          match s1 with
          | Cont => let '(t2, s2) := trace (S k) defs cond rest in (t1 ++ t2, s2)
          | _ => (t1, s1)
          end
      else trace (S k) defs cond rest
  end.
Proof. intros k defs cond b. destruct b as [| [gs name] rest]; reflexivity. Qed.

Lemma trace_ext : forall fuel defs cond cond' body,
  (forall c, In c (conds_of defs) -> cond c = cond' c) ->
  (forall c, In c (conds_body body) -> cond c = cond' c) ->
  trace fuel defs cond body = trace fuel defs cond' body.
Proof.
  induction fuel as [| k IHk]; intros defs cond cond' body Hd Hb; [reflexivity|].
  induction body as [| [gs name] rest IHb]; [reflexivity|].
  rewrite trace_unfold. symmetry. rewrite trace_unfold. symmetry.
  assert (Hg : guards_hold cond gs = guards_hold cond' gs).
  { apply guards_hold_ext. intros c Hc. apply Hb. unfold conds_body. simpl. apply in_or_app. left. exact Hc. }
  assert (Hr : trace (S k) defs cond rest = trace (S k) defs cond' rest).
  { apply IHb. intros c Hc. apply Hb. unfold conds_body in *. simpl. apply in_or_app. right. exact Hc. }
  rewrite Hg, Hr.
  assert (Hc : match find_def name defs with Some cb => trace k defs cond cb | None => ([name], Cont) end =
               match find_def name defs with Some cb => trace k defs cond' cb | None => ([name], Cont) end).
  { destruct (find_def name defs) as [cb|] eqn:F; [| reflexivity].
    apply IHk; [exact Hd|]. intros c Hin. apply Hd. exact (find_def_conds _ _ _ F c Hin). }
  rewrite Hc. reflexivity.
Qed.

(* ---- every configuration is one of the enumerated valuations ---------------------------------- *)
Lemma in_list_spec : forall n l, in_list n l = true <-> In n l.
Proof.
  intros n l. unfold in_list. rewrite existsb_exists. split.
  - intros [x [Hx E]]. apply String.eqb_eq in E. subst. exact Hx.
  - intros H. exists n. split; [exact H | apply String.eqb_refl].
Qed.

Lemma in_dedup : forall l x, In x (dedup l) <-> In x l.
Proof.
  induction l as [| y r IH]; intros x; simpl; [tauto|].
  destruct (in_list y r) eqn:E.
  - rewrite IH. apply in_list_spec in E. split; [auto|]. intros [<- | H]; auto.
  - simpl. rewrite IH. tauto.
Qed.

Definition val_of (cond : string -> bool) (l : list string) : list guard := map (fun c => (c, cond c)) l.

Lemma val_of_in : forall cond l, In (val_of cond l) (all_vals l).
Proof.
  intros cond. induction l as [| c r IH]; simpl; [auto|].
  apply in_flat_map. exists (val_of cond r). split; [exact IH|]. simpl. destruct (cond c); auto.
Qed.

Lemma val_of_fun : forall cond l c, In c l -> val_fun (val_of cond l) c = cond c.
Proof.
  intros cond l c. unfold val_fun. induction l as [| d r IH]; intros H; [destruct H|].
  simpl. destruct (String.eqb c d) eqn:E.
  - apply String.eqb_eq in E. subst. reflexivity.
  - destruct H as [-> | H]; [rewrite String.eqb_refl in E; discriminate | exact (IH H)].
Qed.

Lemma override_ext : forall k cond cond' c, cond c = cond' c -> override k cond c = override k cond' c.
Proof. intros k cond cond' c H. unfold override. destruct (assoc_b k c); auto. Qed.

Theorem build_check_all : forall chk defs,
  forallb (fun v => build_check chk defs (val_fun v)) (all_vals (dedup (conds_of defs))) = true ->
  forall cond, build_check chk defs cond = true.
Proof.
  intros chk defs H cond. rewrite forallb_forall in H.
  specialize (H _ (val_of_in cond (dedup (conds_of defs)))).
  unfold build_check, build_trace in *.
  assert (E : forall k, trace 8 defs (override k cond) [([], entry_point)] =
                        trace 8 defs (override k (val_fun (val_of cond (dedup (conds_of defs))))) [([], entry_point)]).
  { intros k. apply trace_ext.
    - intros c Hc. apply override_ext. symmetry. apply val_of_fun. apply in_dedup. exact Hc.
    - intros c Hc. destruct Hc. }
  rewrite !E. exact H.
Qed.

(* ---- what [order_ok] says ----------------------------------------------------------------------- *)
Lemma split_at_serialiser_spec : forall t a s b, split_at_serialiser t = Some (a, s, b) ->
  t = a ++ s :: b /\ in_list s serialisers = true /\ forall n, In n a -> in_list n serialisers = false.
Proof.
  induction t as [| n r IH]; intros a s b H; [discriminate|].
  change (split_at_serialiser (n :: r)) with
    (if in_list n serialisers then Some ([], n, r)
     else match split_at_serialiser r with Some (a, s, b) => Some (n :: a, s, b) | None => None end) in H.
  destruct (in_list n serialisers) eqn:E.
  - inversion H; subst. split; [reflexivity|]. split; [exact E|]. intros m [].
  - destruct (split_at_serialiser r) as [[[a0 s0] b0]|] eqn:R; [| discriminate]. inversion H; subst.
    destruct (IH a0 s b eq_refl) as [E1 [E2 E3]]. split; [simpl; rewrite E1; reflexivity|]. split; [exact E2|].
    intros m [<- | Hm]; [exact E | exact (E3 m Hm)].
Qed.

Lemma split_at_serialiser_app : forall a s b, (forall n, In n a -> in_list n serialisers = false) ->
  in_list s serialisers = true -> split_at_serialiser (a ++ s :: b) = Some (a, s, b).
Proof.
  induction a as [| n r IH]; intros s b Ha Hs.
  - change (split_at_serialiser ([] ++ s :: b)) with
      (if in_list s serialisers then Some ([], s, b)
       else match split_at_serialiser b with Some (a, s0, b0) => Some (s :: a, s0, b0) | None => None end).
    rewrite Hs. reflexivity.
  - change (split_at_serialiser ((n :: r) ++ s :: b)) with
      (if in_list n serialisers then Some ([], n, r ++ s :: b)
       else match split_at_serialiser (r ++ s :: b) with Some (a, s0, b0) => Some (n :: a, s0, b0) | None => None end).
    rewrite (Ha n (or_introl eq_refl)), IH; [reflexivity | | exact Hs]. intros m Hm. apply Ha. right. exact Hm.
Qed.

Lemma str_list_eqb_spec : forall a b, str_list_eqb a b = true -> a = b.
Proof. intros a b H. apply (list_eqb_spec String.eqb); [| exact H]. intros x y. apply String.eqb_eq. Qed.

(* the readable form: both builds serialise — the single-layer one with writeTar, the
   layered one with splitLayers — after the same list of steps that may change the
   filesystem, and nothing that may change it follows; or both fail before serialising
   anything, after the same such steps *)
Definition OrderOk (tS tM : list string * status) : Prop :=
  (exists a b a' b', fst tS = a ++ "writeTar" :: b /\ fst tM = a' ++ "splitLayers" :: b' /\
     (forall n, In n a -> in_list n serialisers = false) /\ (forall n, In n a' -> in_list n serialisers = false) /\
     filter mutating a = filter mutating a' /\ filter mutating b = [] /\ filter mutating b' = [] /\
     snd tS = Cont /\ snd tM = Cont) \/
  (split_at_serialiser (fst tS) = None /\ split_at_serialiser (fst tM) = None /\
   filter mutating (fst tS) = filter mutating (fst tM) /\ snd tS = Failed /\ snd tM = Failed).

Lemma order_ok_spec : forall tS tM, order_ok tS tM = true -> OrderOk tS tM.
Proof.
  intros [tS sS] [tM sM] H. unfold order_ok in H. simpl in H. unfold OrderOk. simpl.
  destruct sS; try discriminate; destruct sM; try discriminate;
  destruct (split_at_serialiser tS) as [[[a s] b]|] eqn:ES; destruct (split_at_serialiser tM) as [[[a' s'] b']|] eqn:EM;
    try discriminate; rewrite ?andb_true_iff in H; try (destruct H as [_ H]; discriminate).
  - destruct H as [[[[H1 H2] H3] H4] _]. left.
    destruct (split_at_serialiser_spec _ _ _ _ ES) as [A1 [_ A3]]. destruct (split_at_serialiser_spec _ _ _ _ EM) as [B1 [_ B3]].
    apply String.eqb_eq in H1. apply String.eqb_eq in H2. subst s s'.
    exists a, b, a', b'. repeat split; auto; try (apply str_list_eqb_spec; exact H3);
      destruct (filter mutating b); destruct (filter mutating b'); try discriminate; reflexivity.
  - destruct H as [H _]. right. repeat split; auto. apply str_list_eqb_spec. exact H.
Qed.

(* stated for arbitrary step lists, so that instantiating them costs no evaluation *)
Lemma build_order_spec : forall defs cond, build_check order_ok defs cond = true ->
  OrderOk (build_trace defs (override (single_when defs) cond)) (build_trace defs (override (multi_when defs) cond)).
Proof. intros defs cond H. apply order_ok_spec. exact H. Qed.

Lemma repos_last_spec : forall defs cond, build_check repos_last_both defs cond = true ->
  repos_last (build_trace defs (override (single_when defs) cond)) = true /\
  repos_last (build_trace defs (override (multi_when defs) cond)) = true.
Proof. intros defs cond H. apply andb_true_iff. exact H. Qed.

(* ---- running the steps on states ----------------------------------------------------------------- *)
Section States.
  Variable S : Type.
  Variable R : S -> S -> Prop.          (* "the same filesystem apart from what records the layering request" *)
  Definition res_rel (a b : res S) : Prop :=
    match a, b with
    | Ok x, Ok y => R x y
    | Err, Err | Panic, Panic | OutOfFuel, OutOfFuel => True
    | _, _ => False
    end.

  Variables semS semM : string -> S -> res S.
  (* every step takes related states to related outcomes: each preserves the relation, and
     the one step that looks at the layering request (WriteEtcApkoConfig) differs only
     in what the relation ignores *)
  Hypothesis Hrel : forall n s s', R s s' -> res_rel (semS n s) (semM n s').
  (* the calls classified as reads leave the state alone *)
  Hypothesis HpureS : forall n s, in_list n pure_calls = true -> semS n s = Ok s.
  Hypothesis HpureM : forall n s, in_list n pure_calls = true -> semM n s = Ok s.

  Lemma exec_rel : forall t s s', R s s' -> res_rel (exec S semS t s) (exec S semM t s').
  Proof.
    induction t as [| n r IH]; intros s s' H; simpl; [exact H|].
    pose proof (Hrel n s s' H) as G. unfold res_rel in G.
    destruct (semS n s) as [x| | |]; destruct (semM n s') as [y| | |]; try contradiction; simpl; auto.
  Qed.

  Lemma exec_filter : forall sem, (forall n s, in_list n pure_calls = true -> sem n s = Ok s) ->
    forall t s, (forall n, In n t -> in_list n serialisers = false) -> exec S sem t s = exec S sem (filter mutating t) s.
  Proof.
    intros sem Hp. induction t as [| n r IH]; intros s Hs; [reflexivity|].
    assert (Hr : forall m, In m r -> in_list m serialisers = false) by (intros m Hm; apply Hs; right; exact Hm).
    cbn [filter exec]. destruct (mutating n) eqn:M.
    - cbn [exec]. destruct (sem n s) as [x| | |]; cbn [rbind]; auto.
    - assert (P : in_list n pure_calls = true).
      { unfold mutating in M. rewrite (Hs n (or_introl eq_refl)) in M. cbn [negb] in M. rewrite andb_true_r in M.
        apply negb_false_iff in M. exact M. }
      rewrite (Hp n s P). cbn [rbind]. exact (IH s Hr).
  Qed.

  (* the states handed to the serialisers are related *)
  Theorem serialised_states_related : forall tS tM s0 s0', OrderOk tS tM -> R s0 s0' ->
    match split_at_serialiser (fst tS), split_at_serialiser (fst tM) with
    | Some (a, _, _), Some (a', _, _) => res_rel (exec S semS a s0) (exec S semM a' s0')
    | None, None => True
    | _, _ => False
    end.
  Proof.
    intros tS tM s0 s0' [[a [b [a' [b' [E1 [E2 [N1 [N2 [F [_ [_ _]]]]]]]]]]] | [E1 [E2 _]]] H0.
    - assert (G1 : split_at_serialiser (fst tS) = Some (a, "writeTar", b))
        by (rewrite E1; apply split_at_serialiser_app; [exact N1 | reflexivity]).
      assert (G2 : split_at_serialiser (fst tM) = Some (a', "splitLayers", b'))
        by (rewrite E2; apply split_at_serialiser_app; [exact N2 | reflexivity]).
      rewrite G1, G2. rewrite (exec_filter semS HpureS a s0 N1), (exec_filter semM HpureM a' s0' N2), F.
      apply exec_rel. exact H0.
    - rewrite E1, E2. exact I.
  Qed.
End States.

(* ---- the step-by-step relation, from "who can see the layering block" ------------------------------
   [sem b] : what the steps do when the configuration has (b = true) / has not a layering block.
   A step that cannot see the block does the same in both; every step takes related states to related
   outcomes; only for the steps that can see it and may change the filesystem is a relation between
   the two behaviours asked for. *)
Section Readers.
  Variable S : Type.
  Variable R : S -> S -> Prop.
  Variable readers : list string.
  Variable sem : bool -> string -> S -> res S.
  Hypothesis Hblind : forall n, in_list n readers = false -> sem true n = sem false n.
  Hypothesis Hmono : forall n s s', R s s' -> res_rel S R (sem false n s) (sem false n s').
  Hypothesis Hreader : forall n s s', in_list n readers = true -> in_list n pure_calls = false ->
    R s s' -> res_rel S R (sem false n s) (sem true n s').
  Hypothesis Hpure : forall b n s, in_list n pure_calls = true -> sem b n s = Ok s.

  Lemma rel_from_readers : forall n s s', R s s' -> res_rel S R (sem false n s) (sem true n s').
  Proof.
    intros n s s' H. destruct (in_list n readers) eqn:Er.
    - destruct (in_list n pure_calls) eqn:Ep.
      + rewrite (Hpure false n s Ep), (Hpure true n s' Ep). exact H.
      + exact (Hreader n s s' Er Ep H).
    - rewrite (Hblind n Er). exact (Hmono n s s' H).
  Qed.
End Readers.
