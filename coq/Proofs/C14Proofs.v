(* C14 proofs: disqualify_difference marks exactly the packages missing from
   another architecture; members chosen through filter_packages avoid them;
   with one architecture nothing is marked. *)
From Apko Require Import Base.Prelude Generated.VersionConsts Model.Version Model.Resolver Spec.ResolveSpec
  Proofs.ResolveProofs Proofs.ResolveProofs2.
Open Scope string_scope. Open Scope list_scope. Open Scope nat_scope.

Lemma available_in_spec V p : available_in V p = true <-> Available V p.
Proof.
  unfold available_in, Available. rewrite existsb_exists. split.
  - intros [q [Hq E]]. apply andb_true_iff in E. destruct E as [E1 E2].
    apply String.eqb_eq in E1. apply String.eqb_eq in E2. exists q. auto.
  - intros [q [Hq [E1 E2]]]. exists q. split; [exact Hq|]. apply andb_true_iff. split; apply String.eqb_eq; assumption.
Qed.

Lemma number_from_In {A} (l : list A) : forall i0 i x, nth_error l i = Some x -> In (i0 + i, x) (number_from i0 l).
Proof.
  induction l as [|a l IH]; intros i0 i x H; [destruct i; discriminate|].
  destruct i as [|i]; simpl in *.
  - inversion H; subst. left. rewrite Nat.add_0_r. reflexivity.
  - right. replace (i0 + S i) with (S i0 + i) by lia. apply IH. exact H.
Qed.

Lemma dq_of_arch_spec others U i :
  In i (dq_of_arch others U) <->
  i < List.length U /\ exists V, In V others /\ ~ Available V (nth i U dummy_pkg).
Proof.
  unfold dq_of_arch. rewrite in_map_iff. split.
  - intros [[i' p] [E H]]. simpl in E. subst i'. apply filter_In in H. destruct H as [H1 H2]. simpl in H2.
    pose proof (number_from_bound _ _ _ _ H1) as B. pose proof (number_from_nth _ _ _ _ H1) as N.
    rewrite Nat.sub_0_r in N. split; [lia|]. apply existsb_exists in H2. destruct H2 as [V [HV E]].
    exists V. split; [exact HV|]. rewrite (nth_error_nth _ _ _ N). rewrite <- available_in_spec.
    apply negb_true_iff in E. congruence.
  - intros [Hi [V [HV NA]]].
    destruct (nth_error U i) as [p|] eqn:E; [|apply nth_error_None in E; lia].
    exists (i, p). split; [reflexivity|]. apply filter_In. split.
    + apply (number_from_In U 0 i p E).
    + simpl. apply existsb_exists. exists V. split; [exact HV|]. apply negb_true_iff.
      rewrite (nth_error_nth _ _ _ E) in NA. destruct (available_in V p) eqn:B; [|reflexivity].
      apply available_in_spec in B. contradiction.
Qed.

(* exactly the packages whose (name, version) is missing from some OTHER architecture *)
Theorem disqualify_difference_spec by_arch a i :
  In (a, i) (disqualify_difference by_arch) <->
  List.length by_arch <> 1 /\
  exists U, In (a, U) by_arch /\ i < List.length U /\
    exists b V, In (b, V) by_arch /\ b <> a /\ ~ Available V (nth i U dummy_pkg).
Proof.
  unfold disqualify_difference. destruct (Nat.eqb (List.length by_arch) 1) eqn:E1.
  - apply Nat.eqb_eq in E1. split; [intros [] | intros [H _]; contradiction].
  - apply Nat.eqb_neq in E1. rewrite in_flat_map. split.
    + intros [[a' U] [Hin H]]. simpl in H. apply in_map_iff in H. destruct H as [i' [E H]]. inversion E; subst.
      apply dq_of_arch_spec in H. destruct H as [Hi [V [HV NA]]].
      apply in_map_iff in HV. destruct HV as [[b V'] [EV HV]]. simpl in EV. subst V'.
      apply filter_In in HV. destruct HV as [HV1 HV2]. simpl in HV2. apply negb_true_iff in HV2. apply String.eqb_neq in HV2.
      split; [exact E1|]. exists U. split; [exact Hin|]. split; [exact Hi|]. exists b, V. auto.
    + intros [_ [U [Hin [Hi [b [V [HV [Hb NA]]]]]]]]. exists (a, U). split; [exact Hin|]. simpl.
      apply in_map. apply dq_of_arch_spec. split; [exact Hi|]. exists V. split; [|exact NA].
      apply in_map_iff. exists (b, V). split; [reflexivity|]. apply filter_In. split; [exact HV|]. simpl.
      apply negb_true_iff. apply String.eqb_neq. exact Hb.
Qed.

Lemma dq_for_spec by_arch a i : In i (dq_for by_arch a) <-> In (a, i) (disqualify_difference by_arch).
Proof.
  unfold dq_for. rewrite in_map_iff. split.
  - intros [[a' i'] [E H]]. simpl in E. subst i'. apply filter_In in H. destruct H as [H1 H2]. simpl in H2.
    apply String.eqb_eq in H2. subst. exact H1.
  - intros H. exists (a, i). split; [reflexivity|]. apply filter_In. split; [exact H|]. simpl. apply String.eqb_refl.
Qed.

Lemma single_arch_nothing by_arch : List.length by_arch <= 1 -> disqualify_difference by_arch = [].
Proof.
  intros H. unfold disqualify_difference. destruct by_arch as [|x [|y t]]; simpl in *; [reflexivity | reflexivity | lia].
Qed.

(* members chosen through filter_packages are outside the initial set: a member
   inside it can only have come from the install_if loop *)
Lemma members_filtered U W dq0 S j :
  resolve U W dq0 = Ok S -> In j S -> In j dq0 -> p_install_if (nth j U dummy_pkg) <> [].
Proof.
  intros H Hj Hd. apply (resolve_ok _ _ _ _ (new_resolver_wf2 U)) in H. destruct H as [_ [H _]].
  rewrite Forall_forall in H. specialize (H j Hj). destruct H as [_ [N|I]]; [contradiction|].
  rewrite getp_new_resolver in I. unfold has_iif, cook_pkg in I; cbn [k_iifs] in I.
  intro E. rewrite E in I. discriminate.
Qed.

Lemma no_foreign_partial by_arch a U W S :
  In (a, U) by_arch -> (forall p, In p U -> p_install_if p = []) ->
  resolve U W (dq_for by_arch a) = Ok S ->
  forall j b V, In j S -> In (b, V) by_arch -> b <> a -> Available V (nth j U dummy_pkg).
Proof.
  intros Ha Hno H j b V Hj Hb Hne.
  pose proof (resolve_ok _ _ _ _ (new_resolver_wf2 U) H) as [_ [HM _]].
  rewrite Forall_forall in HM. specialize (HM j Hj). destruct HM as [Vj _].
  unfold valid, new_resolver in Vj; cbn [r_pkgs] in Vj. rewrite map_length in Vj.
  destruct (available_in V (nth j U dummy_pkg)) eqn:B; [apply available_in_spec; exact B|].
  exfalso. apply (members_filtered U W _ S j H Hj).
  - apply dq_for_spec. apply disqualify_difference_spec. split.
    + intro L. destruct by_arch as [|x [|y t]]; simpl in L; try discriminate.
      destruct Ha as [Ea|[]]. destruct Hb as [Eb|[]]. congruence.
    + exists U. split; [exact Ha|]. split; [exact Vj|]. exists b, V. split; [exact Hb|]. split; [exact Hne|].
      rewrite <- available_in_spec. congruence.
  - apply Hno. apply nth_In. exact Vj.
Qed.
