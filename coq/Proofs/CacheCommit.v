(* C19 — what a LOOKUP can rely on while builders are running: advertised
   entries never disappear; the PackageData call that ends cachePackage never
   rebuilds; and, for the repaired order of cachePackage (control section
   advertised last, fixes/C19-F2.patch), an advertised control section means
   that everything else of the package is advertised — so a lookup that reads
   the four sections at four different moments is still exact. *)
From Apko Require Import Base.Prelude Model.Cache Spec.CacheSpec Proofs.CacheProofs Proofs.CacheTemp.
Open Scope string_scope. Open Scope list_scope.

Lemma run_app : forall gunzip srv s a b,
  run gunzip srv s (a ++ b) = run gunzip srv (run gunzip srv s a) b.
Proof. intros. unfold run. apply fold_left_app. Qed.

Section Mono.
Variable gunzip : content -> content.
Variable origin : path -> content.
Variable srv : server.

Hypothesis gunzip_ok : forall dir h, gunzip (origin (PMember dir MDat h)) = origin (PMember dir MTar h).
Hypothesis srv_ok : forall t dir, snd (srv t dir) = origin (PIndex dir (fst (srv t dir))).

Notation Inv := (Inv gunzip origin).
Notation step := (step gunzip srv).
Notation run := (run gunzip srv).

(* ---- how a step changes an advertised name -------------------------------- *)
Lemma step_adv_cases : forall s i n, Inv s -> is_adv n = true ->
  dsk (step s i) n = dsk s n \/
  (exists src rest, nth_error (procs s) i = Some (Symlink src n :: rest) /\ dsk s n = None /\
                    dsk (step s i) n = Some (Link src)) \/
  (exists src rest x, nth_error (procs s) i = Some (Rename src n :: rest) /\ dsk (step s i) n = Some x).
Proof.
  intros s i n (HD & HF & HP) Hn.
  destruct (step_cases gunzip srv s i) as [[_ ->] | (a & rest & Ei & ->)]; [left; reflexivity|].
  cbn [dsk]. pose proof (HP i _ Ei) as Hok.
  pose proof (adv_not_owned n Hn) as Hno.
  assert (Hown : own_step i a -> fst (exec_t gunzip srv (clk s) (dsk s) a) n = dsk s n).
  { intros Hs. rewrite (own_step_exec_t gunzip srv i a _ _ Hs). eapply own_step_adv; eauto. }
  destruct a; simpl in Hok; try (left; apply Hown; simpl; tauto).
  - left. reflexivity.
  - (* Symlink *) simpl. destruct Hok as (K1 & K2 & K3 & K4 & K5).
    destruct (dsk s dst) as [x|] eqn:Ed; [left; reflexivity|].
    destruct (path_eq_dec n dst) as [->|Hne].
    + right. left. exists src, rest. rewrite upd_same. auto.
    + left. apply upd_other; auto.
  - left. reflexivity.
  - (* Rename *) simpl. destruct Hok as (K1 & K2 & K3 & K4). rewrite K3.
    assert (Hns : n <> src) by (intros ->; congruence).
    rewrite upd_other by auto.
    destruct (path_eq_dec n dst) as [->|Hne].
    + right. right. exists src, rest. rewrite upd_same. eauto.
    + left. apply upd_other; auto.
  - left. reflexivity.
  - left. reflexivity.
  - left. simpl. destruct (srv (clk s) dir). reflexivity.
Qed.

(* advertised entries never disappear *)
Lemma step_adv_mono : forall s i n, Inv s -> is_adv n = true -> dsk s n <> None -> dsk (step s i) n <> None.
Proof.
  intros s i n HI Hn Hex.
  destruct (step_adv_cases s i n HI Hn) as [E | [(src & rest & _ & _ & E) | (src & rest & x & _ & E)]];
    rewrite E; auto; discriminate.
Qed.

Lemma run_adv_mono : forall sched s n, Inv s -> is_adv n = true -> dsk s n <> None -> dsk (run s sched) n <> None.
Proof.
  unfold Cache.run. induction sched as [|i sched IH]; simpl; intros s n HI Hn Hex; auto.
  apply IH; auto.
  - apply (step_preserves_Inv gunzip origin srv gunzip_ok srv_ok); auto.
  - apply step_adv_mono; auto.
Qed.

End Mono.

Section Commit.
Variable gunzip : content -> content.
Variable origin : path -> content.
Variable srv : server.
Variable dh : content -> string.            (* the datahash a control section declares *)
Variable signed : string -> string -> bool. (* does the package with this control checksum carry a signature section? *)
Variable cl : bool.                         (* is the control section advertised last? *)

Hypothesis gunzip_ok : forall dir h, gunzip (origin (PMember dir MDat h)) = origin (PMember dir MTar h).
Hypothesis srv_ok : forall t dir, snd (srv t dir) = origin (PIndex dir (fst (srv t dir))).

Notation Inv := (Inv gunzip origin).
Notation step := (step gunzip srv).
Notation run := (run gunzip srv).
Notation step_adv_cases := (step_adv_cases gunzip origin srv).
Notation step_adv_mono := (step_adv_mono gunzip origin srv).

(* ---- what must be there before a name may be advertised ---------------------- *)
Definition required (n : path) : list path :=
  match n with
  | PMember dir MCtl h =>
      if cl then
        (if signed dir h then [PMember dir MSig h] else []) ++
        [PMember dir MDat (dh (origin n)); PMember dir MTar (dh (origin n))]
      else []
  | _ => []
  end.
Definition sig_allowed (n : path) : bool :=
  match n with PMember dir MSig h => signed dir h | _ => true end.

Lemma required_adv : forall n r, In r (required n) -> is_adv r = true.
Proof.
  intros n r H. destruct n; simpl in H; try contradiction. destruct m; try contradiction.
  destruct cl; [|contradiction]. apply in_app_or in H. destruct H as [H|H].
  - destruct (signed d h); [|contradiction]. destruct H as [<-|[]]. reflexivity.
  - destruct H as [<-|[<-|[]]]; reflexivity.
Qed.

Definition dst_ok (d : disk) (pend : list path) (dst : path) : Prop :=
  is_adv dst = true /\ sig_allowed dst = true /\ forall r, In r (required dst) -> d r <> None \/ In r pend.

(* [pend] = the names the program has advertised since the state [d] was taken
   (each exists once its AdvertiseCachedFile has returned) *)
Fixpoint cok (strict : bool) (d : disk) (pend : list path) (prog : list astep) : Prop :=
  match prog with
  | [] => True
  | a :: rest =>
      match a with
      | Advertise _ dst | Symlink _ dst => dst_ok d pend dst /\ cok strict d (dst :: pend) rest
      | Rename _ dst =>
          is_adv dst = true /\ sig_allowed dst = true /\ required dst = [] /\ cok strict d pend rest
      | Rebuild _ tar _ =>
          is_adv tar = true /\ sig_allowed tar = true /\ required tar = [] /\
          (strict = true -> d tar <> None \/ In tar pend) /\ cok strict d pend rest
      | _ => cok strict d pend rest
      end
  end.

Definition ext (d d' : disk) : Prop := forall n, is_adv n = true -> d n <> None -> d' n <> None.

Lemma dst_ok_mono : forall d d' pend pend' dst, ext d d' ->
  (forall r, In r pend -> d' r <> None \/ In r pend') ->
  dst_ok d pend dst -> dst_ok d' pend' dst.
Proof.
  intros d d' pend pend' dst He Hp (A & B & C). repeat split; auto.
  intros r Hr. destruct (C r Hr) as [H|H]; auto. left. apply He; auto. eapply required_adv; eauto.
Qed.

Lemma cok_mono : forall strict prog d d' pend pend', ext d d' ->
  (forall r, In r pend -> (is_adv r = true /\ d' r <> None) \/ In r pend') ->
  cok strict d pend prog -> cok strict d' pend' prog.
Proof.
  induction prog as [|a rest IH]; simpl; intros d d' pend pend' He Hp H; auto.
  assert (Hp' : forall r, In r pend -> d' r <> None \/ In r pend') by (intros r Hr; destruct (Hp r Hr); tauto).
  assert (Hcons : forall dst r, In r (dst :: pend) -> (is_adv r = true /\ d' r <> None) \/ In r (dst :: pend')).
  { intros dst r [<-|Hr]; [right; left; reflexivity|]. destruct (Hp r Hr); [left|right; right]; auto. }
  destruct a; try (eapply IH; eauto; fail).
  - destruct H as [H1 H2]. split; [eapply dst_ok_mono; eauto | eapply IH; eauto].
  - destruct H as [H1 H2]. split; [eapply dst_ok_mono; eauto | eapply IH; eauto].
  - destruct H as (H1 & H2 & H3 & H4 & H5). repeat split; auto; [|eapply IH; eauto].
    intros Hs. destruct (H4 Hs) as [K|K]; [left; apply He; auto | apply Hp' in K; exact K].
  - destruct H as (H1 & H2 & H3 & H4). repeat split; auto. eapply IH; eauto.
Qed.

Lemma ext_refl : forall d, ext d d.
Proof. intros d n _ H. exact H. Qed.

(* steps that advertise nothing *)
Definition plain (a : astep) : Prop :=
  match a with MkdirAll _ | MkTemp _ | Create _ | Append _ _ | Close _ | Remove _ => True | _ => False end.

Lemma cok_plain_app : forall strict d pend l rest, Forall plain l ->
  (cok strict d pend (l ++ rest) <-> cok strict d pend rest).
Proof.
  induction l as [|a l IH]; intros rest H; [tauto|].
  inversion H as [|? ? Ha Hl]; subst. cbn [app cok].
  destruct a; simpl in Ha; try contradiction; apply IH; auto.
Qed.

Lemma plain_appends : forall p c, Forall plain (List.map (Append p) c).
Proof. induction c; simpl; constructor; simpl; auto. Qed.
Lemma plain_write_file : forall p c, Forall plain (write_file p c).
Proof.
  intros. unfold write_file. constructor; [exact I|]. apply Forall_app. split; [apply plain_appends|].
  constructor; [exact I|constructor].
Qed.
Lemma plain_mix : forall p q a b, Forall plain (mix p q a b).
Proof.
  induction a as [|x a IH]; intros b; simpl; [apply plain_appends|].
  destruct b as [|y b]; [apply (plain_appends p (x :: a))|].
  constructor; [exact I|]. constructor; [exact I|]. apply IH.
Qed.

(* one step of a builder: what its program must satisfy afterwards *)
Lemma cok_exec : forall strict now d a rest,
  ext d (fst (exec_t gunzip srv now d a)) ->
  cok strict d [] (a :: rest) ->
  cok strict (fst (exec_t gunzip srv now d a)) [] (snd (exec_t gunzip srv now d a) ++ rest).
Proof.
  intros strict now d a rest He H.
  assert (Hdrop : forall d' n, ext d d' -> d' n <> None -> is_adv n = true ->
                    cok strict d [n] rest -> cok strict d' [] rest).
  { intros d' n He' Hn Ha Hc. eapply cok_mono; [exact He'| |exact Hc].
    intros r [<-|[]]. left. auto. }
  assert (Hsame : forall d', ext d d' -> cok strict d [] rest -> cok strict d' [] rest).
  { intros d' He' Hc. eapply cok_mono; [exact He'| |exact Hc]. intros r []. }
  destruct a; cbn [cok] in H; cbn [exec_t exec fst snd app] in *; try (apply Hsame; assumption).
  - (* Advertise *) destruct H as [H1 H2].
    destruct (resolve d dst) as [r|] eqn:Er; cbn [app cok].
    + eapply Hdrop; eauto. eapply resolve_exists; eauto. destruct H1; auto.
    + split; auto.
  - (* Symlink *) destruct H as [H1 H2]. destruct H1 as (Ha & _).
    destruct (d dst) as [x|] eqn:Ed.
    + eapply Hdrop; eauto. congruence.
    + eapply Hdrop; eauto. rewrite upd_same. discriminate.
  - (* Rebuild *) destruct H as (H1 & H2 & H3 & H4 & H5).
    destruct (resolve d tar); cbn [app]; auto.
    destruct (resolve d gz) as [[z bz]|]; cbn [app]; auto.
    rewrite <- app_assoc. apply cok_plain_app; [apply plain_write_file|].
    cbn [app cok]. auto.
  - (* Rename *) destruct H as (_ & _ & _ & H). apply Hsame; auto.
  - (* IdxStat *) destruct (resolve d (PIndex dir etag)); cbn [app cok]; auto.
  - (* Get *) destruct (srv now dir) as [e2 body]. cbn [fst snd] in *.
    unfold populate_index. cbn [app cok]. rewrite <- app_assoc.
    apply cok_plain_app; [apply plain_write_file|]. cbn [adv_steps List.map fst snd app cok].
    split.
    + unfold dst_ok. cbn [is_adv sig_allowed required]. repeat split; auto; intros r [];auto.
    + eapply cok_mono; [apply ext_refl| |exact H]. intros r [].
Qed.

(* ---- the extended invariant ---------------------------------------------------- *)
Variable strictf : nat -> bool.    (* builder j ends with cachePackage's PackageData (true) or is a reader (false) *)

Definition Cok (s : sys) : Prop :=
  forall j prog, nth_error (procs s) j = Some prog -> cok (strictf j) (dsk s) [] prog.
Definition Committed (d : disk) : Prop :=
  forall n, is_adv n = true -> d n <> None -> forall r, In r (required n) -> d r <> None.
Definition NoSig (d : disk) : Prop :=
  forall n, is_adv n = true -> d n <> None -> sig_allowed n = true.
Definition Inv2 (s : sys) : Prop := Inv s /\ Cok s /\ Committed (dsk s) /\ NoSig (dsk s).

Theorem step_preserves_Inv2 : forall s i, Inv2 s -> Inv2 (step s i).
Proof.
  intros s i (HI & HC & HM & HN).
  assert (He : ext (dsk s) (dsk (step s i))) by (intros n Hn Hex; apply step_adv_mono; auto).
  split; [apply (step_preserves_Inv gunzip origin srv gunzip_ok srv_ok); exact HI|].
  split; [|split].
  - (* Cok *)
    intros j prog Hj.
    destruct (step_cases gunzip srv s i) as [[_ E] | (a & rest & Ei & E)]; rewrite E in *; cbn [dsk procs] in *.
    + apply HC; auto.
    + destruct (Nat.eq_dec j i) as [->|Hne].
      * erewrite set_nth_same in Hj by eauto. inversion Hj; subst prog.
        apply cok_exec; auto.
      * rewrite set_nth_other in Hj by auto.
        eapply cok_mono; [exact He| |apply HC; exact Hj]. intros r [].
  - (* Committed *)
    intros n Hn Hex r Hr.
    destruct (step_adv_cases s i n HI Hn) as [E | [(src & rest & Ei & _ & _) | (src & rest & x & Ei & _)]].
    + rewrite E in Hex. apply He; [eapply required_adv; eauto|]. eapply HM; eauto.
    + pose proof (HC i _ Ei) as Hc. cbn [cok] in Hc. destruct Hc as [(_ & _ & Hreq) _].
      destruct (Hreq r Hr) as [K|[]]. apply He; [eapply required_adv; eauto | exact K].
    + pose proof (HC i _ Ei) as Hc. cbn [cok] in Hc. destruct Hc as (_ & _ & Hreq & _).
      rewrite Hreq in Hr. contradiction.
  - (* NoSig *)
    intros n Hn Hex.
    destruct (step_adv_cases s i n HI Hn) as [E | [(src & rest & Ei & _ & _) | (src & rest & x & Ei & _)]].
    + rewrite E in Hex. eapply HN; eauto.
    + pose proof (HC i _ Ei) as Hc. cbn [cok] in Hc. destruct Hc as [(_ & K & _) _]. exact K.
    + pose proof (HC i _ Ei) as Hc. cbn [cok] in Hc. destruct Hc as (_ & K & _). exact K.
Qed.

Theorem run_preserves_Inv2 : forall sched s, Inv2 s -> Inv2 (run s sched).
Proof.
  unfold Cache.run. induction sched as [|i sched IH]; simpl; intros s H; auto.
  apply IH. apply step_preserves_Inv2. exact H.
Qed.
End Commit.

(* ---- the builders' programs satisfy cok at the start --------------------------- *)
Section Start.
Variable origin : path -> content.
Variable dh : content -> string.
Variable signed : string -> string -> bool.
Variable cl : bool.

(* what the index / the control section declares about a package is what the
   builder downloads: signed or not is a function of the control checksum, and
   the data section is the one whose hash the control section declares
   (verifyExpanded checks the latter on every fresh download) *)
Definition declared (dir : string) (a : apk) : Prop :=
  (a_sig a <> None -> signed dir (a_ctlh a) = true) /\
  (cl = true -> a_dath a = dh (a_ctl a) /\ (signed dir (a_ctlh a) = true -> a_sig a <> None)).

Definition strict_of (bs : list builder) (j : nat) : bool :=
  match nth_error bs j with Some b => negb (is_reader b) | None => false end.

Lemma cok_prog_of : forall o b strict d, strict = negb (is_reader b) ->
  (forall dir a, b = BPackage dir a -> served origin dir a /\ declared dir a) ->
  cok origin dh signed cl strict d [] (prog_of_ord cl o b).
Proof.
  intros o b strict d Hs Hb. destruct b as [dir|dir a|dir dath]; unfold prog_of_ord.
  - exact I.
  - destruct (Hb dir a eq_refl) as ((Hc & _ & _ & _) & (Hd1 & Hd2)). clear Hb.
    unfold populate_package_ord.
    change ([MkdirAll (PDir dir); MkTemp (PTmpDir dir o)] ++ ?x) with (MkdirAll (PDir dir) :: MkTemp (PTmpDir dir o) :: x).
    cbn [cok].
    apply cok_plain_app; [destruct (a_sig a); [apply plain_write_file | constructor]|].
    apply cok_plain_app; [apply plain_write_file|].
    cbn [cok]. apply cok_plain_app; [apply plain_mix|]. cbn [cok].
    unfold open_tar, pkg_advs_ord.
    destruct cl eqn:Ecl.
    + (* control section last *)
      destruct (Hd2 eq_refl) as (Hdh & Hsg).
      assert (Ek : dh (origin (PMember dir MCtl (a_ctlh a))) = a_dath a) by (rewrite <- Hc; auto).
      unfold pkg_advs_ctl_last.
      destruct (a_sig a) as [sg|] eqn:Es; cbn [adv_steps List.map fst snd app cok];
        unfold dst_ok; cbn [required sig_allowed is_adv]; rewrite ?Ecl, ?Ek.
      * assert (Hsig : signed dir (a_ctlh a) = true) by (apply Hd1; discriminate).
        rewrite Hsig. repeat split; auto; try (intros r []); try (intros; right; simpl in *; intuition (subst; auto)).
      * destruct (signed dir (a_ctlh a)) eqn:Hsig; [exfalso; apply (Hsg eq_refl); reflexivity|].
        repeat split; auto; try (intros r []); try (intros; right; simpl in *; intuition (subst; auto)).
    + (* the code today: nothing is required *)
      unfold pkg_advs.
      destruct (a_sig a) as [sg|] eqn:Es; cbn [adv_steps List.map fst snd app cok];
        unfold dst_ok; cbn [required sig_allowed is_adv]; rewrite ?Ecl.
      * assert (Hsig : signed dir (a_ctlh a) = true) by (apply Hd1; discriminate).
        rewrite Hsig. repeat split; auto; try (intros r []); try (intros; right; simpl in *; intuition (subst; auto)).
      * repeat split; auto; try (intros r []); try (intros; right; simpl in *; intuition (subst; auto)).
  - unfold open_tar. cbn [cok required sig_allowed is_adv]. simpl in Hs. subst strict.
    repeat split; auto. discriminate.
Qed.
End Start.

Section Reach.
Variable gunzip : content -> content.
Variable origin : path -> content.
Variable srv : server.
Variable dh : content -> string.
Variable signed : string -> string -> bool.
Variable cl : bool.

Definition builders_decl (bs : list builder) : Prop :=
  forall dir a, In (BPackage dir a) bs -> declared dh signed cl dir a.

Theorem reach_Inv2 : forall bs sched,
  origin_gunzip origin gunzip -> etag_names_content origin srv -> builders_ok origin bs -> builders_decl bs ->
  Inv2 gunzip origin dh signed cl (strict_of bs) (run gunzip srv (init (progs_ord cl bs)) sched).
Proof.
  intros bs sched Hgz Hsrv Hok Hdecl.
  apply (run_preserves_Inv2 gunzip origin srv dh signed cl Hgz Hsrv (strict_of bs)).
  split; [apply (reach_Inv cl origin srv gunzip bs [] Hgz Hsrv Hok)|].
  split; [|split].
  - intros j prog Hj. cbn [init procs dsk] in *.
    destruct (nth_progs_from _ _ _ _ _ Hj) as (b & Hb & ->). change (0 + j) with j.
    apply cok_prog_of.
    + unfold strict_of. rewrite Hb. reflexivity.
    + intros dir a ->. pose proof (nth_error_In _ _ Hb) as Hin. split; [apply Hok | apply Hdecl]; exact Hin.
  - intros n _ Hex. exfalso. apply Hex. reflexivity.
  - intros n _ Hex. exfalso. apply Hex. reflexivity.
Qed.
End Reach.

(* ---- consequences ---------------------------------------------------------------- *)

(* the hypotheses about signatures and datahashes are not needed for the code as
   it is ([cl = false] requires nothing, and every signature name is allowed) *)
Lemma decl_trivial : forall dh bs, builders_decl dh (fun _ _ => true) false bs.
Proof. intros dh bs dir a _. split; [reflexivity | discriminate]. Qed.

(* (a) an advertised entry, once present, stays present with the same (the
   origin's) content, whatever happens afterwards *)
Theorem entries_stable : forall cl origin srv gunzip bs sched sched' n,
  origin_gunzip origin gunzip -> etag_names_content origin srv -> builders_ok origin bs ->
  is_adv n = true ->
  dsk (run gunzip srv (init (progs_ord cl bs)) sched) n <> None ->
  resolve (dsk (run gunzip srv (init (progs_ord cl bs)) (sched ++ sched'))) n = Some (origin n, true) /\
  resolve (dsk (run gunzip srv (init (progs_ord cl bs)) sched)) n = Some (origin n, true).
Proof.
  intros cl origin srv gunzip bs sched sched' n Hgz Hsrv Hok Hn Hex.
  pose proof (reach_Inv cl origin srv gunzip bs sched Hgz Hsrv Hok) as HI.
  split.
  - apply (population_sound_ord cl origin srv gunzip bs (sched ++ sched') Hgz Hsrv Hok n Hn).
    rewrite run_app. apply (run_adv_mono gunzip origin srv); auto.
  - apply (population_sound_ord cl origin srv gunzip bs sched Hgz Hsrv Hok n Hn Hex).
Qed.

(* (b) the PackageData call that ends cachePackage never enters the rebuild: when a
   package builder reaches it, <hash>.dat.tar resolves (and keeps resolving) *)
Theorem cache_package_skips_rebuild : forall origin srv gunzip bs sched j dir a gz tar tmp rest,
  origin_gunzip origin gunzip -> etag_names_content origin srv -> builders_ok origin bs ->
  let s := run gunzip srv (init (progs bs)) sched in
  nth_error bs j = Some (BPackage dir a) ->
  nth_error (procs s) j = Some (Rebuild gz tar tmp :: rest) ->
  resolve (dsk s) tar = Some (origin tar, true) /\ snd (exec gunzip (dsk s) (Rebuild gz tar tmp)) = [].
Proof.
  intros origin srv gunzip bs sched j dir a gz tar tmp rest Hgz Hsrv Hok s Hb Hp.
  assert (Hres : is_adv tar = true /\ dsk s tar <> None).
  { destruct (reach_Inv2 gunzip origin srv (fun _ => ""%string) (fun _ _ => true) false bs sched Hgz Hsrv Hok
                (decl_trivial _ bs)) as (_ & HC & _).
    pose proof (HC j _ Hp) as Hc. cbn [cok] in Hc. destruct Hc as (Ha & _ & _ & Hs & _).
    unfold strict_of in Hs. rewrite Hb in Hs. destruct (Hs eq_refl) as [K|[]]. auto. }
  destruct Hres as [Ha Hex].
  pose proof (population_sound origin srv gunzip bs sched Hgz Hsrv Hok tar Ha Hex) as Hr.
  split; [exact Hr|]. simpl. fold s in Hr. rewrite Hr. reflexivity.
Qed.

(* (c) THE REPAIR (fixes/C19-F2.patch: cachePackage advertises the control section
   last).  A lookup that reads the control section in one state, the signature
   section in a later one, the data section in a later one and the tar in a still
   later one — builders running, being killed and starting in between — is a miss
   because the control section is not advertised, or a hit with EXACTLY what a
   build without cache obtains, signature section included; it never needs the
   rebuild. *)
Theorem fix_lookup_exact : forall origin srv gunzip dh signed bs sched1 sched2 sched3 sched4 dir ctlh,
  origin_gunzip origin gunzip -> etag_names_content origin srv -> builders_ok origin bs ->
  builders_decl dh signed true bs ->
  let s0 := init (progs_ord true bs) in
  let d1 := dsk (run gunzip srv s0 sched1) in
  let d2 := dsk (run gunzip srv s0 (sched1 ++ sched2)) in
  let d3 := dsk (run gunzip srv s0 ((sched1 ++ sched2) ++ sched3)) in
  let d4 := dsk (run gunzip srv s0 (((sched1 ++ sched2) ++ sched3) ++ sched4)) in
  match read_package_seq4 dh d1 d2 d3 d4 dir ctlh with
  | Hit m => m = fetch_origin_exact origin dh signed dir ctlh
  | Miss => d1 (PMember dir MCtl ctlh) = None
  | NeedsRebuild => False
  end.
Proof.
  intros origin srv gunzip dh signed bs sched1 sched2 sched3 sched4 dir ctlh Hgz Hsrv Hok Hdecl s0 d1 d2 d3 d4.
  assert (HI : forall sched, Inv2 gunzip origin dh signed true (strict_of bs) (run gunzip srv s0 sched)).
  { intros sched. apply reach_Inv2; auto. }
  assert (HS : forall sched, CacheSound origin (dsk (run gunzip srv s0 sched))).
  { intros sched. apply population_sound_ord; auto. }
  assert (Hmono : forall sa sb n, is_adv n = true -> dsk (run gunzip srv s0 sa) n <> None ->
                    dsk (run gunzip srv s0 (sa ++ sb)) n <> None).
  { intros sa sb n Hn Hex. rewrite run_app. apply (run_adv_mono gunzip origin srv Hgz Hsrv); auto.
    destruct (HI sa) as [H _]. exact H. }
  unfold read_package_seq4.
  set (nc := PMember dir MCtl ctlh).
  destruct (resolve d1 nc) as [[ctl b1]|] eqn:E1.
  - destruct (sound_resolve _ _ nc _ _ (HS sched1) eq_refl E1) as [-> _].
    pose proof (resolve_exists _ _ _ E1) as Hex1.
    destruct (HI sched1) as (_ & _ & HM & _).
    set (k := dh (origin nc)).
    assert (Hreq : forall r, In r (required origin dh signed true nc) -> d1 r <> None) by (apply HM; auto).
    assert (Hdat1 : d1 (PMember dir MDat k) <> None).
    { apply Hreq. unfold nc. cbn [required]. apply in_or_app. right. left. reflexivity. }
    assert (Htar1 : d1 (PMember dir MTar k) <> None).
    { apply Hreq. unfold nc. cbn [required]. apply in_or_app. right. right. left. reflexivity. }
    (* data in the third state, tar in the fourth *)
    assert (Hdat3 : resolve d3 (PMember dir MDat k) = Some (origin (PMember dir MDat k), true)).
    { apply (HS ((sched1 ++ sched2) ++ sched3)); [reflexivity|]. rewrite <- app_assoc. apply Hmono; auto. }
    assert (Htar4 : resolve d4 (PMember dir MTar k) = Some (origin (PMember dir MTar k), true)).
    { apply (HS (((sched1 ++ sched2) ++ sched3) ++ sched4)); [reflexivity|].
      rewrite <- !app_assoc. apply Hmono; auto. }
    rewrite Hdat3, Htar4.
    unfold fetch_origin_exact. fold nc. fold k.
    destruct (signed dir ctlh) eqn:Hsg.
    + assert (Hsig2 : resolve d2 (PMember dir MSig ctlh) = Some (origin (PMember dir MSig ctlh), true)).
      { apply (HS (sched1 ++ sched2)); [reflexivity|]. apply Hmono; [reflexivity|].
        apply Hreq. unfold nc. cbn [required]. rewrite Hsg. apply in_or_app. left. left. reflexivity. }
      rewrite Hsig2. reflexivity.
    + assert (Hsig2 : resolve d2 (PMember dir MSig ctlh) = None).
      { destruct (HI (sched1 ++ sched2)) as (_ & _ & _ & HN).
        unfold resolve. fold d2 in HN.
        destruct (d2 (PMember dir MSig ctlh)) as [x|] eqn:Ex; [|reflexivity].
        exfalso. assert (Ha : sig_allowed signed (PMember dir MSig ctlh) = true).
        { apply (HN (PMember dir MSig ctlh)); [reflexivity|]. rewrite Ex. discriminate. }
        simpl in Ha. congruence. }
      rewrite Hsig2. reflexivity.
  - destruct (d1 nc) as [x|] eqn:En; [exfalso|reflexivity].
    assert (Hr : resolve d1 nc = Some (origin nc, true)).
    { apply (HS sched1); [reflexivity|]. fold d1. rewrite En. discriminate. }
    congruence.
Qed.

(* the atomic lookup and the two-state lookup of c19_lookup_not_atomic_refuted are instances *)
Lemma seq4_atomic : forall dh d dir ctlh, read_package_seq4 dh d d d d dir ctlh = read_package dh d dir ctlh.
Proof. reflexivity. Qed.
Lemma seq4_seq : forall dh d1 d2 dir ctlh, read_package_seq4 dh d1 d1 d2 d2 dir ctlh = read_package_seq dh d1 d2 dir ctlh.
Proof. reflexivity. Qed.
