(* C19 — proofs about the coalescing objects and the offline choice. *)
From Apko Require Import Base.Prelude Model.CacheFlight Spec.CacheFlightSpec.
From Coq Require Import Permutation.
Open Scope string_scope. Open Scope list_scope.

(* ---- basics --------------------------------------------------------------------- *)
Lemma supd_same {A} (f : string -> option A) k v : supd f k v k = v.
Proof. unfold supd. rewrite String.eqb_refl. reflexivity. Qed.
Lemma supd_other {A} (f : string -> option A) k v q : q <> k -> supd f k v q = f q.
Proof. intros H. unfold supd. destruct (String.eqb q k) eqn:E; [apply String.eqb_eq in E; contradiction | reflexivity]. Qed.

Lemma frun_app cf s a b : frun cf s (a ++ b) = frun cf (frun cf s a) b.
Proof. unfold frun. apply fold_left_app. Qed.

(* an invariant of every step is an invariant of every run *)
Lemma frun_inv cf (P : fstate -> Prop) :
  (forall s e, P s -> P (fstep cf s e)) -> forall tr s, P s -> P (frun cf s tr).
Proof.
  intros Hstep tr. induction tr as [|e tr IH]; intros s Hs; simpl; [exact Hs|].
  apply IH. apply Hstep. exact Hs.
Qed.

(* ---- transparency ----------------------------------------------------------------- *)
Lemma load_hit cf s k o :
  (match f_mode cf with MNone => None | _ => memo s k end) = Some o -> memo s k = Some o /\ f_mode cf <> MNone.
Proof. destruct (f_mode cf); intros H; [discriminate| |]; split; try exact H; discriminate. Qed.

Definition TInv (s : fstate) : Prop :=
  Transparent s /\ (forall k o, memo s k = Some o -> In (k, o) (execs s)).

Lemma tinv_step cf s e : TInv s -> TInv (fstep cf s e).
Proof.
  intros [HT HM]. destruct e as [c k|c k|k o]; simpl.
  - destruct (match f_mode cf with MNone => None | _ => memo s k end) as [o|] eqn:Em; [|split; assumption].
    apply load_hit in Em. destruct Em as [Em _]. split; simpl; [|exact HM].
    intros c' k' o' [E|H]; [inversion E; subst; apply HM; exact Em | apply HT with c'; exact H].
  - destruct (negb (is_pending s c k)); [split; assumption|].
    destruct (flight s k) as [ws|]; [split; simpl; assumption|].
    destruct (if f_recheck cf then memo s k else None) as [o|] eqn:Em; [|split; simpl; assumption].
    split; simpl; [|exact HM]. intros c' k' o' [E|H]; [|apply HT with c'; exact H].
    inversion E; subst. destruct (f_recheck cf); [apply HM; exact Em | discriminate].
  - destruct (flight s k) as [ws|]; [|split; assumption]. split; simpl.
    + intros c' k' o' H. apply in_app_or in H. destruct H as [H|H].
      * apply in_map_iff in H. destruct H as (x & E & _). inversion E; subst. left; reflexivity.
      * right. apply HT with c'. exact H.
    + intros k' o' H. destruct (keeps (f_mode cf) o).
      * unfold supd in H. destruct (String.eqb k' k) eqn:E.
        -- apply String.eqb_eq in E. subst. inversion H; subst. left; reflexivity.
        -- right. apply HM. exact H.
      * right. apply HM. exact H.
Qed.

Lemma tinv_init : TInv finit.
Proof. split; [intros c k o []|intros k o H; discriminate]. Qed.

Lemma flight_transparent cf tr : Transparent (frun cf finit tr).
Proof. apply (frun_inv cf TInv (tinv_step cf) tr finit tinv_init). Qed.

Lemma memo_from_exec cf tr k o : memo (frun cf finit tr) k = Some o -> In (k, o) (execs (frun cf finit tr)).
Proof. apply (frun_inv cf TInv (tinv_step cf) tr finit tinv_init). Qed.

(* ---- failures are not memoised ------------------------------------------------------ *)
Lemma noerr_step cf s e : f_mode cf <> MAll -> NoErrorMemo s -> NoErrorMemo (fstep cf s e).
Proof.
  intros Hm HN. destruct e as [c k|c k|k o]; simpl.
  - destruct (match f_mode cf with MNone => None | _ => memo s k end); exact HN.
  - destruct (negb (is_pending s c k)); [exact HN|].
    destruct (flight s k); [exact HN|]. destruct (if f_recheck cf then memo s k else None); exact HN.
  - destruct (flight s k) as [ws|]; [|exact HN]. intros k' o' H. simpl in H.
    destruct (keeps (f_mode cf) o) eqn:Ek; [|apply HN with k'; exact H].
    unfold supd in H. destruct (String.eqb k' k); [|apply HN with k'; exact H].
    inversion H; subst. destruct (f_mode cf); simpl in Ek; [discriminate|exact Ek|contradiction].
Qed.

Lemma flight_no_error_memo cf tr : f_mode cf <> MAll -> NoErrorMemo (frun cf finit tr).
Proof.
  intros Hm. apply (frun_inv cf NoErrorMemo); [intros s e; apply noerr_step; exact Hm|].
  intros k o H; discriminate.
Qed.

(* ---- coalescing --------------------------------------------------------------------- *)
Lemma count_key_cons k q l : count_key k (q :: l) = (if String.eqb k q then 1 else 0) + count_key k l.
Proof. unfold count_key. simpl. destruct (String.eqb k q); reflexivity. Qed.

Lemma execs_of_cons k q o s' s : execs s' = (q, o) :: execs s ->
  List.length (execs_of k s') = (if String.eqb k q then 1 else 0) + List.length (execs_of k s).
Proof. intros E. unfold execs_of. rewrite E. simpl. destruct (String.eqb k q); reflexivity. Qed.

Lemma coalesced_step cf s e : Coalesced s -> Coalesced (fstep cf s e).
Proof.
  intros HC. destruct e as [c k|c k|k o]; simpl.
  - destruct (match f_mode cf with MNone => None | _ => memo s k end); exact HC.
  - destruct (negb (is_pending s c k)); [exact HC|].
    destruct (flight s k) as [ws|] eqn:Ef.
    + intros q. specialize (HC q). unfold execs_of in *. simpl.
      unfold supd. destruct (String.eqb q k) eqn:E; [|exact HC].
      apply String.eqb_eq in E. subst q. rewrite Ef in HC. exact HC.
    + destruct (if f_recheck cf then memo s k else None); [exact HC|].
      intros q. specialize (HC q). unfold execs_of in *. simpl. rewrite count_key_cons.
      unfold supd. destruct (String.eqb q k) eqn:E.
      * apply String.eqb_eq in E. subst q. rewrite Ef in HC. rewrite HC. lia.
      * rewrite HC. reflexivity.
  - destruct (flight s k) as [ws|] eqn:Ef; [|exact HC].
    intros q. specialize (HC q).
    erewrite (execs_of_cons q k o _ s); [|simpl; reflexivity]. simpl.
    unfold supd. destruct (String.eqb q k) eqn:E.
    + apply String.eqb_eq in E. subst q. rewrite Ef in HC. rewrite HC. lia.
    + rewrite HC. reflexivity.
Qed.

Lemma flight_coalesced cf tr : Coalesced (frun cf finit tr).
Proof. apply (frun_inv cf Coalesced (coalesced_step cf)). intros k. reflexivity. Qed.

(* ---- one caller going through Do while nobody else moves -------------------------------- *)
Lemma ck_eqb_refl x : ck_eqb x x = true.
Proof. unfold ck_eqb. rewrite Nat.eqb_refl, String.eqb_refl. reflexivity. Qed.

Lemma is_pending_cons c k m f p st ex r :
  is_pending {| memo := m; flight := f; pending := (c, k) :: p; started := st; execs := ex; rets := r |} c k = true.
Proof. unfold is_pending. simpl. rewrite ck_eqb_refl. reflexivity. Qed.

Lemma drop_pending_one c k m f st ex r :
  drop_pending {| memo := m; flight := f; pending := [(c, k)]; started := st; execs := ex; rets := r |} c k = [].
Proof. unfold drop_pending. simpl. rewrite ck_eqb_refl. reflexivity. Qed.

(* the fast path hits: the caller returns what the map holds, nothing else happens *)
Lemma call_hit cf s c k o om :
  f_mode cf <> MNone -> memo s k = Some om -> pending s = [] -> flight s k = None ->
  frun cf s (call_seq c k o) =
  {| memo := memo s; flight := flight s; pending := []; started := started s; execs := execs s;
     rets := (c, k, om) :: rets s |}.
Proof.
  intros Hm HM HP HF. unfold call_seq, frun. cbn [fold_left].
  assert (E1 : fstep cf s (ELoad c k) =
               {| memo := memo s; flight := flight s; pending := []; started := started s; execs := execs s;
                  rets := (c, k, om) :: rets s |}).
  { simpl. rewrite HM, HP. destruct (f_mode cf); [contradiction|reflexivity|reflexivity]. }
  rewrite E1. simpl. rewrite HF. reflexivity.
Qed.

(* the fast path misses and the leader finds nothing either: fn is executed, its outcome is
   returned and kept if the mode keeps it *)
Lemma call_miss cf s c k o :
  (match f_mode cf with MNone => None | _ => memo s k end) = None ->
  (if f_recheck cf then memo s k else None) = None -> pending s = [] -> flight s k = None ->
  frun cf s (call_seq c k o) =
  {| memo := if keeps (f_mode cf) o then supd (memo s) k (Some o) else memo s;
     flight := supd (supd (flight s) k (Some [c])) k None; pending := [];
     started := k :: started s; execs := (k, o) :: execs s; rets := (c, k, o) :: rets s |}.
Proof.
  intros E1 E2 HP HF. unfold call_seq, frun. cbn [fold_left].
  assert (A : fstep cf s (ELoad c k) =
              {| memo := memo s; flight := flight s; pending := [(c, k)]; started := started s; execs := execs s;
                 rets := rets s |}).
  { simpl. rewrite E1, HP. reflexivity. }
  rewrite A.
  assert (B : fstep cf {| memo := memo s; flight := flight s; pending := [(c, k)]; started := started s;
                          execs := execs s; rets := rets s |} (EEnter c k) =
              {| memo := memo s; flight := supd (flight s) k (Some [c]); pending := []; started := k :: started s;
                 execs := execs s; rets := rets s |}).
  { unfold fstep. rewrite is_pending_cons. cbn [negb memo flight]. rewrite HF, E2.
    rewrite drop_pending_one. reflexivity. }
  rewrite B. simpl. rewrite supd_same. reflexivity.
Qed.

(* the fast path is not consulted or misses, but the leader finds the map filled (recheck) *)
Lemma call_recheck_hit cf s c k o om :
  (match f_mode cf with MNone => None | _ => memo s k end) = None ->
  f_recheck cf = true -> memo s k = Some om -> pending s = [] -> flight s k = None ->
  frun cf s (call_seq c k o) =
  {| memo := memo s; flight := flight s; pending := []; started := started s; execs := execs s;
     rets := (c, k, om) :: rets s |}.
Proof.
  intros E1 Hr HM HP HF. unfold call_seq, frun. cbn [fold_left].
  assert (A : fstep cf s (ELoad c k) =
              {| memo := memo s; flight := flight s; pending := [(c, k)]; started := started s; execs := execs s;
                 rets := rets s |}).
  { simpl. rewrite E1, HP. reflexivity. }
  rewrite A.
  assert (B : fstep cf {| memo := memo s; flight := flight s; pending := [(c, k)]; started := started s;
                          execs := execs s; rets := rets s |} (EEnter c k) =
              {| memo := memo s; flight := flight s; pending := []; started := started s;
                 execs := execs s; rets := (c, k, om) :: rets s |}).
  { unfold fstep. rewrite is_pending_cons. cbn [negb memo flight]. rewrite HF, Hr, HM.
    rewrite drop_pending_one. reflexivity. }
  rewrite B. simpl. rewrite HF. reflexivity.
Qed.

(* ---- after failures only, a later call executes again and its success is returned ---- *)
Lemma all_failed_no_memo cf tr k :
  f_mode cf <> MAll ->
  (forall o, In o (execs_of k (frun cf finit tr)) -> is_ok o = false) ->
  memo (frun cf finit tr) k = None.
Proof.
  intros Hm Hall. destruct (memo (frun cf finit tr) k) as [o|] eqn:E; [|reflexivity].
  pose proof (flight_no_error_memo cf tr Hm k o E) as Hok.
  pose proof (memo_from_exec cf tr k o E) as Hin.
  assert (In o (execs_of k (frun cf finit tr))) as Ho.
  { unfold execs_of. apply in_map_iff. exists (k, o). split; [reflexivity|].
    apply filter_In. split; [exact Hin|]. simpl. apply String.eqb_refl. }
  rewrite (Hall o Ho) in Hok. discriminate.
Qed.

Lemma call_after_failures cf tr k c v :
  f_mode cf <> MAll ->
  let s := frun cf finit tr in
  flight s k = None -> pending s = [] ->
  (forall o, In o (execs_of k s) -> is_ok o = false) ->
  let s' := frun cf s (call_seq c k (OOk v)) in
  started s' = k :: started s /\ execs s' = (k, OOk v) :: execs s /\ rets s' = (c, k, OOk v) :: rets s /\
  memo s' k = (match f_mode cf with MSuccess => Some (OOk v) | _ => None end).
Proof.
  intros Hm s Hf Hp Hall s'. pose proof (all_failed_no_memo cf tr k Hm Hall) as Hmemo.
  fold s in Hmemo. subst s'. rewrite call_miss; try assumption.
  - simpl. repeat split. destruct (f_mode cf); simpl; try contradiction; [exact Hmemo|apply supd_same].
  - rewrite Hmemo. destruct (f_mode cf); reflexivity.
  - rewrite Hmemo. destruct (f_recheck cf); reflexivity.
Qed.

(* ---- a memoised result is permanent when the leader looks at the map again ----------- *)
Definition Settled (k : string) (o : outcome) (n : nat) (s : fstate) : Prop :=
  memo s k = Some o /\ flight s k = None /\ count_key k (started s) = n.

Lemma settled_step cf k o n s e :
  f_recheck cf = true -> Settled k o n s -> Settled k o n (fstep cf s e).
Proof.
  intros Hr (HM & HF & HS). destruct e as [c q|c q|q o']; simpl.
  - destruct (match f_mode cf with MNone => None | _ => memo s q end); repeat split; assumption.
  - destruct (negb (is_pending s c q)); [repeat split; assumption|].
    destruct (flight s q) as [ws|] eqn:Ef.
    + repeat split; simpl; try assumption. rewrite supd_other; [exact HF|]. intros ->. congruence.
    + rewrite Hr. destruct (memo s q) as [oq|] eqn:Eq; [repeat split; assumption|].
      assert (k <> q) by (intros ->; congruence).
      repeat split; simpl; try assumption.
      * rewrite supd_other; assumption.
      * rewrite count_key_cons. destruct (String.eqb k q) eqn:E; [apply String.eqb_eq in E; contradiction|exact HS].
  - destruct (flight s q) as [ws|] eqn:Ef; [|repeat split; assumption].
    assert (k <> q) by (intros ->; congruence).
    repeat split; simpl; try assumption.
    + destruct (keeps (f_mode cf) o'); [rewrite supd_other; assumption|exact HM].
    + rewrite supd_other; assumption.
Qed.

Lemma settled_run cf k o n tr s :
  f_recheck cf = true -> Settled k o n s -> Settled k o n (frun cf s tr).
Proof.
  intros Hr. apply (frun_inv cf (Settled k o n)). intros s0 e. apply settled_step; assumption.
Qed.

(* with the recheck, a memo entry implies that nothing runs for that key *)
Lemma memo_no_flight_step cf s e : f_recheck cf = true ->
  (forall k o, memo s k = Some o -> flight s k = None) ->
  (forall k o, memo (fstep cf s e) k = Some o -> flight (fstep cf s e) k = None).
Proof.
  intros Hr H. destruct e as [c q|c q|q o']; simpl.
  - destruct (match f_mode cf with MNone => None | _ => memo s q end); exact H.
  - destruct (negb (is_pending s c q)); [exact H|].
    destruct (flight s q) as [ws|] eqn:Ef.
    + simpl. intros k o Hk. pose proof (H k o Hk) as Hf.
      rewrite supd_other; [exact Hf|]. intros ->. congruence.
    + rewrite Hr. destruct (memo s q) as [oq|] eqn:Eq; [exact H|]. simpl.
      intros k o Hk. rewrite supd_other; [apply H with o; exact Hk|]. intros ->. congruence.
  - destruct (flight s q) as [ws|] eqn:Ef; [|exact H]. simpl. intros k o Hk.
    unfold supd. destruct (String.eqb k q) eqn:E; [reflexivity|].
    apply H with o. destruct (keeps (f_mode cf) o'); [|exact Hk].
    unfold supd in Hk. rewrite E in Hk. exact Hk.
Qed.

Lemma memo_no_flight cf tr k o : f_recheck cf = true ->
  memo (frun cf finit tr) k = Some o -> flight (frun cf finit tr) k = None.
Proof.
  intros Hr. revert k o.
  apply (frun_inv cf (fun s => forall k o, memo s k = Some o -> flight s k = None)).
  - intros s e. apply memo_no_flight_step. exact Hr.
  - intros k o H. discriminate.
Qed.

(* once a result is memoised (recheck), it stays and nothing is executed for the key any more *)
Lemma memo_permanent cf tr tr' k o : f_recheck cf = true ->
  let s := frun cf finit tr in
  memo s k = Some o ->
  let s' := frun cf s tr' in
  memo s' k = Some o /\ count_key k (started s') = count_key k (started s) /\ flight s' k = None.
Proof.
  intros Hr s HM s'.
  assert (Settled k o (count_key k (started s)) s) as H0.
  { split; [exact HM|]. split; [apply (memo_no_flight cf tr k o Hr HM)|reflexivity]. }
  destruct (settled_run cf k o _ tr' s Hr H0) as (A & B & C). repeat split; assumption.
Qed.

(* ... and every later caller is handed exactly that result, whatever fn would return now *)
Lemma memo_permanent_call cf tr k o c o2 : f_recheck cf = true -> f_mode cf <> MNone ->
  let s := frun cf finit tr in
  memo s k = Some o -> pending s = [] ->
  let s' := frun cf s (call_seq c k o2) in
  rets s' = (c, k, o) :: rets s /\ started s' = started s /\ execs s' = execs s.
Proof.
  intros Hr Hm s HM HP s'. subst s'.
  rewrite (call_hit cf s c k o2 o Hm HM HP (memo_no_flight cf tr k o Hr HM)). simpl. repeat split.
Qed.

(* ---- sequences of calls ---------------------------------------------------------------
   what the model says an observer sees of a sequence of calls made one after the other *)
Definition obs_of_call (cf : fconf) (s : fstate) (c : nat) (k : string) (o : outcome) : ocall * fstate :=
  let s' := frun cf s (call_seq c k o) in
  ({| oc_key := k; oc_exec := negb (Nat.eqb (List.length (started s')) (List.length (started s)));
      oc_out := o;
      oc_res := match rets s' with (_, _, r) :: _ => r | [] => OErr "?no-return" end |}, s').

Fixpoint model_seq_from (cf : fconf) (s : fstate) (c : nat) (calls : list (string * outcome)) : list ocall :=
  match calls with
  | [] => []
  | (k, o) :: t => let (oc, s') := obs_of_call cf s c k o in oc :: model_seq_from cf s' (S c) t
  end.
Definition model_seq (cf : fconf) (calls : list (string * outcome)) : list ocall := model_seq_from cf finit 0 calls.

(* the state between two sequential calls: nothing runs, nobody is between Load and Enter; what
   the map holds are successes that an execution produced (listed in [past]) *)
Definition Quiet (past : list (string * outcome)) (s : fstate) : Prop :=
  (forall k, flight s k = None) /\ pending s = [] /\
  (forall k o, memo s k = Some o -> exists v, o = OOk v /\ In (k, OOk v) past).

Lemma neq_succ n : Nat.eqb (S n) n = false.
Proof. apply Nat.eqb_neq. lia. Qed.

Lemma seq_sound_from cf : f_mode cf <> MAll -> forall calls s c past,
  Quiet past s -> SeqSound past (model_seq_from cf s c calls).
Proof.
  intros Hm. induction calls as [|[k o] t IH]; intros s c past (HF & HP & HM); [constructor|].
  cbn [model_seq_from]. unfold obs_of_call.
  assert (Hexec : forall s', s' = {| memo := if keeps (f_mode cf) o then supd (memo s) k (Some o) else memo s;
                         flight := supd (supd (flight s) k (Some [c])) k None; pending := [];
                         started := k :: started s; execs := (k, o) :: execs s; rets := (c, k, o) :: rets s |} ->
            Quiet ((k, o) :: past) s').
  { intros s' ->. split; [|split; [reflexivity|]].
    - intros q. simpl. unfold supd. destruct (String.eqb q k); [reflexivity|apply HF].
    - simpl. intros q oq Hq. destruct (keeps (f_mode cf) o) eqn:Ek.
      + unfold supd in Hq. destruct (String.eqb q k) eqn:Eq.
        * apply String.eqb_eq in Eq. subst q. inversion Hq; subst oq.
          destruct (f_mode cf); simpl in Ek; [discriminate| |contradiction].
          destruct o as [vo|eo]; [|discriminate]. exists vo. split; [reflexivity|left; reflexivity].
        * destruct (HM q oq Hq) as (v' & -> & Hin'). exists v'. split; [reflexivity|right; exact Hin'].
      + destruct (HM q oq Hq) as (v' & -> & Hin'). exists v'. split; [reflexivity|right; exact Hin']. }
  destruct (memo s k) as [om|] eqn:Em.
  - destruct (HM k om Em) as (v & -> & Hin).
    destruct (f_mode cf) eqn:Emode; [| |contradiction].
    + (* a bare singleflight group never looks at the map in the fast path *)
      destruct (f_recheck cf) eqn:Er.
      * rewrite (call_recheck_hit cf s c k o (OOk v)); try assumption; [|rewrite Emode; reflexivity|apply HF].
        cbn [started rets List.length]. rewrite Nat.eqb_refl. cbn [negb]. apply SS_memo with v; [reflexivity|reflexivity|exact Hin|].
        apply IH. split; [exact HF|split; [reflexivity|exact HM]].
      * rewrite (call_miss cf s c k o); try assumption; [|rewrite Emode; reflexivity|rewrite Er; reflexivity|apply HF].
        cbn [started rets List.length]. rewrite neq_succ. cbn [negb]. apply SS_exec; [reflexivity|reflexivity|]. cbn [oc_key oc_out]. apply IH. apply Hexec. rewrite Emode. reflexivity.
    + rewrite (call_hit cf s c k o (OOk v)); try assumption; [|rewrite Emode; discriminate|apply HF].
      cbn [started rets List.length]. rewrite Nat.eqb_refl. cbn [negb]. apply SS_memo with v; [reflexivity|reflexivity|exact Hin|].
      apply IH. split; [exact HF|split; [reflexivity|exact HM]].
  - assert (E1 : (match f_mode cf with MNone => None | _ => memo s k end) = None) by (rewrite Em; destruct (f_mode cf); reflexivity).
    assert (E2 : (if f_recheck cf then memo s k else None) = None) by (rewrite Em; destruct (f_recheck cf); reflexivity).
    rewrite (call_miss cf s c k o E1 E2 HP (HF k)).
    cbn [started rets List.length]. rewrite neq_succ. cbn [negb]. apply SS_exec; [reflexivity|reflexivity|]. cbn [oc_key oc_out]. apply IH. apply Hexec. reflexivity.
Qed.

Lemma seq_sound cf calls : f_mode cf <> MAll -> SeqSound [] (model_seq cf calls).
Proof.
  intros Hm. apply seq_sound_from; [exact Hm|]. split; [reflexivity|split; [reflexivity|intros k o H; discriminate]].
Qed.

(* ---- the validator decides SeqSound ----------------------------------------------------- *)
Lemma outcome_eqb_eq a b : outcome_eqb a b = true <-> a = b.
Proof.
  destruct a, b; simpl; split; intros H; try discriminate; try (apply String.eqb_eq in H; congruence);
    inversion H; apply String.eqb_refl.
Qed.
Lemma ko_eqb_eq a b : ko_eqb a b = true <-> a = b.
Proof.
  destruct a as [k o], b as [k' o']. unfold ko_eqb. simpl. rewrite andb_true_iff, String.eqb_eq, outcome_eqb_eq.
  split; [intros [-> ->]; reflexivity|intros E; inversion E; auto].
Qed.
Lemma existsb_ko x l : List.existsb (ko_eqb x) l = true <-> In x l.
Proof.
  rewrite existsb_exists. split.
  - intros (y & Hy & E). apply ko_eqb_eq in E. subst. exact Hy.
  - intros H. exists x. split; [exact H|apply ko_eqb_eq; reflexivity].
Qed.

Lemma validate_seq_iff tag : forall l past, validate_seq tag past l = [] <-> SeqSound past l.
Proof.
  induction l as [|c t IH]; intros past; simpl; [split; [constructor|reflexivity]|].
  destruct (oc_exec c) eqn:Ee.
  - split.
    + intros H. apply app_eq_nil in H. destruct H as [H1 H2].
      destruct (outcome_eqb (oc_res c) (oc_out c)) eqn:Eo; [|discriminate].
      apply SS_exec; [exact Ee|apply outcome_eqb_eq; exact Eo|apply IH; exact H2].
    + intros H. inversion H; subst; [|congruence].
      match goal with Hr : oc_res c = oc_out c |- _ => rewrite Hr end.
      assert (E : outcome_eqb (oc_out c) (oc_out c) = true) by (apply outcome_eqb_eq; reflexivity).
      rewrite E. simpl. apply IH. assumption.
  - split.
    + intros H. apply app_eq_nil in H. destruct H as [H1 H2].
      destruct (oc_res c) as [v|e] eqn:Er; [|discriminate].
      destruct (List.existsb (ko_eqb (oc_key c, OOk v)) past) eqn:Ex; [|discriminate].
      apply SS_memo with v; [exact Ee|exact Er|apply existsb_ko; exact Ex|apply IH; exact H2].
    + intros H. inversion H; subst; [congruence|].
      match goal with Hr : oc_res c = OOk _ |- _ => rewrite Hr end.
      match goal with Hi : In _ past |- _ => apply existsb_ko in Hi; rewrite Hi end.
      simpl. apply IH. assumption.
Qed.

(* ---- fetchOffline ------------------------------------------------------------------------ *)
Lemma newer_mtime best e : (de_mtime best <= de_mtime (newer best e))%N /\ (de_mtime e <= de_mtime (newer best e))%N.
Proof. unfold newer. destruct (N.ltb (de_mtime best) (de_mtime e)) eqn:E; [apply N.ltb_lt in E|apply N.ltb_ge in E]; lia. Qed.

Lemma fold_newer_ge : forall t h, (de_mtime h <= de_mtime (fold_left newer t h))%N.
Proof.
  induction t as [|e t IH]; intros h; simpl; [lia|].
  pose proof (IH (newer h e)). pose proof (newer_mtime h e). lia.
Qed.

(* the fold: the result is the first maximum of h :: t *)
Lemma fold_newer_first : forall t h,
  exists l1 l2, h :: t = l1 ++ fold_left newer t h :: l2 /\
    (forall x, In x l1 -> (de_mtime x < de_mtime (fold_left newer t h))%N) /\
    (forall x, In x l2 -> (de_mtime x <= de_mtime (fold_left newer t h))%N).
Proof.
  induction t as [|e t IH]; intros h; simpl.
  - exists [], []. split; [reflexivity|]. split; intros x [].
  - destruct (N.ltb (de_mtime h) (de_mtime e)) eqn:E.
    + assert (En : newer h e = e) by (unfold newer; rewrite E; reflexivity). rewrite En.
      apply N.ltb_lt in E. destruct (IH e) as (l1 & l2 & El & H1 & H2).
      exists (h :: l1), l2. split; [simpl; rewrite El; reflexivity|]. split; [|exact H2].
      intros x [<-|Hx]; [|apply H1; exact Hx].
      (* h < e <= result *)
      pose proof (fold_newer_ge t e). lia.
    + assert (En : newer h e = h) by (unfold newer; rewrite E; reflexivity). rewrite En.
      apply N.ltb_ge in E. destruct (IH h) as (l1 & l2 & El & H1 & H2).
      destruct l1 as [|y l1']; simpl in El.
      * (* the result is h itself *)
        injection El as Eh Et. exists [], (e :: l2). split.
        { simpl. rewrite <- Eh. f_equal. f_equal. exact Et. }
        split; [intros x []|]. intros x [<-|Hx]; [rewrite <- Eh; exact E|apply H2; exact Hx].
      * injection El as Ey Et. subst y. exists (h :: e :: l1'), l2. split; [simpl; f_equal; f_equal; exact Et|].
        split; [|exact H2]. intros x [<-|[<-|Hx]].
        -- apply H1. left; reflexivity.
        -- assert (de_mtime h < de_mtime (fold_left newer t h))%N by (apply H1; left; reflexivity). lia.
        -- apply H1. right; exact Hx.
Qed.

Lemma pick_first_newest l e : pick_newest l = Some e -> FirstNewest l e.
Proof.
  destruct l as [|h t]; simpl; [discriminate|]. intros H. inversion H; subst e.
  destruct (fold_newer_first t h) as (l1 & l2 & El & H1 & H2). exists l1, l2. repeat split; assumption.
Qed.

Lemma first_newest_newest l e : FirstNewest l e -> Newest l e.
Proof.
  intros (l1 & l2 & -> & H1 & H2). split; [apply in_or_app; right; left; reflexivity|].
  intros x Hx. apply in_app_or in Hx. destruct Hx as [Hx|[<-|Hx]]; [specialize (H1 x Hx); lia|lia|apply H2; exact Hx].
Qed.

Lemma pick_newest_newest l e : pick_newest l = Some e -> Newest l e.
Proof. intros H. apply first_newest_newest, pick_first_newest, H. Qed.

Lemma pick_some l : l <> [] -> exists e, pick_newest l = Some e.
Proof. destruct l; [congruence|intros _; eexists; reflexivity]. Qed.

(* listing order does not matter when the newest modification time is unique *)
Lemma pick_unique_max l l' e e' :
  Permutation l l' -> pick_newest l = Some e -> pick_newest l' = Some e' ->
  (forall x, In x l -> de_mtime x = de_mtime e -> x = e) -> e' = e.
Proof.
  intros HP He He' Huniq.
  destruct (pick_newest_newest l e He) as [Hin Hmax].
  destruct (pick_newest_newest l' e' He') as [Hin' Hmax'].
  assert (In e' l) by (apply Permutation_in with l'; [apply Permutation_sym; exact HP|exact Hin']).
  assert (In e l') by (apply Permutation_in with l; assumption).
  apply Huniq; [assumption|]. specialize (Hmax e' H). specialize (Hmax' e H0). lia.
Qed.

(* the validator decides the readable statement *)
Lemma dentry_eqb_eq a b : dentry_eqb a b = true <-> a = b.
Proof.
  destruct a, b. unfold dentry_eqb. simpl.
  rewrite !andb_true_iff, !String.eqb_eq, N.eqb_eq, !Bool.eqb_true_iff.
  split; [intros [[[[[-> ->] ->] ->] ->] ->]; reflexivity|intros E; inversion E; repeat split].
Qed.

Lemma validate_offline_iff req l e : validate_offline req l e = [] <-> OfflineSound req l e.
Proof.
  unfold validate_offline, OfflineSound, tag_if. split.
  - intros H.
    destruct (List.existsb (dentry_eqb e) l &&
              List.forallb (fun x => negb (de_adv x) || N.leb (de_mtime x) (de_mtime e)) l) eqn:E1; [|discriminate].
    destruct (de_whole e) eqn:E2; [|discriminate].
    destruct (String.eqb (de_file e) req) eqn:E3; [|discriminate].
    apply andb_true_iff in E1. destruct E1 as [Ea Eb].
    split; [|split; [|split; [reflexivity|apply String.eqb_eq; exact E3]]].
    + apply existsb_exists in Ea. destruct Ea as (y & Hy & Ey). apply dentry_eqb_eq in Ey. subst. exact Hy.
    + intros x Hx Ha. rewrite forallb_forall in Eb. specialize (Eb x Hx). rewrite Ha in Eb. simpl in Eb.
      apply N.leb_le. exact Eb.
  - intros (Hin & Hmax & Hw & Hf).
    assert (Ea : List.existsb (dentry_eqb e) l = true).
    { apply existsb_exists. exists e. split; [exact Hin|apply dentry_eqb_eq; reflexivity]. }
    assert (Eb : List.forallb (fun x => negb (de_adv x) || N.leb (de_mtime x) (de_mtime e)) l = true).
    { apply forallb_forall. intros x Hx. destruct (de_adv x) eqn:Ha; [|reflexivity]. simpl.
      apply N.leb_le. apply Hmax; assumption. }
    rewrite Ea, Eb, Hw. apply String.eqb_eq in Hf. rewrite Hf. reflexivity.
Qed.

(* both choices — among all entries (today) and among the advertised ones (the repair) — open an
   entry that no advertised entry is newer than *)
Lemma pick_no_adv_newer l e : pick_newest l = Some e ->
  In e l /\ forall x, In x l -> de_adv x = true -> (de_mtime x <= de_mtime e)%N.
Proof. intros H. destruct (pick_newest_newest l e H) as [A B]. split; [exact A|intros x Hx _; apply B; exact Hx]. Qed.

Lemma pick_adv_no_adv_newer l e : pick_newest_adv l = Some e ->
  In e l /\ de_adv e = true /\ forall x, In x l -> de_adv x = true -> (de_mtime x <= de_mtime e)%N.
Proof.
  unfold pick_newest_adv. intros H. destruct (pick_newest_newest _ e H) as [A B].
  apply filter_In in A. destruct A as [A1 A2]. split; [exact A1|]. split; [exact A2|].
  intros x Hx Ha. apply B. apply filter_In. split; assumption.
Qed.

(* ---- file names of cached revisions ------------------------------------------------------ *)
Lemma str_length_append a b : String.length (String.append a b) = String.length a + String.length b.
Proof. induction a as [|c a IH]; simpl; [reflexivity|rewrite IH; reflexivity]. Qed.

Lemma str_append_inj_r : forall a b x, String.append a x = String.append b x -> a = b.
Proof.
  induction a as [|c a IH]; destruct b as [|c' b]; simpl; intros x H.
  - reflexivity.
  - exfalso. apply (f_equal String.length) in H. simpl in H. rewrite str_length_append in H. lia.
  - exfalso. apply (f_equal String.length) in H. simpl in H. rewrite str_length_append in H. lia.
  - inversion H. f_equal. apply IH with x. assumption.
Qed.

Lemma etag_file_base_inj exts k e e' :
  etag_file_base (fun x => x) exts k e = etag_file_base (fun x => x) exts k e' -> e = e'.
Proof. unfold etag_file_base. apply str_append_inj_r. Qed.

Lemma etag_file_name_inj exts d d' k e e' :
  etag_file_name (fun x => x) exts d k e = etag_file_name (fun x => x) exts d' k e' -> d = d' /\ e = e'.
Proof.
  unfold etag_file_name. intros H. rewrite !app_assoc in H. apply app_inj_tail in H. destruct H as [H1 H2].
  split; [apply app_inv_tail in H1; exact H1|apply etag_file_base_inj in H2; exact H2].
Qed.

Lemma validate_names_iff l : validate_names l = [] <-> NamesInjective l.
Proof.
  unfold validate_names, NamesInjective, tag_if. split.
  - intros H a b Ha Hb E.
    destruct (List.forallb _ l) eqn:F; [|discriminate]. rewrite forallb_forall in F.
    specialize (F a Ha). rewrite forallb_forall in F. specialize (F b Hb).
    apply orb_true_iff in F. destruct F as [F|F]; [|apply String.eqb_eq; exact F].
    apply String.eqb_eq in E. rewrite E in F. discriminate.
  - intros H. assert (F : List.forallb (fun a => List.forallb (fun b => negb (String.eqb (en_base a) (en_base b)) || String.eqb (en_raw a) (en_raw b)) l) l = true).
    { apply forallb_forall. intros a Ha. apply forallb_forall. intros b Hb.
      destruct (String.eqb (en_base a) (en_base b)) eqn:E; [|reflexivity]. simpl.
      apply String.eqb_eq. apply H; [assumption|assumption|apply String.eqb_eq; exact E]. }
    rewrite F. reflexivity.
Qed.

(* a cut after n characters identifies etags that differ later *)
Definition rep_a (n : nat) : string := string_of_list_ascii (repeat "a"%char n).
Lemma substring_skip : forall n t, String.substring n 1 (String.append (rep_a n) t) = String.substring 0 1 t.
Proof. induction n as [|k IH]; intros t; simpl; [reflexivity|apply IH]. Qed.
Lemma substring_take : forall n t, String.substring 0 n (String.append (rep_a n) t) = rep_a n.
Proof.
  induction n as [|k IH]; intros t; simpl; [destruct t; reflexivity|].
  unfold rep_a in *. simpl. rewrite IH. reflexivity.
Qed.
Lemma etag_cut_collides exts k n : exists e e',
  e <> e' /\ etag_file_base (etag_cut n) exts k e = etag_file_base (etag_cut n) exts k e'.
Proof.
  exists (String.append (rep_a n) "1"), (String.append (rep_a n) "2"). split.
  - intros H. apply (f_equal (fun s => String.substring n 1 s)) in H. rewrite !substring_skip in H. discriminate.
  - unfold etag_file_base, etag_cut. rewrite !substring_take. reflexivity.
Qed.

Lemma rep_a_length n : String.length (rep_a n) = n.
Proof. induction n as [|k IH]; [reflexivity|]. unfold rep_a in *. simpl. rewrite IH. reflexivity. Qed.
Lemma etag_name_unbounded exts k bound : exists e, bound < String.length (etag_file_base (fun x => x) exts k e).
Proof. exists (rep_a (S bound)). unfold etag_file_base. rewrite str_length_append, rep_a_length. lia. Qed.
