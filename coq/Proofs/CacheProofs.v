(* C19 — proofs about Model/Cache.v. *)
From Apko Require Import Base.Prelude Model.Cache Spec.CacheSpec.
Open Scope string_scope. Open Scope list_scope.

(* ---- small facts about the disk ------------------------------------------ *)
Lemma upd_same : forall d p o, upd d p o p = o.
Proof. intros. unfold upd. destruct (path_eq_dec p p); congruence. Qed.
Lemma upd_other : forall d p o q, q <> p -> upd d p o q = d q.
Proof. intros. unfold upd. destruct (path_eq_dec q p); congruence. Qed.

Lemma adv_not_owned : forall p, is_adv p = true -> owner p = None.
Proof. destruct p; simpl; congruence. Qed.

Lemma set_nth_same : forall A (l : list A) i x y,
  nth_error l i = Some y -> nth_error (set_nth l i x) i = Some x.
Proof. induction l; destruct i; simpl; intros; try discriminate; eauto. Qed.
Lemma set_nth_other : forall A (l : list A) i j x,
  j <> i -> nth_error (set_nth l i x) j = nth_error l j.
Proof. induction l; destruct i, j; simpl; intros; try congruence; eauto. Qed.

(* the paths a program may still create, write, close or remove *)
Fixpoint writes (prog : list astep) : list path :=
  match prog with
  | [] => []
  | a :: r =>
      match a with
      | MkTemp p | Create p | Append p _ | Close p | Remove p => [p]
      | Advertise src _ => [src]
      | Rename src _ => [src]
      | Rebuild _ _ tmp => [tmp]
      | Head o dir _ | IdxStat o dir _ _ | Get o dir _ => [PTmpFile dir o]
      | _ => []
      end ++ writes r
  end.

Lemma writes_app : forall a b, writes (a ++ b) = writes a ++ writes b.
Proof. induction a; simpl; intros; auto. rewrite IHa, app_assoc. reflexivity. Qed.

Lemma owned_not_adv : forall p o, owner p = Some o -> is_adv p = false.
Proof. destruct p; simpl; congruence. Qed.

Section Inv.
Variable gunzip : content -> content.
Variable origin : path -> content.
Variable srv : server.
(* the uncompressed tar the origin stands for is the gunzip of its data section *)
Hypothesis gunzip_ok : forall dir h,
  gunzip (origin (PMember dir MDat h)) = origin (PMember dir MTar h).
(* an etag identifies one index content: whenever the origin answers with etag e,
   the body is [origin (PIndex dir e)] *)
Hypothesis srv_ok : forall t dir, snd (srv t dir) = origin (PIndex dir (fst (srv t dir))).

(* steps that only touch the builder's own temporary names *)
Definition own_step (o : nat) (a : astep) : Prop :=
  match a with
  | MkdirAll p => owner p = None /\ is_adv p = false
  | MkTemp p | Create p | Append p _ | Close p | Remove p => owner p = Some o
  | _ => False
  end.

(* What the remaining program of builder [o] must satisfy: it writes only its
   own temporary names, and whenever it is about to advertise [src] under
   [dst], [src] is complete, holds the origin's bytes for [dst], and is never
   written again.  Only the o-owned part of [d] is inspected. *)
Fixpoint prog_ok (o : nat) (d : disk) (prog : list astep) : Prop :=
  match prog with
  | [] => True
  | Advertise src dst :: rest =>
      owner src = Some o /\ is_adv dst = true /\ d src = Some (File (origin dst) true) /\
      ~ In src (writes rest) /\ prog_ok o d rest /\ prog_ok o (upd d src None) rest
  | Symlink src dst :: rest =>
      owner src = Some o /\ is_adv dst = true /\ d src = Some (File (origin dst) true) /\
      ~ In src (writes rest) /\ prog_ok o d rest
  | Rename src dst :: rest =>
      owner src = Some o /\ is_adv dst = true /\ d src = Some (File (origin dst) true) /\
      prog_ok o (upd d src None) rest
  | Rebuild gz tar tmp :: rest =>
      (* PackageData ends the program; it rebuilds <h>.dat.tar from <h>.dat.tar.gz of the same directory *)
      rest = [] /\ owner tmp = Some o /\
      exists dir h, gz = PMember dir MDat h /\ tar = PMember dir MTar h
  (* the index download: the file is named by the etag of the GET response *)
  | Head o' _ byhead :: rest => rest = [] /\ o' = o /\ byhead = false
  | IdxStat o' _ _ byhead :: rest => rest = [] /\ o' = o /\ byhead = false
  | Get o' _ name :: rest => rest = [] /\ o' = o /\ name = None
  | a :: rest => own_step o a /\ prog_ok o (fst (exec gunzip d a)) rest
  end.

Definition agree (o : nat) (d d' : disk) : Prop := forall p, owner p = Some o -> d p = d' p.

Lemma agree_upd : forall o d d' p x, agree o d d' -> agree o (upd d p x) (upd d' p x).
Proof. intros o d d' p x H q Hq. unfold upd. destruct (path_eq_dec q p); auto. Qed.
Lemma agree_upd_l : forall o d d' p x, owner p <> Some o -> agree o d d' -> agree o (upd d p x) d'.
Proof. intros o d d' p x Hn H q Hq. rewrite upd_other; auto. congruence. Qed.
Lemma agree_upd_r : forall o d d' p x, owner p <> Some o -> agree o d d' -> agree o d (upd d' p x).
Proof. intros o d d' p x Hn H q Hq. rewrite upd_other; auto. congruence. Qed.
Lemma agree_refl : forall o d, agree o d d.
Proof. intros o d p _. reflexivity. Qed.

(* the disk effect of an own step depends only on the touched, owned path *)
Lemma own_step_agree : forall o a d d', own_step o a -> agree o d d' ->
  agree o (fst (exec gunzip d a)) (fst (exec gunzip d' a)).
Proof.
  intros o a d d' Hs Ha. destruct a; simpl in *; try contradiction.
  - (* MkdirAll *) destruct Hs as [Hn _].
    destruct (d p), (d' p); simpl; auto;
      try (apply agree_upd_l; [congruence|]); try (apply agree_upd_r; [congruence|]); auto.
  - rewrite <- (Ha p Hs). destruct (d p); auto. apply agree_upd; auto.
  - apply agree_upd; auto.
  - rewrite <- (Ha p Hs). destruct (d p) as [[]|]; auto. apply agree_upd; auto.
  - rewrite <- (Ha p Hs). destruct (d p) as [[]|]; auto. apply agree_upd; auto.
  - apply agree_upd; auto.
Qed.

Lemma prog_ok_agree : forall prog o d d', agree o d d' -> prog_ok o d prog -> prog_ok o d' prog.
Proof.
  induction prog as [|a rest IH]; simpl; intros o d d' Ha H; auto.
  destruct a; try contradiction;
    try (destruct H as [Hs H]; split; [exact Hs|];
         eapply IH; [|exact H]; apply own_step_agree; auto; fail).
  - (* Advertise *)
    destruct H as (H1 & H2 & H3 & H4 & H5 & H6). repeat split; auto.
    + rewrite <- (Ha src H1). exact H3.
    + eapply IH; eauto.
    + eapply IH; [|exact H6]. apply agree_upd; auto.
  - (* Symlink *)
    destruct H as (H1 & H2 & H3 & H4 & H5). repeat split; auto.
    + rewrite <- (Ha src H1). exact H3.
    + eapply IH; eauto.
  - (* Rebuild *) exact H.
  - (* Rename *)
    destruct H as (H1 & H2 & H3 & H4). repeat split; auto.
    + rewrite <- (Ha src H1). exact H3.
    + eapply IH; [|exact H4]. apply agree_upd; auto.
  - exact H.
  - exact H.
  - exact H.
Qed.

Lemma writes_owned : forall prog o d, prog_ok o d prog ->
  forall p, In p (writes prog) -> owner p = Some o.
Proof.
  induction prog as [|a rest IH]; simpl; intros o d H p Hin; [contradiction|].
  destruct a; try contradiction; simpl in *;
    try (destruct H as [Hs H]; destruct Hin as [<-|Hin]; [exact Hs | eapply IH; eauto]; fail).
  - destruct H as [_ H]. eapply IH; eauto.
  - destruct H as (H1 & _ & _ & _ & H5 & _). destruct Hin as [<-|Hin]; [exact H1 | eapply IH; eauto].
  - destruct H as (_ & _ & _ & _ & H5). eapply IH; eauto.
  - destruct H as (-> & H1 & _). destruct Hin as [<-|[]]. exact H1.
  - destruct H as (H1 & _ & _ & H4). destruct Hin as [<-|Hin]; [exact H1 | eapply IH; eauto].
  - destruct H as (-> & -> & _). destruct Hin as [<-|[]]. reflexivity.
  - destruct H as (-> & -> & _). destruct Hin as [<-|[]]. reflexivity.
  - destruct H as (-> & -> & _). destruct Hin as [<-|[]]. reflexivity.
Qed.

(* ---- the system invariant -------------------------------------------------- *)
(* every advertised name is absent, or a link to a temporary name holding a
   complete file with the origin's bytes for that name, or (after a rename)
   such a file itself *)
Definition DiskOK (d : disk) : Prop :=
  forall n, is_adv n = true ->
    match d n with
    | None => True
    | Some (Link t) => is_adv t = false /\ d t = Some (File (origin n) true)
    | Some (File c b) => c = origin n /\ b = true
    | Some Dir => False
    end.

(* no builder will ever write to or remove the target of an advertised link *)
Definition Frozen (s : sys) : Prop :=
  forall n t, is_adv n = true -> dsk s n = Some (Link t) ->
    forall j prog, nth_error (procs s) j = Some prog -> ~ In t (writes prog).

Definition ProgsOK (s : sys) : Prop :=
  forall j prog, nth_error (procs s) j = Some prog -> prog_ok j (dsk s) prog.

Definition Inv (s : sys) : Prop := DiskOK (dsk s) /\ Frozen s /\ ProgsOK s.

Lemma DiskOK_sound : forall d, DiskOK d -> CacheSound origin d.
Proof.
  intros d H n Hn Hex. specialize (H n Hn). unfold resolve.
  destruct (d n) as [[c b|t|]|]; try contradiction; try congruence.
  - destruct H as [-> ->]. reflexivity.
  - destruct H as [_ H]. rewrite H. reflexivity.
Qed.

(* an own step does not change a path that holds something and is not in the
   step's write set *)
Lemma own_step_keeps : forall o a d q x, own_step o a -> d q = Some x ->
  ~ In q (writes [a]) -> fst (exec gunzip d a) q = Some x.
Proof.
  intros o a d q x Hs Hq Hw.
  assert (Hne : forall p, In p (writes [a]) -> q <> p) by (intros p Hin ->; auto).
  destruct a; simpl in *; try contradiction.
  - destruct (d p) eqn:E; auto. rewrite upd_other; auto. congruence.
  - destruct (d p) eqn:E; auto. rewrite upd_other; auto.
  - rewrite upd_other; auto.
  - destruct (d p) as [[]|]; auto; rewrite upd_other; auto.
  - destruct (d p) as [[]|]; auto; rewrite upd_other; auto.
  - rewrite upd_other; auto.
Qed.

(* an own step never changes an advertised name *)
Lemma own_step_adv : forall o a d n, own_step o a -> is_adv n = true ->
  fst (exec gunzip d a) n = d n.
Proof.
  intros o a d n Hs Hn. pose proof (adv_not_owned n Hn) as Ho.
  destruct a; simpl in *; try contradiction;
    try (assert (n <> p) by (intros ->; congruence)).
  - destruct Hs as [_ Hp]. assert (n <> p) by (intros ->; congruence).
    destruct (d p); auto. apply upd_other; auto.
  - destruct (d p); auto. apply upd_other; auto.
  - apply upd_other; auto.
  - destruct (d p) as [[]|]; auto; apply upd_other; auto.
  - destruct (d p) as [[]|]; auto; apply upd_other; auto.
  - apply upd_other; auto.
Qed.

Lemma own_step_pre : forall o a d, own_step o a -> snd (exec gunzip d a) = [].
Proof. intros o a d Hs. destruct a; simpl in *; try contradiction; auto. Qed.

Lemma own_step_writes_owned : forall o a p, own_step o a -> In p (writes [a]) -> owner p = Some o.
Proof.
  intros o a p Hs Hin. destruct a; simpl in *; try contradiction;
    destruct Hin as [<-|[]]; auto.
Qed.

Lemma own_step_other_agree : forall o j a d, own_step o a -> j <> o ->
  agree j (fst (exec gunzip d a)) d.
Proof.
  intros o j a d Hs Hne q Hq.
  destruct a; simpl in *; try contradiction;
    try (assert (q <> p) by (intros ->; congruence)).
  - destruct Hs as [Hs _]. assert (q <> p) by (intros ->; congruence).
    destruct (d p); auto. apply upd_other; auto.
  - destruct (d p); auto. apply upd_other; auto.
  - apply upd_other; auto.
  - destruct (d p) as [[]|]; auto; apply upd_other; auto.
  - destruct (d p) as [[]|]; auto; apply upd_other; auto.
  - apply upd_other; auto.
Qed.

(* ---- helper lemmas about writing a file (used for the rebuild and for the protocols) *)
Lemma prog_ok_ext : forall prog o d d', (forall q, d q = d' q) -> prog_ok o d prog -> prog_ok o d' prog.
Proof. intros. eapply prog_ok_agree; eauto. intros q _. auto. Qed.

Ltac upd_ext :=
  let r := fresh "r" in
  intros r; unfold upd; repeat (destruct (path_eq_dec _ _)); subst;
  rewrite ?app_nil_r, <- ?app_assoc; simpl; try congruence; auto.

Lemma prog_ok_appends : forall c o d p x rest, owner p = Some o -> d p = Some (File x false) ->
  prog_ok o (upd d p (Some (File (x ++ c) false))) rest ->
  prog_ok o d (List.map (Append p) c ++ rest).
Proof.
  induction c as [|a c IH]; intros o d p x rest Ho Hd H.
  - simpl. eapply prog_ok_ext; [|exact H]. intros r. unfold upd.
    destruct (path_eq_dec r p); subst; rewrite ?app_nil_r; auto.
  - cbn [List.map app prog_ok]. split; [exact Ho|].
    cbn [exec fst]. rewrite Hd.
    eapply (IH o _ p (x ++ [a])); auto.
    + apply upd_same.
    + eapply prog_ok_ext; [|exact H]. upd_ext.
Qed.

Lemma prog_ok_write_file : forall c o d p rest, owner p = Some o ->
  prog_ok o (upd d p (Some (File c true))) rest -> prog_ok o d (write_file p c ++ rest).
Proof.
  intros c o d p rest Ho H. unfold write_file.
  cbn [app prog_ok]. split; [exact Ho|]. cbn [exec fst].
  rewrite <- app_assoc. eapply (prog_ok_appends c o _ p []); auto.
  - apply upd_same.
  - cbn [app prog_ok]. split; [exact Ho|]. cbn [exec fst]. rewrite upd_same.
    eapply prog_ok_ext; [|exact H]. upd_ext.
Qed.

Lemma writes_write_file : forall c p rest q,
  In q (writes (write_file p c ++ rest)) -> q = p \/ In q (writes rest).
Proof.
  intros c p rest q. unfold write_file. simpl. intros [<-|H]; auto.
  rewrite <- app_assoc in H. induction c as [|x c IH]; simpl in H.
  - destruct H as [<-|H]; auto.
  - destruct H as [<-|H]; auto.
Qed.

Lemma DiskOK_resolve : forall d n z b, DiskOK d -> is_adv n = true ->
  resolve d n = Some (z, b) -> z = origin n /\ b = true.
Proof.
  intros d n z b H Hn Hr. specialize (H n Hn). unfold resolve in Hr.
  destruct (d n) as [[c b'|t|]|]; try discriminate.
  - destruct H as [-> ->]. inversion Hr. auto.
  - destruct H as [_ H]. rewrite H in Hr. inversion Hr. auto.
Qed.

Lemma own_step_exec_t : forall o a now d, own_step o a -> exec_t gunzip srv now d a = exec gunzip d a.
Proof. intros o a now d H. destruct a; simpl in *; try contradiction; reflexivity. Qed.

(* retrieveAndSaveFile for a response whose body is the origin's content for the name chosen *)
Lemma populate_index_ok : forall o d0 dir etag,
  prog_ok o d0 (populate_index o dir etag (origin (PIndex dir etag))).
Proof.
  intros. unfold populate_index. cbn [prog_ok]. split; [split; reflexivity|].
  apply prog_ok_write_file; [reflexivity|].
  cbn [adv_steps List.map fst snd prog_ok writes]. repeat split; auto.
  apply upd_same.
Qed.

Lemma writes_populate_index : forall o dir e w q,
  In q (writes (populate_index o dir e w)) -> q = PTmpFile dir o.
Proof.
  intros o dir e w q H. unfold populate_index in H. cbn [writes app] in H.
  apply writes_write_file in H. destruct H as [H|H]; auto.
  simpl in H. destruct H as [H|[]]; auto.
Qed.

(* a step that only decides how the builder continues (the disk is unchanged) *)
Lemma decision_step_Inv : forall s i a rest pre,
  Inv s -> nth_error (procs s) i = Some (a :: rest) ->
  (forall q, In q (writes (pre ++ rest)) -> In q (writes (a :: rest))) ->
  prog_ok i (dsk s) (pre ++ rest) ->
  Inv {| dsk := dsk s; procs := set_nth (procs s) i (pre ++ rest); clk := S (clk s) |}.
Proof.
  intros s i a rest pre (HD & HF & HP) Ei Hw Hok. split; [exact HD|]. split.
  - intros n t Hn Hl j prog Hj. cbn [dsk procs] in *.
    destruct (Nat.eq_dec j i) as [->|Hne].
    + erewrite set_nth_same in Hj by eauto. inversion Hj; subst prog.
      intro Hin. apply (HF n t Hn Hl i _ Ei). auto.
    + rewrite set_nth_other in Hj by auto. eapply HF; eauto.
  - intros j prog Hj. cbn [dsk procs] in *.
    destruct (Nat.eq_dec j i) as [->|Hne].
    + erewrite set_nth_same in Hj by eauto. inversion Hj; subst prog. exact Hok.
    + rewrite set_nth_other in Hj by auto. apply HP; auto.
Qed.

Theorem step_preserves_Inv : forall s i, Inv s -> Inv (step gunzip srv s i).
Proof.
  intros s i (HD & HF & HP). unfold step.
  destruct (nth_error (procs s) i) as [[|a rest]|] eqn:Ei; try (repeat split; assumption).
  pose proof (HP i _ Ei) as Hok.
  (* the steps of the index download that talk to the origin or decide *)
  assert (Hidx : (exists o dir bh, a = Head o dir bh) \/ (exists o dir e bh, a = IdxStat o dir e bh) \/
                 (exists o dir nm, a = Get o dir nm) \/
                 (forall o dir bh, a <> Head o dir bh) /\ (forall o dir e bh, a <> IdxStat o dir e bh) /\
                 (forall o dir nm, a <> Get o dir nm)).
  { destruct a; try (right; right; right; repeat split; intros; discriminate);
      [left | right; left | right; right; left]; repeat eexists. }
  destruct Hidx as [(o & dir & bh & ->) | [(o & dir & e & bh & ->) | [(o & dir & nm & ->) | (Hn1 & Hn2 & Hn3)]]].
  { (* HEAD: remember the etag *)
    simpl in Hok. destruct Hok as (-> & -> & ->). cbn [exec_t].
    eapply decision_step_Inv; [repeat split; assumption | exact Ei | |].
    - intros q Hq. exact Hq.
    - cbn [app prog_ok]. auto. }
  { (* Stat of the name the HEAD's etag stands for *)
    simpl in Hok. destruct Hok as (-> & -> & ->). cbn [exec_t exec].
    eapply decision_step_Inv; [repeat split; assumption | exact Ei | |].
    - intros q Hq. destruct (resolve (dsk s) (PIndex dir e)); [contradiction | exact Hq].
    - destruct (resolve (dsk s) (PIndex dir e)); cbn [app prog_ok]; auto. }
  { (* GET: name and body come from this one response *)
    simpl in Hok. destruct Hok as (-> & -> & ->). cbn [exec_t].
    pose proof (srv_ok (clk s) dir) as Hs. destruct (srv (clk s) dir) as [e2 body]. cbn [fst snd] in Hs. subst body.
    eapply decision_step_Inv; [repeat split; assumption | exact Ei | |].
    - intros q Hq. rewrite app_nil_r in Hq. apply writes_populate_index in Hq. subst q. simpl. auto.
    - rewrite app_nil_r. apply populate_index_ok. }
  destruct (exec_t gunzip srv (clk s) (dsk s) a) as [d' pre] eqn:Ex.
  assert (Hd' : d' = fst (exec_t gunzip srv (clk s) (dsk s) a)) by (rewrite Ex; reflexivity).
  assert (Hpre : pre = snd (exec_t gunzip srv (clk s) (dsk s) a)) by (rewrite Ex; reflexivity).
  (* classify the step *)
  assert (Hcases :
    (own_step i a /\ prog_ok i d' rest) \/
    (exists src dst, a = Advertise src dst) \/
    (exists src dst, a = Symlink src dst) \/
    (exists gz tar tmp, a = Rebuild gz tar tmp) \/
    (exists src dst, a = Rename src dst)).
  { destruct a; simpl in Hok; try contradiction; subst d';
      try (left; destruct Hok; split; assumption); right;
      [left|right; left|right; right; left|right; right; right|exfalso; eapply Hn1; eauto
      |exfalso; eapply Hn2; eauto|exfalso; eapply Hn3; eauto]; eauto. }
  clear Hn1 Hn2 Hn3.
  destruct Hcases as [[Hs Hrest] | [(src & dst & ->) | [(src & dst & ->) | [(gz & tar & tmp & ->) | (src & dst & ->)]]]].
  - (* ---- an own step ---- *)
    rewrite (own_step_exec_t i a _ _ Hs) in Hd', Hpre.
    assert (Hnil : snd (exec gunzip (dsk s) a) = []) by (eapply own_step_pre; eauto).
    rewrite Hnil in Hpre. subst pre. clear Hnil. simpl.
    assert (Hw : forall n t, is_adv n = true -> dsk s n = Some (Link t) -> ~ In t (writes [a])).
    { intros n t Hn Hl Hin. apply (HF n t Hn Hl i _ Ei). simpl. simpl in Hin.
      rewrite app_nil_r in Hin. apply in_or_app. auto. }
    split; [|split].
    + intros n Hn. cbn [dsk]. rewrite Hd', (own_step_adv i a (dsk s) n Hs Hn).
      specialize (HD n Hn). destruct (dsk s n) as [[c b|t|]|] eqn:En; auto.
      destruct HD as [Ht HD]. split; auto. eapply own_step_keeps; eauto.
    + intros n t Hn Hl j prog Hj. cbn [dsk procs] in *.
      rewrite Hd', (own_step_adv i a (dsk s) n Hs Hn) in Hl.
      destruct (Nat.eq_dec j i) as [->|Hne].
      * erewrite set_nth_same in Hj by eauto. inversion Hj; subst prog.
        intro Hin. apply (HF n t Hn Hl i _ Ei). simpl. apply in_or_app. auto.
      * rewrite set_nth_other in Hj by auto. eapply HF; eauto.
    + intros j prog Hj. cbn [dsk procs] in *.
      destruct (Nat.eq_dec j i) as [->|Hne].
      * erewrite set_nth_same in Hj by eauto. inversion Hj; subst prog. exact Hrest.
      * rewrite set_nth_other in Hj by auto.
        eapply prog_ok_agree; [|apply (HP j _ Hj)].
        intros q Hq. symmetry. rewrite Hd'. eapply own_step_other_agree; eauto.
  - (* ---- Advertise: the Stat; the disk is unchanged ---- *)
    simpl in Ex. inversion Ex; subst d' pre; clear Ex.
    simpl in Hok. destruct Hok as (K1 & K2 & K3 & K4 & K5 & K6).
    split; [exact HD|]. split.
    + intros n t Hn Hl j prog Hj. cbn [dsk procs] in *.
      destruct (Nat.eq_dec j i) as [->|Hne].
      * erewrite set_nth_same in Hj by eauto. inversion Hj; subst prog.
        intro Hin. apply (HF n t Hn Hl i _ Ei). simpl.
        destruct (resolve (dsk s) dst); simpl in Hin; auto.
      * rewrite set_nth_other in Hj by auto. eapply HF; eauto.
    + intros j prog Hj. cbn [dsk procs] in *.
      destruct (Nat.eq_dec j i) as [->|Hne].
      * erewrite set_nth_same in Hj by eauto. inversion Hj; subst prog.
        destruct (resolve (dsk s) dst); simpl; repeat split; auto.
      * rewrite set_nth_other in Hj by auto. apply HP; auto.
  - (* ---- Symlink ---- *)
    simpl in Hok. destruct Hok as (K1 & K2 & K3 & K4 & K5).
    simpl in Ex. pose proof (adv_not_owned dst K2) as Hdo.
    assert (Hsd : src <> dst) by (intros ->; congruence).
    destruct (dsk s dst) as [x|] eqn:Ed; inversion Ex; subst d' pre; clear Ex; simpl.
    + (* EEXIST: nothing changes *)
      split; [exact HD|]. split.
      * intros n t Hn Hl j prog Hj. cbn [dsk procs] in *.
        destruct (Nat.eq_dec j i) as [->|Hne].
        -- erewrite set_nth_same in Hj by eauto. inversion Hj; subst prog.
           intro Hin. apply (HF n t Hn Hl i _ Ei). simpl. exact Hin.
        -- rewrite set_nth_other in Hj by auto. eapply HF; eauto.
      * intros j prog Hj. cbn [dsk procs] in *.
        destruct (Nat.eq_dec j i) as [->|Hne].
        -- erewrite set_nth_same in Hj by eauto. inversion Hj; subst prog. exact K5.
        -- rewrite set_nth_other in Hj by auto. apply HP; auto.
    + (* the link is created *)
      split; [|split].
      * intros n Hn. cbn [dsk]. destruct (path_eq_dec n dst) as [->|Hne].
        -- rewrite upd_same, upd_other by auto. split; [eapply owned_not_adv; eauto | exact K3].
        -- rewrite upd_other by auto. specialize (HD n Hn).
           destruct (dsk s n) as [[c b|t|]|] eqn:En; auto.
           destruct HD as [Ht HD]. split; auto.
           rewrite upd_other; auto. intros ->. congruence.
      * intros n t Hn Hl j prog Hj. cbn [dsk procs] in *.
        destruct (path_eq_dec n dst) as [->|Hnd].
        -- rewrite upd_same in Hl. inversion Hl; subst t.
           destruct (Nat.eq_dec j i) as [->|Hne].
           ++ erewrite set_nth_same in Hj by eauto. inversion Hj; subst prog. exact K4.
           ++ rewrite set_nth_other in Hj by auto. intro Hin.
              pose proof (writes_owned _ _ _ (HP j _ Hj) _ Hin). congruence.
        -- rewrite upd_other in Hl by auto.
           destruct (Nat.eq_dec j i) as [->|Hne].
           ++ erewrite set_nth_same in Hj by eauto. inversion Hj; subst prog.
              intro Hin. apply (HF n t Hn Hl i _ Ei). simpl. exact Hin.
           ++ rewrite set_nth_other in Hj by auto. eapply HF; eauto.
      * intros j prog Hj. cbn [dsk procs] in *.
        assert (Hag : forall k, agree k (dsk s) (upd (dsk s) dst (Some (Link src)))).
        { intros k. apply agree_upd_r; [congruence | apply agree_refl]. }
        destruct (Nat.eq_dec j i) as [->|Hne].
        -- erewrite set_nth_same in Hj by eauto. inversion Hj; subst prog.
           eapply prog_ok_agree; [apply Hag | exact K5].
        -- rewrite set_nth_other in Hj by auto.
           eapply prog_ok_agree; [apply Hag | apply HP; auto].
  - (* ---- Rebuild: PackageData decides; the disk is unchanged ---- *)
    simpl in Hok. destruct Hok as (-> & K1 & dir & h & -> & ->).
    assert (Ed : d' = dsk s) by (rewrite Hd'; reflexivity).
    assert (Epre : pre =
      match resolve (dsk s) (PMember dir MTar h) with
      | Some _ => []
      | None => match resolve (dsk s) (PMember dir MDat h) with
                | Some (z, _) => write_file tmp (gunzip z) ++ [Rename tmp (PMember dir MTar h)]
                | None => []
                end
      end) by (rewrite Hpre; reflexivity).
    clear Ex Hd' Hpre. subst d'. rewrite app_nil_r.
    (* whatever it continues with only ever touches tmp *)
    assert (Hwr : forall q, In q (writes pre) -> q = tmp).
    { intros q Hq. rewrite Epre in Hq. destruct (resolve (dsk s) (PMember dir MTar h)); [contradiction|].
      destruct (resolve (dsk s) (PMember dir MDat h)) as [[z bz]|]; [|contradiction].
      apply writes_write_file in Hq. destruct Hq as [Hq|Hq]; auto.
      simpl in Hq. destruct Hq as [Hq|[]]; auto. }
    split; [exact HD|]. split.
    + intros n t Hn Hl j prog Hj. cbn [dsk procs] in *.
      destruct (Nat.eq_dec j i) as [->|Hne].
      * erewrite set_nth_same in Hj by eauto. inversion Hj; subst prog.
        intro Hin. apply Hwr in Hin. subst t.
        apply (HF n tmp Hn Hl i _ Ei). simpl. auto.
      * rewrite set_nth_other in Hj by auto. eapply HF; eauto.
    + intros j prog Hj. cbn [dsk procs] in *.
      destruct (Nat.eq_dec j i) as [->|Hne].
      * erewrite set_nth_same in Hj by eauto. inversion Hj; subst prog. rewrite Epre.
        destruct (resolve (dsk s) (PMember dir MTar h)); [exact I|].
        destruct (resolve (dsk s) (PMember dir MDat h)) as [[z bz]|] eqn:Ez; [|exact I].
        destruct (DiskOK_resolve _ (PMember dir MDat h) _ _ HD eq_refl Ez) as [-> _].
        apply prog_ok_write_file; [exact K1|].
        cbn [prog_ok]. repeat split; auto.
        rewrite upd_same. rewrite gunzip_ok. reflexivity.
      * rewrite set_nth_other in Hj by auto. apply HP; auto.
  - (* ---- Rename: the rebuilt tar is published atomically ---- *)
    simpl in Hok. destruct Hok as (K1 & K2 & K3 & K4).
    simpl in Ex. rewrite K3 in Ex. inversion Ex; subst d' pre; clear Ex. simpl.
    pose proof (adv_not_owned dst K2) as Hdo.
    assert (Hsd : src <> dst) by (intros ->; congruence).
    assert (Hsrc_free : forall n t, is_adv n = true -> dsk s n = Some (Link t) -> t <> src).
    { intros n t Hn Hl ->. apply (HF n src Hn Hl i _ Ei). simpl. auto. }
    split; [|split].
    + intros n Hn. cbn [dsk].
      assert (Hns : n <> src) by (intros ->; pose proof (adv_not_owned _ Hn); congruence).
      rewrite upd_other by auto.
      destruct (path_eq_dec n dst) as [->|Hne].
      * rewrite upd_same. auto.
      * rewrite upd_other by auto. specialize (HD n Hn).
        destruct (dsk s n) as [[c b|t|]|] eqn:En; auto.
        destruct HD as [Ht HD]. split; auto.
        rewrite upd_other by (eapply Hsrc_free; eauto).
        rewrite upd_other; auto. intros ->. congruence.
    + intros n t Hn Hl j prog Hj. cbn [dsk procs] in *.
      assert (Hns : n <> src) by (intros ->; pose proof (adv_not_owned _ Hn); congruence).
      rewrite upd_other in Hl by auto.
      destruct (path_eq_dec n dst) as [->|Hne]; [rewrite upd_same in Hl; discriminate|].
      rewrite upd_other in Hl by auto.
      destruct (Nat.eq_dec j i) as [->|Hnj].
      * erewrite set_nth_same in Hj by eauto. inversion Hj; subst prog.
        intro Hin. apply (HF n t Hn Hl i _ Ei). simpl. auto.
      * rewrite set_nth_other in Hj by auto. eapply HF; eauto.
    + intros j prog Hj. cbn [dsk procs] in *.
      destruct (Nat.eq_dec j i) as [->|Hnj].
      * erewrite set_nth_same in Hj by eauto. inversion Hj; subst prog.
        eapply prog_ok_agree; [|exact K4].
        apply agree_upd. apply agree_upd_r; [congruence | apply agree_refl].
      * rewrite set_nth_other in Hj by auto.
        eapply prog_ok_agree; [|apply HP; eauto].
        apply agree_upd_r; [congruence|]. apply agree_upd_r; [congruence | apply agree_refl].
Qed.

Theorem run_preserves_Inv : forall sched s, Inv s -> Inv (run gunzip srv s sched).
Proof.
  unfold run. induction sched as [|i sched IH]; simpl; intros s H; auto.
  apply IH. apply step_preserves_Inv. exact H.
Qed.

Lemma init_Inv : forall bs,
  (forall j prog, nth_error bs j = Some prog -> prog_ok j empty_disk prog) -> Inv (init bs).
Proof.
  intros bs H. split; [|split].
  - intros n _. reflexivity.
  - intros n t _ Hl. discriminate.
  - exact H.
Qed.
End Inv.

(* ---- the population protocols satisfy prog_ok ------------------------------ *)
Section Protocols.
Variable gunzip : content -> content.
Variable origin : path -> content.
Notation pok := (prog_ok gunzip origin).

Ltac upd_ext :=
  let r := fresh "r" in
  intros r; unfold upd; repeat (destruct (path_eq_dec _ _)); subst;
  rewrite ?app_nil_r, <- ?app_assoc; simpl; try congruence; auto.
Notation prog_ok_ext := (prog_ok_ext gunzip origin).
Notation prog_ok_appends := (prog_ok_appends gunzip origin).
Notation prog_ok_write_file := (prog_ok_write_file gunzip origin).

Lemma prog_ok_mix : forall a b o d p q x y rest,
  owner p = Some o -> owner q = Some o -> p <> q ->
  d p = Some (File x false) -> d q = Some (File y false) ->
  pok o (upd (upd d p (Some (File (x ++ a) false))) q (Some (File (y ++ b) false))) rest ->
  pok o d (mix p q a b ++ rest).
Proof.
  induction a as [|x0 a IH]; intros b o d p q x y rest Hp Hq Hpq Hdp Hdq H.
  - simpl. eapply prog_ok_appends; eauto.
    eapply prog_ok_ext; [|exact H]. intros r. unfold upd.
    repeat (destruct (path_eq_dec _ _)); subst; rewrite ?app_nil_r; congruence.
  - destruct b as [|y0 b].
    + change (mix p q (x0 :: a) []) with (List.map (Append p) (x0 :: a)).
      eapply prog_ok_appends; eauto.
      eapply prog_ok_ext; [|exact H]. intros r. unfold upd.
      repeat (destruct (path_eq_dec _ _)); subst; rewrite ?app_nil_r; congruence.
    + cbn [mix app prog_ok]. split; [exact Hp|]. cbn [exec fst]. rewrite Hdp.
      split; [exact Hq|]. cbn [exec fst]. rewrite upd_other by congruence. rewrite Hdq.
      eapply (IH b o _ p q (x ++ [x0]) (y ++ [y0])); auto.
      * rewrite upd_other by congruence. apply upd_same.
      * apply upd_same.
      * eapply prog_ok_ext; [|exact H]. upd_ext.
Qed.

Lemma prog_ok_pair : forall a b o d p q rest,
  owner p = Some o -> owner q = Some o -> p <> q ->
  pok o (upd (upd d p (Some (File a true))) q (Some (File b true))) rest ->
  pok o d (Create p :: Create q :: mix p q a b ++ Close q :: Close p :: rest).
Proof.
  intros a b o d p q rest Hp Hq Hpq H.
  cbn [prog_ok]. split; [exact Hp|]. cbn [exec fst].
  split; [exact Hq|]. cbn [exec fst].
  eapply (prog_ok_mix a b o _ p q [] []); auto.
  - rewrite upd_other by congruence. apply upd_same.
  - apply upd_same.
  - cbn [app prog_ok]. split; [exact Hq|]. cbn [exec fst]. rewrite upd_same.
    split; [exact Hp|]. cbn [exec fst].
    rewrite upd_other by congruence. rewrite upd_other by congruence. rewrite upd_same.
    eapply prog_ok_ext; [|exact H]. upd_ext.
Qed.

Lemma writes_adv_steps : forall l, writes (adv_steps l) = List.map fst l.
Proof. induction l as [|[s t] l IH]; simpl; congruence. Qed.

Lemma prog_ok_adv_steps : forall l rest o d, NoDup (List.map fst l) ->
  (forall s, In s (List.map fst l) -> ~ In s (writes rest)) ->
  (forall d', pok o d' rest) ->
  (forall s t, In (s, t) l ->
     owner s = Some o /\ is_adv t = true /\ d s = Some (File (origin t) true)) ->
  pok o d (adv_steps l ++ rest).
Proof.
  induction l as [|[s t] l IH]; intros rest o d Hnd Hw Hrest H; [apply Hrest|].
  simpl in Hnd. inversion Hnd as [|? ? Hnin Hnd']; subst.
  destruct (H s t (or_introl eq_refl)) as (H1 & H2 & H3).
  change (adv_steps ((s, t) :: l) ++ rest) with (Advertise s t :: adv_steps l ++ rest).
  assert (Hw' : forall s0, In s0 (List.map fst l) -> ~ In s0 (writes rest)).
  { intros s0 Hs0. apply Hw. right. exact Hs0. }
  cbn [prog_ok]. repeat split; auto.
  - rewrite writes_app, writes_adv_steps. intro Hin. apply in_app_or in Hin.
    destruct Hin as [Hin|Hin]; [exact (Hnin Hin)|]. apply (Hw s); [left; reflexivity | exact Hin].
  - apply IH; auto. intros s' t' Hin. apply H. right. exact Hin.
  - apply IH; auto. intros s' t' Hin.
    destruct (H s' t' (or_intror Hin)) as (A & B & C). repeat split; auto.
    rewrite upd_other; auto. intros ->. apply Hnin.
    change s with (fst (s, t')). apply in_map. exact Hin.
Qed.

Lemma populate_package_ok : forall cl o d0 dir a, served origin dir a ->
  pok o d0 (populate_package_ord cl o dir a).
Proof.
  intros cl o d0 dir a (Hc & Hs & Hd & Ht). unfold populate_package_ord.
  cbn [app prog_ok]. split; [split; reflexivity|]. split; [reflexivity|].
  cbn [exec fst].
  set (d1 := match match d0 (PDir dir) with Some _ => d0 | None => upd d0 (PDir dir) (Some Dir) end
                     (PTmpDir dir o) with
             | Some _ => _ | None => _ end).
  clearbody d1. revert d1.
  assert (Hfin : forall d2 : disk,
    d2 (PTmpMem dir o MCtl) = Some (File (a_ctl a) true) ->
    (forall s, a_sig a = Some s -> d2 (PTmpMem dir o MSig) = Some (File s true)) ->
    pok o d2 (Create (PTmpMem dir o MDat) :: Create (PTmpMem dir o MTar) ::
       mix (PTmpMem dir o MDat) (PTmpMem dir o MTar) (a_dat a) (a_tar a) ++
       Close (PTmpMem dir o MTar) :: Close (PTmpMem dir o MDat) ::
       adv_steps (pkg_advs_ord cl o dir a) ++ open_tar o dir (a_dath a))).
  { intros d2 H2c H2s. apply prog_ok_pair; try reflexivity; try congruence.
    apply prog_ok_adv_steps.
    - unfold pkg_advs_ord, pkg_advs, pkg_advs_ctl_last. destruct cl; destruct (a_sig a); simpl; repeat constructor; simpl;
        intuition congruence.
    - intros s0 Hs0 Hin. simpl in Hin. destruct Hin as [<-|[]].
      unfold pkg_advs_ord, pkg_advs, pkg_advs_ctl_last in Hs0.
      destruct cl; destruct (a_sig a); simpl in Hs0; intuition discriminate.
    - intros d'. unfold open_tar. cbn [prog_ok]. repeat split; eauto.
    - intros s t Hin. unfold pkg_advs_ord, pkg_advs, pkg_advs_ctl_last in Hin.
      assert (Hcases : (s, t) = (PTmpMem dir o MCtl, PMember dir MCtl (a_ctlh a)) \/
              (exists sg, a_sig a = Some sg /\ (s, t) = (PTmpMem dir o MSig, PMember dir MSig (a_ctlh a))) \/
              (s, t) = (PTmpMem dir o MDat, PMember dir MDat (a_dath a)) \/
              (s, t) = (PTmpMem dir o MTar, PMember dir MTar (a_dath a))).
      { destruct cl; destruct (a_sig a) eqn:Es; simpl in Hin; intuition eauto. }
      destruct Hcases as [E|[(sg & Es & E)|[E|E]]]; inversion E; subst; repeat split.
      + rewrite !upd_other by congruence. rewrite <- Hc. exact H2c.
      + rewrite !upd_other by congruence. rewrite <- (Hs sg Es). apply H2s. exact Es.
      + rewrite upd_other by congruence. rewrite upd_same. rewrite Hd. reflexivity.
      + rewrite upd_same. rewrite Ht. reflexivity. }
  intros d1. destruct (a_sig a) as [sg|] eqn:Es.
  - apply prog_ok_write_file; [reflexivity|].
    apply prog_ok_write_file; [reflexivity|].
    apply Hfin.
    + apply upd_same.
    + intros s E. inversion E; subst. rewrite upd_other by congruence. apply upd_same.
  - cbn [app]. apply prog_ok_write_file; [reflexivity|].
    apply Hfin.
    + apply upd_same.
    + intros s E. discriminate.
Qed.
End Protocols.

(* ---- the property-level statements ----------------------------------------- *)
Lemma nth_progs_from : forall cl bs k j prog,
  nth_error (progs_from cl k bs) j = Some prog ->
  exists b, nth_error bs j = Some b /\ prog = prog_of_ord cl (k + j) b.
Proof.
  induction bs as [|b bs IH]; intros k j prog H; destruct j; simpl in *; try discriminate.
  - inversion H; subst. exists b. rewrite Nat.add_0_r. auto.
  - destruct (IH (S k) j prog H) as (b' & Hb & ->). exists b'. split; auto.
    f_equal. lia.
Qed.

(* every reachable state satisfies the invariant (both orders of cachePackage) *)
Theorem reach_Inv : forall cl origin srv gunzip bs sched,
  origin_gunzip origin gunzip -> etag_names_content origin srv -> builders_ok origin bs ->
  Inv gunzip origin (run gunzip srv (init (progs_ord cl bs)) sched).
Proof.
  intros cl origin srv gunzip bs sched Hgz Hsrv Hok.
  apply (run_preserves_Inv gunzip origin srv Hgz Hsrv).
  apply init_Inv. intros j prog Hj.
  destruct (nth_progs_from _ _ _ _ _ Hj) as (b & Hb & ->).
  change (0 + j) with j.
  pose proof (nth_error_In _ _ Hb) as Hin.
  destruct b as [dir|dir a|dir dh]; unfold prog_of_ord.
  - cbn [prog_ok]. auto.
  - apply (populate_package_ok gunzip origin). apply Hok. exact Hin.
  - unfold open_tar. cbn [prog_ok]. repeat split; eauto.
Qed.

Theorem population_sound_ord : forall cl origin srv gunzip bs sched,
  origin_gunzip origin gunzip -> etag_names_content origin srv -> builders_ok origin bs ->
  CacheSound origin (dsk (run gunzip srv (init (progs_ord cl bs)) sched)).
Proof.
  intros. apply DiskOK_sound. eapply reach_Inv; eauto.
Qed.

Theorem population_sound : forall origin srv gunzip bs sched,
  origin_gunzip origin gunzip -> etag_names_content origin srv -> builders_ok origin bs ->
  CacheSound origin (dsk (run gunzip srv (init (progs bs)) sched)).
Proof. intros. apply population_sound_ord; assumption. Qed.

Lemma resolve_exists : forall d n r, resolve d n = Some r -> d n <> None.
Proof. unfold resolve. intros d n r H E. rewrite E in H. discriminate. Qed.

Lemma sound_resolve : forall origin d n c b, CacheSound origin d -> is_adv n = true ->
  resolve d n = Some (c, b) -> c = origin n /\ b = true.
Proof.
  intros origin d n c b Hs Hn Hr. pose proof (Hs n Hn (resolve_exists _ _ _ Hr)) as H.
  rewrite H in Hr. inversion Hr. auto.
Qed.

Theorem read_package_sound : forall origin dh d dir ctlh m,
  CacheSound origin d -> read_package dh d dir ctlh = Hit m ->
  m_ctl m = origin (PMember dir MCtl ctlh) /\
  m_dat m = origin (PMember dir MDat (dh (m_ctl m))) /\
  m_tar m = origin (PMember dir MTar (dh (m_ctl m))) /\
  (forall s, m_sig m = Some s -> s = origin (PMember dir MSig ctlh)).
Proof.
  intros origin dh d dir ctlh m Hs. unfold read_package.
  destruct (resolve d (PMember dir MCtl ctlh)) as [[ctl b1]|] eqn:E1; [|discriminate].
  destruct (resolve d (PMember dir MDat (dh ctl))) as [[dat b2]|] eqn:E2; [|discriminate].
  destruct (resolve d (PMember dir MTar (dh ctl))) as [[tar b3]|] eqn:E3; [|discriminate].
  intros H. inversion H; subst m; clear H. simpl.
  destruct (sound_resolve _ _ (PMember dir MCtl ctlh) _ _ Hs eq_refl E1) as [A1 _].
  destruct (sound_resolve _ _ (PMember dir MDat (dh ctl)) _ _ Hs eq_refl E2) as [A2 _].
  destruct (sound_resolve _ _ (PMember dir MTar (dh ctl)) _ _ Hs eq_refl E3) as [A3 _].
  repeat split; auto.
  intros s. destruct (resolve d (PMember dir MSig ctlh)) as [[sg b4]|] eqn:E4; [|discriminate].
  intros E. inversion E; subst s.
  destruct (sound_resolve _ _ (PMember dir MSig ctlh) _ _ Hs eq_refl E4) as [A4 _]. exact A4.
Qed.

(* a build with the cache installs what a build without it installs *)
Theorem with_cache_eq_without : forall origin dh d dir ctlh, CacheSound origin d ->
  installed_eq (package_with_cache origin dh d dir ctlh) (fetch_origin origin dh dir ctlh).
Proof.
  intros origin dh d dir ctlh Hs. unfold package_with_cache.
  destruct (read_package dh d dir ctlh) as [| |m] eqn:E; try (repeat split; reflexivity).
  destruct (read_package_sound _ _ _ _ _ _ Hs E) as (A & B & C & _).
  unfold installed_eq, fetch_origin. simpl. rewrite A in B, C. rewrite A, B, C. auto.
Qed.

Theorem read_index_sound : forall origin d dir etag c b, CacheSound origin d ->
  read_index d dir etag = Some (c, b) -> c = origin (PIndex dir etag) /\ b = true.
Proof. intros. eapply sound_resolve; eauto. Qed.

Theorem read_offline_sound : forall origin d e c b, CacheSound origin d -> is_adv e = true ->
  read_offline d e = Some (c, b) -> c = origin e /\ b = true.
Proof. intros. eapply sound_resolve; eauto. Qed.

(* ---- the listing validator decides ListingSound --------------------------- *)
Lemma content_eqb_spec : forall a b, content_eqb a b = true <-> a = b.
Proof. apply list_eqb_spec. intros. apply String.eqb_eq. Qed.

Lemma check_entry_nil : forall tab l n o, check_entry tab l (n, o) = [] <->
  (is_adv n = true -> exists c b, lookup_l tab n = Some c /\ resolve (disk_of l) n = Some (c, b)).
Proof.
  intros tab l n o. unfold check_entry. destruct (is_adv n).
  - destruct (lookup_l tab n) as [c|].
    + destruct (resolve (disk_of l) n) as [[c' b]|].
      * unfold tag_if. destruct (content_eqb c c') eqn:E; simpl.
        -- apply content_eqb_spec in E. subst. split; eauto.
        -- split; [discriminate|]. intros H. destruct (H eq_refl) as (c0 & b0 & A & B).
           assert (Hcc : c = c') by congruence. subst c'.
           rewrite (proj2 (content_eqb_spec c c) eq_refl) in E. discriminate.
      * split; [discriminate|]. intros H. destruct (H eq_refl) as (c0 & b0 & _ & B). discriminate.
    + split; [discriminate|]. intros H. destruct (H eq_refl) as (c0 & b0 & A & _). discriminate.
  - split; auto. intros _ H. discriminate.
Qed.

Lemma validate_sub_iff : forall tab l l0, List.flat_map (check_entry tab l) l0 = [] <->
  (forall n o, In (n, o) l0 -> is_adv n = true ->
     exists c b, lookup_l tab n = Some c /\ resolve (disk_of l) n = Some (c, b)).
Proof.
  intros tab l l0. induction l0 as [|[n o] l0 IH]; cbn [List.flat_map In].
  - split; auto. intros _ n o [].
  - split.
    + intros H. apply app_eq_nil in H. destruct H as [H1 H2].
      intros n' o' [E|Hin] Hadv.
      * inversion E; subst. apply (proj1 (check_entry_nil tab l n' o') H1 Hadv).
      * apply (proj1 IH H2 n' o' Hin Hadv).
    + intros H.
      assert (A : check_entry tab l (n, o) = []).
      { apply check_entry_nil. intros Hadv. apply (H n o (or_introl eq_refl) Hadv). }
      rewrite A. cbn [app]. apply IH. intros n' o' Hin. apply (H n' o'). right. exact Hin.
Qed.

Theorem validate_listing_iff : forall tab l, validate_listing tab l = [] <-> ListingSound tab l.
Proof. intros. apply validate_sub_iff. Qed.

(* ---- refutation witnesses --------------------------------------------------- *)
Definition w_origin : path -> content := fun n =>
  match n with
  | PMember _ MCtl _ => ["ctl"] | PMember _ MSig _ => ["sig"]
  | PMember _ MDat _ => ["gz"] | PMember _ MTar _ => ["t1"; "t2"]
  | _ => ["i1"; "i2"]
  end.
Definition w_apk : apk :=
  {| a_sig := None; a_ctl := ["ctl"]; a_dat := ["gz"]; a_tar := ["t1"; "t2"]; a_ctlh := "c"; a_dath := "d" |}.
Definition w_gunzip (z : content) : content := ["t1"; "t2"].
Definition w_dh (c : content) : string := "d".
(* an origin that never changes its index revision *)
Definition w_srv : server := fun _ _ => ("E", ["i1"; "i2"]).
Lemma w_srv_ok : etag_names_content w_origin w_srv.
Proof. intros t dir. reflexivity. Qed.

(* builder 0 populates and is killed between advertising <d>.dat.tar.gz and
   <d>.dat.tar (16 steps); builder 1 is a later build whose cachedPackage finds
   control and data and starts PackageData's rebuild.  In [w_sched] it is killed
   after the first write into its temporary file and builder 2, a later
   complete download, runs to the end; in [w_sched2] it runs to the end.
   (Before fix 90139a3 the rebuild wrote under the final name and [w_sched]
   left a partial <d>.dat.tar that every later lookup hit: finding C19-F1.) *)
Definition w_bs : list builder := [BPackage "p" w_apk; BReader "p" "d"; BPackage "p" w_apk].
Definition w_sched : list nat := repeat 0 16 ++ [1; 1; 1] ++ repeat 2 40.
Definition w_sched2 : list nat := repeat 0 16 ++ repeat 1 10.
Definition w_disk : disk := dsk (run w_gunzip w_srv (init (progs w_bs)) w_sched).
Definition w_disk2 : disk := dsk (run w_gunzip w_srv (init (progs w_bs)) w_sched2).

Lemma w_bs_ok : builders_ok w_origin w_bs.
Proof.
  intros dir a [E|[E|[E|[]]]]; inversion E; subst; repeat split; try reflexivity;
    intros s E'; discriminate.
Qed.
Lemma w_gunzip_ok : origin_gunzip w_origin w_gunzip.
Proof. intros dir h. reflexivity. Qed.

Definition w_hit : lookup :=
  Hit {| m_ctl := ["ctl"]; m_sig := None; m_dat := ["gz"]; m_tar := ["t1"; "t2"] |}.

Lemma rebuild_examples :
  (* killed inside the rebuild: only a temporary file is left, the final name is
     published by the later complete download *)
  read_package w_dh w_disk "p" "c" = w_hit /\
  w_disk (PTmpFile "p" 1) = Some (File ["t1"] false) /\
  w_disk (PMember "p" MTar "d") = Some (Link (PTmpMem "p" 2 MTar)) /\
  (* rebuild run to the end: the final name is a complete regular file *)
  read_package w_dh w_disk2 "p" "c" = w_hit /\
  w_disk2 (PMember "p" MTar "d") = Some (File ["t1"; "t2"] true) /\
  w_disk2 (PTmpFile "p" 1) = None.
Proof. vm_compute. repeat split. Qed.

(* an index download killed after its first write: the temporary file is what
   fetchOffline may pick (newest mtime in the directory) *)
Definition w2_bs : list builder := [BIndex "i"].
Definition w2_sched : list nat := repeat 0 6.     (* HEAD, Stat, GET, MkdirAll, CreateTemp, one write *)
Definition w2_disk : disk := dsk (run w_gunzip w_srv (init (progs w2_bs)) w2_sched).
Lemma offline_returns_partial :
  read_offline w2_disk (PTmpFile "i" 0) = Some (["i1"], false) /\
  forall n, w_origin n <> ["i1"].
Proof.
  split; [vm_compute; reflexivity|].
  intros n. destruct n as [| | | |d e|d m h]; simpl; try discriminate. destruct m; discriminate.
Qed.
