(* C19 — hypothesis-free facts about Model/Cache.v: which paths a builder can
   ever touch (temporary names are private), and which index names can ever
   appear (only etags the origin really served). *)
From Apko Require Import Base.Prelude Model.Cache Spec.CacheSpec Proofs.CacheProofs.
Open Scope string_scope. Open Scope list_scope.

(* the names a program may still create something under: directories, link
   and rename destinations.  The etag an index download will use is known
   after the HEAD only for the by-HEAD variant. *)
Fixpoint dsts (prog : list astep) : list path :=
  match prog with
  | [] => []
  | a :: r =>
      match a with
      | MkdirAll p => [p]
      | Advertise _ dst | Symlink _ dst | Rename _ dst => [dst]
      | Rebuild _ tar _ => [tar]
      | IdxStat _ dir e _ | Get _ dir (Some e) => [PIndex dir e]
      | _ => []
      end ++ dsts r
  end.

Lemma dsts_app : forall a b, dsts (a ++ b) = dsts a ++ dsts b.
Proof. induction a; simpl; intros; auto. rewrite IHa, app_assoc. reflexivity. Qed.

Lemma dsts_appends : forall p c, dsts (List.map (Append p) c) = [].
Proof. induction c; simpl; auto. Qed.
Lemma dsts_write_file : forall p c, dsts (write_file p c) = [].
Proof. intros. unfold write_file. simpl. rewrite dsts_app, dsts_appends. reflexivity. Qed.
Lemma writes_appends : forall p c q, In q (writes (List.map (Append p) c)) -> q = p.
Proof. induction c; simpl; intros q H; [contradiction|]. destruct H as [<-|H]; auto. Qed.
Lemma writes_write_file_only : forall p c q, In q (writes (write_file p c)) -> q = p.
Proof.
  intros p c q H. rewrite <- (app_nil_r (write_file p c)) in H.
  apply writes_write_file in H. destruct H as [H|[]]; auto.
Qed.

Lemma dsts_populate_index : forall o dir e w, dsts (populate_index o dir e w) = [PDir dir; PIndex dir e].
Proof. intros. unfold populate_index. cbn [dsts]. rewrite dsts_app, dsts_write_file. reflexivity. Qed.

Section Steps.
Variable gunzip : content -> content.
Variable srv : server.

(* what one step does, in one equation *)
Lemma step_cases : forall s i,
  ((nth_error (procs s) i = None \/ nth_error (procs s) i = Some []) /\
   step gunzip srv s i = {| dsk := dsk s; procs := procs s; clk := S (clk s) |}) \/
  (exists a rest, nth_error (procs s) i = Some (a :: rest) /\
     step gunzip srv s i =
       {| dsk := fst (exec_t gunzip srv (clk s) (dsk s) a);
          procs := set_nth (procs s) i (snd (exec_t gunzip srv (clk s) (dsk s) a) ++ rest);
          clk := S (clk s) |}).
Proof.
  intros s i. unfold step. destruct (nth_error (procs s) i) as [[|a rest]|] eqn:E; auto.
  right. exists a, rest. split; auto. destruct (exec_t gunzip srv (clk s) (dsk s) a); reflexivity.
Qed.

Lemma clk_step : forall s i, clk (step gunzip srv s i) = S (clk s).
Proof.
  intros. destruct (step_cases s i) as [[_ ->] | (a & rest & _ & ->)]; reflexivity.
Qed.
Lemma clk_run : forall sched s, clk (run gunzip srv s sched) = List.length sched + clk s.
Proof.
  unfold run. induction sched as [|i sched IH]; simpl; intros; auto.
  rewrite IH, clk_step. lia.
Qed.

(* a step changes the disk only at the paths its head step names *)
Lemma exec_changes : forall now d a q,
  fst (exec_t gunzip srv now d a) q <> d q -> In q (writes [a]) \/ In q (dsts [a]).
Proof.
  intros now d a q H.
  assert (U : forall p x, upd d p x q <> d q -> q = p).
  { intros p x Hne. destruct (path_eq_dec q p); auto. rewrite upd_other in Hne; congruence. }
  destruct a; simpl in *; try congruence.
  - destruct (d p); [congruence|]. right. left. symmetry. eapply U; eauto.
  - destruct (d p); [congruence|]. left. left. symmetry. eapply U; eauto.
  - left. left. symmetry. eapply U; eauto.
  - destruct (d p) as [[]|]; try congruence. left. left. symmetry. eapply U; eauto.
  - destruct (d p) as [[]|]; try congruence. left. left. symmetry. eapply U; eauto.
  - left. left. symmetry. eapply U; eauto.
  - destruct (d dst); [congruence|]. right. left. symmetry. eapply U; eauto.
  - destruct (d src) as [x|]; [|congruence].
    destruct (path_eq_dec q src) as [->|Hs]; [left; left; reflexivity|].
    rewrite upd_other in H by auto. right. left. symmetry. eapply U; eauto.
  - destruct (srv now dir). simpl in H. congruence.
Qed.

Opaque write_file populate_index.
(* ... and continues only with steps on paths that were announced, plus — for
   the GET — the cache directory and the name of the etag just received *)
Lemma cont_writes : forall now d a q,
  In q (writes (snd (exec_t gunzip srv now d a))) -> In q (writes [a]).
Proof.
  intros now d a q H. destruct a; simpl in *; try contradiction.
  - destruct (resolve d dst); simpl in H; tauto.
  - destruct (resolve d tar); [contradiction|].
    destruct (resolve d gz) as [[z b]|]; [|contradiction].
    apply writes_write_file in H. destruct H as [->|H]; auto.
  - exact H.
  - destruct (resolve d (PIndex dir etag)); [contradiction|]. exact H.
  - destruct (srv now dir) as [e2 body]. apply writes_populate_index in H. auto.
Qed.

Lemma cont_dsts : forall now d a q,
  In q (dsts (snd (exec_t gunzip srv now d a))) ->
  In q (dsts [a]) \/
  (exists o dir nm, a = Get o dir nm /\ (q = PDir dir \/ q = PIndex dir (fst (srv now dir)))) \/
  (exists o dir bh, a = Head o dir bh /\ q = PIndex dir (fst (srv now dir))).
Proof.
  intros now d a q H. destruct a; simpl in *; try contradiction.
  - destruct (resolve d dst); simpl in H; tauto.
  - destruct (resolve d tar); [contradiction|].
    destruct (resolve d gz) as [[z b]|]; [|contradiction].
    rewrite dsts_app, dsts_write_file in H. simpl in H. left. tauto.
  - right. right. exists o, dir, byhead. destruct H as [<-|[]]. auto.
  - destruct (resolve d (PIndex dir etag)); [contradiction|].
    destruct byhead; simpl in H; tauto.
  - destruct (srv now dir) as [e2 body] eqn:E. simpl in H. rewrite dsts_populate_index in H. cbn [fst].
    destruct name as [e|]; simpl in H.
    + destruct H as [<-|[<-|[]]]; [right; left; exists o, dir, (Some e); auto | left; simpl; auto].
    + destruct H as [<-|[<-|[]]]; right; left; exists o, dir, None; rewrite ?E; simpl; auto.
Qed.

Transparent write_file populate_index.
(* ---- temporary names are private ------------------------------------------- *)
Definition owned_prog (o : nat) (prog : list astep) : Prop :=
  (forall p, In p (writes prog) -> owner p = Some o) /\ (forall p, In p (dsts prog) -> owner p = None).
Definition Owned (s : sys) : Prop :=
  forall j prog, nth_error (procs s) j = Some prog -> owned_prog j prog.

Lemma Owned_step : forall s i, Owned s -> Owned (step gunzip srv s i).
Proof.
  intros s i H. destruct (step_cases s i) as [[_ ->] | (a & rest & Ei & ->)]; [exact H|].
  intros j prog Hj. cbn [procs] in Hj.
  destruct (Nat.eq_dec j i) as [->|Hne].
  - erewrite set_nth_same in Hj by eauto. inversion Hj; subst prog. clear Hj.
    destruct (H i _ Ei) as [HW HD]. split.
    + intros p Hp. rewrite writes_app in Hp. apply in_app_or in Hp. apply HW.
      change (a :: rest) with ([a] ++ rest). rewrite writes_app. apply in_or_app.
      destruct Hp as [Hp|Hp]; [left; eapply cont_writes; eauto | right; exact Hp].
    + intros p Hp. rewrite dsts_app in Hp. apply in_app_or in Hp.
      destruct Hp as [Hp|Hp].
      * apply cont_dsts in Hp.
        destruct Hp as [Hp | [(o & dir & nm & -> & [->| ->]) | (o & dir & bh & -> & ->)]]; try reflexivity.
        apply HD. change (a :: rest) with ([a] ++ rest). rewrite dsts_app. apply in_or_app. auto.
      * apply HD. change (a :: rest) with ([a] ++ rest). rewrite dsts_app. apply in_or_app. auto.
  - rewrite set_nth_other in Hj by auto. apply H; auto.
Qed.

Lemma Owned_run : forall sched s, Owned s -> Owned (run gunzip srv s sched).
Proof.
  unfold run. induction sched as [|i sched IH]; simpl; intros s H; auto.
  apply IH. apply Owned_step. exact H.
Qed.
End Steps.

Lemma writes_mix : forall p q a b x, In x (writes (mix p q a b)) -> x = p \/ x = q.
Proof.
  induction a as [|c a IH]; intros b x H; simpl in H.
  - right. eapply writes_appends; eauto.
  - destruct b as [|y b].
    + change (Append p c :: List.map (Append p) a) with (List.map (Append p) (c :: a)) in H.
      left. eapply writes_appends; eauto.
    + simpl in H. destruct H as [<-|[<-|H]]; eauto.
Qed.
Lemma dsts_mix : forall p q a b, dsts (mix p q a b) = [].
Proof.
  induction a as [|c a IH]; intros b; simpl.
  - apply dsts_appends.
  - destruct b as [|y b]; [apply (dsts_appends p (c :: a))|]. simpl. apply IH.
Qed.
Lemma writes_adv_steps' : forall l, writes (adv_steps l) = List.map fst l.
Proof. induction l as [|[s t] l IH]; simpl; congruence. Qed.
Lemma dsts_adv_steps : forall l, dsts (adv_steps l) = List.map snd l.
Proof. induction l as [|[s t] l IH]; simpl; congruence. Qed.

(* every builder starts with a program on its own temporary names only *)
Lemma owned_prog_of : forall cl o b, owned_prog o (prog_of_ord cl o b).
Proof.
  intros cl o b. destruct b as [dir|dir a|dir dh]; unfold prog_of_ord.
  - split; simpl; intros p H; [destruct H as [<-|[]]; reflexivity | contradiction].
  - unfold populate_package_ord. split; intros p H.
    + repeat (rewrite ?writes_app in H; cbn [writes app] in H).
      assert (Hadv : forall x, In x (writes (adv_steps (pkg_advs_ord cl o dir a))) -> owner x = Some o).
      { intros x Hx. rewrite writes_adv_steps' in Hx.
        unfold pkg_advs_ord, pkg_advs, pkg_advs_ctl_last in Hx.
        destruct cl; destruct (a_sig a); simpl in Hx; intuition (subst; reflexivity). }
      destruct H as [<-|H]; [reflexivity|].
      apply in_app_or in H. destruct H as [H|H].
      { destruct (a_sig a); [|contradiction]. apply writes_write_file_only in H. subst. reflexivity. }
      apply in_app_or in H. destruct H as [H|H].
      { apply writes_write_file_only in H. subst. reflexivity. }
      destruct H as [<-|[<-|H]]; try reflexivity.
      apply in_app_or in H. destruct H as [H|H].
      { apply writes_mix in H. destruct H as [-> | ->]; reflexivity. }
      destruct H as [<-|[<-|H]]; try reflexivity.
      apply in_app_or in H. destruct H as [H|H]; [auto|].
      simpl in H. destruct H as [<-|[]]. reflexivity.
    + repeat (rewrite ?dsts_app in H; cbn [dsts app] in H).
      destruct H as [<-|H]; [reflexivity|].
      apply in_app_or in H. destruct H as [H|H].
      { destruct (a_sig a); [rewrite dsts_write_file in H|]; contradiction. }
      apply in_app_or in H. destruct H as [H|H].
      { rewrite dsts_write_file in H. contradiction. }
      rewrite dsts_mix, dsts_adv_steps in H. cbn [app] in H.
      apply in_app_or in H. destruct H as [H|H].
      * unfold pkg_advs_ord, pkg_advs, pkg_advs_ctl_last in H.
        destruct cl; destruct (a_sig a); simpl in H; intuition (subst; reflexivity).
      * simpl in H. destruct H as [<-|[]]. reflexivity.
  - split; simpl; intros p [<-|[]]; reflexivity.
Qed.

Lemma Owned_init : forall cl bs, Owned (init (progs_ord cl bs)).
Proof.
  intros cl bs j prog Hj. cbn [init procs] in Hj.
  destruct (nth_progs_from _ _ _ _ _ Hj) as (b & _ & ->). apply owned_prog_of.
Qed.

(* In every reachable state — for every origin, builders, schedule, with NO
   hypothesis —: whatever builder [i] changes on the disk is one of its own
   temporary names, or a name without an owner (a cache directory or an
   advertised name).  A temporary path of another builder is never touched. *)
Theorem private_temp_names : forall gunzip srv cl bs sched i p,
  let s := run gunzip srv (init (progs_ord cl bs)) sched in
  dsk (step gunzip srv s i) p <> dsk s p -> owner p = Some i \/ owner p = None.
Proof.
  intros gunzip srv cl bs sched i p s H.
  pose proof (Owned_run gunzip srv sched _ (Owned_init cl bs)) as HO. fold s in HO.
  destruct (step_cases gunzip srv s i) as [[_ E] | (a & rest & Ei & E)]; rewrite E in H; cbn [dsk] in H.
  - congruence.
  - destruct (HO i _ Ei) as [HW HD].
    apply exec_changes in H. destruct H as [H|H].
    + left. apply HW. change (a :: rest) with ([a] ++ rest). rewrite writes_app. apply in_or_app. auto.
    + right. apply HD. change (a :: rest) with ([a] ++ rest). rewrite dsts_app. apply in_or_app. auto.
Qed.

(* the paths two different builders may still write are disjoint *)
Theorem write_sets_disjoint : forall gunzip srv cl bs sched i j pi pj p,
  let s := run gunzip srv (init (progs_ord cl bs)) sched in
  nth_error (procs s) i = Some pi -> nth_error (procs s) j = Some pj -> i <> j ->
  In p (writes pi) -> ~ In p (writes pj).
Proof.
  intros gunzip srv cl bs sched i j pi pj p s Hi Hj Hne Hp Hq.
  pose proof (Owned_run gunzip srv sched _ (Owned_init cl bs)) as HO. fold s in HO.
  destruct (HO i _ Hi) as [HW _]. destruct (HO j _ Hj) as [HW' _].
  specialize (HW p Hp). specialize (HW' p Hq). congruence.
Qed.

(* ---- only etags that were served name index entries ------------------------- *)
Section Served.
Variable gunzip : content -> content.
Variable srv : server.

Definition served_before (n : nat) (dir e : string) : Prop := exists t, t < n /\ fst (srv t dir) = e.

Definition IdxServed (s : sys) : Prop :=
  (forall dir e, dsk s (PIndex dir e) <> None -> served_before (clk s) dir e) /\
  (forall j prog dir e, nth_error (procs s) j = Some prog -> In (PIndex dir e) (dsts prog) ->
     served_before (clk s) dir e).

Lemma served_mono : forall n dir e, served_before n dir e -> served_before (S n) dir e.
Proof. intros n dir e (t & Ht & E). exists t. split; auto. Qed.

Lemma IdxServed_step : forall s i, Owned s -> IdxServed s -> IdxServed (step gunzip srv s i).
Proof.
  intros s i HO [HD HP]. destruct (step_cases gunzip srv s i) as [[_ ->] | (a & rest & Ei & ->)].
  - split; cbn [dsk procs clk]; intros; apply served_mono; eauto.
  - assert (Hhead : forall dir e, In (PIndex dir e) (dsts [a]) -> served_before (clk s) dir e).
    { intros dir e Hin. apply (HP i _ dir e Ei). change (a :: rest) with ([a] ++ rest).
      rewrite dsts_app. apply in_or_app. auto. }
    split; cbn [dsk procs clk].
    + intros dir e Hne. apply served_mono.
      destruct (dsk s (PIndex dir e)) as [x|] eqn:En; [apply HD; congruence|].
      assert (Hch : fst (exec_t gunzip srv (clk s) (dsk s) a) (PIndex dir e) <> dsk s (PIndex dir e))
        by (rewrite En; exact Hne).
      apply exec_changes in Hch. destruct Hch as [Hch|Hch]; [|apply Hhead; exact Hch].
      (* a write set holds the builder's own temporary names only *)
      exfalso. destruct (HO i _ Ei) as [HW _].
      assert (Ho : owner (PIndex dir e) = Some i).
      { apply HW. change (a :: rest) with ([a] ++ rest). rewrite writes_app. apply in_or_app. auto. }
      discriminate.
    + intros j prog dir e Hj Hin.
      destruct (Nat.eq_dec j i) as [->|Hne].
      * erewrite set_nth_same in Hj by eauto. inversion Hj; subst prog. clear Hj.
        rewrite dsts_app in Hin. apply in_app_or in Hin. destruct Hin as [Hin|Hin].
        -- apply cont_dsts in Hin.
           destruct Hin as [Hin | [(o & dr & nm & -> & [Hq|Hq]) | (o & dr & bh & -> & Hq)]].
           ++ apply served_mono. apply Hhead. exact Hin.
           ++ discriminate.
           ++ inversion Hq; subst. exists (clk s). split; auto.
           ++ inversion Hq; subst. exists (clk s). split; auto.
        -- apply served_mono. apply (HP i _ dir e Ei). change (a :: rest) with ([a] ++ rest).
           rewrite dsts_app. apply in_or_app. auto.
      * rewrite set_nth_other in Hj by auto. apply served_mono. eapply HP; eauto.
Qed.

Lemma IdxServed_run : forall sched s, Owned s -> IdxServed s -> IdxServed (run gunzip srv s sched).
Proof.
  unfold run. induction sched as [|i sched IH]; simpl; intros s HO H; auto.
  apply IH; [apply Owned_step; exact HO | apply IdxServed_step; assumption].
Qed.
End Served.

Lemma no_index_dst_at_start : forall cl o b dir e, ~ In (PIndex dir e) (dsts (prog_of_ord cl o b)).
Proof.
  intros cl o b dir e H.
  destruct (owned_prog_of cl o b) as [_ HD].
  destruct b as [dr|dr a|dr dh]; unfold prog_of_ord in H.
  - simpl in H. exact H.
  - unfold populate_package_ord in H.
    repeat (rewrite ?dsts_app in H; cbn [dsts app] in H).
    destruct H as [H|H]; [discriminate|].
    apply in_app_or in H. destruct H as [H|H].
    { destruct (a_sig a); [rewrite dsts_write_file in H|]; contradiction. }
    apply in_app_or in H. destruct H as [H|H].
    { rewrite dsts_write_file in H. contradiction. }
    rewrite dsts_mix, dsts_adv_steps in H. cbn [app] in H.
    apply in_app_or in H. destruct H as [H|H].
    + unfold pkg_advs_ord, pkg_advs, pkg_advs_ctl_last in H.
      destruct cl; destruct (a_sig a); simpl in H; intuition discriminate.
    + simpl in H. destruct H as [H|[]]. discriminate.
  - simpl in H. destruct H as [H|[]]. discriminate.
Qed.

(* every index name present in a reachable state carries an etag the origin
   really answered with at some earlier step *)
Theorem index_names_were_served : forall gunzip srv cl bs sched dir e,
  let s := run gunzip srv (init (progs_ord cl bs)) sched in
  dsk s (PIndex dir e) <> None -> exists t, t < clk s /\ fst (srv t dir) = e.
Proof.
  intros gunzip srv cl bs sched dir e s H.
  assert (H0 : IdxServed srv (init (progs_ord cl bs))).
  { split.
    - intros dr e0 Hne. exfalso. apply Hne. reflexivity.
    - intros j prog dr e0 Hj Hin. exfalso. cbn [init procs] in Hj.
      destruct (nth_progs_from _ _ _ _ _ Hj) as (b & _ & ->).
      eapply no_index_dst_at_start; eauto. }
  destruct (IdxServed_run gunzip srv sched _ (Owned_init cl bs) H0) as [HD _]. apply HD. exact H.
Qed.

(* ---- witnesses: what goes wrong when one of the two design decisions is dropped ---- *)

(* (1) the downloaded index is filed under the etag of the HEAD instead of the
   GET response's.  The origin moves from revision E1 to E2 between the HEAD
   (step 0) and the GET (step 2). *)
Definition h_body (e : string) : content := if String.eqb e "E2" then ["j1"; "j2"] else ["i1"; "i2"].
Definition h_origin : path -> content := fun n =>
  match n with PIndex _ e => h_body e | _ => w_origin n end.
Definition h_srv : server := fun t _ => if Nat.ltb t 2 then ("E1", h_body "E1") else ("E2", h_body "E2").
Lemma h_srv_ok : etag_names_content h_origin h_srv.
Proof. intros t dir. unfold h_srv. destruct (Nat.ltb t 2); reflexivity. Qed.

Definition h_disk (byhead : bool) : disk :=
  dsk (run w_gunzip h_srv (init [[Head 0 "i" byhead]]) (repeat 0 12)).

Lemma head_etag_witness :
  (* by-HEAD naming: revision E2's bytes sit under E1's name *)
  resolve (h_disk true) (PIndex "i" "E1") = Some (h_body "E2", true) /\
  h_body "E2" <> h_origin (PIndex "i" "E1") /\
  (* the code today (name from the GET response): E2's bytes under E2's name, nothing under E1's *)
  resolve (h_disk false) (PIndex "i" "E2") = Some (h_origin (PIndex "i" "E2"), true) /\
  h_disk false (PIndex "i" "E1") = None.
Proof. vm_compute. repeat split. discriminate. Qed.

(* (2) two index downloads share ONE temporary name (identity 0 for both, the
   effect of a fixed name instead of os.CreateTemp).  Both miss; the first
   publishes its link; the second truncates and rewrites the shared file — the
   published entry is partial meanwhile —, finds the destination present and
   removes "its" copy: the target of the published link. *)
Definition t_progs : list (list astep) := [[Head 0 "i" false]; [Head 0 "i" false]].
Definition t_sched_mid : list nat := [0; 0; 0; 1; 1; 1] ++ repeat 0 7 ++ [1; 1; 1].
Definition t_sched : list nat := [0; 0; 0; 1; 1; 1] ++ repeat 0 7 ++ repeat 1 7.
Definition t_disk_mid : disk := dsk (run w_gunzip w_srv (init t_progs) t_sched_mid).
Definition t_disk : disk := dsk (run w_gunzip w_srv (init t_progs) t_sched).

Lemma shared_temp_witness :
  (* while the second download is running the advertised entry is a partial file *)
  resolve t_disk_mid (PIndex "i" "E") = Some (["i1"], false) /\
  (* at the end it is a dangling link, for ever *)
  t_disk (PIndex "i" "E") = Some (Link (PTmpFile "i" 0)) /\
  t_disk (PTmpFile "i" 0) = None /\
  resolve t_disk (PIndex "i" "E") = None.
Proof. vm_compute. repeat split. Qed.

(* the same two downloads with private names (identities 0 and 1) on the same schedule *)
Lemma private_temp_example :
  resolve (dsk (run w_gunzip w_srv (init (progs [BIndex "i"; BIndex "i"])) t_sched)) (PIndex "i" "E")
    = Some (["i1"; "i2"], true).
Proof. vm_compute. reflexivity. Qed.

(* ---- what a temporary file of an index download can hold --------------------- *)
(* (fetchOffline opens the newest entry of APKINDEX/, which may be such a file) *)
Lemma skipn_cons_firstn : forall (w : content) k c tl, skipn k w = c :: tl ->
  firstn (S k) w = firstn k w ++ [c] /\ skipn (S k) w = tl.
Proof.
  induction w as [|x w IH]; intros k c tl H.
  - destruct k; discriminate.
  - destruct k as [|k].
    + simpl in H. inversion H; subst. split; reflexivity.
    + simpl in H. destruct (IH k c tl H) as [A B]. split.
      * change (firstn (S (S k)) (x :: w)) with (x :: firstn (S k) w). rewrite A. reflexivity.
      * exact B.
Qed.
Lemma skipn_nil_firstn : forall (w : content) k, skipn k w = [] -> firstn k w = w.
Proof.
  induction w as [|x w IH]; intros k H; destruct k; simpl in *; try discriminate; auto.
  f_equal. auto.
Qed.

Definition obj_opt_eq_dec (a b : option obj) : {a = b} + {a <> b}.
Proof.
  decide equality. decide equality; try apply path_eq_dec; try apply Bool.bool_dec.
  apply list_eq_dec, string_dec.
Defined.

Section IdxTmp.
Variable gunzip : content -> content.
Variable srv : server.

(* the response (etag, body) was given by the origin at some earlier step *)
Definition answered (now : nat) (dir : string) (e : string) (w : content) : Prop :=
  exists t, t < now /\ srv t dir = (e, w).

(* the states of one faithful index download [j] in directory [dir]: its remaining
   program and what its temporary file holds ([f] = the disk at PTmpFile dir j) *)
Inductive idx_state (j : nat) (dir : string) (f : option obj) (now : nat) : list astep -> Prop :=
| IS_head : f = None -> idx_state j dir f now [Head j dir false]
| IS_stat : forall e, f = None -> idx_state j dir f now [IdxStat j dir e false]
| IS_get : f = None -> idx_state j dir f now [Get j dir None]
| IS_none : f = None -> idx_state j dir f now []           (* a hit, or the own copy removed *)
| IS_start : forall e w, answered now dir e w -> f = None ->
    idx_state j dir f now (populate_index j dir e w)
| IS_create : forall e w, answered now dir e w -> f = None ->
    idx_state j dir f now (write_file (PTmpFile dir j) w ++ adv_steps [(PTmpFile dir j, PIndex dir e)])
| IS_write : forall e w k, answered now dir e w -> f = Some (File (firstn k w) false) ->
    idx_state j dir f now ((List.map (Append (PTmpFile dir j)) (skipn k w) ++ [Close (PTmpFile dir j)]) ++
                           adv_steps [(PTmpFile dir j, PIndex dir e)])
| IS_closed : forall e w rest, answered now dir e w -> f = Some (File w true) ->
    rest = adv_steps [(PTmpFile dir j, PIndex dir e)] \/ rest = [Symlink (PTmpFile dir j) (PIndex dir e)] \/
    rest = [Remove (PTmpFile dir j)] \/ rest = [] ->
    idx_state j dir f now rest.

Lemma answered_mono : forall now dir e w, answered now dir e w -> answered (S now) dir e w.
Proof. intros now dir e w (t & Ht & E). exists t. split; auto. Qed.

Lemma idx_state_tick : forall j dir f now prog, idx_state j dir f now prog -> idx_state j dir f (S now) prog.
Proof.
  intros j dir f now prog H. inversion H; subst;
    try (constructor; auto; fail);
    [eapply IS_start | eapply IS_create | eapply IS_write | eapply IS_closed]; eauto using answered_mono.
Qed.

(* one step of the download itself *)
Lemma idx_state_step : forall j dir d now a rest,
  idx_state j dir (d (PTmpFile dir j)) now (a :: rest) ->
  idx_state j dir (fst (exec_t gunzip srv now d a) (PTmpFile dir j)) (S now)
            (snd (exec_t gunzip srv now d a) ++ rest).
Proof.
  intros j dir d now a rest H.
  remember (a :: rest) as prog eqn:Ep.
  destruct H as [Hf | e Hf | Hf | Hf | e w Ha Hf | e w Ha Hf | e w k Ha Hf | e w rest' Ha Hf Hr].
  - (* HEAD *) inversion Ep; subst. cbn [exec_t fst snd app]. apply IS_stat. exact Hf.
  - (* Stat *) inversion Ep; subst. cbn [exec_t exec fst snd].
    destruct (resolve d (PIndex dir e)); cbn [app]; [apply IS_none | apply IS_get]; exact Hf.
  - (* GET *) inversion Ep; subst. cbn [exec_t]. destruct (srv now dir) as [e2 body] eqn:E. cbn [fst snd].
    rewrite app_nil_r. apply IS_start; [exists now; split; auto | exact Hf].
  - discriminate.
  - (* MkdirAll *)
    unfold populate_index in Ep. inversion Ep; subst. cbn [exec_t exec fst snd app].
    destruct (d (PDir dir)); [|rewrite upd_other by discriminate];
      (apply IS_create; [apply answered_mono; exact Ha | exact Hf]).
  - (* CreateTemp *)
    unfold write_file in Ep. cbn [app] in Ep. inversion Ep; subst. cbn [exec_t exec fst snd app].
    rewrite upd_same. apply (IS_write j dir _ _ e w 0); [apply answered_mono; exact Ha | reflexivity].
  - (* a write, or the close *)
    destruct (skipn k w) as [|c tl] eqn:Ek; cbn [List.map app] in Ep; inversion Ep; subst.
    + (* Close *) cbn [exec_t exec fst snd app]. rewrite Hf. rewrite upd_same.
      rewrite (skipn_nil_firstn w k Ek).
      eapply IS_closed; [apply answered_mono; exact Ha | reflexivity | left; reflexivity].
    + cbn [exec_t exec fst snd app]. rewrite Hf. rewrite upd_same.
      destruct (skipn_cons_firstn w k c tl Ek) as [A B]. rewrite <- A, <- B.
      apply (IS_write j dir _ _ e w (S k)); [apply answered_mono; exact Ha | reflexivity].
  - (* AdvertiseCachedFile and what follows *)
    destruct Hr as [-> | [-> | [-> | ->]]]; inversion Ep; subst.
    + cbn [exec_t exec fst snd].
      destruct (resolve d (PIndex dir e)); cbn [app];
        (eapply IS_closed; [apply answered_mono; exact Ha | exact Hf | auto]).
    + cbn [exec_t exec fst snd app].
      destruct (d (PIndex dir e)); [|rewrite upd_other by discriminate];
        (eapply IS_closed; [apply answered_mono; exact Ha | exact Hf | auto]).
    + cbn [exec_t exec fst snd app]. rewrite upd_same. apply IS_none. reflexivity.
Qed.

Definition IdxTmp (bs : list builder) (s : sys) : Prop :=
  forall j dir, nth_error bs j = Some (BIndex dir) ->
    exists prog, nth_error (procs s) j = Some prog /\ idx_state j dir (dsk s (PTmpFile dir j)) (clk s) prog.

Lemma IdxTmp_step : forall bs s i, Owned s -> IdxTmp bs s -> IdxTmp bs (step gunzip srv s i).
Proof.
  intros bs s i HO H j dir Hb. destruct (H j dir Hb) as (prog & Hj & Hst).
  destruct (step_cases gunzip srv s i) as [[_ ->] | (a & rest & Ei & ->)]; cbn [dsk procs clk].
  - exists prog. split; auto. apply idx_state_tick. exact Hst.
  - destruct (Nat.eq_dec j i) as [->|Hne].
    + rewrite Ei in Hj. inversion Hj; subst prog. eexists. split; [eapply set_nth_same; eauto|].
      apply idx_state_step. exact Hst.
    + exists prog. split; [rewrite set_nth_other; auto|].
      assert (Hsame : fst (exec_t gunzip srv (clk s) (dsk s) a) (PTmpFile dir j) = dsk s (PTmpFile dir j)).
      { destruct (obj_opt_eq_dec (fst (exec_t gunzip srv (clk s) (dsk s) a) (PTmpFile dir j)) (dsk s (PTmpFile dir j)))
          as [E|N]; [exact E|exfalso].
        destruct (HO i _ Ei) as [HW HD].
        apply exec_changes in N. destruct N as [N|N].
        - assert (Ho : owner (PTmpFile dir j) = Some i).
          { apply HW. change (a :: rest) with ([a] ++ rest). rewrite writes_app. apply in_or_app. auto. }
          simpl in Ho. congruence.
        - assert (Ho : owner (PTmpFile dir j) = None).
          { apply HD. change (a :: rest) with ([a] ++ rest). rewrite dsts_app. apply in_or_app. auto. }
          discriminate. }
      rewrite Hsame. apply idx_state_tick. exact Hst.
Qed.
End IdxTmp.

Lemma IdxTmp_run : forall gunzip srv bs sched s, Owned s -> IdxTmp srv bs s -> IdxTmp srv bs (run gunzip srv s sched).
Proof.
  intros gunzip srv bs. unfold run. induction sched as [|i sched IH]; simpl; intros s HO H; auto.
  apply IH; [apply Owned_step; exact HO | apply IdxTmp_step; assumption].
Qed.

Lemma nth_progs_from_some : forall cl bs k j b, nth_error bs j = Some b ->
  nth_error (progs_from cl k bs) j = Some (prog_of_ord cl (k + j) b).
Proof.
  induction bs as [|b0 bs IH]; intros k j b H; destruct j; simpl in *; try discriminate.
  - inversion H; subst. rewrite Nat.add_0_r. reflexivity.
  - rewrite (IH (S k) j b H). f_equal. f_equal. lia.
Qed.

(* In every reachable state — every origin, builders, schedule, kills; no
   hypothesis —: the temporary file of an index download is absent, or holds a
   PREFIX of the body of a response the origin really gave at an earlier step
   for that directory; and if it is complete (written in full and closed) it
   holds that whole body: a complete origin revision, together with whose etag
   it was served. *)
Theorem index_tmp_is_origin_prefix : forall gunzip srv cl bs sched j dir,
  let s := run gunzip srv (init (progs_ord cl bs)) sched in
  nth_error bs j = Some (BIndex dir) ->
  match dsk s (PTmpFile dir j) with
  | None => True
  | Some (File c b) =>
      exists t e w k, t < clk s /\ srv t dir = (e, w) /\ c = firstn k w /\ (b = true -> c = w)
  | Some _ => False
  end.
Proof.
  intros gunzip srv cl bs sched j dir s Hb.
  assert (H0 : IdxTmp srv bs (init (progs_ord cl bs))).
  { intros j0 dir0 Hb0. eexists. split.
    - cbn [init procs]. unfold progs_ord. rewrite (nth_progs_from_some cl bs 0 j0 _ Hb0). reflexivity.
    - cbn [prog_of_ord]. change (0 + j0) with j0. apply IS_head. reflexivity. }
  destruct (IdxTmp_run gunzip srv bs sched _ (Owned_init cl bs) H0 j dir Hb) as (prog & _ & Hst).
  fold s in Hst. inversion Hst as [Hf | e Hf | Hf | Hf | e w Ha Hf | e w Ha Hf | e w k Ha Hf | e w rest' Ha Hf Hr];
    try (rewrite Hf; exact I).
  - rewrite Hf. destruct Ha as (t & Ht & E). exists t, e, w, k. repeat split; auto. discriminate.
  - rewrite Hf. destruct Ha as (t & Ht & E). exists t, e, w, (List.length w). repeat split; auto.
    symmetry. apply firstn_all.
Qed.
