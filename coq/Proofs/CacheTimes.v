(* C19 — modification times of advertised index entries follow from the protocol: the time of an
   APKINDEX/<etag>.tar.gz is the step at which its link was created (absent before, unchanged
   since), so the entry fetchOffline opens — the newest advertised one — is the one advertised last. *)
From Apko Require Import Base.Prelude Model.Cache Spec.CacheSpec Proofs.CacheProofs Proofs.CacheTemp Proofs.CacheCommit.
From Apko Require Import Model.CacheFlight Spec.CacheFlightSpec Proofs.CacheFlightProofs Model.CacheTimes.
Open Scope string_scope. Open Scope list_scope.

(* ---- no program ever renames onto, or rebuilds, an index name ------------------------------ *)
Definition okstep (a : astep) : bool :=
  match a with
  | Rename _ dst => negb (is_index dst)
  | Rebuild _ tar _ => negb (is_index tar)
  | _ => true
  end.
Definition NoIdxRen (s : sys) : Prop :=
  forall j prog, nth_error (procs s) j = Some prog -> List.forallb okstep prog = true.

Lemma ok_appends p c : List.forallb okstep (List.map (Append p) c) = true.
Proof. induction c; simpl; auto. Qed.
Lemma ok_write_file p c : List.forallb okstep (write_file p c) = true.
Proof. unfold write_file. simpl. rewrite forallb_app, ok_appends. reflexivity. Qed.

Section Times.
Variable gunzip : content -> content.
Variable origin : path -> content.
Variable srv : server.
Hypothesis gunzip_ok : forall dir h, gunzip (origin (PMember dir MDat h)) = origin (PMember dir MTar h).
Hypothesis srv_ok : forall t dir, snd (srv t dir) = origin (PIndex dir (fst (srv t dir))).

Notation step := (step gunzip srv).
Notation run := (run gunzip srv).

Lemma ok_cont now d a : okstep a = true -> List.forallb okstep (snd (exec_t gunzip srv now d a)) = true.
Proof.
  intros H. destruct a; simpl; try reflexivity.
  - destruct (resolve d dst); reflexivity.
  - destruct (resolve d tar); [reflexivity|]. destruct (resolve d gz) as [[z b]|]; [|reflexivity].
    simpl. rewrite !forallb_app, ok_appends. simpl. simpl in H. rewrite H. reflexivity.
  - destruct (resolve d (PIndex dir etag)); reflexivity.
  - destruct (srv now dir) as [e2 body]. unfold populate_index. simpl.
    rewrite !forallb_app, ok_appends. reflexivity.
Qed.

Lemma step_NoIdxRen s i : NoIdxRen s -> NoIdxRen (step s i).
Proof.
  intros H. destruct (step_cases gunzip srv s i) as [[_ ->] | (a & rest & Ei & ->)]; [exact H|].
  intros j prog Hj. cbn [procs] in Hj. pose proof (H i _ Ei) as Hi. simpl in Hi. apply andb_true_iff in Hi.
  destruct Hi as [Ha Hr]. destruct (Nat.eq_dec j i) as [->|Hne].
  - erewrite set_nth_same in Hj by eauto. inversion Hj; subst prog.
    rewrite forallb_app, ok_cont, Hr; auto.
  - rewrite set_nth_other in Hj by auto. apply H with j. exact Hj.
Qed.

Lemma run_NoIdxRen sched : forall s, NoIdxRen s -> NoIdxRen (run s sched).
Proof. unfold Cache.run. induction sched as [|i sched IH]; simpl; intros s H; auto. apply IH, step_NoIdxRen, H. Qed.

Lemma init_NoIdxRen cl bs : NoIdxRen (init (progs_ord cl bs)).
Proof.
  intros j prog Hj. simpl in Hj. destruct (nth_progs_from _ _ _ _ _ Hj) as (b & _ & ->).
  destruct b as [dir|dir a|dir dh]; simpl; try reflexivity.
  unfold populate_package_ord. simpl.
  rewrite !forallb_app. destruct (a_sig a); rewrite ?ok_write_file; simpl;
    rewrite ?forallb_app, ?ok_appends; simpl.
  all: assert (M : forall p q x y, List.forallb okstep (mix p q x y) = true)
         by (intros p q x; induction x as [|u x IHx]; intros y; destruct y; simpl; rewrite ?ok_appends; auto).
  all: rewrite !forallb_app, M; simpl; unfold adv_steps; rewrite forallb_app; simpl.
  all: assert (A : forall l, List.forallb okstep (List.map (fun st => Advertise (fst st) (snd st)) l) = true)
         by (intros l; induction l; simpl; auto).
  all: rewrite A; reflexivity.
Qed.

(* ---- trun carries run along -------------------------------------------------------------- *)
Lemma trun_fst sched : forall st, fst (fold_left (tstep gunzip srv) sched st) = run (fst st) sched.
Proof. unfold Cache.run. induction sched as [|i sched IH]; intros st; simpl; [reflexivity|]. rewrite IH. reflexivity. Qed.

Lemma trun_snoc s sched i : trun gunzip srv s (sched ++ [i]) = tstep gunzip srv (trun gunzip srv s sched) i.
Proof. unfold trun. rewrite fold_left_app. reflexivity. Qed.

Lemma oobj_eqb_refl a : oobj_eqb a a = true.
Proof. destruct a as [x|]; simpl; [destruct (obj_eq_dec x x); congruence|reflexivity]. Qed.

(* ---- the time of an index name is the step that advertised it ------------------------------- *)
Definition Born (s0 : sys) (sched : list nat) (n : path) (d : disk) (tm : times) : Prop :=
  match d n with
  | None => tm n = None
  | Some x => exists k, tm n = Some k /\ k < List.length sched /\
                        dsk (run s0 (firstn k sched)) n = None /\ dsk (run s0 (firstn (S k) sched)) n = Some x
  end.

Lemma index_times cl bs :
  (forall dir a, In (BPackage dir a) bs -> served origin dir a) ->
  forall sched n, is_index n = true ->
  let s0 := init (progs_ord cl bs) in
  let st := trun gunzip srv s0 sched in
  Born s0 sched n (dsk (fst st)) (snd st).
Proof.
  intros Hok sched. induction sched as [|i sched IH] using rev_ind; intros n Hn s0 st.
  - subst st. unfold Born. simpl. reflexivity.
  - subst st. rewrite trun_snoc. specialize (IH n Hn). cbv zeta in IH.
    set (st := trun gunzip srv s0 sched) in *.
    change (init (progs_ord cl bs)) with s0 in IH. change (trun gunzip srv s0 sched) with st in IH.
    assert (Es : fst st = run s0 sched) by (unfold st, trun; rewrite trun_fst; reflexivity).
    assert (HI : Inv gunzip origin (fst st)).
    { rewrite Es. apply (reach_Inv cl origin srv gunzip bs sched); assumption. }
    assert (HR : NoIdxRen (fst st)) by (rewrite Es; apply run_NoIdxRen, init_NoIdxRen).
    assert (Hadv : is_adv n = true) by (destruct n; try discriminate; reflexivity).
    assert (Hclk : clk (fst st) = List.length sched) by (rewrite Es, clk_run; simpl; lia).
    assert (Erun : run s0 (sched ++ [i]) = step (fst st) i) by (rewrite run_app, <- Es; reflexivity).
    unfold tstep. cbn [fst snd]. unfold Born in *.
    destruct (step_adv_cases gunzip origin srv (fst st) i n HI Hadv)
      as [E | [(src & rest & Ei & En & E) | (src & rest & x & Ei & E)]].
    + rewrite E. rewrite oobj_eqb_refl. destruct (dsk (fst st) n) as [x|]; [|exact IH].
      destruct IH as (k & Hk & Hlt & H0 & H1). exists k.
      split; [exact Hk|]. split; [rewrite app_length; simpl; lia|].
      rewrite !firstn_app. replace (k - List.length sched) with 0 by lia. replace (S k - List.length sched) with 0 by lia.
      simpl. rewrite !app_nil_r. split; assumption.
    + rewrite E, En. cbn [oobj_eqb]. exists (List.length sched). rewrite Hclk.
      split; [reflexivity|]. split; [rewrite app_length; simpl; lia|].
      replace (S (List.length sched)) with (List.length (sched ++ [i])) by (rewrite app_length; simpl; lia).
      rewrite (firstn_all (sched ++ [i])), Erun.
      rewrite firstn_app, firstn_all, Nat.sub_diag. cbn [firstn]. rewrite app_nil_r.
      split; [rewrite <- Es; exact En|exact E].
    + exfalso. pose proof (HR i _ Ei) as Hbad. simpl in Hbad. rewrite Hn in Hbad. discriminate.
Qed.

(* ---- fetchOffline opens the index revision that was advertised last --------------------------- *)
Lemma in_index_listing d tm dir etags x :
  In x (index_listing d tm dir etags) ->
  exists e k, In e etags /\ d (PIndex dir e) <> None /\ tm (PIndex dir e) = Some k /\
              de_rev x = e /\ de_mtime x = N.of_nat k /\ de_adv x = true /\
              de_whole x = match resolve d (PIndex dir e) with Some (_, b) => b | None => false end.
Proof.
  unfold index_listing. intros H. apply in_flat_map in H. destruct H as (e & He & Hx).
  unfold index_entry in Hx. destruct (d (PIndex dir e)) eqn:Ed; [|destruct Hx].
  destruct (tm (PIndex dir e)) as [k|] eqn:Et; [|destruct Hx]. destruct Hx as [<-|[]].
  exists e, k. simpl. repeat split; auto. congruence.
Qed.

Lemma offline_opens_last_advertised cl bs sched dir etags x :
  (forall dir a, In (BPackage dir a) bs -> served origin dir a) ->
  let s0 := init (progs_ord cl bs) in
  let st := trun gunzip srv s0 sched in
  pick_newest_adv (index_listing (dsk (fst st)) (snd st) dir etags) = Some x ->
  In (de_rev x) etags /\ de_whole x = true /\
  resolve (dsk (fst st)) (PIndex dir (de_rev x)) = Some (origin (PIndex dir (de_rev x)), true) /\
  exists k, de_mtime x = N.of_nat k /\ k < List.length sched /\
    dsk (run s0 (firstn k sched)) (PIndex dir (de_rev x)) = None /\
    dsk (run s0 (firstn (S k) sched)) (PIndex dir (de_rev x)) = dsk (fst st) (PIndex dir (de_rev x)) /\
    forall e', In e' etags -> dsk (fst st) (PIndex dir e') <> None ->
      exists k', k' <= k /\ dsk (run s0 (firstn k' sched)) (PIndex dir e') = None /\
                 dsk (run s0 (firstn (S k') sched)) (PIndex dir e') = dsk (fst st) (PIndex dir e').
Proof.
  intros Hok s0 st Hp.
  destruct (pick_adv_no_adv_newer _ _ Hp) as (Hin & _ & Hmax).
  destruct (in_index_listing _ _ _ _ _ Hin) as (e & k & He & Hex & Ht & Er & Em & _ & Ew).
  assert (Es : fst st = run s0 sched) by (unfold st, trun; rewrite trun_fst; reflexivity).
  assert (Hs : CacheSound origin (dsk (fst st))).
  { rewrite Es. apply population_sound_ord; assumption. }
  pose proof (Hs (PIndex dir e) eq_refl Hex) as Hres.
  rewrite Er. split; [exact He|]. split; [rewrite Ew, Hres; reflexivity|]. split; [exact Hres|].
  pose proof (index_times cl bs Hok sched (PIndex dir e) eq_refl) as B. cbv zeta in B. fold s0 in B. fold st in B.
  unfold Born in B. destruct (dsk (fst st) (PIndex dir e)) as [o|] eqn:Ed; [|congruence].
  destruct B as (k0 & Hk0 & Hlt & H0 & H1). rewrite Ht in Hk0. inversion Hk0; subst k0.
  exists k. split; [exact Em|]. split; [exact Hlt|]. split; [exact H0|]. split; [exact H1|].
  intros e' He' Hex'.
  pose proof (index_times cl bs Hok sched (PIndex dir e') eq_refl) as B'. cbv zeta in B'. fold s0 in B'. fold st in B'.
  unfold Born in B'. destruct (dsk (fst st) (PIndex dir e')) as [o'|] eqn:Ed'; [|congruence].
  destruct B' as (k' & Hk' & _ & H0' & H1'). exists k'. split; [|split; assumption].
  (* the entry of e' is in the listing, advertised, so not newer than x *)
  assert (Hy : In {| de_name := e'; de_mtime := N.of_nat k'; de_adv := true; de_file := "APKINDEX.tar.gz"; de_rev := e';
                    de_whole := match resolve (dsk (fst st)) (PIndex dir e') with Some (_, b) => b | None => false end |}
                  (index_listing (dsk (fst st)) (snd st) dir etags)).
  { unfold index_listing. apply in_flat_map. exists e'. split; [exact He'|]. unfold index_entry. rewrite Ed', Hk'. left; reflexivity. }
  specialize (Hmax _ Hy eq_refl). simpl in Hmax. rewrite Em in Hmax. lia.
Qed.
End Times.
