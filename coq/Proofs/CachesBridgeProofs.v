(* C08 — theorems that need the sequential resolver model (Model/Resolver.v):
   the install_if iteration order (C08-F1, C08-F3) and the instance of the
   cache-layer theorems for the concrete resolver core. *)
From Apko Require Import Base.Prelude Model.Caches Spec.CachesSpec Proofs.CachesProofs Model.CachesBridge.
From Apko Require Model.Version Model.Resolver.
Open Scope string_scope. Open Scope list_scope.

(* ---- the install_if loop (fixed by c03e0c0): one answer, members and order ------------
   Until c03e0c0 GetPackageWithDependencies ranged over the Go map `added` while
   inserting into it: the ORDER of the install_if packages followed the map
   iteration (C08-F1) and whether a chained install_if package was installed at
   all depended on whether the iteration reached the key inserted on the way
   (C08-F3).  The loop now walks the dependency list by index, appended entries
   included; Model/Resolver.v transcribes that and has no iteration-order
   parameter left.  What can be said about it beyond "it is a function":
   (1) the dependency list the loop starts with is a prefix of its result — the
       install_if packages come after the dependency closure, in the order in
       which the entries that trigger them stand in the list;
   (2) it is chain-complete (Proofs/ResolveInstallIf.v, [iif_loop_complete]);
   (3) the old witnesses have one answer (below). *)
Definition P (n v : string) (deps iif : list string) : Resolver.pkg :=
  {| Resolver.p_name := n; Resolver.p_version := v; Resolver.p_origin := ""; Resolver.p_deps := deps;
     Resolver.p_provides := []; Resolver.p_install_if := iif; Resolver.p_prio := 0; Resolver.p_pin := ""; Resolver.p_repo := "r" |}.

(* was C08-F1: w -> a, b; a-x install_if a; b-x install_if b *)
Definition f1_universe : Resolver.universe :=
  [P "w" "1" ["a"; "b"] []; P "a" "1" [] []; P "b" "1" [] []; P "a-x" "1" [] ["a"]; P "b-x" "1" [] ["b"]].

(* the dependency list and the keys of `added` when the install_if loop starts *)
Definition loop_start (U : Resolver.universe) (w : string) : res (list Resolver.pid * list string) :=
  let R := Resolver.new_resolver U in
  match Resolver.get_pkg_core R (Resolver.cook_str w) [] [] [] with
  | Ok (_, _, _, l, added) => Ok (l, List.map fst added)
  | Err => Err | Panic => Panic | OutOfFuel => OutOfFuel
  end.

Lemma f1_one_answer :
  loop_start f1_universe "w" = Ok ([1; 2], ["a"; "b"]) /\
  Resolver.resolve f1_universe ["w"] [] = Ok [1; 2; 3; 4; 0].
Proof. vm_compute. split; reflexivity. Qed.

(* was C08-F3: w -> a; b install_if a; c install_if b.  b is appended during the
   loop and visited by it: c is always installed *)
Definition f3_universe : Resolver.universe :=
  [P "w" "1" ["a"] []; P "a" "1" [] []; P "c" "1" [] ["b"]; P "b" "1" [] ["a"]].

Lemma f3_one_answer :
  loop_start f3_universe "w" = Ok ([1], ["a"]) /\
  Resolver.resolve f3_universe ["w"] [] = Ok [1; 3; 2; 0].
Proof. vm_compute. split; reflexivity. Qed.

(* the full statement: nothing but (U, world, dq0) enters a resolution *)
Lemma order_deterministic : forall U world dq0 r1 r2,
  Resolver.resolve U world dq0 = r1 -> Resolver.resolve U world dq0 = r2 -> r1 = r2.
Proof. intros U world dq0 r1 r2 <- <-. reflexivity. Qed.

(* ---- the concrete resolver core --------------------------------------------------------- *)
Lemma resolve_with_sel_nil : forall R world dq0,
  resolve_with_sel R world dq0 [] = Resolver.resolve_with R world dq0.
Proof. reflexivity. Qed.

Definition lift_res (u : universe) (ixs : list idxid) (r : res (list nat)) : res (list pid) :=
  match r with Ok l => Ok (List.map (unflat u ixs) l) | Err => Err | Panic => Panic | OutOfFuel => OutOfFuel end.

(* For the concrete core: after ANY history (under the grouping hypothesis) a
   call returns what the sequential resolver model returns for the resolver
   built from the call's own indexes, an empty selected, and the
   disqualification set of the call's own grouping. *)
Lemma resolver_history_independent : forall u fsel fdq hist c,
  GroupingCompatible (dq_difference u) (dq_key u) hist c ->
  result_after (mk_names_of u) (mk_iif_of u) (dq_difference u) (dq_key u) _ (resolver_core u fsel fdq) true hist c =
  lift_res u (cl_indexes c)
    (Resolver.resolve_with
       (resolver_of_view u (fresh_view (mk_names_of u) (mk_iif_of u) (dq_difference u) c (cl_archs c)))
       (cl_world c) (flat_pids u (cl_indexes c) (dq_difference u (cl_archs c)))).
Proof.
  intros u fsel fdq hist c G. unfold resolver_core.
  rewrite (result_of_pure_core (mk_names_of u) (mk_iif_of u) (dq_difference u) (dq_key u) _
             (resolver_f u fsel fdq) Err hist c G).
  reflexivity.
Qed.

(* the round trip through the store's package identities, on a universe with
   two indexes, a provided name and install_if entries *)
Definition rt_universe : universe :=
  [ {| ix_name := ""; ix_pkgs := [ {| p_name := "a"; p_version := "1.0"; p_deps := ["v"]; p_provides := []; p_iif := []; p_origin := ""; p_prio := 0 |};
                                   {| p_name := "b"; p_version := "1.0"; p_deps := []; p_provides := ["v=1"]; p_iif := []; p_origin := ""; p_prio := 0 |} ] |};
    {| ix_name := "e"; ix_pkgs := [ {| p_name := "a-x"; p_version := "2.0"; p_deps := []; p_provides := ["v"]; p_iif := ["a"; "b=1.0"]; p_origin := ""; p_prio := 0 |} ] |} ].
Lemma resolver_of_view_roundtrip_example :
  let c := {| cl_indexes := [1; 0]; cl_world := ["a"]; cl_archs := [] |} in
  resolver_of_view rt_universe (fresh_view (mk_names_of rt_universe) (mk_iif_of rt_universe) (dq_difference rt_universe) c [])
  = Resolver.new_resolver (flatten rt_universe [1; 0]).
Proof. vm_compute. reflexivity. Qed.

