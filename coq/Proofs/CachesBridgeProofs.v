(* C08 — theorems that need the sequential resolver model (Model/Resolver.v):
   the install_if iteration order (C08-F1, C08-F3) and the instance of the
   cache-layer theorems for the concrete resolver core. *)
From Apko Require Import Base.Prelude Model.Caches Spec.CachesSpec Proofs.CachesProofs Model.CachesBridge.
From Apko Require Model.Version Model.Resolver.
Open Scope string_scope. Open Scope list_scope.

(* ---- no install_if anywhere: the schedules are irrelevant ------------------------ *)
Lemma iif_visit_nil : forall R key st, Resolver.r_iif R = [] -> Resolver.iif_visit R key st = st.
Proof.
  intros R key [deps added] H. unfold Resolver.iif_visit. destruct (Resolver.alookup key added); [|reflexivity].
  rewrite H. reflexivity.
Qed.

Lemma iif_loop_nil : forall R sched l added, Resolver.r_iif R = [] -> Resolver.iif_loop R sched l added = l.
Proof.
  intros R sched l added H. unfold Resolver.iif_loop.
  assert (E : fold_left (fun st key => Resolver.iif_visit R key st) sched (l, added) = (l, added)).
  { induction sched as [|k sched IH]; [reflexivity|]. cbn [fold_left]. rewrite iif_visit_nil by exact H. exact IH. }
  rewrite E. reflexivity.
Qed.

Lemma get_pkg_nil : forall R w s1 s2 dq sel ex, Resolver.r_iif R = [] ->
  Resolver.get_pkg R w s1 dq sel ex = Resolver.get_pkg R w s2 dq sel ex.
Proof.
  intros R w s1 s2 dq sel ex H. unfold Resolver.get_pkg.
  destruct (Resolver.get_pkg_core R w dq sel ex) as [[[[[dq' sel'] i] l] added]| | |]; cbn [rbind]; try reflexivity.
  rewrite !iif_loop_nil by exact H. reflexivity.
Qed.

Lemma phase2_nil : forall R, Resolver.r_iif R = [] -> forall ws s1 s2 dq sel acc,
  Resolver.phase2 R ws s1 dq sel acc = Resolver.phase2 R ws s2 dq sel acc.
Proof.
  intros R H. induction ws as [|w ws IH]; intros s1 s2 dq sel acc; [reflexivity|].
  cbn [Resolver.phase2]. rewrite (get_pkg_nil R w (hd [] s1) (hd [] s2)) by exact H.
  destruct (Resolver.get_pkg R w (hd [] s2) dq sel (snd acc)) as [[[[dq' sel'] i] deps]| | |]; cbn [rbind]; try reflexivity.
  apply IH.
Qed.

Lemma order_deterministic_without_install_if : forall U world dq0 s1 s2,
  Resolver.r_iif (Resolver.new_resolver U) = [] ->
  Resolver.resolve U world dq0 s1 = Resolver.resolve U world dq0 s2.
Proof.
  intros U world dq0 s1 s2 H. unfold Resolver.resolve, Resolver.resolve_with.
  destruct (Resolver.constrain _ _ dq0) as [dq1| | |]; cbn [rbind]; try reflexivity.
  destruct (Resolver.phase1 _ _ _ dq1 []) as [[dq2 depmap]| | |]; cbn [rbind]; try reflexivity.
  apply phase2_nil. exact H.
Qed.

(* ---- C08-F1 / C08-F3 witnesses --------------------------------------------------------- *)
Definition P (n v : string) (deps iif : list string) : Resolver.pkg :=
  {| Resolver.p_name := n; Resolver.p_version := v; Resolver.p_origin := ""; Resolver.p_deps := deps;
     Resolver.p_provides := []; Resolver.p_install_if := iif; Resolver.p_prio := 0; Resolver.p_pin := ""; Resolver.p_repo := "r" |}.

Definition f1_universe : Resolver.universe :=
  [P "w" "1" ["a"; "b"] []; P "a" "1" [] []; P "b" "1" [] []; P "a-x" "1" [] ["a"]; P "b-x" "1" [] ["b"]].

(* the keys of `added` when the range loop starts *)
Definition added_keys (U : Resolver.universe) (w : string) : res (list string) :=
  let R := Resolver.new_resolver U in
  match Resolver.get_pkg_core R (Resolver.cook_str w) [] [] [] with
  | Ok (_, _, _, _, added) => Ok (List.map fst added)
  | Err => Err | Panic => Panic | OutOfFuel => OutOfFuel
  end.

(* two legal iteration orders of the same map, two install orders *)
Lemma order_deterministic_refuted :
  added_keys f1_universe "w" = Ok ["a"; "b"] /\
  Resolver.legal_sched_b ["a"; "b"] ["a"; "b"] = true /\ Resolver.legal_sched_b ["a"; "b"] ["b"; "a"] = true /\
  Resolver.resolve f1_universe ["w"] [] [["a"; "b"]] = Ok [1; 2; 3; 4; 0] /\
  Resolver.resolve f1_universe ["w"] [] [["b"; "a"]] = Ok [1; 2; 4; 3; 0].
Proof. vm_compute. repeat split. Qed.

Definition f3_universe : Resolver.universe :=
  [P "w" "1" ["a"] []; P "a" "1" [] []; P "c" "1" [] ["b"]; P "b" "1" [] ["a"]].

(* b is inserted into `added` during the range; whether the iteration reaches
   the new key decides whether c is installed: the MEMBERS differ *)
Lemma install_if_members_refuted :
  added_keys f3_universe "w" = Ok ["a"] /\
  Resolver.legal_sched_b ["a"] ["a"] = true /\ Resolver.legal_sched_b ["a"] ["a"; "b"] = true /\
  Resolver.resolve f3_universe ["w"] [] [["a"]] = Ok [1; 3; 0] /\
  Resolver.resolve f3_universe ["w"] [] [["a"; "b"]] = Ok [1; 3; 2; 0].
Proof. vm_compute. repeat split. Qed.

(* ---- the concrete resolver core --------------------------------------------------------- *)
Lemma resolve_with_sel_nil : forall R world dq0 scheds,
  resolve_with_sel R world dq0 [] scheds = Resolver.resolve_with R world dq0 scheds.
Proof. reflexivity. Qed.

Definition lift_res (u : universe) (ixs : list idxid) (r : res (list nat)) : res (list pid) :=
  match r with Ok l => Ok (List.map (unflat u ixs) l) | Err => Err | Panic => Panic | OutOfFuel => OutOfFuel end.

(* For the concrete core: after ANY history (under the grouping hypothesis) a
   call returns what the sequential resolver model returns for the resolver
   built from the call's own indexes, an empty selected, and the
   disqualification set of the call's own grouping. *)
Lemma resolver_history_independent : forall u scheds fsel fdq hist c,
  GroupingCompatible (dq_difference u) (dq_key u) hist c ->
  result_after (mk_names_of u) (mk_iif_of u) (dq_difference u) (dq_key u) _ (resolver_core u scheds fsel fdq) true hist c =
  lift_res u (cl_indexes c)
    (Resolver.resolve_with
       (resolver_of_view u (fresh_view (mk_names_of u) (mk_iif_of u) (dq_difference u) c (cl_archs c)))
       (cl_world c) (flat_pids u (cl_indexes c) (dq_difference u (cl_archs c))) scheds).
Proof.
  intros u scheds fsel fdq hist c G. unfold resolver_core.
  rewrite (result_of_pure_core (mk_names_of u) (mk_iif_of u) (dq_difference u) (dq_key u) _
             (resolver_f u scheds fsel fdq) Err hist c G).
  reflexivity.
Qed.

(* the round trip through the store's package identities, on a universe with
   two indexes, a provided name and install_if entries *)
Definition rt_universe : universe :=
  [ {| ix_name := ""; ix_pkgs := [ {| p_name := "a"; p_version := "1.0"; p_deps := ["v"]; p_provides := []; p_iif := []; p_origin := ""; p_prio := 0 |};
                                   {| p_name := "b"; p_version := "1.0"; p_deps := []; p_provides := ["v=1"]; p_iif := []; p_origin := ""; p_prio := 0 |} ] |};
    {| ix_name := "e"; ix_pkgs := [ {| p_name := "a-x"; p_version := "2.0"; p_deps := []; p_provides := ["v"]; p_iif := ["a"; "b=1.0"]; p_origin := ""; p_prio := 0 |} ] |} ].
Lemma resolver_of_view_roundtrip_example :
  let c := {| cl_indexes := [1; 0]; cl_world := ["a"]; cl_archs := [] |} in
  resolver_of_view rt_universe (fresh_view (mk_names_of rt_universe) (mk_iif_of rt_universe) (dq_difference rt_universe) c [])
  = Resolver.new_resolver (flatten rt_universe [1; 0]).
Proof. vm_compute. reflexivity. Qed.
