(* C08 — theorems that need the sequential resolver model (Model/Resolver.v):
   the install_if iteration order (C08-F1, C08-F3) and the instance of the
   cache-layer theorems for the concrete resolver core. *)
From Apko Require Import Base.Prelude Model.Caches Spec.CachesSpec Proofs.CachesProofs Model.CachesBridge.
From Apko Require Model.Version Model.Resolver.
Open Scope string_scope. Open Scope list_scope.

(* ---- no install_if anywhere: the schedules are irrelevant ------------------------ *)
Lemma iif_visit_nil : forall R key st, Resolver.r_iif R = [] -> Resolver.iif_visit R key st = st.
Proof.
  intros R key [deps added] H. unfold Resolver.iif_visit. destruct (Resolver.alookup key added); [|reflexivity].
  rewrite H. reflexivity.
Qed.

Lemma iif_loop_nil : forall R sched l added, Resolver.r_iif R = [] -> Resolver.iif_loop R sched l added = l.
Proof.
  intros R sched l added H. unfold Resolver.iif_loop.
  assert (E : fold_left (fun st key => Resolver.iif_visit R key st) sched (l, added) = (l, added)).
  { induction sched as [|k sched IH]; [reflexivity|]. cbn [fold_left]. rewrite iif_visit_nil by exact H. exact IH. }
  rewrite E. reflexivity.
Qed.

Lemma get_pkg_nil : forall R w s1 s2 dq sel ex, Resolver.r_iif R = [] ->
  Resolver.get_pkg R w s1 dq sel ex = Resolver.get_pkg R w s2 dq sel ex.
Proof.
  intros R w s1 s2 dq sel ex H. unfold Resolver.get_pkg.
  destruct (Resolver.get_pkg_core R w dq sel ex) as [[[[[dq' sel'] i] l] added]| | |]; cbn [rbind]; try reflexivity.
  rewrite !iif_loop_nil by exact H. reflexivity.
Qed.

Lemma phase2_nil : forall R, Resolver.r_iif R = [] -> forall ws s1 s2 dq sel acc,
  Resolver.phase2 R ws s1 dq sel acc = Resolver.phase2 R ws s2 dq sel acc.
Proof.
  intros R H. induction ws as [|w ws IH]; intros s1 s2 dq sel acc; [reflexivity|].
  cbn [Resolver.phase2]. rewrite (get_pkg_nil R w (hd [] s1) (hd [] s2)) by exact H.
  destruct (Resolver.get_pkg R w (hd [] s2) dq sel (snd acc)) as [[[[dq' sel'] i] deps]| | |]; cbn [rbind]; try reflexivity.
  apply IH.
Qed.

Lemma order_deterministic_without_install_if : forall U world dq0 s1 s2,
  Resolver.r_iif (Resolver.new_resolver U) = [] ->
  Resolver.resolve U world dq0 s1 = Resolver.resolve U world dq0 s2.
Proof.
  intros U world dq0 s1 s2 H. unfold Resolver.resolve, Resolver.resolve_with.
  destruct (Resolver.constrain _ _ dq0) as [dq1| | |]; cbn [rbind]; try reflexivity.
  destruct (Resolver.phase1 _ _ _ dq1 []) as [[dq2 depmap]| | |]; cbn [rbind]; try reflexivity.
  apply phase2_nil. exact H.
Qed.

(* ---- C08-F1 / C08-F3 witnesses --------------------------------------------------------- *)
Definition P (n v : string) (deps iif : list string) : Resolver.pkg :=
  {| Resolver.p_name := n; Resolver.p_version := v; Resolver.p_origin := ""; Resolver.p_deps := deps;
     Resolver.p_provides := []; Resolver.p_install_if := iif; Resolver.p_prio := 0; Resolver.p_pin := ""; Resolver.p_repo := "r" |}.

Definition f1_universe : Resolver.universe :=
  [P "w" "1" ["a"; "b"] []; P "a" "1" [] []; P "b" "1" [] []; P "a-x" "1" [] ["a"]; P "b-x" "1" [] ["b"]].

(* the keys of `added` when the range loop starts *)
Definition added_keys (U : Resolver.universe) (w : string) : res (list string) :=
  let R := Resolver.new_resolver U in
  match Resolver.get_pkg_core R (Resolver.cook_str w) [] [] [] with
  | Ok (_, _, _, _, added) => Ok (List.map fst added)
  | Err => Err | Panic => Panic | OutOfFuel => OutOfFuel
  end.

(* two legal iteration orders of the same map, two install orders *)
Lemma order_deterministic_refuted :
  added_keys f1_universe "w" = Ok ["a"; "b"] /\
  Resolver.legal_sched_b ["a"; "b"] ["a"; "b"] = true /\ Resolver.legal_sched_b ["a"; "b"] ["b"; "a"] = true /\
  Resolver.resolve f1_universe ["w"] [] [["a"; "b"]] = Ok [1; 2; 3; 4; 0] /\
  Resolver.resolve f1_universe ["w"] [] [["b"; "a"]] = Ok [1; 2; 4; 3; 0].
Proof. vm_compute. repeat split. Qed.

Definition f3_universe : Resolver.universe :=
  [P "w" "1" ["a"] []; P "a" "1" [] []; P "c" "1" [] ["b"]; P "b" "1" [] ["a"]].

(* b is inserted into `added` during the range; whether the iteration reaches
   the new key decides whether c is installed: the MEMBERS differ *)
Lemma install_if_members_refuted :
  added_keys f3_universe "w" = Ok ["a"] /\
  Resolver.legal_sched_b ["a"] ["a"] = true /\ Resolver.legal_sched_b ["a"] ["a"; "b"] = true /\
  Resolver.resolve f3_universe ["w"] [] [["a"]] = Ok [1; 3; 0] /\
  Resolver.resolve f3_universe ["w"] [] [["a"; "b"]] = Ok [1; 3; 2; 0].
Proof. vm_compute. repeat split. Qed.

(* ---- the concrete resolver core --------------------------------------------------------- *)
Lemma resolve_with_sel_nil : forall R world dq0 scheds,
  resolve_with_sel R world dq0 [] scheds = Resolver.resolve_with R world dq0 scheds.
Proof. reflexivity. Qed.

Definition lift_res (u : universe) (ixs : list idxid) (r : res (list nat)) : res (list pid) :=
  match r with Ok l => Ok (List.map (unflat u ixs) l) | Err => Err | Panic => Panic | OutOfFuel => OutOfFuel end.

(* For the concrete core: after ANY history (under the grouping hypothesis) a
   call returns what the sequential resolver model returns for the resolver
   built from the call's own indexes, an empty selected, and the
   disqualification set of the call's own grouping. *)
Lemma resolver_history_independent : forall u scheds fsel fdq hist c,
  GroupingCompatible (dq_difference u) (dq_key u) hist c ->
  result_after (mk_names_of u) (mk_iif_of u) (dq_difference u) (dq_key u) _ (resolver_core u scheds fsel fdq) true hist c =
  lift_res u (cl_indexes c)
    (Resolver.resolve_with
       (resolver_of_view u (fresh_view (mk_names_of u) (mk_iif_of u) (dq_difference u) c (cl_archs c)))
       (cl_world c) (flat_pids u (cl_indexes c) (dq_difference u (cl_archs c))) scheds).
Proof.
  intros u scheds fsel fdq hist c G. unfold resolver_core.
  rewrite (result_of_pure_core (mk_names_of u) (mk_iif_of u) (dq_difference u) (dq_key u) _
             (resolver_f u scheds fsel fdq) Err hist c G).
  reflexivity.
Qed.

(* the round trip through the store's package identities, on a universe with
   two indexes, a provided name and install_if entries *)
Definition rt_universe : universe :=
  [ {| ix_name := ""; ix_pkgs := [ {| p_name := "a"; p_version := "1.0"; p_deps := ["v"]; p_provides := []; p_iif := []; p_origin := ""; p_prio := 0 |};
                                   {| p_name := "b"; p_version := "1.0"; p_deps := []; p_provides := ["v=1"]; p_iif := []; p_origin := ""; p_prio := 0 |} ] |};
    {| ix_name := "e"; ix_pkgs := [ {| p_name := "a-x"; p_version := "2.0"; p_deps := []; p_provides := ["v"]; p_iif := ["a"; "b=1.0"]; p_origin := ""; p_prio := 0 |} ] |} ].
Lemma resolver_of_view_roundtrip_example :
  let c := {| cl_indexes := [1; 0]; cl_world := ["a"]; cl_archs := [] |} in
  resolver_of_view rt_universe (fresh_view (mk_names_of rt_universe) (mk_iif_of rt_universe) (dq_difference rt_universe) c [])
  = Resolver.new_resolver (flatten rt_universe [1; 0]).
Proof. vm_compute. reflexivity. Qed.

(* ---- one trigger event per loop: the iteration order is irrelevant -------------------
   [st0] = (deps, added) when the range loop starts. Suppose a single visit
   either changes nothing or leads to ONE state [st1], and [st1] is absorbing
   (no visit changes it): "at most one install_if event can happen in this
   loop". Then every schedule that contains the initial keys ends in the same
   state. *)
Definition iif_state := (list Resolver.pid * list (string * Resolver.pid))%type.

Definition SingleTrigger (R : Resolver.resolver) (st0 st1 : iif_state) : Prop :=
  (forall key, Resolver.iif_visit R key st0 = st0 \/ Resolver.iif_visit R key st0 = st1) /\
  (forall key, Resolver.iif_visit R key st1 = st1).

Definition run (R : Resolver.resolver) (sched : list string) (st : iif_state) : iif_state :=
  fold_left (fun st key => Resolver.iif_visit R key st) sched st.

Lemma run_absorbing : forall R st1 sched, (forall key, Resolver.iif_visit R key st1 = st1) -> run R sched st1 = st1.
Proof.
  intros R st1 sched H. induction sched as [|k s IH]; [reflexivity|]. unfold run in *. cbn [fold_left]. rewrite H. exact IH.
Qed.

Lemma run_single : forall R st0 st1 sched, SingleTrigger R st0 st1 ->
  (run R sched st0 = st0 /\ forall key, In key sched -> Resolver.iif_visit R key st0 = st0) \/
  (run R sched st0 = st1 /\ exists key, In key sched /\ Resolver.iif_visit R key st0 = st1).
Proof.
  intros R st0 st1 sched [H0 H1]. induction sched as [|k s IH].
  - left. split; [reflexivity | intros key []].
  - unfold run. cbn [fold_left]. fold (run R s (Resolver.iif_visit R k st0)).
    destruct (H0 k) as [E|E]; rewrite E.
    + destruct IH as [[A B]|[A [key [I T]]]].
      * left. split; [exact A|]. intros key [<-|I]; [exact E | apply B; exact I].
      * right. split; [exact A|]. exists key. split; [right; exact I | exact T].
    + right. split; [apply run_absorbing; exact H1|]. exists k. split; [left; reflexivity | exact E].
Qed.

(* a visit of a key that is not in `added` does nothing *)
Lemma visit_absent : forall R key deps added,
  Resolver.alookup key added = None -> Resolver.iif_visit R key (deps, added) = (deps, added).
Proof. intros R key deps added H. unfold Resolver.iif_visit. rewrite H. reflexivity. Qed.

Lemma mem_str_in : forall k l, Resolver.mem_str k l = true <-> In k l.
Proof.
  intros k l. unfold Resolver.mem_str. rewrite existsb_exists. split.
  - intros [x [I E]]. apply String.eqb_eq in E. subst. exact I.
  - intro I. exists k. split; [exact I | apply String.eqb_refl].
Qed.

Lemma alookup_none_not_key : forall {A} key (m : list (string * A)),
  ~ In key (List.map fst m) -> Resolver.alookup key m = None.
Proof.
  intros A key. induction m as [|[k v] m IH]; intro H; [reflexivity|]. cbn [Resolver.alookup].
  destruct (String.eqb k key) eqn:E.
  - apply String.eqb_eq in E. subst. exfalso. apply H. left. reflexivity.
  - apply IH. intro I. apply H. right. exact I.
Qed.

Theorem iif_loop_single_trigger : forall R deps added st1 s1 s2,
  SingleTrigger R (deps, added) st1 ->
  Resolver.legal_sched_b (List.map fst added) s1 = true ->
  Resolver.legal_sched_b (List.map fst added) s2 = true ->
  Resolver.iif_loop R s1 deps added = Resolver.iif_loop R s2 deps added.
Proof.
  intros R deps added st1 s1 s2 S L1 L2. unfold Resolver.iif_loop.
  fold (run R s1 (deps, added)). fold (run R s2 (deps, added)).
  assert (K : forall s, Resolver.legal_sched_b (List.map fst added) s = true ->
                        forall key, In key (List.map fst added) -> In key s).
  { intros s L key I. unfold Resolver.legal_sched_b in L. apply andb_true_iff in L. destruct L as [L _].
    rewrite forallb_forall in L. apply mem_str_in. apply L. exact I. }
  (* a triggering key is an initial key *)
  assert (T : forall key, Resolver.iif_visit R key (deps, added) <> (deps, added) -> In key (List.map fst added)).
  { intros key N. destruct (in_dec string_dec key (List.map fst added)) as [I|I]; [exact I|].
    exfalso. apply N. apply visit_absent. apply alookup_none_not_key. exact I. }
  assert (D : {st1 = (deps, added)} + {st1 <> (deps, added)}).
  { repeat decide equality. }
  destruct (run_single R (deps, added) st1 s1 S) as [[A1 B1]|[A1 [k1 [I1 T1]]]];
  destruct (run_single R (deps, added) st1 s2 S) as [[A2 B2]|[A2 [k2 [I2 T2]]]]; rewrite A1, A2; try reflexivity.
  - (* s1 met no trigger, s2 did: then the trigger changed nothing *)
    destruct D as [E|N]; [rewrite E; reflexivity|].
    exfalso. apply N. rewrite <- T2. apply B1. apply (K s1 L1). apply T. rewrite T2. exact N.
  - destruct D as [E|N]; [rewrite E; reflexivity|].
    exfalso. apply N. rewrite <- T1. apply B2. apply (K s2 L2). apply T. rewrite T1. exact N.
Qed.

(* the hypothesis is satisfiable in a universe WITH a triggered install_if package *)
Definition st_universe : Resolver.universe := [P "w" "1" ["a"] []; P "a" "1" [] []; P "a-x" "1" [] ["a"]].
Lemma single_trigger_example :
  let R := Resolver.new_resolver st_universe in
  (exists dq sel i, Resolver.get_pkg_core R (Resolver.cook_str "w") [] [] [] = Ok (dq, sel, i, [1], [("a", 1)])) /\
  SingleTrigger R ([1], [("a", 1)]) ([1; 2], [("a", 1); ("a-x", 2)]).
Proof.
  split; [eexists _, _, _; vm_compute; reflexivity|]. split; intro key.
  - destruct (string_dec key "a") as [->|N]; [right; vm_compute; reflexivity|].
    left. apply visit_absent. apply alookup_none_not_key. cbn. intros [H|[]]. congruence.
  - destruct (string_dec key "a") as [->|N1]; [vm_compute; reflexivity|].
    destruct (string_dec key "a-x") as [->|N2]; [vm_compute; reflexivity|].
    apply visit_absent. apply alookup_none_not_key. cbn. intros [H|[H|[]]]; congruence.
Qed.
