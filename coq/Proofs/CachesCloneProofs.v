(* C08 — proofs about Model/CachesClone.v:
   clone_by_shape_code   the clone function read off the source's Clone literal IS Model/Caches.clone_resolver;
   call_step_g_code      the cache layer with "key = the list as given" and that clone IS Model/Caches.call_step;
   clone_fresh           after ANY history a resolution through the cached + cloned resolver returns what a
                         resolution through a FRESH resolver (newPkgResolver in an empty process, no cache, no
                         clone) returns - under the frame hypothesis and the grouping proviso (C08-F2);
   shared_selected_leaks, sorted_key_leaks
                         non-vacuity: with `selected: p.selected` in the literal, or with the trie keyed by a
                         sorted copy of the index list, the statement is false. *)
From Apko Require Import Base.Prelude Model.Caches Model.CachesClone Proofs.CachesProofs Generated.C08Caches.
Open Scope string_scope. Open Scope list_scope.

Lemma clone_by_shape_code s h : clone_by_shape C08Caches.clone_shape s h = clone_resolver s h.
Proof. reflexivity. Qed.

Section Code.
  Variable mk_names : list idxid -> list (string * list pid).
  Variable mk_iif : list idxid -> list (string * list pid).
  Variable dq_diff : list (string * list idxid) -> list pid.
  Variable dkey : list (string * list idxid) -> list idxid.
  Variable R : Type.
  Variable core : store -> handles -> list string -> store * R.

  Notation call_step_c := (call_step_g mk_names mk_iif dq_diff dkey R core (fun l => l) (clone_by_shape C08Caches.clone_shape)).
  Notation run_history_c := (run_history_g mk_names mk_iif dq_diff dkey R core (fun l => l) (clone_by_shape C08Caches.clone_shape)).

  Lemma call_step_g_code x c : call_step_c x c = call_step mk_names mk_iif dq_diff dkey R core true x c.
  Proof.
    unfold call_step_g, call_step, resolver_get_g, resolver_get, resolver_find_or_build.
    destruct (find_key (cl_indexes c) (rcache x)) as [h|].
    - rewrite clone_by_shape_code. reflexivity.
    - destruct (build_resolver mk_names mk_iif (st x) (cl_indexes c)) as [s1 h]. cbn [st].
      rewrite clone_by_shape_code. reflexivity.
  Qed.

  Lemma run_history_g_code hist : run_history_c hist = run_history mk_names mk_iif dq_diff dkey R core true hist.
  Proof.
    unfold run_history_g, run_history. generalize empty_state.
    induction hist as [|c hist IH]; intros x; [reflexivity|]. cbn [fold_left]. rewrite call_step_g_code. apply IH.
  Qed.

  Hypothesis core_frame : CoreWritesOnlyOwned R core.
  Hypothesis core_len : CoreKeepsLength R core.
  Hypothesis core_reads : CoreReadsThroughHandles R core.

  (* what a fresh resolver and a fresh disqualification map look like through their handles *)
  Lemma direct_view c s1 h :
    build_resolver mk_names mk_iif [] (cl_indexes c) = (s1, h) ->
    view (s1 ++ [ODq (dq_diff (cl_archs c))]) {| hs_res := h; hs_dq := List.length s1 |}
    = Some (fresh_view mk_names mk_iif dq_diff c (cl_archs c)).
  Proof.
    intros B. destruct (build_resolver_spec mk_names mk_iif [] (cl_indexes c) s1 h B) as [_ PO].
    destruct PO as [nm [im [_ [_ [_ [_ [_ [_ [G1 [G2 [D1 [G3 [D2 G4]]]]]]]]]]]]].
    assert (X : ext s1 (s1 ++ [ODq (dq_diff (cl_archs c))])) by apply ext_alloc.
    unfold view, deref_map, fresh_view. cbn [hs_res hs_dq].
    rewrite (ext_sget_some _ _ _ _ X G1), (ext_sget_some _ _ _ _ X G2), (ext_sget_some _ _ _ _ X G3), (ext_sget_some _ _ _ _ X G4).
    rewrite (deref_slices_ext _ _ _ _ X D1), (deref_slices_ext _ _ _ _ X D2), sget_alloc_new. reflexivity.
  Qed.

  Theorem clone_fresh hist c :
    GroupingCompatible dq_diff dkey hist c ->
    result_after_g mk_names mk_iif dq_diff dkey R core (fun l => l) (clone_by_shape C08Caches.clone_shape) hist c
    = result_direct mk_names mk_iif dq_diff R core c.
  Proof.
    intros G. unfold result_after_g, result_direct. rewrite run_history_g_code, call_step_g_code.
    rewrite (call_step_pre mk_names mk_iif dq_diff dkey R core).
    pose proof (view_after mk_names mk_iif dq_diff dkey R core core_frame core_len hist c G) as V1.
    destruct (pre_core mk_names mk_iif dq_diff dkey (run_history mk_names mk_iif dq_diff dkey R core true hist) c) as [x2 hs].
    destruct (build_resolver mk_names mk_iif [] (cl_indexes c)) as [s1 h] eqn:B.
    pose proof (direct_view c s1 h B) as V2. unfold alloc.
    pose proof (core_reads (st x2) (s1 ++ [ODq (dq_diff (cl_archs c))]) hs {| hs_res := h; hs_dq := List.length s1 |} (cl_world c)) as CR.
    destruct (core (st x2) hs (cl_world c)) as [s3 r]. cbn [snd] in *. apply CR. rewrite V1, V2. reflexivity.
  Qed.
End Code.

(* ---- non-vacuity ---------------------------------------------------------------- *)
(* `selected: p.selected` instead of a new map: the second resolution skips "a" *)
Definition shape_shared_selected : list (string * string) :=
  [("indexes", "shared"); ("installIfMap", "maps.Clone"); ("nameMap", "maps.Clone"); ("selected", "shared")].

Lemma shared_selected_leaks :
  result_after_g ex_names ex_none ex_dq ex_key _ toy_core (fun l => l) (clone_by_shape shape_shared_selected) [ex_call ["a"]] (ex_call ["a"; "b"])
    = [Some (0, 2)] /\
  result_direct ex_names ex_none ex_dq _ toy_core (ex_call ["a"; "b"]) = [Some (0, 0); Some (0, 2)].
Proof. split; vm_compute; reflexivity. Qed.

(* a copy of the prototype's selected would do as well (the prototype's is empty): the literal's
   `map[string]*RepositoryPackage{}` is not the only correct choice, `p.selected` is a wrong one *)
Definition shape_copied_selected : list (string * string) :=
  [("indexes", "shared"); ("installIfMap", "maps.Clone"); ("nameMap", "maps.Clone"); ("selected", "maps.Clone")].
Lemma copied_selected_example :
  result_after_g ex_names ex_none ex_dq ex_key _ toy_core (fun l => l) (clone_by_shape shape_copied_selected) [ex_call ["a"]] (ex_call ["a"; "b"])
    = result_direct ex_names ex_none ex_dq _ toy_core (ex_call ["a"; "b"]).
Proof. vm_compute. reflexivity. Qed.

(* the trie keyed by a SORTED copy of the index list, the resolver still built from the list as given:
   [0;1] and [1;0] share a slot, the second call gets the first call's resolver.  Two indexes that both
   carry "base": the one listed first provides it. *)
Fixpoint ins_nat_s (x : nat) (l : list nat) : list nat :=
  match l with [] => [x] | y :: t => if Nat.leb x y then x :: l else y :: ins_nat_s x t end.
Definition sorted_key (l : list idxid) : list idxid := fold_right ins_nat_s [] l.
Definition ord_names (ixs : list idxid) : list (string * list pid) := [("base", List.map (fun i => (i, 0)) ixs)].
Definition ord_call (ixs : list idxid) : call := {| cl_indexes := ixs; cl_world := ["base"]; cl_archs := [] |}.

Lemma sorted_key_leaks :
  result_after_g ord_names ex_none ex_dq ex_key _ toy_core sorted_key (clone_by_shape C08Caches.clone_shape) [ord_call [0; 1]] (ord_call [1; 0])
    = [Some (0, 0)] /\
  result_direct ord_names ex_none ex_dq _ toy_core (ord_call [1; 0]) = [Some (1, 0)] /\
  result_after_g ord_names ex_none ex_dq ex_key _ toy_core (fun l => l) (clone_by_shape C08Caches.clone_shape) [ord_call [0; 1]] (ord_call [1; 0])
    = [Some (1, 0)].
Proof. repeat split; vm_compute; reflexivity. Qed.
