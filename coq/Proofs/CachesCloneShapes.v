(* C08 — clone purity for EVERY acceptable shape of PkgResolver.Clone.

   Proofs/CachesCloneProofs.clone_fresh is about the shape the source has today
   (through its equality with Model/Caches.clone_resolver).  Here the frame proof
   is redone over an arbitrary clone function satisfying [CloneOk] (the clone
   extends the store, its `selected` is a NEW empty object, and through it the
   resolver looks like a freshly built one), and [clone_by_shape shape] is shown
   to satisfy it for every [good_shape]: indexes / nameMap / installIfMap each
   shared OR copied, selected copied OR a fresh empty map.  So:
     * what matters in Clone is that `selected` is not the prototype's;
     * the maps.Clone of nameMap / installIfMap is NOT needed for purity as long
       as the core never writes the maps (the frame hypothesis);
     * a fresh-empty map for nameMap / installIfMap / indexes, or a shared
       selected, is outside (and wrong: shared_selected_leaks). *)
From Apko Require Import Base.Prelude Model.Caches Model.CachesClone Proofs.CachesProofs Proofs.CachesCloneProofs.
Open Scope string_scope. Open Scope list_scope.

Section AnyClone.
  Variable mk_names : list idxid -> list (string * list pid).
  Variable mk_iif : list idxid -> list (string * list pid).
  Variable dq_diff : list (string * list idxid) -> list pid.
  Variable dkey : list (string * list idxid) -> list idxid.
  Variable R : Type.
  Variable core : store -> handles -> list string -> store * R.
  Variable clone : store -> rhandle -> store * rhandle.

  Definition CloneOk : Prop := forall P s k proto s' h',
    proto_ok mk_names mk_iif P s k proto -> clone s proto = (s', h') ->
    ext s s' /\ List.length s <= h_sel h' < List.length s' /\ view_ok mk_names mk_iif s' h' k.

  Hypothesis clone_ok : CloneOk.
  Hypothesis core_frame : CoreWritesOnlyOwned R core.
  Hypothesis core_len : CoreKeepsLength R core.
  Hypothesis core_reads : CoreReadsThroughHandles R core.

  Notation InvL := (InvL mk_names mk_iif dq_diff dkey).
  Notation call_step_a := (call_step_g mk_names mk_iif dq_diff dkey R core (fun l => l) clone).
  Notation run_history_a := (run_history_g mk_names mk_iif dq_diff dkey R core (fun l => l) clone).
  Notation resolver_get_a := (resolver_get_g mk_names mk_iif (fun l => l) clone).

  Lemma resolver_get_a_fob x ixs :
    resolver_get_a x ixs =
    let (x1, proto) := resolver_find_or_build mk_names mk_iif x ixs in
    let (s2, h') := clone (st x1) proto in
    ({| st := s2; rcache := rcache x1; dcache := dcache x1 |}, h').
  Proof. reflexivity. Qed.

  Definition pre_core_a (x : state) (c : call) : state * handles :=
    let (x1, h) := resolver_get_a x (cl_indexes c) in
    let (x2, d) := dq_get dq_diff dkey true x1 (cl_archs c) in
    (x2, {| hs_res := h; hs_dq := d |}).

  Lemma call_step_a_pre x c :
    call_step_a x c =
    let (x2, hs) := pre_core_a x c in
    let (s3, r) := core (st x2) hs (cl_world c) in
    ({| st := s3; rcache := rcache x2; dcache := dcache x2 |}, r).
  Proof.
    unfold call_step_g, pre_core_a.
    destruct (resolver_get_a x (cl_indexes c)) as [x1 h].
    destruct (dq_get dq_diff dkey true x1 (cl_archs c)) as [x2 d]. reflexivity.
  Qed.

  Lemma pre_core_a_spec : forall hist x c x2 hs,
    InvL [] hist x -> pre_core_a x c = (x2, hs) ->
    ext (st x) (st x2) /\
    InvL [hs_dq hs; h_sel (hs_res hs)] (hist ++ [c]) x2 /\
    List.length (st x) <= h_sel (hs_res hs) < List.length (st x2) /\ List.length (st x) <= hs_dq hs < List.length (st x2) /\
    exists a, In a (List.map cl_archs (hist ++ [c])) /\ dkey a = dkey (cl_archs c) /\
              view (st x2) hs = Some (fresh_view mk_names mk_iif dq_diff c a).
  Proof.
    intros hist x c x2 hs I H. unfold pre_core_a in H. rewrite resolver_get_a_fob in H. unfold dq_get in H.
    destruct (resolver_find_or_build mk_names mk_iif x (cl_indexes c)) as [xa proto] eqn:E1.
    destruct (resolver_fob_spec mk_names mk_iif dq_diff dkey [] hist x _ _ _ I (fun e (F : In e []) => match F with end) E1) as [X1 [I1 F1]].
    destruct (clone (st xa) proto) as [sb h'] eqn:E2.
    pose proof (proj1 I1 _ _ F1) as PO.
    destruct (clone_ok _ _ _ _ _ _ PO E2) as [X2 [S2 V2]].
    set (xb := {| st := sb; rcache := rcache xa; dcache := dcache xa |}) in *.
    assert (Ib : InvL [h_sel h'] hist xb).
    { apply (InvL_ext_own mk_names mk_iif dq_diff dkey [] hist xa sb (h_sel h') I1 X2). lia. }
    destruct (dq_find_or_build dq_diff dkey xb (cl_archs c)) as [xc r] eqn:E3.
    assert (Hexb : forall e, In e [h_sel h'] -> e < List.length (st xb)).
    { intros e [<-|[]]. cbn [st xb]. lia. }
    destruct (dq_fob_spec mk_names mk_iif dq_diff dkey [h_sel h'] hist c xb _ _ Ib Hexb E3) as [X3 [I3 F3]].
    unfold alloc in H. inversion H; subst x2 hs; clear H. cbn [st rcache dcache hs_res hs_dq].
    destruct (proj2 I3 _ _ F3) as [[Pr1 Pr2] [a [Ia [Ka Ga]]]]. rewrite Ga.
    set (sd := st xc ++ [ODq (dq_diff a)]).
    assert (X4 : ext (st xc) sd) by apply ext_alloc.
    split; [eapply ext_trans; [exact X1|]; eapply ext_trans; [exact X2|]; eapply ext_trans; [exact X3 | exact X4]|].
    assert (Lsd : List.length sd = List.length (st xc) + 1) by (unfold sd; rewrite app_length; cbn [List.length]; lia).
    pose proof (ext_len _ _ X3) as L3. cbn [st xb] in L3.
    split.
    { apply (InvL_ext_own mk_names mk_iif dq_diff dkey [h_sel h'] (hist ++ [c]) xc sd (List.length (st xc)) I3 X4). lia. }
    pose proof (ext_len _ _ X1) as L1.
    split; [lia|]. split; [lia|].
    exists a. split; [exact Ia|]. split; [exact Ka|].
    assert (V4 : view_ok mk_names mk_iif sd h' (cl_indexes c)).
    { eapply view_ok_ext; [|exact V2]. eapply ext_trans; [exact X3 | exact X4]. }
    destruct V4 as [Va [Vb [Vc Vd]]]. unfold view, fresh_view. cbn [hs_res hs_dq].
    rewrite Va, Vb, Vc, Vd. unfold sd at 1. rewrite sget_alloc_new. reflexivity.
  Qed.

  Lemma call_step_a_inv : forall hist x c, InvL [] hist x -> InvL [] (hist ++ [c]) (fst (call_step_a x c)).
  Proof.
    intros hist x c I. rewrite call_step_a_pre. destruct (pre_core_a x c) as [x2 hs] eqn:E.
    destruct (pre_core_a_spec hist x c x2 hs I E) as [X [I2 [Ls [Ld _]]]].
    pose proof (core_frame (st x2) hs (cl_world c)) as CF. pose proof (core_len (st x2) hs (cl_world c)) as CL.
    destruct (core (st x2) hs (cl_world c)) as [s3 r] eqn:C. cbn [fst] in *.
    unfold CachesProofs.InvL in *. cbn [st]. eapply inv_weaken; [|eapply (inv_agree _ _ _ _ _ _ x2 s3); [exact I2|]].
    - cbn beta. intros r0 [Hr Hn]. split; [lia | intros []].
    - intros r0 [Hr Hn]. apply CF; intro; subst r0; apply Hn; [right; left | left]; reflexivity.
  Qed.

  Lemma run_history_a_snoc hist c : run_history_a (hist ++ [c]) = fst (call_step_a (run_history_a hist) c).
  Proof. unfold run_history_g. rewrite fold_left_app. reflexivity. Qed.

  Lemma run_history_a_inv : forall hist, InvL [] hist (run_history_a hist).
  Proof.
    induction hist as [|c hist IH] using rev_ind; [apply InvL_empty|].
    rewrite run_history_a_snoc. apply call_step_a_inv. exact IH.
  Qed.

  Lemma view_after_a : forall hist c,
    GroupingCompatible dq_diff dkey hist c ->
    let (x2, hs) := pre_core_a (run_history_a hist) c in
    view (st x2) hs = Some (fresh_view mk_names mk_iif dq_diff c (cl_archs c)).
  Proof.
    intros hist c G. destruct (pre_core_a (run_history_a hist) c) as [x2 hs] eqn:E.
    destruct (pre_core_a_spec hist _ c x2 hs (run_history_a_inv hist) E) as [_ [_ [_ [_ [a [Ia [Ka V]]]]]]].
    rewrite V. f_equal. unfold fresh_view. f_equal.
    rewrite map_app in Ia. apply in_app_or in Ia. destruct Ia as [Ia|[<-|[]]]; [|reflexivity].
    apply in_map_iff in Ia. destruct Ia as [c' [<- Ic']]. apply G; assumption.
  Qed.

  Theorem clone_fresh_any hist c :
    GroupingCompatible dq_diff dkey hist c ->
    result_after_g mk_names mk_iif dq_diff dkey R core (fun l => l) clone hist c
    = result_direct mk_names mk_iif dq_diff R core c.
  Proof.
    intros G. unfold result_after_g, result_direct. rewrite call_step_a_pre.
    pose proof (view_after_a hist c G) as V1.
    destruct (pre_core_a (run_history_a hist) c) as [x2 hs].
    destruct (build_resolver mk_names mk_iif [] (cl_indexes c)) as [s1 h] eqn:B.
    pose proof (direct_view mk_names mk_iif dq_diff c s1 h B) as V2. unfold alloc.
    pose proof (core_reads (st x2) (s1 ++ [ODq (dq_diff (cl_archs c))]) hs {| hs_res := h; hs_dq := List.length s1 |} (cl_world c)) as CR.
    destruct (core (st x2) hs (cl_world c)) as [s3 r]. cbn [snd] in *. apply CR. rewrite V1, V2. reflexivity.
  Qed.
End AnyClone.

(* ---- the shapes that satisfy CloneOk ------------------------------------------------ *)
Definition keeps (m : fmode) : bool := match m with MShared | MMapsClone => true | _ => false end.
Definition renews (m : fmode) : bool := match m with MMapsClone | MFreshEmpty => true | _ => false end.
Definition good_shape (shape : list (string * string)) : bool :=
  keeps (shape_mode "indexes" shape) && keeps (shape_mode "nameMap" shape) &&
  keeps (shape_mode "installIfMap" shape) && renews (shape_mode "selected" shape).

(* a kept field: the clone's field reads the prototype's object *)
Lemma clone_field_keeps m cast s0 s r o :
  keeps m = true -> ext s0 s -> sget s0 r = Some o -> cast (Some o) = o ->
  ext s (fst (clone_field m cast (sget s0 r) s r)) /\
  sget (fst (clone_field m cast (sget s0 r) s r)) (snd (clone_field m cast (sget s0 r) s r)) = Some o.
Proof.
  intros K X G C. destruct m; try discriminate; cbn [clone_field fst snd].
  - split; [apply ext_refl | eapply ext_sget_some; eassumption].
  - unfold alloc. cbn [fst snd]. rewrite G, C. split; [apply ext_alloc | apply sget_alloc_new].
Qed.

(* a renewed field: a new reference holding the cast of the source or of nothing *)
Lemma clone_field_renews m cast src s r :
  renews m = true ->
  fst (clone_field m cast src s r) = s ++ [cast (match m with MMapsClone => src | _ => None end)] /\
  snd (clone_field m cast src s r) = List.length s.
Proof. intros K. destruct m; try discriminate; cbn [clone_field alloc fst snd]; split; reflexivity. Qed.

Lemma clone_by_shape_ok mk_names mk_iif shape : good_shape shape = true -> CloneOk mk_names mk_iif (clone_by_shape shape).
Proof.
  intros GS P s k proto s' h' [nm [im [_ [_ [_ [_ [_ [_ [G1 [G2 [D1 [G3 [D2 G4]]]]]]]]]]]]] H.
  unfold good_shape in GS. apply andb_true_iff in GS. destruct GS as [GS K4]. apply andb_true_iff in GS. destruct GS as [GS K3].
  apply andb_true_iff in GS. destruct GS as [K1 K2].
  unfold clone_by_shape in H.
  pose proof (clone_field_keeps _ as_idx s s (h_idx proto) (OIdx k) K1 (ext_refl s) G1 eq_refl) as [Xa Ga].
  destruct (clone_field (shape_mode "indexes" shape) as_idx (sget s (h_idx proto)) s (h_idx proto)) as [s0 ri]. cbn [fst snd] in Xa, Ga.
  pose proof (clone_field_keeps _ as_map s s0 (h_names proto) (OMap nm) K2 Xa G2 eq_refl) as [Xb Gb].
  destruct (clone_field (shape_mode "nameMap" shape) as_map (sget s (h_names proto)) s0 (h_names proto)) as [s1 rn]. cbn [fst snd] in Xb, Gb.
  assert (Xs1 : ext s s1) by (eapply ext_trans; eassumption).
  pose proof (clone_field_keeps _ as_map s s1 (h_iif proto) (OMap im) K3 Xs1 G3 eq_refl) as [Xc Gc].
  destruct (clone_field (shape_mode "installIfMap" shape) as_map (sget s (h_iif proto)) s1 (h_iif proto)) as [s2 rm]. cbn [fst snd] in Xc, Gc.
  assert (Xs2 : ext s s2) by (eapply ext_trans; eassumption).
  pose proof (clone_field_renews (shape_mode "selected" shape) as_sel (sget s (h_sel proto)) s2 (h_sel proto) K4) as [Ed Rd].
  destruct (clone_field (shape_mode "selected" shape) as_sel (sget s (h_sel proto)) s2 (h_sel proto)) as [s3 rs]. cbn [fst snd] in Ed, Rd.
  inversion H; subst s' h'; clear H. cbn [h_idx h_names h_iif h_sel].
  assert (Xd : ext s2 s3) by (rewrite Ed; apply ext_alloc).
  assert (Xs3 : ext s s3) by (eapply ext_trans; eassumption).
  assert (L3 : List.length s3 = S (List.length s2)) by (rewrite Ed, app_length; cbn [List.length]; lia).
  pose proof (ext_len _ _ Xs2) as L2.
  split; [exact Xs3|]. split; [lia|].
  unfold view_ok, deref_map. cbn [h_idx h_names h_iif h_sel].
  rewrite (ext_sget_some _ _ _ _ (ext_trans _ _ _ Xb (ext_trans _ _ _ Xc Xd)) Ga).
  rewrite (ext_sget_some _ _ _ _ (ext_trans _ _ _ Xc Xd) Gb).
  rewrite (ext_sget_some _ _ _ _ Xd Gc).
  rewrite (deref_slices_ext _ _ _ _ Xs3 D1), (deref_slices_ext _ _ _ _ Xs3 D2).
  split; [reflexivity|]. split; [reflexivity|]. split; [reflexivity|].
  rewrite Rd, Ed, sget_alloc_new. rewrite G4. destruct (shape_mode "selected" shape); reflexivity.
Qed.

Theorem clone_fresh_good_shapes mk_names mk_iif dq_diff dkey R core shape :
  good_shape shape = true ->
  CoreWritesOnlyOwned R core -> CoreKeepsLength R core -> CoreReadsThroughHandles R core ->
  forall hist c, GroupingCompatible dq_diff dkey hist c ->
    result_after_g mk_names mk_iif dq_diff dkey R core (fun l => l) (clone_by_shape shape) hist c
    = result_direct mk_names mk_iif dq_diff R core c.
Proof.
  intros GS F L Rd hist c G.
  exact (clone_fresh_any mk_names mk_iif dq_diff dkey R core (clone_by_shape shape) (clone_by_shape_ok mk_names mk_iif shape GS) F L Rd hist c G).
Qed.

(* the source's shape is good; so is the one without the two maps.Clone; the one sharing selected is not *)
Lemma code_shape_good : good_shape C08Caches.clone_shape = true.
Proof. reflexivity. Qed.
Lemma shared_maps_shape_good :
  good_shape [("indexes", "shared"); ("installIfMap", "shared"); ("nameMap", "shared"); ("selected", "fresh-empty")] = true.
Proof. reflexivity. Qed.
Lemma shared_selected_shape_bad : good_shape shape_shared_selected = false.
Proof. reflexivity. Qed.
