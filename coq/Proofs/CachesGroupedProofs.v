(* C08 — the disqualification cache keyed by (path, grouping) (Model/CachesGrouped.v):
   grouping_key_perm         equal keys -> the two listings are permutations of each other (the same Go map);
   dq_difference_perm        disqualifyDifference does not depend on the listing order;
   grouping_compatible_all   hence the proviso of CachesProofs.history_independent holds of EVERY history;
   history_independent_grouped, dq_handed_own_grouping, clone_fresh_grouped
                             the positive theorems without proviso (formerly refuted: finding C08-F2). *)
From Apko Require Import Base.Prelude Model.Caches Model.CachesGrouped Model.CachesClone
  Proofs.CachesProofs Proofs.CachesCloneProofs Generated.C08Caches Model.CachesBridge Proofs.CachesBridgeProofs.
From Apko Require Model.Resolver.
From Coq Require Import Permutation.
Open Scope string_scope. Open Scope list_scope.

(* ---- the encoding is injective ------------------------------------------------------ *)
Lemma app_block_inj {A} (a a' r r' : list A) : List.length a = List.length a' -> a ++ r = a' ++ r' -> a = a' /\ r = r'.
Proof.
  revert a'. induction a as [|x a IH]; intros [|x' a'] L E; simpl in *; try discriminate; [split; [reflexivity | exact E]|].
  inversion E; subst. destruct (IH a' ltac:(lia) H1) as [-> ->]. split; reflexivity.
Qed.

Lemma map_nat_of_ascii_inj l l' : List.map nat_of_ascii l = List.map nat_of_ascii l' -> l = l'.
Proof.
  revert l'. induction l as [|a l IH]; intros [|a' l'] E; simpl in E; try discriminate; [reflexivity|].
  inversion E as [[E1 E2]]. f_equal; [|apply IH; exact E2].
  rewrite <- (ascii_nat_embedding a), <- (ascii_nat_embedding a'), E1. reflexivity.
Qed.

Lemma enc_str_inj s s' r r' : enc_str s ++ r = enc_str s' ++ r' -> s = s' /\ r = r'.
Proof.
  unfold enc_str. cbn [List.app]. intros E. inversion E as [[L E']].
  apply app_block_inj in E'; [|rewrite !map_length; exact L]. destruct E' as [M ->]. split; [|reflexivity].
  apply map_nat_of_ascii_inj in M.
  rewrite <- (string_of_list_ascii_of_string s), <- (string_of_list_ascii_of_string s'), M. reflexivity.
Qed.

Lemma enc_entry_inj e e' r r' : enc_entry e ++ r = enc_entry e' ++ r' -> e = e' /\ r = r'.
Proof.
  destruct e as [a l], e' as [a' l']. unfold enc_entry. cbn [fst snd]. rewrite <- !app_assoc. intros E.
  apply enc_str_inj in E. destruct E as [-> E]. cbn [List.app] in E. inversion E as [[L E']].
  apply app_block_inj in E'; [|exact L]. destruct E' as [-> ->]. split; reflexivity.
Qed.

Lemma concat_enc_inj : forall g g' r r', List.length g = List.length g' ->
  List.concat (List.map enc_entry g) ++ r = List.concat (List.map enc_entry g') ++ r' -> g = g' /\ r = r'.
Proof.
  induction g as [|e g IH]; intros [|e' g'] r r' L E; cbn [List.map List.concat List.length List.app] in *; try discriminate; [split; [reflexivity | exact E]|].
  rewrite <- !app_assoc in E. apply enc_entry_inj in E. destruct E as [-> E].
  destruct (IH g' r r' ltac:(lia) E) as [-> ->]. split; reflexivity.
Qed.

Lemma enc_grouping_inj g g' : enc_grouping g = enc_grouping g' -> g = g'.
Proof.
  unfold enc_grouping. intros E. inversion E as [[L E']].
  destruct (concat_enc_inj g g' [] [] L) as [G _]; [rewrite !app_nil_r; exact E' | exact G].
Qed.

Lemma grouping_key_inj u a b : grouping_key u a = grouping_key u b ->
  dq_key u a = dq_key u b /\ sort_by_arch a = sort_by_arch b.
Proof.
  unfold grouping_key. cbn [List.app]. intros E. inversion E as [[L E']].
  apply app_block_inj in E'; [|exact L]. destruct E' as [P G]. split; [exact P | apply enc_grouping_inj; exact G].
Qed.

(* ---- sorting is a permutation -------------------------------------------------------- *)
Lemma ins_by_arch_perm e l : Permutation (ins_by_arch e l) (e :: l).
Proof.
  induction l as [|y t IH]; simpl; [apply Permutation_refl|].
  destruct (String.leb (fst e) (fst y)); [apply Permutation_refl|].
  eapply Permutation_trans; [apply perm_skip; exact IH | apply perm_swap].
Qed.

Lemma sort_by_arch_perm g : Permutation (sort_by_arch g) g.
Proof.
  induction g as [|e g IH]; simpl; [constructor|].
  eapply Permutation_trans; [apply ins_by_arch_perm | apply perm_skip; exact IH].
Qed.

Lemma grouping_key_perm u a b : grouping_key u a = grouping_key u b -> Permutation a b.
Proof.
  intros E. apply grouping_key_inj in E. destruct E as [_ S].
  eapply Permutation_trans; [apply Permutation_sym, sort_by_arch_perm|]. rewrite S. apply sort_by_arch_perm.
Qed.

(* ---- disqualifyDifference does not depend on the listing order ------------------------ *)
Lemma existsb_ext_eq {A} (f g : A -> bool) l : (forall x, f x = g x) -> existsb f l = existsb g l.
Proof. intros H. induction l as [|x l IH]; simpl; [reflexivity|]. rewrite H, IH. reflexivity. Qed.

Lemma existsb_perm {A} (f : A -> bool) l l' : Permutation l l' -> existsb f l = existsb f l'.
Proof.
  induction 1; simpl.
  - reflexivity.
  - rewrite IHPermutation. reflexivity.
  - destruct (f x), (f y); reflexivity.
  - rewrite IHPermutation1. exact IHPermutation2.
Qed.

Lemma is_dq_perm u a b x : Permutation a b -> is_dq u a x = is_dq u b x.
Proof.
  intros P. unfold is_dq. rewrite (existsb_perm _ a b P). apply existsb_ext_eq. intros a0.
  f_equal. apply existsb_perm. exact P.
Qed.

Lemma dq_difference_perm u a b : Permutation a b -> dq_difference u a = dq_difference u b.
Proof.
  intros P. pose proof (Permutation_length P) as L. unfold dq_difference.
  destruct a as [|x [|y a']], b as [|x' [|y' b']]; simpl in L; try discriminate; try reflexivity.
  apply filter_ext. intros p. apply is_dq_perm. exact P.
Qed.

(* the proviso of history_independent, for the code's key: every history, every call *)
Theorem grouping_compatible_all u hist c : GroupingCompatible (dq_difference u) (grouping_key u) hist c.
Proof. intros c' _ K. apply dq_difference_perm. eapply grouping_key_perm. exact K. Qed.

Section Grouped.
  Variable u : universe.
  Variable mk_names : list idxid -> list (string * list pid).
  Variable mk_iif : list idxid -> list (string * list pid).
  Variable R : Type.
  Variable core : store -> handles -> list string -> store * R.
  Hypothesis core_frame : CoreWritesOnlyOwned R core.
  Hypothesis core_len : CoreKeepsLength R core.

  (* what a request is handed: the difference of ITS OWN grouping, after every history *)
  Theorem dq_handed_own_grouping hist c :
    dq_handed mk_names mk_iif (dq_difference u) (grouping_key u) R core hist c = dq_difference u (cl_archs c).
  Proof.
    destruct (dq_handed_spec mk_names mk_iif (dq_difference u) (grouping_key u) R core core_frame core_len hist c) as [a [_ [K ->]]].
    apply dq_difference_perm. eapply grouping_key_perm. exact K.
  Qed.

  Hypothesis core_reads : CoreReadsThroughHandles R core.

  Theorem history_independent_grouped hist c :
    result_after mk_names mk_iif (dq_difference u) (grouping_key u) R core true hist c =
    result_fresh mk_names mk_iif (dq_difference u) (grouping_key u) R core true c.
  Proof. apply history_independent; try assumption. apply grouping_compatible_all. Qed.

  Theorem clone_fresh_grouped hist c :
    result_after_g mk_names mk_iif (dq_difference u) (grouping_key u) R core (fun l => l) (clone_by_shape C08Caches.clone_shape) hist c =
    result_direct mk_names mk_iif (dq_difference u) R core c.
  Proof. apply clone_fresh; try assumption. apply grouping_compatible_all. Qed.
End Grouped.

(* the instance for the sequential resolver model (Model/Resolver.v), no proviso left *)
Theorem resolver_history_independent_grouped : forall u fsel fdq hist c,
  result_after (mk_names_of u) (mk_iif_of u) (dq_difference u) (grouping_key u) _ (resolver_core u fsel fdq) true hist c =
  lift_res u (cl_indexes c)
    (Resolver.resolve_with
       (resolver_of_view u (fresh_view (mk_names_of u) (mk_iif_of u) (dq_difference u) c (cl_archs c)))
       (cl_world c) (flat_pids u (cl_indexes c) (dq_difference u (cl_archs c)))).
Proof.
  intros u fsel fdq hist c. unfold resolver_core.
  rewrite (result_of_pure_core (mk_names_of u) (mk_iif_of u) (dq_difference u) (grouping_key u) _
             (resolver_f u fsel fdq) Err hist c (grouping_compatible_all u hist c)).
  reflexivity.
Qed.

(* ---- the former witnesses of C08-F2 under the new key ----------------------------------- *)
Lemma f2_fixed :
  let handed := dq_handed f2_names ex_none (dq_difference f2_universe) (grouping_key f2_universe) _ toy_core in
  dq_key f2_universe (cl_archs f2_multi) = dq_key f2_universe (cl_archs f2_single) /\
  grouping_key f2_universe (cl_archs f2_multi) <> grouping_key f2_universe (cl_archs f2_single) /\
  handed [f2_multi] f2_single = [] /\ handed [f2_single] f2_multi = [(0, 0)] /\
  handed [f2_multi; f2_single] f2_multi = [(0, 0)] /\ handed [f2_single; f2_multi] f2_single = [].
Proof. cbn zeta. split; [reflexivity|]. split; [vm_compute; discriminate|]. repeat split; vm_compute; reflexivity. Qed.

(* the key does not depend on the order in which the map is listed (examples; the general
   statement needs the uniqueness of sorted lists and is tested by the correspondence) *)
Example grouping_key_listing_order :
  grouping_key f2_universe [("x", [0]); ("y", [1])] = grouping_key f2_universe [("y", [1]); ("x", [0])] /\
  grouping_key f2_universe [("b", [1]); ("a", [0]); ("c", [0; 1])] = grouping_key f2_universe [("c", [0; 1]); ("b", [1]); ("a", [0])].
Proof. split; vm_compute; reflexivity. Qed.

(* ---- the converse: the same Go map along the same trie path has the same key ------------
   (the model finds an entry whenever the code does).  The listing by architecture name is
   canonical: two sorted listings of one map with distinct architectures are equal. *)
From Apko Require Base.C01Lib.
From Coq Require Import Sorting.Sorted.

Definition kle (a b : string * list idxid) : Prop := String.leb (fst a) (fst b) = true.

Lemma ins_by_arch_In e l x : In x (ins_by_arch e l) <-> x = e \/ In x l.
Proof.
  split.
  - intros H. apply (Permutation_in x (ins_by_arch_perm e l)) in H. destruct H as [H|H]; [left; symmetry; exact H | right; exact H].
  - intros H. apply (Permutation_in x (Permutation_sym (ins_by_arch_perm e l))). destruct H as [->|H]; [left; reflexivity | right; exact H].
Qed.

Lemma ins_by_arch_sorted e l : StronglySorted kle l -> StronglySorted kle (ins_by_arch e l).
Proof.
  induction l as [|y t IH]; intros S; simpl; [repeat constructor|].
  inversion S as [|? ? St Hy]; subst. destruct (String.leb (fst e) (fst y)) eqn:E.
  - constructor; [exact S|]. constructor; [exact E|]. rewrite Forall_forall in *. intros z Hz.
    unfold kle. apply (C01Lib.sleb_trans (fst e) (fst y) (fst z)); [exact E | apply Hy; exact Hz].
  - constructor; [apply IH; exact St|]. rewrite Forall_forall in *. intros z Hz. apply ins_by_arch_In in Hz.
    destruct Hz as [->|Hz]; [|apply Hy; exact Hz].
    unfold kle. destruct (C01Lib.sleb_total (fst e) (fst y)) as [T|T]; [unfold C01Lib.sleb in T; congruence | exact T].
Qed.

Lemma sort_by_arch_sorted g : StronglySorted kle (sort_by_arch g).
Proof. induction g as [|e g IH]; simpl; [constructor | apply ins_by_arch_sorted; exact IH]. Qed.

Lemma key_injective (l : grouping) x y : NoDup (List.map fst l) -> In x l -> In y l -> fst x = fst y -> x = y.
Proof.
  induction l as [|z l IH]; intros N Hx Hy E; [contradiction|]. simpl in N. inversion N as [|? ? N1 N2]; subst.
  destruct Hx as [->|Hx], Hy as [->|Hy]; try reflexivity.
  - exfalso. apply N1. rewrite E. apply in_map. exact Hy.
  - exfalso. apply N1. rewrite <- E. apply in_map. exact Hx.
  - apply IH; assumption.
Qed.

Lemma sorted_perm_unique : forall l l' : grouping,
  StronglySorted kle l -> StronglySorted kle l' -> Permutation l l' -> NoDup (List.map fst l) -> l = l'.
Proof.
  induction l as [|x t IH]; intros l' S S' P N.
  - apply Permutation_nil in P. symmetry. exact P.
  - destruct l' as [|y t']; [apply Permutation_sym, Permutation_nil in P; discriminate|].
    inversion S as [|? ? St Hx]; subst. inversion S' as [|? ? St' Hy]; subst. rewrite Forall_forall in Hx, Hy.
    assert (Ix : In x (y :: t')) by (apply (Permutation_in x P); left; reflexivity).
    assert (Iy : In y (x :: t)) by (apply (Permutation_in y (Permutation_sym P)); left; reflexivity).
    assert (E : x = y).
    { destruct Ix as [Ix|Ix]; [symmetry; exact Ix|]. destruct Iy as [Iy|Iy]; [exact Iy|].
      apply (key_injective (x :: t) x y N); [left; reflexivity | right; exact Iy|].
      apply C01Lib.sleb_antisym; [apply Hx; exact Iy | apply Hy; exact Ix]. }
    subst y. f_equal. apply IH; [exact St | exact St' | eapply Permutation_cons_inv; exact P|].
    simpl in N. inversion N; assumption.
Qed.

Theorem sort_by_arch_canonical a b : NoDup (List.map fst a) -> Permutation a b -> sort_by_arch a = sort_by_arch b.
Proof.
  intros N P. apply sorted_perm_unique; try apply sort_by_arch_sorted.
  - eapply Permutation_trans; [apply sort_by_arch_perm|]. eapply Permutation_trans; [exact P | apply Permutation_sym, sort_by_arch_perm].
  - apply (Permutation_NoDup (l := List.map fst a)); [|exact N]. apply Permutation_map, Permutation_sym, sort_by_arch_perm.
Qed.

Theorem grouping_key_complete u a b :
  NoDup (List.map fst a) -> Permutation a b -> dq_key u a = dq_key u b -> grouping_key u a = grouping_key u b.
Proof. intros N P K. unfold grouping_key. rewrite K, (sort_by_arch_canonical a b N P). reflexivity. Qed.
