(* C08 — proofs about the index-cache model (Model/CachesIndex.v):
   ic_fresh                 after ANY history of rewrites and requests a request returns what a process
                            that never saw the file returns - provided every rewrite moved the file's
                            modification time strictly forward;
   ic_same_mtime_stale      ... and not otherwise (witness: rewrite with an unchanged time);
   path_keyed_stale         non-vacuity of "the time is recorded per cache entry": with the time recorded
                            per PATH the statement fails even for increasing times (four steps);
   call_sched_order         GetRepositoryIndexes returns the indexes in repository order under EVERY
                            schedule of its goroutines, and leaves a cache that answers like any other. *)
From Apko Require Import Base.Prelude Model.CachesIndex.
From Coq Require Import Permutation.
Open Scope string_scope. Open Scope list_scope. Local Open Scope Z_scope.

Lemma ekey_eqb_eq a b : ekey_eqb a b = true <-> a = b.
Proof.
  unfold ekey_eqb. destruct a as [p1 c1 n1], b as [p2 c2 n2]; cbn [ek_path ek_ctx ek_name]. split.
  - intros H. apply andb_true_iff in H. destruct H as [H H3]. apply andb_true_iff in H. destruct H as [H1 H2].
    apply Nat.eqb_eq in H1. apply String.eqb_eq in H2. apply String.eqb_eq in H3. subst. reflexivity.
  - intros H. inversion H; subst. rewrite Nat.eqb_refl, !String.eqb_refl. reflexivity.
Qed.
Lemma ekey_eqb_refl a : ekey_eqb a a = true.
Proof. apply ekey_eqb_eq. reflexivity. Qed.
Lemma ekey_eqb_sym a b : ekey_eqb a b = ekey_eqb b a.
Proof.
  destruct (ekey_eqb a b) eqn:E1, (ekey_eqb b a) eqn:E2; try reflexivity.
  - apply ekey_eqb_eq in E1. subst. rewrite ekey_eqb_refl in E2. discriminate.
  - apply ekey_eqb_eq in E2. subst. rewrite ekey_eqb_refl in E1. discriminate.
Qed.

Lemma klookup_kset_same {V} k (v : V) m : klookup k (kset k v m) = Some v.
Proof. unfold kset. cbn [klookup]. rewrite ekey_eqb_refl. reflexivity. Qed.
Lemma klookup_kset_other {V} k k' (v : V) m : ekey_eqb k k' = false -> klookup k (kset k' v m) = klookup k m.
Proof. intros H. unfold kset. cbn [klookup]. rewrite H. reflexivity. Qed.

Section Proofs.
  Variable C : Type.
  Variable I : Type.
  Variable parse : ekey -> C -> option I.

  Notation files := (files C).
  Notation icache := (icache I).
  Notation ic_get := (ic_get parse).
  Notation current := (current parse).

  (* ---- the invariant ----------------------------------------------------------
     a recorded time is not later than the file's; when it IS the file's time,
     the stored result is the parse of the file's present bytes *)
  Definition ic_inv (fs : files) (x : icache) : Prop :=
    forall k t, klookup k (ic_mod x) = Some t ->
      exists mt c, fget fs (ek_path k) = Some (mt, c) /\ t <= mt /\
                   (t = mt -> klookup k (ic_idx x) = Some (parse k c)).

  Lemma ic_inv_empty fs : ic_inv fs ic_empty.
  Proof. intros k t H. discriminate. Qed.

  Lemma ic_inv_write fs x p mt c :
    ic_inv fs x -> match fget fs p with Some (m0, _) => m0 < mt | None => True end ->
    ic_inv (fwrite fs p mt c) x.
  Proof.
    intros Hinv Hm k t Hk. destruct (Hinv k t Hk) as [m0 [c0 [F [Le Eq]]]].
    unfold fwrite. cbn [fget]. destruct (Nat.eqb (ek_path k) p) eqn:E.
    - apply Nat.eqb_eq in E. subst p. rewrite F in Hm. exists mt, c. split; [reflexivity|]. split; [lia|]. intros ->. lia.
    - exists m0, c0. split; [exact F|]. split; [exact Le | exact Eq].
  Qed.

  Lemma ic_get_inv fs x k : ic_inv fs x -> ic_inv fs (fst (ic_get fs x k)).
  Proof.
    intros Hinv. unfold CachesIndex.ic_get. destruct (fget fs (ek_path k)) as [[mt c]|] eqn:F; [|exact Hinv].
    cbn [fst]. destruct (needs_refresh x k mt) eqn:NR; [|exact Hinv].
    intros k' t Hk'. cbn [ic_mod ic_idx] in *. destruct (ekey_eqb k' k) eqn:E.
    - apply ekey_eqb_eq in E. subst k'. rewrite klookup_kset_same in Hk'. inversion Hk'; subst t.
      exists mt, c. split; [exact F|]. split; [lia|]. intros _. apply klookup_kset_same.
    - rewrite klookup_kset_other in Hk' by exact E. destruct (Hinv k' t Hk') as [m0 [c0 [F0 [Le Eq]]]].
      exists m0, c0. split; [exact F0|]. split; [exact Le|]. intros H. rewrite klookup_kset_other by exact E. apply Eq. exact H.
  Qed.

  (* a request returns what a process that never saw the file returns *)
  Lemma ic_get_current fs x k : ic_inv fs x -> snd (ic_get fs x k) = current fs k.
  Proof.
    intros Hinv. unfold CachesIndex.ic_get, CachesIndex.current.
    destruct (fget fs (ek_path k)) as [[mt c]|] eqn:F; [|reflexivity]. cbn [snd].
    unfold needs_refresh. destruct (klookup k (ic_mod x)) as [before|] eqn:M.
    - destruct (Z.ltb before mt) eqn:L.
      + cbn [ic_idx]. rewrite klookup_kset_same. reflexivity.
      + apply Z.ltb_ge in L. destruct (Hinv k before M) as [m0 [c0 [F0 [Le Eq]]]]. rewrite F in F0. inversion F0; subst m0 c0.
        rewrite (Eq ltac:(lia)). reflexivity.
    - cbn [ic_idx]. rewrite klookup_kset_same. reflexivity.
  Qed.

  Lemma ic_get_never_lost fs x k : ic_inv fs x -> snd (ic_get fs x k) <> GLost.
  Proof.
    intros Hinv. rewrite ic_get_current by exact Hinv. unfold CachesIndex.current.
    destruct (fget fs (ek_path k)) as [[mt c]|]; discriminate.
  Qed.

  Theorem ic_fresh_gen : forall evs fs x, ic_inv fs x -> mtimes_increase fs evs ->
    ic_run parse fs x evs = fresh_run parse fs evs.
  Proof.
    induction evs as [|[p mt c|k] evs IH]; intros fs x Hinv Hm; [reflexivity | |].
    - cbn [ic_run fresh_run]. cbn [mtimes_increase] in Hm. destruct Hm as [H1 H2].
      apply IH; [apply ic_inv_write; assumption | exact H2].
    - cbn [ic_run fresh_run]. cbn [mtimes_increase] in Hm.
      pose proof (ic_get_current fs x k Hinv) as G. pose proof (ic_get_inv fs x k Hinv) as Hinv'.
      destruct (ic_get fs x k) as [x' r]. cbn [snd fst] in *. subst r. f_equal. apply IH; assumption.
  Qed.

  Theorem ic_fresh : forall fs evs, mtimes_increase fs evs ->
    ic_run parse fs ic_empty evs = fresh_run parse fs evs.
  Proof. intros fs evs H. apply ic_fresh_gen; [apply ic_inv_empty | exact H]. Qed.

  (* ---- requests for other keys do not change what a key gets; a repeated
     request gets the same ---------------------------------------------------- *)
  Lemma ic_get_stable fs x k k' : snd (ic_get fs (fst (ic_get fs x k')) k) = snd (ic_get fs x k).
  Proof.
    unfold CachesIndex.ic_get at 2. destruct (fget fs (ek_path k')) as [[mt' c']|] eqn:F'; [|reflexivity].
    cbn [fst]. destruct (needs_refresh x k' mt') eqn:NR; [|reflexivity].
    unfold CachesIndex.ic_get. destruct (fget fs (ek_path k)) as [[mt c]|] eqn:F; [|reflexivity]. cbn [snd].
    destruct (ekey_eqb k k') eqn:E.
    - apply ekey_eqb_eq in E. subst k'. rewrite F in F'. inversion F'; subst mt' c'.
      unfold needs_refresh at 1. cbn [ic_mod]. rewrite klookup_kset_same, Z.ltb_irrefl.
      rewrite NR. cbn [ic_idx]. rewrite !klookup_kset_same. reflexivity.
    - unfold needs_refresh. cbn [ic_mod]. rewrite klookup_kset_other by exact E.
      destruct (match klookup k (ic_mod x) with Some before => before <? mt | None => true end);
        cbn [ic_idx]; rewrite ?klookup_kset_same, ?klookup_kset_other by exact E; reflexivity.
  Qed.

  (* ---- GetRepositoryIndexes under a schedule ----------------------------------- *)
  Lemma set_slot_length {A} (l : list A) i a : List.length (set_slot l i a) = List.length l.
  Proof. revert i. induction l as [|x l IH]; intros [|i]; simpl; try reflexivity. rewrite IH. reflexivity. Qed.

  Lemma nth_error_set_slot {A} (l : list A) i j a :
    nth_error (set_slot l i a) j = if Nat.eqb i j then (if Nat.ltb i (List.length l) then Some a else None) else nth_error l j.
  Proof.
    revert i j. induction l as [|x l IH]; intros i j.
    - destruct i, j; simpl; try reflexivity. destruct (Nat.eqb i j); reflexivity.
    - destruct i as [|i], j as [|j]; simpl; try reflexivity. rewrite IH. simpl.
      replace (Nat.ltb (S i) (S (List.length l))) with (Nat.ltb i (List.length l)) by reflexivity. reflexivity.
  Qed.

  Definition answers_like (fs : files) (x y : icache) : Prop := forall k, snd (ic_get fs y k) = snd (ic_get fs x k).

  Lemma call_sched_gen fs x0 keys : forall sched x sl,
    answers_like fs x0 x -> List.length sl = List.length keys ->
    let r := fold_left (sched_step parse fs keys) sched (x, sl) in
    answers_like fs x0 (fst r) /\ List.length (snd r) = List.length keys /\
    forall i, nth_error (snd r) i =
      if existsb (Nat.eqb i) sched
      then match nth_error keys i with Some k => Some (Some (snd (ic_get fs x0 k))) | None => nth_error sl i end
      else nth_error sl i.
  Proof.
    induction sched as [|j sched IH]; intros x sl HA HL; cbn zeta.
    - cbn [fold_left fst snd existsb]. split; [exact HA|]. split; [exact HL|]. intros i. reflexivity.
    - cbn [fold_left].
      assert (ES : sched_step parse fs keys (x, sl) j =
                   match nth_error keys j with
                   | Some k => (fst (ic_get fs x k), set_slot sl j (Some (snd (ic_get fs x k))))
                   | None => (x, sl)
                   end).
      { unfold sched_step. cbn [fst snd]. destruct (nth_error keys j); [|reflexivity]. destruct (ic_get fs x e); reflexivity. }
      rewrite ES. clear ES.
      destruct (nth_error keys j) as [k|] eqn:EK.
      + pose proof (HA k) as HAk. pose proof (fun k0 => ic_get_stable fs x k0 k) as HS.
        rewrite HAk.
        assert (HA' : answers_like fs x0 (fst (ic_get fs x k))).
        { intros k0. rewrite HS. apply HA. }
        assert (HL' : List.length (set_slot sl j (Some (snd (ic_get fs x0 k)))) = List.length keys) by (rewrite set_slot_length; exact HL).
        destruct (IH _ _ HA' HL') as [R1 [R2 R3]]. cbn zeta in R1, R2, R3. split; [exact R1|]. split; [exact R2|].
        intros i. rewrite R3. cbn [existsb]. rewrite nth_error_set_slot.
        assert (Hj : Nat.ltb j (List.length sl) = true).
        { apply Nat.ltb_lt. rewrite HL. apply nth_error_Some. congruence. }
        rewrite Hj. destruct (Nat.eqb i j) eqn:Eij.
        * apply Nat.eqb_eq in Eij. subst i. rewrite Nat.eqb_refl, EK. cbn [orb]. destruct (existsb (Nat.eqb j) sched); reflexivity.
        * rewrite Nat.eqb_sym in Eij. rewrite Eij. cbn [orb]. reflexivity.
      + destruct (IH x sl HA HL) as [R1 [R2 R3]]. cbn zeta in R1, R2, R3. split; [exact R1|]. split; [exact R2|].
        intros i. rewrite R3. cbn [existsb]. destruct (Nat.eqb i j) eqn:Eij; [|reflexivity].
        apply Nat.eqb_eq in Eij. subst i. rewrite EK. cbn [orb]. destruct (existsb (Nat.eqb j) sched); reflexivity.
  Qed.

  Lemma nth_error_ext {A} (l1 l2 : list A) : (forall i, nth_error l1 i = nth_error l2 i) -> l1 = l2.
  Proof.
    revert l2. induction l1 as [|a l1 IH]; intros [|b l2] H; try reflexivity.
    - specialize (H O). discriminate.
    - specialize (H O). discriminate.
    - pose proof (H O) as H0. simpl in H0. inversion H0; subst. f_equal. apply IH. intros i. exact (H (S i)).
  Qed.

  Lemma nth_error_repeat_none {A} n i : nth_error (repeat (@None A) n) i = if Nat.ltb i n then Some None else None.
  Proof.
    revert i. induction n as [|n IH]; intros [|i]; simpl; try reflexivity. rewrite IH.
    replace (Nat.ltb (S i) (S n)) with (Nat.ltb i n) by reflexivity. reflexivity.
  Qed.

  (* every goroutine runs (at least) once: the slots are the per-key answers in repository order *)
  Theorem call_sched_order fs x keys sched :
    (forall i, (i < List.length keys)%nat -> In i sched) ->
    snd (call_sched parse fs x keys sched) = List.map (fun k => Some (snd (ic_get fs x k))) keys /\
    answers_like fs x (fst (call_sched parse fs x keys sched)).
  Proof.
    intros Hall. unfold call_sched.
    destruct (call_sched_gen fs x keys sched x (repeat None (List.length keys)) (fun k => eq_refl) (repeat_length _ _)) as [R1 [R2 R3]].
    cbn zeta in R1, R2, R3. split; [|exact R1].
    apply nth_error_ext. intros i. rewrite R3. rewrite nth_error_repeat_none.
    destruct (Nat.ltb i (List.length keys)) eqn:Li.
    - apply Nat.ltb_lt in Li. assert (E : existsb (Nat.eqb i) sched = true).
      { apply existsb_exists. exists i. split; [apply Hall; exact Li | apply Nat.eqb_refl]. }
      rewrite E. rewrite nth_error_map. destruct (nth_error keys i) eqn:EK; [reflexivity|].
      apply nth_error_None in EK. lia.
    - apply Nat.ltb_ge in Li. rewrite nth_error_map.
      assert (EK : nth_error keys i = None) by (apply nth_error_None; exact Li). rewrite EK.
      destruct (existsb (Nat.eqb i) sched); reflexivity.
  Qed.

  Theorem get_indexes_schedule_independent fs x keys sched :
    Permutation sched (seq 0 (List.length keys)) ->
    snd (get_indexes parse fs x keys sched) = in_repo_order parse fs x keys /\
    answers_like fs x (fst (get_indexes parse fs x keys sched)).
  Proof.
    intros P. unfold get_indexes, in_repo_order.
    assert (Hall : forall i, (i < List.length keys)%nat -> In i sched).
    { intros i Hi. apply (Permutation_in i (Permutation_sym P)). apply in_seq. lia. }
    destruct (call_sched_order fs x keys sched Hall) as [S1 S2].
    destruct (call_sched parse fs x keys sched) as [x' sl]. cbn [fst snd] in *. subst sl. split; [reflexivity | exact S2].
  Qed.
End Proofs.

(* ---- witnesses ------------------------------------------------------------------ *)
Definition w_parse (k : ekey) (c : string) : option (string * string) := Some (ek_name k, c).
Definition w_key (name : string) : ekey := {| ek_path := 0; ek_ctx := "unverified"; ek_name := name |}.

(* rewritten with an UNCHANGED modification time (a rewrite within the clock's
   granularity, or a copy that preserves times): the second request returns the
   old index, a process that never saw the file the new one *)
Lemma ic_same_mtime_stale :
  let evs := [IWrite 0%nat 5 "v1"; IGet (w_key ""); IWrite 0%nat 5 "v2"; IGet (w_key "")] in
  ic_run w_parse [] ic_empty evs = [GGot (Some ("", "v1")); GGot (Some ("", "v1"))] /\
  fresh_run w_parse [] evs = [GGot (Some ("", "v1")); GGot (Some ("", "v2"))].
Proof. split; vm_compute; reflexivity. Qed.

(* the variant that records the time per PATH (and re-parses when the entry has
   no result yet): load under X, rewrite (later time), load under Y, X again *)
Definition path_key (k : ekey) : ekey := {| ek_path := ek_path k; ek_ctx := ""; ek_name := "" |}.
Definition ic_get_path_keyed (fs : files string) (x : icache (string * string)) (k : ekey)
  : icache (string * string) * gres (string * string) :=
  match fget fs (ek_path k) with
  | None => (x, GMissing)
  | Some (mt, c) =>
      let stale := match klookup (path_key k) (ic_mod x) with None => true | Some before => Z.ltb before mt end in
      let unparsed := match klookup k (ic_idx x) with None => true | Some _ => false end in
      let x' := if stale || unparsed
                then {| ic_mod := kset (path_key k) mt (ic_mod x); ic_idx := kset k (w_parse k c) (ic_idx x) |}
                else x in
      (x', match klookup k (ic_idx x') with Some r => GGot r | None => GLost end)
  end.
Fixpoint ic_run_path_keyed (fs : files string) (x : icache (string * string)) (evs : list (iev string)) :=
  match evs with
  | [] => []
  | IWrite p mt c :: t => ic_run_path_keyed (fwrite fs p mt c) x t
  | IGet k :: t => let (x', r) := ic_get_path_keyed fs x k in r :: ic_run_path_keyed fs x' t
  end.

Definition four_steps : list (iev string) :=
  [IWrite 0%nat 5 "v1"; IGet (w_key ""); IWrite 0%nat 9 "v2"; IGet (w_key "local"); IGet (w_key "")].

Lemma path_keyed_stale :
  mtimes_increase [] four_steps /\
  ic_run_path_keyed [] ic_empty four_steps = [GGot (Some ("", "v1")); GGot (Some ("local", "v2")); GGot (Some ("", "v1"))] /\
  ic_run w_parse [] ic_empty four_steps = [GGot (Some ("", "v1")); GGot (Some ("local", "v2")); GGot (Some ("", "v2"))].
Proof. split; [cbn; repeat split; lia | split; vm_compute; reflexivity]. Qed.

(* ---- the remote branch: transparent when the ETag names the bytes ------------------------ *)
Section RemoteProofs.
  Variable C : Type.
  Variable I : Type.
  Variable E : Type.
  Variable E_eqb : E -> E -> bool.
  Hypothesis E_eqb_eq : forall a b, E_eqb a b = true <-> a = b.
  Variable parse : ekey -> C -> option I.
  Variable content_of : nat -> E -> C.

  (* every stored result is the parse of the bytes its ETag names *)
  Definition rc_inv (x : remote_cache I E) : Prop :=
    forall k e r, In (k, e, r) (rc_idx x) -> r = parse k (content_of (ek_path k) e).
  (* the server's present files carry ETags that name their bytes *)
  Definition rfs_ok (fs : rfiles C E) : Prop :=
    forall p e c, rfget fs p = Some (Some e, c) -> c = content_of p e.

  Lemma rlookup_In k e m r : rlookup I E E_eqb k e m = Some r -> In (k, e, r) m.
  Proof.
    induction m as [|[[k' e'] r'] m IH]; simpl; [discriminate|].
    destruct (ekey_eqb k k' && E_eqb e e') eqn:T.
    - intros H. inversion H; subst. apply andb_true_iff in T. destruct T as [T1 T2].
      apply ekey_eqb_eq in T1. apply E_eqb_eq in T2. subst. left. reflexivity.
    - intros H. right. apply IH. exact H.
  Qed.

  Lemma rc_get_spec fs x k : rfs_ok fs -> rc_inv x ->
    rc_inv (fst (rc_get E_eqb parse fs x k)) /\ snd (rc_get E_eqb parse fs x k) = rcurrent parse fs k.
  Proof.
    intros F Inv. unfold rc_get, rcurrent. destruct (rfget fs (ek_path k)) as [[[e|] c]|] eqn:G; cbn [fst snd]; try (split; [exact Inv | reflexivity]).
    destruct (rlookup I E E_eqb k e (rc_idx x)) as [r|] eqn:L; cbn [fst snd].
    - split; [exact Inv|]. apply rlookup_In in L. rewrite (Inv _ _ _ L), <- (F _ _ _ G). reflexivity.
    - split; [|reflexivity]. intros k' e' r' H. cbn [rc_idx] in H. destruct H as [H|H].
      + inversion H; subst. rewrite <- (F _ _ _ G). reflexivity.
      + apply Inv. destruct (klookup k (rc_cur x)); [|exact H]. unfold rforget in H. apply filter_In in H. exact (proj1 H).
  Qed.

  Lemma rfs_ok_publish fs p e c : rfs_ok fs -> (forall e0, e = Some e0 -> c = content_of p e0) -> rfs_ok (rpublish fs p e c).
  Proof.
    intros F H q e' c' G. unfold rpublish in G. cbn [rfget] in G. destruct (Nat.eqb q p) eqn:Q.
    - apply Nat.eqb_eq in Q. subst q. inversion G; subst. apply H. reflexivity.
    - apply F. exact G.
  Qed.

  Theorem rc_fresh_gen : forall evs fs x, rfs_ok fs -> rc_inv x -> etags_name_bytes content_of evs ->
    rc_run E_eqb parse fs x evs = rfresh_run parse fs evs.
  Proof.
    induction evs as [|[p e c|k] evs IH]; intros fs x F Inv H; [reflexivity| |].
    - cbn [rc_run rfresh_run]. apply IH; [|exact Inv|].
      + apply rfs_ok_publish; [exact F|]. intros e0 ->. cbn [etags_name_bytes] in H. exact (proj1 H).
      + destruct e; cbn [etags_name_bytes] in H; [exact (proj2 H) | exact H].
    - cbn [rc_run rfresh_run]. destruct (rc_get_spec fs x k F Inv) as [Inv' R].
      destruct (rc_get E_eqb parse fs x k) as [x' r]. cbn [fst snd] in *. subst r. f_equal. apply IH; assumption.
  Qed.

  Theorem rc_fresh : forall evs, etags_name_bytes content_of evs ->
    rc_run E_eqb parse [] rc_empty evs = rfresh_run parse [] evs.
  Proof.
    intros evs H. apply rc_fresh_gen; [intros p e c G; discriminate | intros k e r []| exact H].
  Qed.
End RemoteProofs.

(* NON-VACUITY: a version header that does not name the bytes - the Last-Modified second, under
   which two publications inside one second look alike - used as the cache key: the second
   request gets the first publication *)
Lemma version_by_second_stale :
  let evs := [RPublish 0%nat (Some "t10") "v1"; RGet (w_key ""); RPublish 0%nat (Some "t10") "v2"; RGet (w_key "")] in
  rc_run String.eqb w_parse [] rc_empty evs = [GGot (Some ("", "v1")); GGot (Some ("", "v1"))] /\
  rfresh_run w_parse [] evs = [GGot (Some ("", "v1")); GGot (Some ("", "v2"))] /\
  (* sent as what it is - no ETag - nothing is cached *)
  rc_run String.eqb w_parse [] rc_empty [RPublish 0%nat None "v1"; RGet (w_key ""); RPublish 0%nat None "v2"; RGet (w_key "")]
    = [GGot (Some ("", "v1")); GGot (Some ("", "v2"))].
Proof. repeat split; vm_compute; reflexivity. Qed.
