(* C08 — proofs about the cache layer model (Model/Caches.v). *)
From Apko Require Import Base.Prelude Model.Caches Spec.CachesSpec.
Open Scope string_scope. Open Scope list_scope.

(* ---- the validator decides the readable statement ---------------------------- *)
Lemma pid_eqb_spec : forall a b, pid_eqb a b = true <-> a = b.
Proof.
  intros [a1 a2] [b1 b2]. unfold pid_eqb. cbn [fst snd].
  rewrite andb_true_iff, !Nat.eqb_eq. split.
  - intros [-> ->]. reflexivity.
  - intro E. inversion E. auto.
Qed.

Lemma outcome_eqb_spec : forall a b, outcome_eqb a b = true <-> a = b.
Proof.
  intros [x|] [y|]; cbn [outcome_eqb]; try (split; [discriminate | discriminate]); try tauto.
  rewrite (list_eqb_spec pid_eqb pid_eqb_spec). split; [intros ->; reflexivity | intro E; inversion E; reflexivity].
Qed.

Lemma forallb_eq_iff : forall x l, forallb (outcome_eqb x) l = true <-> (forall o, In o l -> o = x).
Proof.
  intros x l. rewrite forallb_forall. split; intros H o Ho.
  - symmetry. apply outcome_eqb_spec. apply H. exact Ho.
  - apply outcome_eqb_spec. symmetry. apply H. exact Ho.
Qed.

Lemma pure_b_iff : forall obs oracle, pure_b obs oracle = true <-> Pure obs oracle.
Proof.
  intros obs oracle. unfold pure_b, Pure. destruct obs as [|x obs].
  - split; [discriminate | intros [y [H _]]; congruence].
  - destruct oracle as [|r oracle].
    + split; [discriminate | intros [y [_ [H _]]]; congruence].
    + rewrite andb_true_iff, !forallb_eq_iff. split.
      * intros [H1 H2]. exists x. repeat split; try discriminate; assumption.
      * intros [y [_ [_ [H1 H2]]]].
        assert (x = y) by (apply H1; left; reflexivity). subst y. split; assumption.
Qed.

Lemma history_independent_b_iff : forall obs oracle,
  history_independent_b obs oracle = true <-> HistoryIndependent obs oracle.
Proof.
  unfold HistoryIndependent.
  induction obs as [|o obs IH]; destruct oracle as [|r oracle]; cbn [history_independent_b].
  - split; [constructor | reflexivity].
  - split; [discriminate | intro H; inversion H].
  - split; [discriminate | intro H; inversion H].
  - rewrite andb_true_iff, pure_b_iff, IH. split.
    + intros [H1 H2]. constructor; assumption.
    + intro H. inversion H; subst. split; assumption.
Qed.
