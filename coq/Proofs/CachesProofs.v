(* C08 — proofs about the cache layer model (Model/Caches.v). *)
From Apko Require Import Base.Prelude Model.Caches Spec.CachesSpec.
Open Scope string_scope. Open Scope list_scope.

(* ---- the validator decides the readable statement ---------------------------- *)
Lemma pid_eqb_spec : forall a b, pid_eqb a b = true <-> a = b.
Proof.
  intros [a1 a2] [b1 b2]. unfold pid_eqb. cbn [fst snd].
  rewrite andb_true_iff, !Nat.eqb_eq. split.
  - intros [-> ->]. reflexivity.
  - intro E. inversion E. auto.
Qed.

Lemma outcome_eqb_spec : forall a b, outcome_eqb a b = true <-> a = b.
Proof.
  intros [x|] [y|]; cbn [outcome_eqb]; try (split; [discriminate | discriminate]); try tauto.
  rewrite (list_eqb_spec pid_eqb pid_eqb_spec). split; [intros ->; reflexivity | intro E; inversion E; reflexivity].
Qed.

Lemma forallb_eq_iff : forall x l, forallb (outcome_eqb x) l = true <-> (forall o, In o l -> o = x).
Proof.
  intros x l. rewrite forallb_forall. split; intros H o Ho.
  - symmetry. apply outcome_eqb_spec. apply H. exact Ho.
  - apply outcome_eqb_spec. symmetry. apply H. exact Ho.
Qed.

Lemma pure_b_iff : forall obs oracle, pure_b obs oracle = true <-> Pure obs oracle.
Proof.
  intros obs oracle. unfold pure_b, Pure. destruct obs as [|x obs].
  - split; [discriminate | intros [y [H _]]; congruence].
  - destruct oracle as [|r oracle].
    + split; [discriminate | intros [y [_ [H _]]]; congruence].
    + rewrite andb_true_iff, !forallb_eq_iff. split.
      * intros [H1 H2]. exists x. repeat split; try discriminate; assumption.
      * intros [y [_ [_ [H1 H2]]]].
        assert (x = y) by (apply H1; left; reflexivity). subst y. split; assumption.
Qed.

Lemma history_independent_b_iff : forall obs oracle,
  history_independent_b obs oracle = true <-> HistoryIndependent obs oracle.
Proof.
  unfold HistoryIndependent.
  induction obs as [|o obs IH]; destruct oracle as [|r oracle]; cbn [history_independent_b].
  - split; [constructor | reflexivity].
  - split; [discriminate | intro H; inversion H].
  - split; [discriminate | intro H; inversion H].
  - rewrite andb_true_iff, pure_b_iff, IH. split.
    + intros [H1 H2]. constructor; assumption.
    + intro H. inversion H; subst. split; assumption.
Qed.

(* ---- store basics -------------------------------------------------------------- *)
Lemma sget_alloc_old : forall s o r, r < List.length s -> sget (s ++ [o]) r = sget s r.
Proof. intros. unfold sget. apply nth_error_app1. assumption. Qed.

Lemma sget_alloc_new : forall s o, sget (s ++ [o]) (List.length s) = Some o.
Proof. intros. unfold sget. rewrite nth_error_app2 by lia. rewrite Nat.sub_diag. reflexivity. Qed.

Lemma sget_lt : forall s r o, sget s r = Some o -> r < List.length s.
Proof. intros s r o H. apply nth_error_Some. unfold sget in H. congruence. Qed.

Lemma sset_length : forall s r o, List.length (sset s r o) = List.length s.
Proof. induction s as [|x s IH]; intros [|r] o; cbn [sset List.length]; auto. Qed.

Lemma sget_sset_other : forall s r r' o, r' <> r -> sget (sset s r o) r' = sget s r'.
Proof.
  unfold sget. induction s as [|x s IH]; intros [|r] [|r'] o H; cbn [sset nth_error]; auto; try congruence.
  all: try (apply IH; congruence).
Qed.

Lemma sget_sset_same : forall s r o, r < List.length s -> sget (sset s r o) r = Some o.
Proof.
  unfold sget. induction s as [|x s IH]; intros [|r] o H; cbn [sset nth_error List.length] in *; try lia; auto.
  all: try (apply IH; lia).
Qed.

(* two stores agree on the references satisfying P *)
Definition agree (P : ref -> Prop) (s s' : store) : Prop := forall r, P r -> sget s' r = sget s r.

Lemma agree_trans : forall (P Q : ref -> Prop) s1 s2 s3,
  (forall r, Q r -> P r) -> agree P s1 s2 -> agree Q s2 s3 -> agree Q s1 s3.
Proof. intros P Q s1 s2 s3 HQP H12 H23 r Hr. rewrite (H23 r Hr). apply H12. auto. Qed.

Lemma agree_alloc : forall s o, agree (fun r => r < List.length s) s (s ++ [o]).
Proof. intros s o r Hr. apply sget_alloc_old. exact Hr. Qed.

Definition refs_in (P : ref -> Prop) (m : list (string * ref)) : Prop := Forall (fun kr => P (snd kr)) m.

Lemma refs_in_weaken : forall (P Q : ref -> Prop) m, (forall r, P r -> Q r) -> refs_in P m -> refs_in Q m.
Proof. intros P Q m H F. unfold refs_in in *. eapply Forall_impl; [|exact F]. intros a Ha. apply H, Ha. Qed.

Lemma deref_slices_agree : forall P s s' m, refs_in P m -> agree P s s' -> deref_slices s' m = deref_slices s m.
Proof.
  intros P s s'. induction m as [|[k r] m IH]; intros F A; cbn [deref_slices]; [reflexivity|].
  inversion F as [|x l Hx Hl]; subst. cbn [snd] in Hx. rewrite (A r Hx), (IH Hl A). reflexivity.
Qed.

(* ---- store extension (allocation only) ------------------------------------------- *)
Definition ext (s s' : store) : Prop := exists t, s' = s ++ t.

Lemma ext_refl : forall s, ext s s.
Proof. intro s. exists []. rewrite app_nil_r. reflexivity. Qed.
Lemma ext_trans : forall a b c, ext a b -> ext b c -> ext a c.
Proof. intros a b c [t ->] [u ->]. exists (t ++ u). rewrite app_assoc. reflexivity. Qed.
Lemma ext_alloc : forall s o, ext s (s ++ [o]).
Proof. intros. exists [o]. reflexivity. Qed.
Lemma ext_len : forall s s', ext s s' -> List.length s <= List.length s'.
Proof. intros s s' [t ->]. rewrite app_length. lia. Qed.
Lemma ext_sget : forall s s' r, ext s s' -> r < List.length s -> sget s' r = sget s r.
Proof. intros s s' r [t ->] H. unfold sget. apply nth_error_app1. exact H. Qed.
Lemma ext_agree : forall s s', ext s s' -> agree (fun r => r < List.length s) s s'.
Proof. intros s s' E r Hr. apply ext_sget; assumption. Qed.
Lemma ext_sget_some : forall s s' r o, ext s s' -> sget s r = Some o -> sget s' r = Some o.
Proof. intros s s' r o E G. rewrite (ext_sget s s' r E); [exact G | eapply sget_lt; exact G]. Qed.

Lemma deref_slices_lt : forall s m x, deref_slices s m = Some x -> refs_in (fun r => r < List.length s) m.
Proof.
  intros s. induction m as [|[k r] m IH]; intros x D; [constructor|].
  cbn [deref_slices] in D. destruct (sget s r) as [[| | l| |]|] eqn:G; try discriminate.
  destruct (deref_slices s m) eqn:D2; try discriminate.
  constructor; [cbn [snd]; eapply sget_lt; exact G | eapply IH; reflexivity].
Qed.

Lemma deref_slices_ext : forall s s' m x, ext s s' -> deref_slices s m = Some x -> deref_slices s' m = Some x.
Proof.
  intros s s' m x E D. rewrite <- D.
  apply (deref_slices_agree (fun r => r < List.length s)); [eapply deref_slices_lt; exact D | apply ext_agree; exact E].
Qed.

Lemma deref_map_ext : forall s s' r x, ext s s' -> deref_map s r = Some x -> deref_map s' r = Some x.
Proof.
  intros s s' r x E D. unfold deref_map in *. destruct (sget s r) as [[|m| | |]|] eqn:G; try discriminate.
  rewrite (ext_sget_some _ _ _ _ E G). eapply deref_slices_ext; eassumption.
Qed.

Lemma alloc_slices_spec : forall m s s2 t,
  alloc_slices s m = (s2, t) ->
  ext s s2 /\ refs_in (fun r => List.length s <= r < List.length s2) t /\ deref_slices s2 t = Some m.
Proof.
  induction m as [|[k l] m IH]; intros s s2 t E; cbn [alloc_slices] in E.
  - inversion E; subst. split; [apply ext_refl|]. split; [constructor | reflexivity].
  - unfold alloc in E.
    destruct (alloc_slices (s ++ [OSlice l]) m) as [s2' t'] eqn:E2. inversion E; subst. clear E.
    destruct (IH _ _ _ E2) as [X [F D]].
    pose proof (ext_len _ _ X) as L. rewrite app_length in L. cbn [List.length] in L.
    split; [eapply ext_trans; [apply ext_alloc | exact X]|]. split.
    + constructor; [cbn [snd]; lia|].
      unfold refs_in in F. eapply Forall_impl; [|exact F]. cbn beta. intros a Ha.
      rewrite app_length in Ha. cbn [List.length] in Ha. lia.
    + cbn [deref_slices]. rewrite (ext_sget_some _ _ _ _ X (sget_alloc_new s (OSlice l))), D. reflexivity.
Qed.

Lemma key_eqb_eq : forall a b, key_eqb a b = true <-> a = b.
Proof. intros. unfold key_eqb. apply list_eqb_spec. intros. apply Nat.eqb_eq. Qed.

Section Frame.
  Variable mk_names : list idxid -> list (string * list pid).
  Variable mk_iif : list idxid -> list (string * list pid).
  Variable dq_diff : list (string * list idxid) -> list pid.
  Variable dkey : list (string * list idxid) -> list idxid.
  Variable R : Type.
  Variable core : store -> handles -> list string -> store * R.

  (* THE FRAME HYPOTHESIS about the resolver core *)
  Definition CoreWritesOnlyOwned : Prop :=
    forall s h w r, r <> h_sel (hs_res h) -> r <> hs_dq h -> sget (fst (core s h w)) r = sget s r.
  Definition CoreKeepsLength : Prop :=
    forall s h w, List.length s <= List.length (fst (core s h w)).
  Definition CoreReadsThroughHandles : Prop :=
    forall s s' h h' w, view s h = view s' h' -> snd (core s h w) = snd (core s' h' w).

  Hypothesis core_frame : CoreWritesOnlyOwned.
  Hypothesis core_len : CoreKeepsLength.
  Hypothesis core_reads : CoreReadsThroughHandles.

  Notation call_step := (call_step mk_names mk_iif dq_diff dkey R core).
  Notation run_history := (run_history mk_names mk_iif dq_diff dkey R core).
  Notation result_after := (result_after mk_names mk_iif dq_diff dkey R core).
  Notation result_fresh := (result_fresh mk_names mk_iif dq_diff dkey R core).
  Notation resolver_get := (resolver_get mk_names mk_iif).
  Notation dq_get := (dq_get dq_diff dkey).

  (* a cached prototype: everything it reaches is in P, and it is what
     newPkgResolver builds for its key, with an EMPTY selected *)
  Definition proto_ok (P : ref -> Prop) (s : store) (ixs : list idxid) (h : rhandle) : Prop :=
    exists nm im,
      P (h_idx h) /\ P (h_names h) /\ P (h_iif h) /\ P (h_sel h) /\ refs_in P nm /\ refs_in P im /\
      sget s (h_idx h) = Some (OIdx ixs) /\
      sget s (h_names h) = Some (OMap nm) /\ deref_slices s nm = Some (mk_names ixs) /\
      sget s (h_iif h) = Some (OMap im) /\ deref_slices s im = Some (mk_iif ixs) /\
      sget s (h_sel h) = Some (OSel []).

  (* a cached disqualification map: what disqualifyDifference gave for the
     grouping of SOME call of the history that has this key *)
  Definition dq_ok (P : ref -> Prop) (hist : list call) (s : store) (k : list idxid) (r : ref) : Prop :=
    P r /\ exists a, In a (List.map cl_archs hist) /\ dkey a = k /\ sget s r = Some (ODq (dq_diff a)).

  Definition Inv (P : ref -> Prop) (hist : list call) (x : state) : Prop :=
    (forall k h, find_key k (rcache x) = Some h -> proto_ok P (st x) k h) /\
    (forall k r, find_key k (dcache x) = Some r -> dq_ok P hist (st x) k r).

  Lemma proto_ok_agree : forall P s s' k h, proto_ok P s k h -> agree P s s' -> proto_ok P s' k h.
  Proof.
    intros P s s' k h [nm [im [P1 [P2 [P3 [P4 [F1 [F2 [G1 [G2 [D1 [G3 [D2 G4]]]]]]]]]]]]] A.
    exists nm, im. rewrite !(A _ P1), !(A _ P2), !(A _ P3), !(A _ P4),
      (deref_slices_agree P s s' nm F1 A), (deref_slices_agree P s s' im F2 A). tauto.
  Qed.

  Lemma proto_ok_weaken : forall (P Q : ref -> Prop) s k h, (forall r, P r -> Q r) -> proto_ok P s k h -> proto_ok Q s k h.
  Proof.
    intros P Q s k h W [nm [im [P1 [P2 [P3 [P4 [F1 [F2 G]]]]]]]].
    exists nm, im. repeat split; try (apply W; assumption); try (eapply refs_in_weaken; eassumption); tauto.
  Qed.

  Lemma dq_ok_agree : forall P hist s s' k r, dq_ok P hist s k r -> agree P s s' -> dq_ok P hist s' k r.
  Proof. intros P hist s s' k r [Pr [a [I [K G]]]] A. split; [exact Pr|]. exists a. rewrite (A _ Pr). tauto. Qed.

  Lemma dq_ok_weaken : forall (P Q : ref -> Prop) hist s k r, (forall r, P r -> Q r) -> dq_ok P hist s k r -> dq_ok Q hist s k r.
  Proof. intros P Q hist s k r W [Pr E]. split; [apply W; exact Pr | exact E]. Qed.

  Lemma dq_ok_hist : forall P hist c s k r, dq_ok P hist s k r -> dq_ok P (hist ++ [c]) s k r.
  Proof.
    intros P hist c s k r [Pr [a [I E]]]. split; [exact Pr|]. exists a. split; [|exact E].
    rewrite map_app. apply in_or_app. left. exact I.
  Qed.

  Lemma inv_agree : forall P hist x s', Inv P hist x -> agree P (st x) s' ->
    Inv P hist {| st := s'; rcache := rcache x; dcache := dcache x |}.
  Proof.
    intros P hist x s' [I1 I2] A. split; cbn [st rcache dcache]; intros k h F.
    - eapply proto_ok_agree; [apply I1; exact F | exact A].
    - eapply dq_ok_agree; [apply I2; exact F | exact A].
  Qed.

  Lemma inv_weaken : forall (P Q : ref -> Prop) hist x, (forall r, P r -> Q r) -> Inv P hist x -> Inv Q hist x.
  Proof.
    intros P Q hist x W [I1 I2]. split; intros k h F.
    - eapply proto_ok_weaken; [exact W | apply I1; exact F].
    - eapply dq_ok_weaken; [exact W | apply I2; exact F].
  Qed.

  Lemma inv_hist : forall P hist c x, Inv P hist x -> Inv P (hist ++ [c]) x.
  Proof. intros P hist c x [I1 I2]. split; [exact I1|]. intros k r F. apply dq_ok_hist, I2, F. Qed.

  (* ---- what a fresh clone looks like -------------------------------------------- *)
  Definition view_ok (s : store) (h : rhandle) (k : list idxid) : Prop :=
    sget s (h_idx h) = Some (OIdx k) /\ deref_map s (h_names h) = Some (mk_names k) /\
    deref_map s (h_iif h) = Some (mk_iif k) /\ sget s (h_sel h) = Some (OSel []).

  Lemma view_ok_ext : forall s s' h k, ext s s' -> view_ok s h k -> view_ok s' h k.
  Proof.
    intros s s' h k E [A [B [C D]]]. unfold view_ok.
    rewrite (ext_sget_some _ _ _ _ E A), (deref_map_ext _ _ _ _ E B), (deref_map_ext _ _ _ _ E C), (ext_sget_some _ _ _ _ E D). tauto.
  Qed.

  Lemma build_resolver_spec : forall s ixs s' h,
    build_resolver mk_names mk_iif s ixs = (s', h) ->
    ext s s' /\ proto_ok (fun r => List.length s <= r < List.length s') s' ixs h.
  Proof.
    intros s ixs s' h H. unfold build_resolver, alloc in H.
    destruct (alloc_slices (s ++ [OIdx ixs]) (mk_names ixs)) as [s2 nm] eqn:E1.
    destruct (alloc_slices (s2 ++ [OMap nm]) (mk_iif ixs)) as [s4 im] eqn:E2.
    inversion H; subst; clear H.
    destruct (alloc_slices_spec _ _ _ _ E1) as [X1 [F1 D1]].
    destruct (alloc_slices_spec _ _ _ _ E2) as [X2 [F2 D2]].
    set (S := (s4 ++ [OMap im]) ++ [OSel []]).
    assert (Xa : ext (s4 ++ [OMap im]) S) by apply ext_alloc.
    assert (Xb : ext s4 S) by (eapply ext_trans; [apply ext_alloc | exact Xa]).
    assert (Xc : ext (s2 ++ [OMap nm]) S) by (eapply ext_trans; [exact X2 | exact Xb]).
    assert (Xd : ext s2 S) by (eapply ext_trans; [apply ext_alloc | exact Xc]).
    assert (Xe : ext (s ++ [OIdx ixs]) S) by (eapply ext_trans; [exact X1 | exact Xd]).
    assert (Xf : ext s S) by (eapply ext_trans; [apply ext_alloc | exact Xe]).
    pose proof (ext_len _ _ X1) as L1. pose proof (ext_len _ _ X2) as L2.
    rewrite app_length in L1, L2. cbn [List.length] in L1, L2.
    assert (LS : List.length S = List.length s4 + 2) by (unfold S; rewrite !app_length; cbn [List.length]; lia).
    split; [exact Xf|]. exists nm, im. cbn [h_idx h_names h_iif h_sel]. rewrite LS.
    split; [lia|]. split; [lia|]. split; [lia|]. split; [rewrite app_length; cbn [List.length]; lia|].
    split. { unfold refs_in in *. eapply Forall_impl; [|exact F1]. cbn beta. intros a Ha. rewrite app_length in Ha. cbn [List.length] in Ha. lia. }
    split. { unfold refs_in in *. eapply Forall_impl; [|exact F2]. cbn beta. intros a Ha. rewrite app_length in Ha. cbn [List.length] in Ha. lia. }
    split; [apply (ext_sget_some _ _ _ _ Xe), sget_alloc_new|].
    split; [apply (ext_sget_some _ _ _ _ Xc), sget_alloc_new|].
    split; [apply (deref_slices_ext _ _ _ _ Xd D1)|].
    split; [apply (ext_sget_some _ _ _ _ Xa), sget_alloc_new|].
    split; [apply (deref_slices_ext _ _ _ _ Xb D2)|].
    apply sget_alloc_new.
  Qed.

  Lemma clone_resolver_spec : forall P s k proto s' h',
    proto_ok P s k proto -> clone_resolver s proto = (s', h') ->
    ext s s' /\ List.length s' = List.length s + 3 /\ h_sel h' = List.length s + 2 /\ view_ok s' h' k.
  Proof.
    intros P s k proto s' h' [nm [im [_ [_ [_ [_ [_ [_ [G1 [G2 [D1 [G3 [D2 _]]]]]]]]]]]]] H.
    unfold clone_resolver, alloc in H. rewrite G2, G3 in H. inversion H; subst; clear H.
    set (S := ((s ++ [OMap nm]) ++ [OMap im]) ++ [OSel []]).
    assert (Xa : ext ((s ++ [OMap nm]) ++ [OMap im]) S) by apply ext_alloc.
    assert (Xb : ext (s ++ [OMap nm]) S) by (eapply ext_trans; [apply ext_alloc | exact Xa]).
    assert (Xc : ext s S) by (eapply ext_trans; [apply ext_alloc | exact Xb]).
    split; [exact Xc|]. split; [unfold S; rewrite !app_length; cbn [List.length]; lia|].
    cbn [h_sel]. split; [rewrite !app_length; cbn [List.length]; lia|].
    unfold view_ok, deref_map. cbn [h_idx h_names h_iif h_sel].
    rewrite (ext_sget_some _ _ _ _ Xc G1).
    rewrite (ext_sget_some _ _ _ _ Xb (sget_alloc_new s (OMap nm))).
    rewrite (ext_sget_some _ _ _ _ Xa (sget_alloc_new (s ++ [OMap nm]) (OMap im))).
    rewrite (deref_slices_ext _ _ _ _ Xc D1), (deref_slices_ext _ _ _ _ Xc D2).
    unfold S. rewrite sget_alloc_new. tauto.
  Qed.

  (* ---- the invariant of the process-wide state ------------------------------------
     every cached object is below the allocation pointer and outside [ex] (the
     references some running resolution owns) *)
  Definition InvL (ex : list ref) (hist : list call) (x : state) : Prop :=
    Inv (fun r => r < List.length (st x) /\ ~ In r ex) hist x.

  Lemma InvL_ext : forall ex hist x s',
    InvL ex hist x -> ext (st x) s' -> InvL ex hist {| st := s'; rcache := rcache x; dcache := dcache x |}.
  Proof.
    intros ex hist x s' I E. unfold InvL. cbn [st].
    eapply inv_weaken; [|eapply inv_agree; [exact I|]].
    - cbn beta. intros r [Hr He]. split; [pose proof (ext_len _ _ E); lia | exact He].
    - intros r [Hr _]. apply ext_sget; assumption.
  Qed.

  Lemma InvL_ext_own : forall ex hist x s' o,
    InvL ex hist x -> ext (st x) s' -> List.length (st x) <= o ->
    InvL (o :: ex) hist {| st := s'; rcache := rcache x; dcache := dcache x |}.
  Proof.
    intros ex hist x s' o I E Ho. unfold InvL. cbn [st].
    eapply inv_weaken; [|eapply inv_agree; [exact I|]].
    - cbn beta. intros r [Hr He]. split; [pose proof (ext_len _ _ E); lia|].
      intros [Hin|Hin]; [lia | exact (He Hin)].
    - intros r [Hr _]. apply ext_sget; assumption.
  Qed.

  Lemma resolver_fob_spec : forall ex hist x ixs x1 proto,
    InvL ex hist x -> (forall e, In e ex -> e < List.length (st x)) ->
    resolver_find_or_build mk_names mk_iif x ixs = (x1, proto) ->
    ext (st x) (st x1) /\ InvL ex hist x1 /\ find_key ixs (rcache x1) = Some proto.
  Proof.
    intros ex hist x ixs x1 proto I Hex H. unfold resolver_find_or_build in H.
    destruct (find_key ixs (rcache x)) as [h|] eqn:F.
    - inversion H; subst. split; [apply ext_refl|]. split; [exact I | exact F].
    - destruct (build_resolver mk_names mk_iif (st x) ixs) as [s1 h] eqn:B. inversion H; subst; clear H.
      destruct (build_resolver_spec _ _ _ _ B) as [E PO]. cbn [st rcache].
      split; [exact E|]. split.
      + pose proof (InvL_ext ex hist x s1 I E) as [I1 I2]. split; cbn [st rcache dcache] in *.
        * intros k h0 Fk. cbn [find_key] in Fk. destruct (key_eqb k ixs) eqn:K.
          -- apply key_eqb_eq in K. subst k. inversion Fk; subst h0.
             eapply proto_ok_weaken; [|exact PO]. cbn beta. intros r [Hr1 Hr2]. split; [exact Hr2|].
             intro Hin. apply Hex in Hin. lia.
          -- apply I1. exact Fk.
        * exact I2.
      + cbn [find_key]. assert (K : key_eqb ixs ixs = true) by (apply key_eqb_eq; reflexivity). rewrite K. reflexivity.
  Qed.

  Lemma dq_fob_spec : forall ex hist c x x1 r,
    InvL ex hist x -> (forall e, In e ex -> e < List.length (st x)) ->
    dq_find_or_build dq_diff dkey x (cl_archs c) = (x1, r) ->
    ext (st x) (st x1) /\ InvL ex (hist ++ [c]) x1 /\ find_key (dkey (cl_archs c)) (dcache x1) = Some r.
  Proof.
    intros ex hist c x x1 r I Hex H. unfold dq_find_or_build in H.
    destruct (find_key (dkey (cl_archs c)) (dcache x)) as [r0|] eqn:F.
    - inversion H; subst. split; [apply ext_refl|]. split; [apply inv_hist; exact I | exact F].
    - unfold alloc in H. inversion H; subst; clear H. cbn [st dcache].
      split; [apply ext_alloc|]. split.
      + pose proof (InvL_ext ex hist x _ I (ext_alloc (st x) (ODq (dq_diff (cl_archs c))))) as I'.
        apply (inv_hist _ hist c) in I'. destruct I' as [I1 I2]. split; cbn [st rcache dcache] in *.
        * exact I1.
        * intros k r0 Fk. cbn [find_key] in Fk. destruct (key_eqb k (dkey (cl_archs c))) eqn:K.
          -- apply key_eqb_eq in K. subst k. inversion Fk; subst r0. split.
             ++ split; [rewrite app_length; cbn [List.length]; lia|]. intro Hin. apply Hex in Hin. lia.
             ++ exists (cl_archs c). split; [rewrite map_app; apply in_or_app; right; left; reflexivity|].
                split; [reflexivity | apply sget_alloc_new].
          -- apply I2. exact Fk.
      + cbn [find_key]. assert (K : key_eqb (dkey (cl_archs c)) (dkey (cl_archs c)) = true) by (apply key_eqb_eq; reflexivity).
        rewrite K. reflexivity.
  Qed.

  (* ---- one call, up to the point where the core runs -------------------------------- *)
  Definition pre_core (x : state) (c : call) : state * handles :=
    let (x1, h) := resolver_get true x (cl_indexes c) in
    let (x2, d) := dq_get true x1 (cl_archs c) in
    (x2, {| hs_res := h; hs_dq := d |}).

  Lemma call_step_pre : forall x c,
    call_step true x c =
    let (x2, hs) := pre_core x c in
    let (s3, r) := core (st x2) hs (cl_world c) in
    ({| st := s3; rcache := rcache x2; dcache := dcache x2 |}, r).
  Proof.
    intros x c. unfold Caches.call_step, pre_core.
    destruct (resolver_get true x (cl_indexes c)) as [x1 h].
    destruct (dq_get true x1 (cl_archs c)) as [x2 d]. reflexivity.
  Qed.

  Definition fresh_view (c : call) (a : list (string * list idxid)) : rview :=
    {| v_idx := cl_indexes c; v_names := mk_names (cl_indexes c); v_iif := mk_iif (cl_indexes c);
       v_sel := []; v_dq := dq_diff a |}.

  Lemma pre_core_spec : forall hist x c x2 hs,
    InvL [] hist x -> pre_core x c = (x2, hs) ->
    ext (st x) (st x2) /\
    InvL [hs_dq hs; h_sel (hs_res hs)] (hist ++ [c]) x2 /\
    List.length (st x) <= h_sel (hs_res hs) < List.length (st x2) /\ List.length (st x) <= hs_dq hs < List.length (st x2) /\
    exists a, In a (List.map cl_archs (hist ++ [c])) /\ dkey a = dkey (cl_archs c) /\
              view (st x2) hs = Some (fresh_view c a).
  Proof.
    intros hist x c x2 hs I H. unfold pre_core, Caches.resolver_get, Caches.dq_get in H.
    destruct (resolver_find_or_build mk_names mk_iif x (cl_indexes c)) as [xa proto] eqn:E1.
    destruct (resolver_fob_spec [] hist x _ _ _ I (fun e (F : In e []) => match F with end) E1) as [X1 [I1 F1]].
    destruct (clone_resolver (st xa) proto) as [sb h'] eqn:E2.
    pose proof (proj1 I1 _ _ F1) as PO.
    destruct (clone_resolver_spec _ _ _ _ _ _ PO E2) as [X2 [L2 [S2 V2]]].
    set (xb := {| st := sb; rcache := rcache xa; dcache := dcache xa |}) in *.
    (* the clone's selected is owned from here on *)
    assert (Ib : InvL [h_sel h'] hist xb).
    { apply (InvL_ext_own [] hist xa sb (h_sel h') I1 X2). lia. }
    destruct (dq_find_or_build dq_diff dkey xb (cl_archs c)) as [xc r] eqn:E3.
    assert (Hexb : forall e, In e [h_sel h'] -> e < List.length (st xb)).
    { intros e [<-|[]]. cbn [st xb]. lia. }
    destruct (dq_fob_spec [h_sel h'] hist c xb _ _ Ib Hexb E3) as [X3 [I3 F3]].
    unfold alloc in H. inversion H; subst x2 hs; clear H. cbn [st rcache dcache hs_res hs_dq].
    destruct (proj2 I3 _ _ F3) as [[Pr1 Pr2] [a [Ia [Ka Ga]]]]. rewrite Ga.
    set (sd := st xc ++ [ODq (dq_diff a)]).
    assert (X4 : ext (st xc) sd) by apply ext_alloc.
    split; [eapply ext_trans; [exact X1|]; eapply ext_trans; [exact X2|]; eapply ext_trans; [exact X3 | exact X4]|].
    assert (Lsd : List.length sd = List.length (st xc) + 1) by (unfold sd; rewrite app_length; cbn [List.length]; lia).
    pose proof (ext_len _ _ X3) as L3. cbn [st xb] in L3.
    split.
    { apply (InvL_ext_own [h_sel h'] (hist ++ [c]) xc sd (List.length (st xc)) I3 X4). lia. }
    pose proof (ext_len _ _ X1) as L1.
    split; [lia|]. split; [lia|].
    exists a. split; [exact Ia|]. split; [exact Ka|].
    assert (V4 : view_ok sd h' (cl_indexes c)).
    { eapply view_ok_ext; [|exact V2]. eapply ext_trans; [exact X3 | exact X4]. }
    destruct V4 as [Va [Vb [Vc Vd]]]. unfold view, fresh_view. cbn [hs_res hs_dq].
    rewrite Va, Vb, Vc, Vd. unfold sd at 1. rewrite sget_alloc_new. reflexivity.
  Qed.

  Lemma InvL_empty : InvL [] [] empty_state.
  Proof. split; cbn [rcache dcache empty_state find_key]; intros; discriminate. Qed.

  Lemma call_step_inv : forall hist x c, InvL [] hist x -> InvL [] (hist ++ [c]) (fst (call_step true x c)).
  Proof.
    intros hist x c I. rewrite call_step_pre. destruct (pre_core x c) as [x2 hs] eqn:E.
    destruct (pre_core_spec hist x c x2 hs I E) as [X [I2 [Ls [Ld _]]]].
    pose proof (core_frame (st x2) hs (cl_world c)) as CF. pose proof (core_len (st x2) hs (cl_world c)) as CL.
    destruct (core (st x2) hs (cl_world c)) as [s3 r] eqn:C. cbn [fst] in *.
    unfold InvL in *. cbn [st]. eapply inv_weaken; [|eapply (inv_agree _ _ x2 s3); [exact I2|]].
    - cbn beta. intros r0 [Hr Hn]. split; [lia | intros []].
    - intros r0 [Hr Hn]. apply CF; intro; subst r0; apply Hn; [right; left | left]; reflexivity.
  Qed.

  Lemma run_history_snoc : forall cl hist c,
    run_history cl (hist ++ [c]) = fst (Caches.call_step mk_names mk_iif dq_diff dkey R core cl (run_history cl hist) c).
  Proof. intros. unfold Caches.run_history. rewrite fold_left_app. reflexivity. Qed.

  Lemma run_history_inv : forall hist, InvL [] hist (run_history true hist).
  Proof.
    induction hist as [|c hist IH] using rev_ind; [exact InvL_empty|].
    rewrite run_history_snoc. apply call_step_inv. exact IH.
  Qed.

  (* FRAME: whatever happened before, a call never changes an object that
     existed when it started - in particular no cached prototype, none of the
     slices inside its maps, no cached disqualification map. It writes only to
     what its own clones allocated. *)
  Lemma call_frame : forall hist c r,
    let x := run_history true hist in
    r < List.length (st x) ->
    sget (st (fst (call_step true x c))) r = sget (st x) r.
  Proof.
    intros hist c r x Hr. pose proof (run_history_inv hist) as I. fold x in I.
    rewrite call_step_pre. destruct (pre_core x c) as [x2 hs] eqn:E.
    destruct (pre_core_spec hist x c x2 hs I E) as [X [_ [Ls [Ld _]]]].
    pose proof (core_frame (st x2) hs (cl_world c) r) as CF.
    destruct (core (st x2) hs (cl_world c)) as [s3 r0] eqn:C. cbn [fst st] in *.
    rewrite CF by lia. apply ext_sget; assumption.
  Qed.

  (* the cached prototypes stay what newPkgResolver built, with an empty selected *)
  Lemma cached_prototypes_pristine : forall hist k h,
    find_key k (rcache (run_history true hist)) = Some h ->
    view_ok (st (run_history true hist)) h k.
  Proof.
    intros hist k h F. destruct (proj1 (run_history_inv hist) k h F)
      as [nm [im [_ [_ [_ [_ [_ [_ [G1 [G2 [D1 [G3 [D2 G4]]]]]]]]]]]]].
    unfold view_ok, deref_map. rewrite G1, G2, G3, G4, D1, D2. tauto.
  Qed.

  (* HISTORY INDEPENDENCE *)
  Definition GroupingCompatible (hist : list call) (c : call) : Prop :=
    forall c', In c' hist -> dkey (cl_archs c') = dkey (cl_archs c) -> dq_diff (cl_archs c') = dq_diff (cl_archs c).

  Lemma view_after : forall hist c,
    GroupingCompatible hist c ->
    let (x2, hs) := pre_core (run_history true hist) c in
    view (st x2) hs = Some (fresh_view c (cl_archs c)).
  Proof.
    intros hist c G. destruct (pre_core (run_history true hist) c) as [x2 hs] eqn:E.
    destruct (pre_core_spec hist _ c x2 hs (run_history_inv hist) E) as [_ [_ [_ [_ [a [Ia [Ka V]]]]]]].
    rewrite V. f_equal. unfold fresh_view. f_equal.
    rewrite map_app in Ia. apply in_app_or in Ia. destruct Ia as [Ia|[<-|[]]]; [|reflexivity].
    apply in_map_iff in Ia. destruct Ia as [c' [<- Ic']]. apply G; assumption.
  Qed.

  Lemma history_independent : forall hist c,
    GroupingCompatible hist c -> result_after true hist c = result_fresh true c.
  Proof.
    intros hist c G. unfold Caches.result_fresh, Caches.result_after.
    rewrite !call_step_pre.
    pose proof (view_after hist c G) as V1.
    assert (G0 : GroupingCompatible [] c) by (intros c' []).
    pose proof (view_after [] c G0) as V2.
    destruct (pre_core (run_history true hist) c) as [x2 hs].
    destruct (pre_core (run_history true []) c) as [y2 hs'].
    pose proof (core_reads (st x2) (st y2) hs hs' (cl_world c)) as CR.
    destruct (core (st x2) hs (cl_world c)) as [s3 r]. destruct (core (st y2) hs' (cl_world c)) as [t3 r'].
    cbn [snd] in *. apply CR. rewrite V1, V2. reflexivity.
  Qed.

  (* what the core is handed, in general: the right maps, an empty selected,
     and the disqualification set of SOME call with the same key *)
  Lemma dq_handed_spec : forall hist c,
    exists a, In a (List.map cl_archs (hist ++ [c])) /\ dkey a = dkey (cl_archs c) /\
              dq_handed mk_names mk_iif dq_diff dkey R core hist c = dq_diff a.
  Proof.
    intros hist c.
    pose proof (pre_core_spec hist (run_history true hist) c) as PS. unfold pre_core in PS.
    unfold Caches.dq_handed.
    destruct (resolver_get true (run_history true hist) (cl_indexes c)) as [x1 h].
    destruct (dq_get true x1 (cl_archs c)) as [x2 d].
    destruct (PS x2 _ (run_history_inv hist) eq_refl) as [_ [_ [_ [_ [a [Ia [Ka V]]]]]]].
    exists a. split; [exact Ia|]. split; [exact Ka|].
    unfold view in V. cbn [hs_res hs_dq] in V.
    destruct (sget (st x2) (h_idx h)) as [[| | | |ix]|]; try discriminate.
    destruct (deref_map (st x2) (h_names h)); try discriminate.
    destruct (deref_map (st x2) (h_iif h)); try discriminate.
    destruct (sget (st x2) (h_sel h)) as [[sel| | | |]|]; try discriminate.
    destruct (sget (st x2) d) as [[| | |dd|]|]; try discriminate.
    inversion V. reflexivity.
  Qed.
End Frame.

(* ---- cores given by a pure function of the view satisfy the frame hypothesis ------ *)
Lemma core_of_frame : forall R f (fail : R), CoreWritesOnlyOwned R (core_of f fail).
Proof.
  intros R f fail s h w r H1 H2. unfold core_of. destruct (view s h) as [v|]; [|reflexivity].
  destruct (f v w) as [[sel' dq'] res]. cbn [fst]. rewrite !sget_sset_other by assumption. reflexivity.
Qed.

Lemma core_of_len : forall R f (fail : R), CoreKeepsLength R (core_of f fail).
Proof.
  intros R f fail s h w. unfold core_of. destruct (view s h) as [v|]; [|cbn [fst]; lia].
  destruct (f v w) as [[sel' dq'] res]. cbn [fst]. rewrite !sset_length. lia.
Qed.

Lemma core_of_reads : forall R f (fail : R), CoreReadsThroughHandles R (core_of f fail).
Proof.
  intros R f fail s s' h h' w E. unfold core_of. rewrite E. destruct (view s' h') as [v|]; [|reflexivity].
  destruct (f v w) as [[sel' dq'] res]. reflexivity.
Qed.

(* with a core of that shape, the result after any history IS the pure function
   applied to the fresh view *)
Lemma result_of_pure_core : forall mk_names mk_iif dq_diff dkey R f (fail : R) hist c,
  GroupingCompatible dq_diff dkey hist c ->
  result_after mk_names mk_iif dq_diff dkey R (core_of f fail) true hist c =
  snd (f (fresh_view mk_names mk_iif dq_diff c (cl_archs c)) (cl_world c)).
Proof.
  intros mk_names mk_iif dq_diff dkey R f fail hist c G. unfold result_after.
  rewrite (call_step_pre mk_names mk_iif dq_diff dkey R (core_of f fail)).
  pose proof (view_after mk_names mk_iif dq_diff dkey R (core_of f fail)
                (core_of_frame R f fail) (core_of_len R f fail) hist c G) as V.
  destruct (pre_core mk_names mk_iif dq_diff dkey (run_history mk_names mk_iif dq_diff dkey R (core_of f fail) true hist) c) as [x2 hs].
  unfold core_of at 1. rewrite V. destruct (f _ (cl_world c)) as [[sel' dq'] res]. reflexivity.
Qed.

(* ---- memo tables -------------------------------------------------------------------- *)
Section MemoProofs.
  Variables (K V : Type) (keq : K -> K -> bool).
  Hypothesis keq_eq : forall a b, keq a b = true <-> a = b.
  Variable f : K -> option V.

  Lemma mfind_in : forall t k v, mfind K V keq k t = Some v -> exists k', keq k k' = true /\ In (k', v) t.
  Proof.
    induction t as [|[k' v'] t IH]; intros k v H; cbn [mfind] in H; [discriminate|].
    destruct (keq k k') eqn:E.
    - inversion H; subst. exists k'. split; [exact E | left; reflexivity].
    - destruct (IH _ _ H) as [k2 [E2 I2]]. exists k2. split; [exact E2 | right; exact I2].
  Qed.

  Lemma memo_get_ok : forall t k, MemoOk f t ->
    fst (memo_get K V keq f t k) = f k /\ MemoOk f (snd (memo_get K V keq f t k)).
  Proof.
    intros t k M. unfold memo_get. destruct (mfind K V keq k t) as [v|] eqn:F.
    - destruct (mfind_in _ _ _ F) as [k' [E I]]. apply keq_eq in E. subst k'. cbn [fst snd].
      split; [symmetry; apply M; exact I | exact M].
    - destruct (f k) as [v|] eqn:Fk; cbn [fst snd]; split; auto.
      intros k2 v2 [H|H]; [inversion H; subst; exact Fk | apply M; exact H].
  Qed.

  Lemma memo_run_ok : forall ks t, MemoOk f t -> MemoOk f (memo_run K V keq f t ks).
  Proof.
    induction ks as [|k ks IH]; intros t M; [exact M|].
    unfold memo_run. cbn [fold_left]. apply IH. apply memo_get_ok. exact M.
  Qed.

  (* whatever was looked up before, a lookup returns what parsing returns *)
  Lemma memo_transparent : forall history k,
    fst (memo_get K V keq f (memo_run K V keq f [] history) k) = f k.
  Proof.
    intros history k. apply memo_get_ok. apply memo_run_ok. intros k0 v0 [].
  Qed.
End MemoProofs.

(* ---- with the clone removed the statement is false -------------------------------------- *)
Definition ex_names (ixs : list idxid) : list (string * list pid) := [("a", [(0, 0); (0, 1)]); ("b", [(0, 2)])].
Definition ex_none (ixs : list idxid) : list (string * list pid) := [].
Definition ex_dq (a : list (string * list idxid)) : list pid := [].
Definition ex_key (a : list (string * list idxid)) : list idxid := List.concat (List.map snd a).
Definition ex_call (w : list string) : call := {| cl_indexes := [0]; cl_world := w; cl_archs := [] |}.

(* `return pr` instead of `return pr.Clone()`: the second resolution finds "a"
   in the SHARED selected map and skips it *)
Lemma no_clone_selected_leaks :
  result_after ex_names ex_none ex_dq ex_key _ toy_core false [ex_call ["a"]] (ex_call ["a"; "b"]) = [Some (0, 2)] /\
  result_fresh ex_names ex_none ex_dq ex_key _ toy_core false (ex_call ["a"; "b"]) = [Some (0, 0); Some (0, 2)] /\
  result_after ex_names ex_none ex_dq ex_key _ toy_core true [ex_call ["a"]] (ex_call ["a"; "b"]) = [Some (0, 0); Some (0, 2)].
Proof. vm_compute. repeat split. Qed.

(* `return dq` instead of `return maps.Clone(dq)`: a disqualification made by
   one resolution is still there for the next *)
Lemma no_clone_dq_leaks :
  result_after ex_names ex_none ex_dq ex_key _ toy_core false [ex_call ["!b"]] (ex_call ["b"]) = [None] /\
  result_fresh ex_names ex_none ex_dq ex_key _ toy_core false (ex_call ["b"]) = [Some (0, 2)] /\
  result_after ex_names ex_none ex_dq ex_key _ toy_core true [ex_call ["!b"]] (ex_call ["b"]) = [Some (0, 2)].
Proof. vm_compute. repeat split. Qed.

(* a core that sorts a shared slice in place breaks the frame hypothesis: the
   hypothesis is not vacuous *)
Definition slice_writer (s : store) (h : handles) (w : list string) : store * unit :=
  match sget s (h_names (hs_res h)) with
  | Some (OMap ((_, r) :: _)) => (sset s r (OSlice []), tt)
  | _ => (s, tt)
  end.
Lemma slice_writer_breaks_frame : ~ CoreWritesOnlyOwned unit slice_writer.
Proof.
  intro H.
  specialize (H [OMap [("a", 1)]; OSlice [(0, 0)]; OSel []; ODq []]
                {| hs_res := {| h_idx := 0; h_names := 0; h_iif := 0; h_sel := 2 |}; hs_dq := 3 |} [] 1).
  cbn in H. assert (E : Some (OSlice []) = Some (OSlice [(0, 0)])) by (apply H; discriminate). discriminate.
Qed.

(* ---- C08-F2: the key of the disqualification cache forgets the grouping ----------- *)
Definition f2_universe : universe :=
  [ {| ix_name := ""; ix_pkgs := [ {| p_name := "only1"; p_version := "1.0"; p_deps := []; p_provides := []; p_iif := []; p_origin := ""; p_prio := 0 |};
                                   {| p_name := "both"; p_version := "1.0"; p_deps := []; p_provides := []; p_iif := []; p_origin := ""; p_prio := 0 |} ] |};
    {| ix_name := "zz"; ix_pkgs := [ {| p_name := "both"; p_version := "1.0"; p_deps := []; p_provides := []; p_iif := []; p_origin := ""; p_prio := 0 |} ] |} ].
Definition f2_multi : call := {| cl_indexes := [0]; cl_world := ["only1"]; cl_archs := [("x", [0]); ("y", [1])] |}.
Definition f2_single : call := {| cl_indexes := [0; 1]; cl_world := ["only1"]; cl_archs := [("x", [0; 1])] |}.
Definition f2_names (ixs : list idxid) : list (string * list pid) := [("only1", [(0, 0)]); ("both", [(0, 1)])].

Lemma dq_cache_key_refuted :
  let handed := dq_handed f2_names ex_none (dq_difference f2_universe) (dq_key f2_universe) _ toy_core in
  (* the two groupings get the same key although disqualifyDifference differs *)
  dq_key f2_universe (cl_archs f2_multi) = dq_key f2_universe (cl_archs f2_single) /\
  dq_difference f2_universe (cl_archs f2_multi) = [(0, 0)] /\
  dq_difference f2_universe (cl_archs f2_single) = [] /\
  (* so after the two-architecture call the single-architecture call is handed
     a set that disqualifies only1, and vice versa *)
  handed [f2_multi] f2_single = [(0, 0)] /\ handed [] f2_single = [] /\
  handed [f2_single] f2_multi = [] /\ handed [] f2_multi = [(0, 0)] /\
  (* and the results differ from a fresh process in both orders *)
  result_after f2_names ex_none (dq_difference f2_universe) (dq_key f2_universe) _ toy_core true [f2_multi] f2_single
    <> result_fresh f2_names ex_none (dq_difference f2_universe) (dq_key f2_universe) _ toy_core true f2_single /\
  result_after f2_names ex_none (dq_difference f2_universe) (dq_key f2_universe) _ toy_core true [f2_single] f2_multi
    <> result_fresh f2_names ex_none (dq_difference f2_universe) (dq_key f2_universe) _ toy_core true f2_multi.
Proof. vm_compute. repeat split; discriminate. Qed.

(* hence history independence cannot be stated without the grouping hypothesis *)
Lemma history_independent_needs_grouping :
  ~ (forall hist c,
       result_after f2_names ex_none (dq_difference f2_universe) (dq_key f2_universe) _ toy_core true hist c =
       result_fresh f2_names ex_none (dq_difference f2_universe) (dq_key f2_universe) _ toy_core true c).
Proof. intro H. destruct dq_cache_key_refuted as [_ [_ [_ [_ [_ [_ [_ [N _]]]]]]]]. apply N. apply H. Qed.

(* "no earlier call used the same index set under another grouping" *)
Lemma same_grouping_compatible : forall dq_diff dkey hist c,
  (forall c', In c' hist -> dkey (cl_archs c') = dkey (cl_archs c) -> cl_archs c' = cl_archs c) ->
  GroupingCompatible dq_diff dkey hist c.
Proof. intros dq_diff dkey hist c H c' I K. rewrite (H c' I K). reflexivity. Qed.
