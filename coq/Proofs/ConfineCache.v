(* C18 — cachedPackage and the cache member named by .PKGINFO's datahash
   (Model/Confine.v: cache_member_path, cache_member_tar, cached_package_touches,
   verify_datahash_accepts).

   cachedPackage joins the datahash TEXT of the cached control section into
   <cacheDir>/<datahash>.dat.tar.gz without looking at it.  What is proved here:
   - whatever the text is, everything cachedPackage creates or replaces lies in
     the cache directory: hex.DecodeString(datahash) stands between the os.Stat of
     the joined path and exp.PackageData() (the order is read from the source,
     [cached_hex_before_data]), and a name made of hexadecimal digits plus the
     generated suffix is one proper component;
   - the os.Stat itself CAN be aimed outside (a read; refutation with witness);
   - a control section that apko itself moved into the cache (after
     verifyExpanded) carries a datahash that decodes. *)
From Coq Require Import List Ascii String Bool Arith Lia NArith.
From Apko Require Import Base.Prelude Base.C18Path Generated.C18 Spec.ConfineSpec Model.Confine
  Proofs.ConfineProofs.
Import ListNotations.
Open Scope list_scope.

Lemma long_not_special : forall c : str, 2 < List.length c -> is_skip c = false /\ is_dd c = false.
Proof.
  intros c H. destruct c as [|a [|b [|e r]]]; simpl in H; try lia. split.
  - unfold is_skip. simpl. destruct (Ascii.eqb a dot); reflexivity.
  - unfold is_dd, dd. simpl. destruct (Ascii.eqb a dot), (Ascii.eqb b dot); reflexivity.
Qed.

Lemma hex_name_proper : forall h x,
  forallb is_hex_char h = true -> no_slash x -> 2 < List.length x -> proper (h ++ x).
Proof.
  intros h x F NS L. unfold proper. split.
  - intro I. apply in_app_or in I. destruct I as [I|I]; [|contradiction].
    rewrite forallb_forall in F. specialize (F sl I). vm_compute in F. discriminate.
  - apply long_not_special. rewrite app_length. lia.
Qed.

(* the two suffixes the source uses *)
Definition dat_suffix : str := la cached_dat_suffix.                          (* ".dat.tar.gz" *)
Definition tar_suffix : str := trim_suffix dat_suffix (la cached_tar_trim).   (* ".dat.tar" *)

Lemma dat_suffix_split : dat_suffix = tar_suffix ++ la cached_tar_trim.
Proof. reflexivity. Qed.
Lemma dat_suffix_ok : no_slash dat_suffix /\ 2 < List.length dat_suffix.
Proof. split; [apply no_slashb_iff; reflexivity | vm_compute; lia]. Qed.
Lemma tar_suffix_ok : no_slash tar_suffix /\ 2 < List.length tar_suffix.
Proof. split; [apply no_slashb_iff; reflexivity | vm_compute; lia]. Qed.

Lemma trim_suffix_app : forall a p, trim_suffix (a ++ p) p = a.
Proof.
  intros a p. unfold trim_suffix, has_suffix. rewrite rev_app_distr.
  assert (has_prefix (rev p ++ rev a) (rev p) = true) as E.
  { apply has_prefix_iff. exists (rev a). reflexivity. }
  rewrite E, app_length, Nat.add_sub, firstn_app, firstn_all, Nat.sub_diag. simpl. apply app_nil_r.
Qed.

(* the text filepath.Join(b, n) puts in front of a proper last component *)
Definition dir_prefix (b : str) : str :=
  match cc b with
  | [] => [sl]
  | L => sl :: join_sl L ++ [sl]
  end.

Lemma join_proper_string : forall b n, is_abs b = true -> proper n -> join [b; n] = dir_prefix b ++ n.
Proof.
  intros b n HB P.
  assert (b <> []) as NE by (destruct b; [discriminate | discriminate]).
  pose proof (cc_join_abs b n HB) as C. destruct (proper_ups_downs n P) as [U D].
  rewrite U, D, Nat.sub_0_r, firstn_all in C.
  pose proof (join_abs_is_abs b n HB) as A.
  assert (join [b; n] = clean (join [b; n])) as Cl.
  { rewrite join2 by assumption. symmetry. apply clean_idem. }
  rewrite Cl. unfold clean. rewrite A, C. unfold dir_prefix.
  destruct (cc b) as [|c L]; [reflexivity|].
  change (render true ((c :: L) ++ [n])) with (sl :: join_sl ((c :: L) ++ [n])).
  rewrite join_sl_snoc by discriminate. simpl. rewrite <- app_assoc. reflexivity.
Qed.

Lemma cc_snoc_sl : forall a, a <> [] -> cc (a ++ [sl]) = cc a.
Proof.
  intros a NE. unfold cc. rewrite is_abs_app by assumption.
  rewrite split_app_sl. unfold ccomps. rewrite crun_app. reflexivity.
Qed.

Lemma dir_prefix_props : forall b, is_abs b = true ->
  is_abs (dir_prefix b) = true /\ cc (dir_prefix b) = cc b.
Proof.
  intros b HB. unfold dir_prefix. pose proof (cc_wf b) as W. rewrite HB in W.
  destruct (cc b) as [|c L] eqn:E; [split; reflexivity|]. split; [reflexivity|].
  change (sl :: join_sl (c :: L) ++ [sl]) with (render true (c :: L) ++ [sl]).
  rewrite cc_snoc_sl by discriminate. apply cc_render. assumption.
Qed.

Lemma drop_while_all : forall f l r, forallb f l = true -> drop_while f (l ++ r) = drop_while f r.
Proof.
  induction l as [|c l IH]; intros r F; [reflexivity|].
  simpl in F. apply andb_true_iff in F. destruct F as [Fc F]. simpl. rewrite Fc. apply IH. assumption.
Qed.

Lemma upto_last_slash_name : forall a n, no_slash n -> upto_last_slash (a ++ sl :: n) = a ++ [sl].
Proof.
  intros a n NS. unfold upto_last_slash. rewrite rev_app_distr. simpl rev. rewrite <- app_assoc.
  rewrite drop_while_all.
  - simpl. rewrite rev_involutive. reflexivity.
  - apply forallb_forall. intros c I. apply in_rev in I. apply negb_true_iff.
    unfold is_sl. destruct (Ascii.eqb c sl) eqn:E; [|reflexivity].
    apply Ascii.eqb_eq in E. subst. contradiction.
Qed.

Lemma dir_prefix_ends : forall b, exists a, dir_prefix b = a ++ [sl].
Proof.
  intro b. unfold dir_prefix. destruct (cc b) as [|c L].
  - exists []. reflexivity.
  - exists (sl :: join_sl (c :: L)). reflexivity.
Qed.

Lemma dir_of_member : forall b n, is_abs b = true -> no_slash n ->
  is_abs (dir (dir_prefix b ++ n)) = true /\ cc (dir (dir_prefix b ++ n)) = cc b.
Proof.
  intros b n HB NS. destruct (dir_prefix_ends b) as [a E].
  destruct (dir_prefix_props b HB) as [A C].
  unfold dir. rewrite E, <- app_assoc. simpl app. rewrite upto_last_slash_name by assumption.
  rewrite <- E, clean_abs, cc_clean. split; assumption.
Qed.

Lemma hex_ok_chars : forall h, hex_ok h = true -> forallb is_hex_char h = true.
Proof. intros h H. unfold hex_ok in H. apply andb_true_iff in H. apply H. Qed.

(* the member and the uncompressed tar, for a datahash that decodes *)
Lemma member_in_dir : forall b h, is_abs b = true -> forallb is_hex_char h = true ->
  cc (cache_member_path b h) = cc b ++ [h ++ dat_suffix] /\
  cache_member_tar b h = dir_prefix b ++ (h ++ tar_suffix) /\
  cc (cache_member_tar b h) = cc b ++ [h ++ tar_suffix].
Proof.
  intros b h HB F.
  destruct dat_suffix_ok as [N1 L1]. destruct tar_suffix_ok as [N2 L2].
  pose proof (hex_name_proper h _ F N1 L1) as P1. pose proof (hex_name_proper h _ F N2 L2) as P2.
  assert (forall n, proper n -> cc (join [b; n]) = cc b ++ [n]) as CJ.
  { intros n P. rewrite cc_join_abs by assumption. destruct (proper_ups_downs n P) as [U D].
    rewrite U, D, Nat.sub_0_r, firstn_all. reflexivity. }
  unfold cache_member_tar, cache_member_path. fold dat_suffix.
  split; [apply CJ; assumption|].
  assert (trim_suffix (join [b; h ++ dat_suffix]) (la cached_tar_trim) = dir_prefix b ++ (h ++ tar_suffix)) as T.
  { rewrite join_proper_string by assumption. rewrite dat_suffix_split.
    rewrite !app_assoc. rewrite trim_suffix_app. reflexivity. }
  split; [exact T|]. rewrite T, <- join_proper_string by assumption. apply CJ. assumption.
Qed.

(* everything cachedPackage creates or replaces lies in the cache directory *)
Theorem cache_member_confined : forall b datahash dat_exists p, is_abs b = true ->
  In (true, p) (cached_package_touches b datahash dat_exists) -> under b p.
Proof.
  intros b h de p HB I. unfold cached_package_touches in I.
  change cached_hex_before_data with true in I.
  destruct I as [I|I]; [discriminate|].
  destruct (de && hex_ok h) eqn:G; [|contradiction].
  apply andb_true_iff in G. destruct G as [_ G]. apply hex_ok_chars in G.
  destruct (member_in_dir b h HB G) as [_ [T CT]].
  destruct tar_suffix_ok as [N2 L2]. pose proof (hex_name_proper h _ G N2 L2) as P2.
  destruct I as [I|[I|[I|[I|[]]]]]; try discriminate; inversion I; subst p; clear I.
  - (* the temporary file's directory: filepath.Dir(TarFile) *)
    rewrite T. destruct (dir_of_member b (h ++ tar_suffix) HB (proper_no_slash _ P2)) as [A C].
    split; [rewrite A, HB; reflexivity | exists []; rewrite C, app_nil_r; reflexivity].
  - (* TarFile itself *)
    split.
    + rewrite T. destruct (dir_prefix_props b HB) as [A _]. destruct (dir_prefix_ends b) as [a E].
      rewrite HB. destruct (dir_prefix b) as [|c r]; [destruct a; discriminate|].
      simpl in A. simpl. symmetry. exact A.
    + exists [h ++ tar_suffix]. exact CT.
Qed.

(* a datahash that does not decode is only ever os.Stat'ed *)
Lemma cache_member_nonhex_stat_only : forall b h de, hex_ok h = false ->
  cached_package_touches b h de = [(false, cache_member_path b h)].
Proof.
  intros b h de H. unfold cached_package_touches. change cached_hex_before_data with true.
  rewrite H, andb_false_r. reflexivity.
Qed.

(* ... and that Stat can be aimed at a file outside the cache directory *)
Lemma cache_member_stat_outside : exists b h,
  is_abs b = true /\ hex_ok h = false /\ ~ under b (cache_member_path b h) /\
  cache_member_path b h = la "/t/outside/x.dat.tar.gz".
Proof.
  exists (la "/t/cache/repo/x86_64/p-1.0-r0"), (la "../../../../outside/x").
  split; [reflexivity|]. split; [reflexivity|]. split; [|vm_compute; reflexivity].
  intro U. apply underb_iff in U. vm_compute in U. discriminate.
Qed.

(* what apko itself moves into the cache passed verifyExpanded: its single
   datahash value is empty or the data section's own hex sha256, so it decodes *)
Lemma verified_datahash_decodes : forall values got d,
  hex_ok got = true -> verify_datahash_accepts values got = true -> values = [d] -> hex_ok d = true.
Proof.
  intros values got d HG V E. subst values. simpl in V. rewrite andb_true_r in V.
  apply orb_true_iff in V. destruct V as [V|V]; apply str_eqb_eq in V; subst d; [reflexivity | assumption].
Qed.

(* the model's rebuild flag is "a member is there and the datahash decodes" *)
Lemma cached_rebuilds_spec : forall h de, cached_rebuilds h de = de && hex_ok h.
Proof. intros. unfold cached_rebuilds. change cached_hex_before_data with true. reflexivity. Qed.
