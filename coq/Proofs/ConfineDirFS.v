(* C18 over the OPERATIONAL model of the directory-backed filesystem.

   Model/DirFS.v (written for C17, imported here read-only) transcribes, for every
   FullFS method of dirFS, which of the two sides — the in-memory overlay and the
   host directory — is asked, in which order, and whose error wins.  The host is
   one reference-filesystem step per os.* call on the name filepath.Join(base,
   name) leaves relative to the base ([hp]).  This file proves about that model:

     A. which methods have the host execute their call BEFORE the overlay is
        asked ([host_first]: whatever the overlay holds or answers, the host
        state after the step is the host call's), and which are protected by the
        overlay's refusal ([tree_first]); the ordering is the root of C18-F1;
     B. the host state changes only through host calls on the operation's own
        names; for names without a ".." component those calls stay below the
        base — in C17's terms ([climbs] = false) and in C18's lexical terms
        ([under b (dirfs_host_path b name)]);
     C. the two models agree on what filepath.Join(base, name) does to a name:
        C17's element loop ([clean_loop]) computes C18's [ups] / [downs]. *)
From Coq Require Import List String Ascii Bool Arith Lia.
From Apko Require Import Base.Prelude Model.MemFS Spec.FsSpec Model.DirFS.
From Apko Require Import Base.C18Path Model.Confine Proofs.ConfineProofs.
Import ListNotations.
Open Scope string_scope. Open Scope list_scope.

(* ---- A. which side is asked first ------------------------------------------------ *)

(* the os call comes first; Link tests its OLD name lexically before anything else *)
Definition host_first (o : op) : bool :=
  match o with
  | Mkdir _ _ | MkdirAll _ _ | Symlink _ _ | WriteFile _ _ _ | Chtimes _ _
  | Chmod _ _ | Chown _ _ _ | Mknod _ _ _ => true
  | Link old _ => negb (climbs old)
  | _ => false
  end.

(* the overlay is asked first and its error returned before the host is touched *)
Definition tree_first (o : op) : bool :=
  match o with
  | Create _ | Remove _ => true
  | OpenFile _ fl _ => f_creat fl
  | _ => false
  end.

(* reads, and operations on files that are already open *)
Definition passes_through (o : op) : bool :=
  match o with
  | OpenFile _ fl _ => negb (f_creat fl)
  | ReadFile _ | Read _ _ | ReadAt _ _ _ | Write _ _ | Seek _ _ _ | Close _ => true
  | _ => false
  end.

(* what the host has executed after a host-first method, whatever the overlay says
   (Mknod: unix.Mknod, and os.WriteFile of an empty file when that fails for another
   reason than EEXIST: fix bfd5027) *)
Definition host_after (h : st) (o : op) : st :=
  match o with
  | Mknod p _ _ =>
      if mknod_fallback (snd (host_call h o)) then fst (host_call h (WriteFile p [] 0%N))
      else fst (host_call h o)
  | _ => fst (host_call h o)
  end.

(* case analysis on every pair / test a step is made of *)
Ltac brk :=
  repeat (match goal with
          | |- context [match ?x with _ => _ end] => destruct x eqn:?
          end; cbn [fst snd d_host d_ov] in *);
  try reflexivity; try (split; reflexivity); try congruence.

Lemma host_first_step : forall d o, host_first o = true ->
  d_host (fst (dirfs_step d o)) = host_after (d_host d) o.
Proof.
  intros d o H. destruct o; cbn [host_first] in H; try discriminate;
    cbn [dirfs_step host_after]; unfold host_then_ov, host_ignored_then_ov.
  all: try (apply negb_true_iff in H; rewrite H).
  all: brk.
Qed.

Lemma tree_first_refused : forall d o, tree_first o = true ->
  is_failure (snd (ov_step (d_ov d) o)) = true ->
  d_host (fst (dirfs_step d o)) = d_host d /\ snd (dirfs_step d o) = snd (ov_step (d_ov d) o).
Proof.
  intros d o H F. destruct o; cbn [tree_first] in H; try discriminate;
    cbn [dirfs_step]; try rewrite H; unfold open_both, ov_then_host.
  all: destruct (ov_step (d_ov d) _) as [v1 r]; cbn [fst snd] in F; rewrite F; split; reflexivity.
Qed.

Lemma other_ops_keep_host : forall d o,
  host_first o = false -> tree_first o = false -> passes_through o = false ->
  d_host (fst (dirfs_step d o)) = d_host d.
Proof.
  intros d o H1 H2 H3.
  destruct o; cbn [host_first tree_first passes_through] in *; try discriminate;
    cbn [dirfs_step]; unfold only_ov.
  all: try (apply negb_false_iff in H1; rewrite H1).
  all: try (destruct (f_creat fl); discriminate).
  all: brk.
Qed.

(* C18-F1 in the operational model: from the initial state WriteFile("../escaped.txt")
   is answered "file does not exist" by the overlay — after the host has written *)
Definition w_escape : op := WriteFile [".."; "escaped.txt"] [1%N] 420%N.

Lemma host_touched_witness :
  host_first w_escape = true /\ climbs [".."; "escaped.txt"] = true /\
  snd (dirfs_step dinit w_escape) = OErr ENotExist /\
  d_host (fst (dirfs_step dinit w_escape)) <> d_host dinit.
Proof.
  repeat split; try (vm_compute; reflexivity).
  intro H. vm_compute in H. discriminate.
Qed.

(* ... while the same name through Create never reaches the host *)
Lemma tree_first_witness :
  tree_first (Create [".."; "escaped.txt"]) = true /\
  snd (dirfs_step dinit (Create [".."; "escaped.txt"])) = OErr ENotExist /\
  d_host (fst (dirfs_step dinit (Create [".."; "escaped.txt"]))) = d_host dinit.
Proof. repeat split; vm_compute; reflexivity. Qed.

(* ... unless an earlier MkdirAll entered a child literally named ".." *)
Lemma tree_first_enabled_witness :
  let d1 := fst (dirfs_step dinit (MkdirAll [".."; "d"] 493%N)) in
  snd (dirfs_step d1 (Create [".."; "d"; "f"])) = OOk /\
  d_host (fst (dirfs_step d1 (Create [".."; "d"; "f"]))) <> d_host d1.
Proof.
  split; [vm_compute; reflexivity|].
  intro H. vm_compute in H. discriminate.
Qed.

(* ---- B. the host changes only through calls on the operation's own names ----------- *)

Definition op_names (o : op) : list path :=
  match o with
  | Mkdir p _ | MkdirAll p _ | OpenFile p _ _ | Create p | ReadFile p | WriteFile p _ _
  | ReadDir p | Stat p | Lstat p | Symlink _ p | Readlink p | Remove p
  | Chmod p _ | Chown p _ _ | Chtimes p _ | Mknod p _ _ | Readnod p
  | SetXattr p _ _ | GetXattr p _ | RemoveXattr p _ | ListXattrs p => [p]
  | Link old new => [old; new]
  | Read _ _ | ReadAt _ _ _ | Write _ _ | Seek _ _ _ | Close _ => []
  end.

(* the names the host sees are the operation's, cleaned the way filepath.Join does *)
Lemma host_op_names : forall c, op_names (host_op c) = map hp (op_names c).
Proof. destruct c; reflexivity. Qed.

Lemma step_host_reach : forall d o,
  d_host (fst (dirfs_step d o)) = d_host d \/
  exists c, incl (op_names c) (op_names o) /\
            d_host (fst (dirfs_step d o)) = fst (host_step (d_host d) (host_op c)).
Proof.
  intros d o.
  destruct (host_first o) eqn:HF.
  - right. rewrite (host_first_step d o HF). unfold host_after.
    destruct o; cbn [host_first] in HF; try discriminate;
      try (eexists; split; [apply incl_refl | reflexivity]).
    destruct (mknod_fallback (snd (host_call (d_host d) (Mknod p perm dev)))).
    + exists (WriteFile p [] 0%N). split; [apply incl_refl | reflexivity].
    + eexists; split; [apply incl_refl | reflexivity].
  - destruct (tree_first o) eqn:TF.
    + destruct (is_failure (snd (ov_step (d_ov d) o))) eqn:F.
      * left. apply (tree_first_refused d o TF F).
      * right. exists o. split; [apply incl_refl|].
        destruct o; cbn [tree_first] in TF; try discriminate;
          cbn [dirfs_step]; try rewrite TF; unfold open_both, ov_then_host, host_call in *;
          destruct (ov_step (d_ov d) _) as [v1 r]; cbn [fst snd] in F; rewrite F; brk.
    + destruct (passes_through o) eqn:PT.
      * right. exists o. split; [apply incl_refl|].
        destruct o; cbn [passes_through] in PT; try discriminate;
          cbn [dirfs_step]; try (apply negb_true_iff in PT; rewrite PT);
          unfold only_host, host_call; brk.
      * left. apply other_ops_keep_host; assumption.
Qed.

(* ---- C. C17's element loop is C18's stack machine ---------------------------------- *)

Lemma eqb_la : forall a b : string, String.eqb a b = str_eqb (la a) (la b).
Proof.
  induction a as [|c a IH]; destruct b as [|c' b]; simpl; try reflexivity.
  rewrite IH. reflexivity.
Qed.

Lemma la_dd : la ".." = dd. Proof. reflexivity. Qed.

Lemma is_skip_la : forall c : string, (String.eqb c "" || String.eqb c ".") = is_skip (la c).
Proof. intro c. unfold is_skip. rewrite !eqb_la. reflexivity. Qed.

Lemma is_dd_la : forall c : string, String.eqb c ".." = is_dd (la c).
Proof. intro c. unfold is_dd. rewrite eqb_la. reflexivity. Qed.

Lemma rev_repeat : forall (A : Type) (x : A) n, rev (repeat x n) = repeat x n.
Proof.
  induction n as [|n IH]; [reflexivity|]. simpl. rewrite IH. symmetry. apply repeat_cons.
Qed.

Lemma clean_loop_crun : forall p acc k out,
  map la acc = out ++ repeat dd k -> Forall (fun c => is_dd c = false) out ->
  map la (clean_loop false acc p) = st_comps (crun false (k, out) (map la p)).
Proof.
  induction p as [|c p IH]; intros acc k out HA HO.
  - simpl. unfold st_comps. simpl. rewrite map_rev, HA, rev_app_distr, rev_repeat. reflexivity.
  - simpl. rewrite is_skip_la. unfold crun in *. simpl fold_left. unfold cstep at 2.
    destruct (is_skip (la c)) eqn:SK.
    + apply IH; assumption.
    + rewrite is_dd_la. destruct (is_dd (la c)) eqn:DD.
      * simpl fst; simpl snd. destruct acc as [|a acc'].
        -- (* nothing kept: k = 0, out = [] *)
           destruct out as [|o out']; [|simpl in HA; discriminate].
           destruct k; [|simpl in HA; discriminate].
           apply IH; [reflexivity | constructor].
        -- destruct out as [|o out'].
           ++ (* only leading ".." so far *)
              simpl in HA. destruct k as [|k']; [simpl in HA; discriminate|].
              simpl in HA. injection HA as Ha Hr.
              rewrite is_dd_la, Ha. simpl (is_dd dd).
              apply IH; [|constructor].
              simpl. rewrite Ha, Hr. reflexivity.
           ++ simpl in HA. injection HA as Ha Hr.
              inversion HO as [|? ? Ho HO']; subst.
              rewrite is_dd_la, Ho.
              apply IH; assumption.
      * simpl fst; simpl snd. apply IH.
        -- simpl. rewrite HA. reflexivity.
        -- constructor; assumption.
Qed.

(* the name as a string, and what makes a component list a strings.Split result *)
Definition pstr (p : path) : str := join_sl (map la p).
Definition wfpath (p : path) : Prop := p <> [] /\ Forall (fun c => no_slash (la c)) p.

Lemma split_pstr : forall p, wfpath p -> split (pstr p) = map la p.
Proof.
  intros p [NE F]. unfold pstr. apply split_join_sl.
  - destruct p; [contradiction | discriminate].
  - apply Forall_map. exact F.
Qed.

(* what filepath.Join(base, name) leaves of the name, in both models *)
Lemma models_agree : forall p, wfpath p ->
  map la (clean_loop false [] p) = repeat dd (ups (pstr p)) ++ downs (pstr p).
Proof.
  intros p W. rewrite (clean_loop_crun p [] 0 []); [|reflexivity | constructor].
  unfold ups, downs, st_comps. rewrite (split_pstr p W). reflexivity.
Qed.

Lemma crun_nodd : forall l k out, Forall (fun c => is_dd c = false) l ->
  fst (crun false (k, out) l) = k.
Proof.
  induction l as [|c l IH]; intros k out F; [reflexivity|].
  inversion F as [|? ? Hc F']; subst. unfold crun in *. simpl fold_left. unfold cstep at 2.
  destruct (is_skip c); [apply IH; assumption|]. rewrite Hc. apply IH; assumption.
Qed.

Lemma no_dotdot_ups : forall p, wfpath p -> ~ In ".." p -> ups (pstr p) = 0.
Proof.
  intros p W N. unfold ups. rewrite (split_pstr p W). apply crun_nodd.
  apply Forall_map. apply Forall_forall. intros c I.
  rewrite <- is_dd_la. destruct (String.eqb c "..") eqn:E; [|reflexivity].
  apply String.eqb_eq in E. subst. contradiction.
Qed.

Lemma downs_no_dd : forall s, Forall (fun c => is_dd c = false) (downs s).
Proof.
  intro s. unfold downs.
  assert (G : forall l k out, Forall (fun c => is_dd c = false) out ->
            Forall (fun c => is_dd c = false) (snd (crun false (k, out) l))).
  { induction l as [|c l IH]; intros k out F; [exact F|].
    unfold crun in *. simpl fold_left. unfold cstep at 2.
    destruct (is_skip c); [apply IH; assumption|].
    destruct (is_dd c) eqn:D.
    - simpl. destruct out as [|o out']; apply IH; [constructor | inversion F; assumption].
    - apply IH. constructor; assumption. }
  apply Forall_rev. apply G. constructor.
Qed.

Lemma no_dotdot_not_climbing : forall p, wfpath p -> ~ In ".." p -> climbs p = false.
Proof.
  intros p W N. unfold climbs.
  pose proof (models_agree p W) as M. rewrite (no_dotdot_ups p W N) in M. simpl in M.
  destruct (clean_loop false [] p) as [|c r]; [reflexivity|].
  simpl in M. pose proof (downs_no_dd (pstr p)) as D. rewrite <- M in D.
  inversion D as [|? ? Hc _]; subst. rewrite is_dd_la. exact Hc.
Qed.

(* the positive complement: an operation none of whose names has a ".." component
   changes the host only through a call whose every name stays below the base *)
Theorem dirfs_confined_operational : forall b d o, is_abs b = true ->
  Forall wfpath (op_names o) -> Forall (fun p => ~ In ".." p) (op_names o) ->
  d_host (fst (dirfs_step d o)) = d_host d \/
  exists c, d_host (fst (dirfs_step d o)) = fst (host_step (d_host d) (host_op c)) /\
            op_names (host_op c) = map hp (op_names c) /\
            Forall (fun p => climbs p = false /\ under b (dirfs_host_path b (pstr p))) (op_names c).
Proof.
  intros b d o HB W N. destruct (step_host_reach d o) as [H | [c [I H]]]; [left; exact H|].
  right. exists c. split; [exact H|]. split; [apply host_op_names|].
  apply Forall_forall. intros p Ip. apply I in Ip.
  rewrite Forall_forall in W, N. specialize (W p Ip). specialize (N p Ip). split.
  - apply no_dotdot_not_climbing; assumption.
  - apply dirfs_confined_when_not_climbing; [exact HB | apply no_dotdot_ups; assumption].
Qed.

(* the hypotheses are satisfiable, and the conclusion is not vacuous *)
Example dirfs_confined_operational_ex :
  wfpath ["etc"; "apk"; "world"] /\ ~ In ".." ["etc"; "apk"; "world"] /\
  hp ["etc"; "."; "apk"; ""; "world"] = ["etc"; "apk"; "world"] /\
  d_host (fst (dirfs_step dinit (MkdirAll ["etc"; "apk"] 493%N))) <> d_host dinit.
Proof.
  split; [split; [discriminate|]|].
  - repeat constructor; apply no_slashb_iff; reflexivity.
  - split; [|split; [reflexivity|]].
    + intros [H|[H|[H|[]]]]; discriminate.
    + intro H. vm_compute in H. discriminate.
Qed.

(* ---- names with ".." components that do not climb -------------------------------------------- *)

(* [ups (pstr p) = 0]: read as a relative path the name never goes above its start
   (a/../b, a/b/../../c); filepath.Join(base, name) cancels the ".." lexically *)
Lemma ups0_not_climbing : forall p, wfpath p -> ups (pstr p) = 0 -> climbs p = false.
Proof.
  intros p W U. unfold climbs.
  pose proof (models_agree p W) as M. rewrite U in M. simpl in M.
  destruct (clean_loop false [] p) as [|c r]; [reflexivity|].
  simpl in M. pose proof (downs_no_dd (pstr p)) as D. rewrite <- M in D.
  inversion D as [|? ? Hc _]; subst. rewrite is_dd_la. exact Hc.
Qed.

(* the widened positive complement: every name may contain "..", as long as it does
   not climb above the base lexically *)
Theorem dirfs_confined_operational_wide : forall b d o, is_abs b = true ->
  Forall wfpath (op_names o) -> Forall (fun p => ups (pstr p) = 0) (op_names o) ->
  d_host (fst (dirfs_step d o)) = d_host d \/
  exists c, d_host (fst (dirfs_step d o)) = fst (host_step (d_host d) (host_op c)) /\
            op_names (host_op c) = map hp (op_names c) /\
            Forall (fun p => climbs p = false /\ ~ In ".." (hp p) /\ under b (dirfs_host_path b (pstr p))) (op_names c).
Proof.
  intros b d o HB W N. destruct (step_host_reach d o) as [H | [c [I H]]]; [left; exact H|].
  right. exists c. split; [exact H|]. split; [apply host_op_names|].
  apply Forall_forall. intros p Ip. apply I in Ip.
  rewrite Forall_forall in W, N. specialize (W p Ip). specialize (N p Ip). split; [|split].
  - apply ups0_not_climbing; assumption.
  - (* what the host sees has no ".." left *)
    unfold hp, go_clean, as_path.
    pose proof (models_agree p W) as M. rewrite N in M. simpl in M.
    pose proof (downs_no_dd (pstr p)) as D. rewrite <- M in D.
    intro X.
    assert (G : forall l, Forall (fun c => is_dd c = false) (map la l) -> ~ In ".." l).
    { induction l as [|x l IH]; intros F E; [exact E|].
      inversion F as [|? ? Hx Fl]; subst. destruct E as [E|E].
      - subst x. rewrite <- is_dd_la in Hx. simpl in Hx. discriminate.
      - apply IH; assumption. }
    destruct (clean_loop false [] p) as [|c0 r] eqn:CL.
    + destruct X as [X|X]; [discriminate | exact X].
    + apply (G _ D). exact X.
  - apply dirfs_confined_when_not_climbing; assumption.
Qed.

Example dirfs_confined_operational_wide_ex :
  wfpath ["a"; ".."; "b"] /\ ups (pstr ["a"; ".."; "b"]) = 0 /\ hp ["a"; ".."; "b"] = ["b"] /\
  In ".." ["a"; ".."; "b"].
Proof.
  split; [split; [discriminate | repeat constructor; apply no_slashb_iff; reflexivity]|].
  split; [reflexivity|]. split; [reflexivity|]. right. left. reflexivity.
Qed.
