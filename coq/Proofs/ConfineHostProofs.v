(* C18 — proofs about dirFS on a host with a parent directory (Model/ConfineHost.v).

   A. trees: [node_at] / [upd_at] / [set_child]
   B. tameness: every symbolic link below the base has a relative target whose
      ".." components all come first and are no more than the link's directory is
      deep ([tame_target]); kept by every update that enters such links only
   C. the kernel's walk from a place below the base, over components that are
      tame at that depth, ends below the base ([kwalk_safe]); from "/" through the
      base ([kwalk_canon])
   D. every os call of a dirFS method on a name that does not climb touches places
      below the base only and keeps the tree tame
   E. the step and run theorems; the overlay plays no part in them
   F. the overlay's lookup refuses what climbs above its root lexically *)
From Coq Require Import List Ascii String Bool Arith Lia.
From Apko Require Import Base.Prelude Base.C18Path Generated.C18 Model.Confine Model.ConfineHost Proofs.ConfineProofs.
Import ListNotations.
Open Scope list_scope.

(* ---- A. trees ----------------------------------------------------------------------------- *)

Lemma node_at_app : forall p q t,
  node_at t (p ++ q) = match node_at t p with Some n => node_at n q | None => None end.
Proof.
  induction p as [|c p IH]; intros q t; [reflexivity|].
  simpl. destruct t as [| |ch]; try reflexivity.
  destruct (lookup_child ch c); [apply IH | reflexivity].
Qed.

Lemma node_at_snoc : forall t p ch c n,
  node_at t p = Some (NDir ch) -> lookup_child ch c = Some n -> node_at t (p ++ [c]) = Some n.
Proof. intros t p ch c n H L. rewrite node_at_app, H. simpl. rewrite L. reflexivity. Qed.

Lemma lookup_map_child_same : forall ch c f,
  lookup_child (map_child ch c f) c = option_map f (lookup_child ch c).
Proof.
  induction ch as [|[k x] ch IH]; intros c f; [reflexivity|].
  simpl. destruct (str_eqb k c) eqn:E; simpl; rewrite E; [reflexivity | apply IH].
Qed.

Lemma lookup_map_child_other : forall ch c c' f, c' <> c ->
  lookup_child (map_child ch c f) c' = lookup_child ch c'.
Proof.
  induction ch as [|[k x] ch IH]; intros c c' f N; [reflexivity|].
  simpl. destruct (str_eqb k c) eqn:E; simpl.
  - apply str_eqb_eq in E. subst k. destruct (str_eqb c c') eqn:E'; [|reflexivity].
    apply str_eqb_eq in E'. subst. contradiction.
  - destruct (str_eqb k c'); [reflexivity | apply IH; assumption].
Qed.

Lemma str_eq_dec : forall a b : str, {a = b} + {a <> b}.
Proof. intros a b. destruct (str_eqb a b) eqn:E; [left; apply str_eqb_eq | right; apply str_eqb_neq]; assumption. Qed.

Lemma upd_at_app : forall p q t f, upd_at t (p ++ q) f = upd_at t p (fun n => upd_at n q f).
Proof.
  induction p as [|c p IH]; intros q t f; [reflexivity|].
  simpl. destruct t as [| |ch]; try reflexivity.
  f_equal. clear -IH. induction ch as [|[k x] ch IHc]; [reflexivity|].
  simpl. destruct (str_eqb k c); [rewrite IH; reflexivity | rewrite IHc; reflexivity].
Qed.

(* the node at the updated place *)
Lemma node_at_upd_same : forall p t f n, node_at t p = Some n -> node_at (upd_at t p f) p = Some (f n).
Proof.
  induction p as [|c p IH]; intros t f n H; simpl in *.
  - inversion H; reflexivity.
  - destruct t as [| |ch]; try discriminate.
    rewrite lookup_map_child_same. destruct (lookup_child ch c) as [x|]; [|discriminate].
    simpl. apply IH. assumption.
Qed.

(* ---- B. tameness ------------------------------------------------------------------------------ *)

Definition nodd (l : list str) : bool := forallb (fun x => negb (is_dd x)) l.

(* components the kernel may walk from a directory [k] levels below the base
   without leaving it: ".." first, at most [k] of them, then none *)
Fixpoint tame_comps (k : nat) (l : list str) : bool :=
  match l with
  | [] => true
  | c :: r =>
      if is_skip c then tame_comps k r
      else if is_dd c then match k with O => false | S k' => tame_comps k' r end
      else nodd r
  end.

Definition tame_target (k : nat) (t : str) : bool :=
  negb (is_abs t) && tame_comps k (split t).

(* no ".." at all: tame at every depth *)
Definition flat_target (t : str) : bool := tame_target 0 t.

Lemma tame_comps_nodd : forall l k, nodd l = true -> tame_comps k l = true.
Proof.
  induction l as [|c r IH]; intros k H; [reflexivity|].
  simpl in *. apply andb_true_iff in H. destruct H as [Hc Hr].
  destruct (is_skip c); [apply IH; assumption|].
  apply negb_true_iff in Hc. rewrite Hc. assumption.
Qed.

Lemma nodd_app : forall a b, nodd (a ++ b) = nodd a && nodd b.
Proof. intros. unfold nodd. apply forallb_app. Qed.

Lemma tame_comps_app : forall l1 k l2, tame_comps k l1 = true -> nodd l2 = true -> tame_comps k (l1 ++ l2) = true.
Proof.
  induction l1 as [|c r IH]; intros k l2 H1 H2; simpl in *.
  - apply tame_comps_nodd. assumption.
  - destruct (is_skip c); [apply IH; assumption|].
    destruct (is_dd c).
    + destruct k; [discriminate | apply IH; assumption].
    + rewrite nodd_app, H1, H2. reflexivity.
Qed.

Lemma tame_comps_mono : forall l k k', k <= k' -> tame_comps k l = true -> tame_comps k' l = true.
Proof.
  induction l as [|c r IH]; intros k k' L H; [reflexivity|].
  simpl in *. destruct (is_skip c); [eapply IH; eassumption|].
  destruct (is_dd c); [|assumption].
  destruct k; [discriminate|]. destruct k'; [lia|]. eapply IH; [|eassumption]. lia.
Qed.

Lemma tame_target_mono : forall t k k', k <= k' -> tame_target k t = true -> tame_target k' t = true.
Proof.
  intros t k k' L H. unfold tame_target in *. apply andb_true_iff in H. destruct H as [A B].
  rewrite A. simpl. eapply tame_comps_mono; eassumption.
Qed.

(* [tok P j t]: [t] sits [j] levels below the base; every link in it satisfies
   [P] at the depth of its own directory *)
Section Tok.
  Variable P : nat -> str -> bool.

  Fixpoint tok (j : nat) (t : node) : bool :=
    match t with
    | NFile => true
    | NLink x => P (pred j) x
    | NDir ch => (fix go (l : list (str * node)) : bool :=
                    match l with [] => true | kv :: r => tok (S j) (snd kv) && go r end) ch
    end.

  Lemma tok_dir : forall j ch, tok j (NDir ch) = forallb (fun kv => tok (S j) (snd kv)) ch.
  Proof. intros j ch. induction ch as [|kv r IH]; [reflexivity|]. simpl in *. rewrite IH. reflexivity. Qed.

  Lemma tok_lookup : forall j ch c n, tok j (NDir ch) = true -> lookup_child ch c = Some n -> tok (S j) n = true.
  Proof.
    intros j ch c n H L. rewrite tok_dir in H. induction ch as [|[k x] r IH]; [discriminate|].
    simpl in *. apply andb_true_iff in H. destruct H as [Hx Hr].
    destruct (str_eqb k c); [inversion L; subst; assumption | apply IH; assumption].
  Qed.

  Lemma tok_at : forall p j t n, tok j t = true -> node_at t p = Some n -> tok (j + List.length p) n = true.
  Proof.
    induction p as [|c p IH]; intros j t n H A; simpl in *.
    - inversion A; subst. rewrite Nat.add_0_r. assumption.
    - destruct t as [| |ch]; try discriminate.
      destruct (lookup_child ch c) as [x|] eqn:L; [|discriminate].
      replace (j + S (List.length p)) with (S j + List.length p) by lia.
      eapply IH; [|exact A]. eapply tok_lookup; eassumption.
  Qed.

  Lemma tok_set_child : forall j ch c v,
    tok j (NDir ch) = true -> match v with Some n => tok (S j) n = true | None => True end ->
    tok j (NDir (set_child ch c v)) = true.
  Proof.
    intros j ch c v H V. rewrite tok_dir in *. induction ch as [|[k x] r IH]; simpl in *.
    - destruct v; [simpl; rewrite V; reflexivity | reflexivity].
    - apply andb_true_iff in H. destruct H as [Hx Hr].
      destruct (str_eqb k c).
      + destruct v; simpl; [rewrite V, Hr; reflexivity | assumption].
      + simpl. rewrite Hx. apply IH. assumption.
  Qed.

  Lemma tok_map_child : forall j ch c f,
    tok j (NDir ch) = true -> (forall n, tok (S j) n = true -> tok (S j) (f n) = true) ->
    tok j (NDir (map_child ch c f)) = true.
  Proof.
    intros j ch c f H F. rewrite tok_dir in *. induction ch as [|[k x] r IH]; simpl in *; [reflexivity|].
    apply andb_true_iff in H. destruct H as [Hx Hr].
    destruct (str_eqb k c); simpl.
    - rewrite (F _ Hx), Hr. reflexivity.
    - rewrite Hx. apply IH. assumption.
  Qed.

  Lemma tok_upd : forall p j t f,
    tok j t = true -> (forall n, tok (j + List.length p) n = true -> tok (j + List.length p) (f n) = true) ->
    tok j (upd_at t p f) = true.
  Proof.
    induction p as [|c p IH]; intros j t f H F; simpl in *.
    - rewrite Nat.add_0_r in F. apply F. assumption.
    - destruct t as [| |ch]; try assumption.
      apply tok_map_child; [assumption|].
      intros n Hn. apply IH; [assumption|].
      replace (S j + List.length p) with (j + S (List.length p)) by lia. assumption.
  Qed.

  Lemma tok_put : forall j c v d,
    tok j d = true -> match v with Some n => tok (S j) n = true | None => True end ->
    tok j (put_child c v d) = true.
  Proof.
    intros j c v d H V. destruct d as [| |ch]; try assumption. simpl. apply tok_set_child; assumption.
  Qed.
End Tok.

(* the two instances: depth-aware, and depth-free *)
Definition tameP : nat -> str -> bool := tame_target.
Definition flatP : nat -> str -> bool := fun _ t => flat_target t.

(* [good P bp h]: the base is a directory reached from "/" through plain
   directories, and below it every link satisfies [P] *)
Fixpoint canon (t : node) (p : pos) : bool :=
  match p with
  | [] => match t with NDir _ => true | _ => false end
  | c :: p' =>
      negb (is_skip c) && negb (is_dd c) &&
      match t with
      | NDir ch => match lookup_child ch c with Some (NDir ch') => canon (NDir ch') p' | _ => false end
      | _ => false
      end
  end.

Definition tame_at (P : nat -> str -> bool) (bp : pos) (h : node) : bool :=
  match node_at h bp with Some n => tok P 0 n | None => false end.

Definition good (P : nat -> str -> bool) (bp : pos) (h : node) : Prop :=
  canon h bp = true /\ tame_at P bp h = true.

Lemma canon_dir : forall p t, canon t p = true -> exists ch, node_at t p = Some (NDir ch).
Proof.
  induction p as [|c p IH]; intros t H; simpl in *.
  - destruct t as [| |ch]; try discriminate. eauto.
  - apply andb_true_iff in H. destruct H as [_ H].
    destruct t as [| |ch]; try discriminate.
    destruct (lookup_child ch c) as [[| |ch']|]; try discriminate. apply IH. assumption.
Qed.

Lemma canon_prefix : forall p r t, canon t (p ++ r) = true -> canon t p = true.
Proof.
  induction p as [|c p IH]; intros r t H; simpl in *.
  - destruct r; simpl in H; [assumption|].
    apply andb_true_iff in H. destruct H as [_ H]. destruct t; try discriminate. reflexivity.
  - apply andb_true_iff in H. destruct H as [A H]. rewrite A. simpl.
    destruct t as [| |ch]; try discriminate.
    destruct (lookup_child ch c) as [[| |ch']|]; try discriminate. eapply IH. eassumption.
Qed.

(* an update at or below the base that keeps directories directories keeps the way to the base *)
Lemma canon_upd : forall p t g,
  canon t p = true -> (forall ch, exists ch', g (NDir ch) = NDir ch') -> canon (upd_at t p g) p = true.
Proof.
  induction p as [|c p IH]; intros t g H G; simpl in *.
  - destruct t as [| |ch]; try discriminate. destruct (G ch) as [ch' E]. rewrite E. reflexivity.
  - apply andb_true_iff in H. destruct H as [A H]. rewrite A. simpl.
    destruct t as [| |ch]; try discriminate.
    rewrite lookup_map_child_same.
    destruct (lookup_child ch c) as [[| |ch']|] eqn:L; try discriminate. simpl.
    specialize (IH (NDir ch') g H G). simpl in IH.
    destruct p as [|c' p'].
    + simpl in *. destruct (G ch') as [ch'' E]. rewrite E. reflexivity.
    + simpl upd_at in *. exact IH.
Qed.

Lemma upd_dir_stays_dir : forall d f ch, (forall ch0, exists ch1, f (NDir ch0) = NDir ch1) ->
  exists ch', upd_at (NDir ch) d f = NDir ch'.
Proof. intros d f ch F. destruct d as [|c d]; simpl; [apply F | eauto]. Qed.

Lemma put_child_dir : forall c v ch0, exists ch1, put_child c v (NDir ch0) = NDir ch1.
Proof. intros. simpl. eauto. Qed.

(* an update below the base by a function that keeps [tok] keeps [good] *)
Lemma good_upd : forall P bp h d f,
  good P bp h ->
  (forall ch0, exists ch1, f (NDir ch0) = NDir ch1) ->
  (forall n, tok P (List.length d) n = true -> tok P (List.length d) (f n) = true) ->
  good P bp (upd_at h (bp ++ d) f).
Proof.
  intros P bp h d f [C T] FD FT. rewrite upd_at_app. split.
  - apply canon_upd; [assumption|]. intro ch. apply upd_dir_stays_dir. assumption.
  - unfold tame_at in *. destruct (canon_dir _ _ C) as [ch E]. rewrite E in T.
    rewrite (node_at_upd_same _ _ _ _ E). apply tok_upd; [assumption|]. simpl. assumption.
Qed.

Lemma good_add : forall P bp h d c n,
  good P bp h -> tok P (S (List.length d)) n = true -> good P bp (add_at h (bp ++ d) c n).
Proof.
  intros P bp h d c n G N. unfold add_at. apply good_upd; [assumption | apply put_child_dir |].
  intros m M. apply tok_put; assumption.
Qed.

Lemma removelast_app_ne : forall (A : Type) (a b : list A), b <> [] -> removelast (a ++ b) = a ++ removelast b.
Proof. intros. apply removelast_app. assumption. Qed.

Lemma good_del : forall P bp h d, good P bp h -> d <> [] -> good P bp (del_at h (bp ++ d)).
Proof.
  intros P bp h d G N. unfold del_at. rewrite removelast_app_ne by assumption.
  apply good_upd; [assumption | apply put_child_dir |].
  intros m M. apply tok_put; [assumption | exact I].
Qed.

(* what lies below the base *)
Lemma good_at : forall P bp h d n, good P bp h -> node_at h (bp ++ d) = Some n -> tok P (List.length d) n = true.
Proof.
  intros P bp h d n [C T] A. unfold tame_at in T. rewrite node_at_app in A.
  destruct (node_at h bp) as [B|]; [|discriminate].
  apply (tok_at P d 0 B n T A).
Qed.

(* ---- C. the kernel's walk ------------------------------------------------------------------------ *)

Lemma tame_P_at_link : forall P bp h d c ch x,
  (forall k t, P k t = true -> tame_target k t = true) ->
  good P bp h -> node_at h (bp ++ d) = Some (NDir ch) -> lookup_child ch c = Some (NLink x) ->
  tame_target (List.length d) x = true.
Proof.
  intros P bp h d c ch x PT G A L.
  assert (A' : node_at h (bp ++ (d ++ [c])) = Some (NLink x)).
  { rewrite app_assoc. eapply node_at_snoc; eassumption. }
  pose proof (good_at P bp h (d ++ [c]) (NLink x) G A') as T.
  simpl in T. rewrite app_length in T. simpl in T.
  replace (pred (List.length d + 1)) with (List.length d) in T by lia.
  apply PT. assumption.
Qed.

(* the path ends in a proper name (after it, nothing) *)
Definition ends_proper (comps : list str) : Prop :=
  exists l c, comps = l ++ [c] /\ is_skip c = false /\ is_dd c = false.

Lemma ends_proper_tail : forall c0 rest, ends_proper (c0 :: rest) -> rest <> [] -> ends_proper rest.
Proof.
  intros c0 rest [l [c [E [S D]]]] N. destruct l as [|x l'].
  - simpl in E. inversion E; subst. contradiction.
  - simpl in E. inversion E; subst. exists l', c. auto.
Qed.

Lemma ends_proper_head : forall c0 rest, ends_proper (c0 :: rest) -> (is_skip c0 = true \/ is_dd c0 = true) -> rest <> [].
Proof.
  intros c0 rest [l [c [E [S D]]]] H N. subst rest. destruct l as [|x l'].
  - simpl in E. inversion E; subst. destruct H; congruence.
  - simpl in E. inversion E. destruct l'; discriminate.
Qed.

Lemma ends_proper_app : forall a rest, ends_proper rest -> ends_proper (a ++ rest).
Proof. intros a rest [l [c [E [S D]]]]. exists (a ++ l), c. subst. rewrite app_assoc. auto. Qed.

Lemma all_skip_ends_proper : forall rest, ends_proper rest -> all_skip rest = false.
Proof.
  intros rest [l [c [E [S D]]]]. subst. unfold all_skip. rewrite forallb_app. simpl. rewrite S.
  rewrite andb_false_r. reflexivity.
Qed.

(* what a walk that starts below the base, over components tame at that depth, can
   answer; a walk that does not follow the last component and ends in a proper
   name finds something strictly below the base *)
Definition safe_res (bp : pos) (h : node) (fl : bool) (comps : list str) (r : kres) : Prop :=
  match r with
  | KFound q n => exists d, q = bp ++ d /\ node_at h q = Some n /\ (fl = false -> ends_proper comps -> d <> [])
  | KAbsent par c => exists d ch, par = bp ++ d /\ node_at h par = Some (NDir ch) /\ lookup_child ch c = None
  | KErr => True
  end.

Lemma safe_res_weaken : forall bp h fl comps comps' r,
  (ends_proper comps' -> ends_proper comps) -> safe_res bp h fl comps r -> safe_res bp h fl comps' r.
Proof.
  intros bp h fl comps comps' r W S. destruct r as [q n|par c|]; simpl in *; [|assumption|exact I].
  destruct S as [d [E [A N]]]. exists d. repeat split; auto.
Qed.

Lemma kwalk_safe : forall P bp h,
  (forall k t, P k t = true -> tame_target k t = true) -> good P bp h ->
  forall fuel d comps fl, tame_comps (List.length d) comps = true ->
  safe_res bp h fl comps (kwalk fuel h (bp ++ d) comps fl).
Proof.
  intros P bp h PT G. induction fuel as [|f IH]; intros d comps fl TC; [exact I|].
  destruct comps as [|c rest].
  - simpl. destruct (node_at h (bp ++ d)) as [n|] eqn:A; [|exact I]. exists d. split; [reflexivity|]. split; [assumption|].
    intros _ [l [c [E _]]]. destruct l; discriminate.
  - simpl kwalk. simpl in TC. destruct (is_skip c) eqn:SK.
    { eapply safe_res_weaken; [|apply IH; assumption].
      intro EP. eapply ends_proper_tail; [exact EP|]. eapply ends_proper_head; [exact EP | left; assumption]. }
    destruct (node_at h (bp ++ d)) as [[| |ch]|] eqn:A; try exact I.
    destruct (is_dd c) eqn:DD.
    + destruct d as [|d0 d'] eqn:Ed; [simpl in TC; discriminate|].
      rewrite <- Ed in *. assert (NE : d <> []) by (subst; discriminate).
      rewrite removelast_app_ne by assumption.
      eapply safe_res_weaken; [|apply IH].
      * intro EP. eapply ends_proper_tail; [exact EP|]. eapply ends_proper_head; [exact EP | right; assumption].
      * assert (L : List.length d = S (List.length (removelast d))).
        { rewrite (app_removelast_last d0 NE) at 1. rewrite app_length. simpl. lia. }
        rewrite L in TC. exact TC.
    + assert (STEP : forall n0, lookup_child ch c = Some n0 ->
                safe_res bp h fl (c :: rest) (kwalk f h ((bp ++ d) ++ [c]) rest fl)).
      { intros n0 L.
        destruct rest as [|r0 rest'].
        - (* the last component: found at d ++ [c] *)
          destruct f as [|f']; [exact I|]. simpl.
          rewrite (node_at_snoc h (bp ++ d) ch c n0 A L).
          exists (d ++ [c]). split; [symmetry; apply app_assoc|]. split; [eapply node_at_snoc; eassumption|].
          intros _ _ N. destruct d; discriminate.
        - rewrite <- app_assoc. eapply safe_res_weaken; [|apply IH; apply tame_comps_nodd; assumption].
          intro EP. eapply ends_proper_tail; [exact EP | discriminate]. }
      destruct (lookup_child ch c) as [[|x|ch']|] eqn:L.
      * apply (STEP NFile eq_refl).
      * (* a link *)
        destruct (all_skip rest && negb fl) eqn:AS.
        -- exists (d ++ [c]). split; [symmetry; apply app_assoc|]. split; [eapply node_at_snoc; eassumption|].
           intros _ _ N. destruct d; discriminate.
        -- destruct (str_eqb x []); [exact I|].
           pose proof (tame_P_at_link P bp h d c ch x PT G A L) as TT.
           unfold tame_target in TT. apply andb_true_iff in TT. destruct TT as [NA TT].
           apply negb_true_iff in NA. rewrite NA.
           pose proof (IH d (split x ++ rest) fl (tame_comps_app _ _ _ TT TC)) as S.
           destruct (kwalk f h (bp ++ d) (split x ++ rest) fl) as [q n|par c'|]; simpl in *; [|assumption|exact I].
           destruct S as [d' [E [A' N]]]. exists d'. split; [assumption|]. split; [assumption|].
           intros F EP. apply N; [assumption|]. apply ends_proper_app.
           subst fl. rewrite andb_true_r in AS.
           destruct rest as [|r0 rest']; [discriminate|].
           eapply ends_proper_tail; [exact EP | discriminate].
      * apply (STEP (NDir ch') eq_refl).
      * destruct (all_skip rest); [|exact I]. exists d, ch. repeat split; assumption.
Qed.

(* from "/" through the base: plain directories all the way *)
Lemma kwalk_canon : forall h p2 p1 t,
  node_at h p1 = Some t -> canon t p2 = true ->
  forall f l fl, kwalk f h p1 (p2 ++ l) fl = KErr \/ exists f', kwalk f h p1 (p2 ++ l) fl = kwalk f' h (p1 ++ p2) l fl.
Proof.
  intros h. induction p2 as [|c p2 IH]; intros p1 t A C f l fl.
  - right. exists f. rewrite app_nil_r. reflexivity.
  - simpl in C. apply andb_true_iff in C. destruct C as [C1 C]. apply andb_true_iff in C1. destruct C1 as [SK DD].
    apply negb_true_iff in SK. apply negb_true_iff in DD.
    destruct t as [| |ch]; try discriminate.
    destruct (lookup_child ch c) as [[| |ch']|] eqn:L; try discriminate.
    destruct f as [|f0]; [left; reflexivity|].
    simpl. rewrite SK, A, DD, L.
    assert (A' : node_at h (p1 ++ [c]) = Some (NDir ch')) by (eapply node_at_snoc; eassumption).
    destruct (IH (p1 ++ [c]) (NDir ch') A' C f0 l fl) as [E | [f' E]].
    + left. assumption.
    + right. exists f'. rewrite E. rewrite <- app_assoc. reflexivity.
Qed.

(* the walk a host call makes: from "/", the base, then components without ".." *)
Lemma kwalk_host_safe : forall P bp h d fl f,
  (forall k t, P k t = true -> tame_target k t = true) -> good P bp h -> nodd d = true ->
  safe_res bp h fl d (kwalk f h [] (bp ++ d) fl).
Proof.
  intros P bp h d fl f PT G ND. destruct G as [C T].
  destruct (kwalk_canon h bp [] h eq_refl C f d fl) as [E | [f' E]]; rewrite E; [exact I|].
  pose proof (kwalk_safe P bp h PT (conj C T) f' [] d fl) as S. rewrite app_nil_r in S.
  apply S. apply tame_comps_nodd. assumption.
Qed.

(* a prefix of the way to the base: a plain directory, or out of fuel *)
Lemma kwalk_canon_prefix : forall h bp p r fl f,
  canon h bp = true -> bp = p ++ r ->
  kwalk f h [] p fl = KErr \/ exists ch, kwalk f h [] p fl = KFound p (NDir ch).
Proof.
  intros h bp p r fl f C E. subst bp. pose proof (canon_prefix p r h C) as Cp.
  pose proof (kwalk_canon h p [] h eq_refl Cp f [] fl) as K. rewrite app_nil_r in K.
  destruct K as [K | [f' K]]; rewrite K; [left; reflexivity|].
  simpl. destruct (canon_dir _ _ Cp) as [ch A].
  destruct f'; [left; reflexivity|]. right. exists ch. simpl. rewrite A. reflexivity.
Qed.

(* ---- D. the os calls ------------------------------------------------------------------------------ *)

Local Opaque kfuel.

Definition under_all (bp : pos) (ts : list pos) : Prop := Forall (fun q => cprefix bp q) ts.

(* the host afterwards is still good, and every place touched lies at or below the base *)
Definition call_safe (P : nat -> str -> bool) (bp : pos) (r : hres) : Prop :=
  good P bp (fst (fst r)) /\ under_all bp (snd r).

Lemma proper_ends : forall d, Forall proper d -> d <> [] -> ends_proper d.
Proof.
  intros d F N. destruct (exists_last N) as [l [c E]]. subst. exists l, c. split; [reflexivity|].
  apply Forall_app in F. destruct F as [_ F]. inversion F as [|? ? [_ [S D]] _]; subst. auto.
Qed.

Lemma proper_nodd : forall d, Forall proper d -> nodd d = true.
Proof.
  intros d F. unfold nodd. apply forallb_forall. intros x I. rewrite Forall_forall in F.
  destruct (F x I) as [_ [_ D]]. rewrite D. reflexivity.
Qed.

Section Calls.
  Variable P : nat -> str -> bool.
  Hypothesis PT : forall k t, P k t = true -> tame_target k t = true.
  Variable bp : pos.

  Lemma under_one : forall d, under_all bp [bp ++ d].
  Proof. intro d. constructor; [exists d; reflexivity | constructor]. Qed.

  Lemma hfail_safe : forall h, good P bp h -> call_safe P bp (hfail h).
  Proof. intros h G. split; [exact G | constructor]. Qed.

  Lemma add_safe : forall h d c n, good P bp h -> tok P (S (List.length d)) n = true ->
    call_safe P bp (add_at h (bp ++ d) c n, true, [(bp ++ d) ++ [c]]).
  Proof.
    intros h d c n G N. split; simpl.
    - apply good_add; assumption.
    - rewrite <- app_assoc. apply under_one.
  Qed.

  Lemma h_write_safe : forall h d, good P bp h -> nodd d = true -> call_safe P bp (h_write h (bp ++ d)).
  Proof.
    intros h d G ND. unfold h_write.
    pose proof (kwalk_host_safe P bp h d true kfuel PT G ND) as S.
    destruct (kwalk kfuel h [] (bp ++ d) true) as [q n|par c|]; simpl in S.
    - destruct S as [d' [E _]]. subst q. destruct n; try (apply hfail_safe; assumption).
      split; [exact G | apply under_one].
    - destruct S as [d' [ch [E _]]]. subst par. apply add_safe; [assumption | reflexivity].
    - apply hfail_safe. assumption.
  Qed.

  Lemma h_new_safe : forall h d n, good P bp h -> nodd d = true ->
    (forall d' c, kwalk kfuel h [] (bp ++ d) false = KAbsent (bp ++ d') c -> tok P (S (List.length d')) n = true) ->
    call_safe P bp (match kwalk kfuel h [] (bp ++ d) false with
                    | KAbsent par c => (add_at h par c n, true, [par ++ [c]])
                    | _ => hfail h end).
  Proof.
    intros h d n G ND F.
    pose proof (kwalk_host_safe P bp h d false kfuel PT G ND) as S.
    destruct (kwalk kfuel h [] (bp ++ d) false) as [q m|par c|] eqn:K; simpl in S; try (apply hfail_safe; assumption).
    destruct S as [d' [ch [E _]]]. subst par. apply add_safe; [assumption|]. eapply F. reflexivity.
  Qed.

  Lemma h_mkdir_safe : forall h d, good P bp h -> nodd d = true -> call_safe P bp (h_mkdir h (bp ++ d)).
  Proof. intros. apply h_new_safe; auto. Qed.

  Lemma h_mknod_safe : forall h d, good P bp h -> nodd d = true -> call_safe P bp (h_mknod h (bp ++ d)).
  Proof. intros. apply h_new_safe; auto. Qed.

  Lemma h_symlink_safe : forall h t d, good P bp h -> nodd d = true ->
    (forall d' c, kwalk kfuel h [] (bp ++ d) false = KAbsent (bp ++ d') c -> P (List.length d') t = true) ->
    call_safe P bp (h_symlink h t (bp ++ d)).
  Proof. intros h t d G ND F. apply h_new_safe; auto. Qed.

  Lemma h_chmod_safe : forall h d, good P bp h -> nodd d = true -> call_safe P bp (h_chmod h (bp ++ d)).
  Proof.
    intros h d G ND. unfold h_chmod.
    pose proof (kwalk_host_safe P bp h d true kfuel PT G ND) as S.
    destruct (kwalk kfuel h [] (bp ++ d) true) as [q n|par c|]; simpl in S; try (apply hfail_safe; assumption).
    destruct S as [d' [E _]]. subst q. split; [exact G | apply under_one].
  Qed.

  Lemma h_link_safe : forall h dold dnew, good P bp h -> nodd dold = true -> nodd dnew = true ->
    (forall q x d' c, kwalk kfuel h [] (bp ++ dold) false = KFound q (NLink x) ->
                      kwalk kfuel h [] (bp ++ dnew) false = KAbsent (bp ++ d') c -> P (List.length d') x = true) ->
    call_safe P bp (h_link h (bp ++ dold) (bp ++ dnew)).
  Proof.
    intros h dold dnew G NO NN F. unfold h_link.
    pose proof (kwalk_host_safe P bp h dold false kfuel PT G NO) as SO.
    destruct (kwalk kfuel h [] (bp ++ dold) false) as [q n|par c|] eqn:KO; simpl in SO; try (apply hfail_safe; assumption).
    destruct SO as [dq [E _]]. subst q.
    pose proof (kwalk_host_safe P bp h dnew false kfuel PT G NN) as SN.
    destruct n as [|x|ch]; [| |apply hfail_safe; assumption];
      (destruct (kwalk kfuel h [] (bp ++ dnew) false) as [q' m|par c|] eqn:KN; simpl in SN; try (apply hfail_safe; assumption);
       destruct SN as [d' [ch' [E _]]]; subst par; split; simpl;
       [apply good_add; [assumption|] | rewrite <- app_assoc; constructor; [exists (d' ++ [c]); reflexivity | apply under_one]]).
    - reflexivity.
    - simpl. eapply F; reflexivity.
  Qed.

  Lemma h_remove_cases : forall h q n,
    match n, q with
    | NDir (_ :: _), _ => hfail h
    | _, [] => hfail h
    | _, _ => (del_at h q, true, [q])
    end = hfail h \/
    match n, q with
    | NDir (_ :: _), _ => hfail h
    | _, [] => hfail h
    | _, _ => (del_at h q, true, [q])
    end = (del_at h q, true, [q]).
  Proof. intros h q n. destruct n as [| |[|kv ch]]; destruct q; auto. Qed.

  Lemma h_remove_safe : forall h d, good P bp h -> nodd d = true -> ends_proper d -> call_safe P bp (h_remove h (bp ++ d)).
  Proof.
    intros h d G ND EP. unfold h_remove.
    pose proof (kwalk_host_safe P bp h d false kfuel PT G ND) as S.
    destruct (kwalk kfuel h [] (bp ++ d) false) as [q n|par c|]; simpl in S; try (apply hfail_safe; assumption).
    destruct S as [d' [E [_ N]]]. subst q. specialize (N eq_refl EP).
    assert (R : (match n with
                 | NDir (_ :: _) => hfail h
                 | _ => match bp ++ d' with [] => hfail h | _ => (del_at h (bp ++ d'), true, [bp ++ d']) end
                 end) = hfail h \/
                (match n with
                 | NDir (_ :: _) => hfail h
                 | _ => match bp ++ d' with [] => hfail h | _ => (del_at h (bp ++ d'), true, [bp ++ d']) end
                 end) = (del_at h (bp ++ d'), true, [bp ++ d'])).
    { destruct n as [| |[|kv ch]]; destruct (bp ++ d'); auto. }
    match goal with |- call_safe _ _ ?X => assert (X = hfail h \/ X = (del_at h (bp ++ d'), true, [bp ++ d'])) as R' end.
    { destruct n as [| |[|kv ch]]; destruct (bp ++ d'); auto. }
    destruct R' as [R' | R']; rewrite R'.
    - apply hfail_safe. assumption.
    - split; simpl; [apply good_del; assumption | apply under_one].
  Qed.

  (* os.MkdirAll above and at the base: nothing to create *)
  Lemma mkdirall_above : forall n h p r, canon h bp = true -> bp = p ++ r ->
    exists ok, h_mkdirall n h p = (h, ok, []).
  Proof.
    induction n as [|n IH]; intros h p r C E.
    - simpl. destruct (kwalk_canon_prefix h bp p r true kfuel C E) as [K | [ch K]]; rewrite K; unfold hfail; eauto.
    - simpl. destruct (kwalk_canon_prefix h bp p r true kfuel C E) as [K | [ch K]]; rewrite K; [|unfold hfail; eauto].
      destruct p as [|c0 p'] eqn:Ep.
      + unfold h_mkdir. destruct (kwalk_canon_prefix h bp [] bp false kfuel C eq_refl) as [K' | [ch' K']]; rewrite K'; unfold hfail; eauto.
      + rewrite <- Ep in *. assert (NE : p <> []) by (subst; discriminate).
        assert (E' : bp = removelast p ++ (last p [] :: r)).
        { rewrite E. rewrite (app_removelast_last [] NE) at 1. rewrite <- app_assoc. reflexivity. }
        destruct (IH h (removelast p) _ C E') as [ok R]. rewrite R.
        destruct ok; [|unfold hfail; eauto].
        unfold h_mkdir. destruct (kwalk_canon_prefix h bp p r false kfuel C E) as [K' | [ch' K']]; rewrite K'; unfold hfail; eauto.
  Qed.

  Lemma removelast_nodd : forall d, nodd d = true -> nodd (removelast d) = true.
  Proof.
    induction d as [|c d IH]; intro H; [reflexivity|].
    simpl in *. apply andb_true_iff in H. destruct H as [A B].
    destruct d; [reflexivity|]. simpl. simpl in IH. rewrite A. apply IH. assumption.
  Qed.

  Lemma match_ne : forall (A : Type) (l : list str) (a b : A), l <> [] ->
    match l with [] => a | _ :: _ => b end = b.
  Proof. intros A l a b N. destruct l; [contradiction | reflexivity]. Qed.

  (* the slow path of os.MkdirAll: the parent, then Mkdir *)
  Lemma mkdirall_step : forall n h d,
    (forall h d, good P bp h -> nodd d = true -> call_safe P bp (h_mkdirall n h (bp ++ d))) ->
    good P bp h -> nodd d = true ->
    call_safe P bp
      (let '(h1, ok, t1) := match bp ++ d with [] => (h, true, []) | _ => h_mkdirall n h (removelast (bp ++ d)) end in
       if ok then let '(h2, ok2, t2) := h_mkdir h1 (bp ++ d) in (h2, ok2, t1 ++ t2) else (h1, false, t1)).
  Proof.
    intros n h d IH G ND.
    assert (PAR : exists h1 ok t1,
              match bp ++ d with [] => (h, true, []) | _ => h_mkdirall n h (removelast (bp ++ d)) end = (h1, ok, t1) /\
              good P bp h1 /\ under_all bp t1).
    { destruct d as [|d0 d'] eqn:Ed.
      - rewrite app_nil_r.
        assert (bp = [] \/ bp <> []) as [Eb | NE] by (destruct bp; [left; reflexivity | right; discriminate]).
        + exists h, true, []. split; [rewrite Eb; reflexivity|]. split; [exact G | constructor].
        + assert (E' : bp = removelast bp ++ [last bp []]) by (apply app_removelast_last; assumption).
          destruct G as [C T].
          destruct (mkdirall_above n h (removelast bp) _ C E') as [ok R].
          exists h, ok, []. split; [rewrite (match_ne _ bp _ _ NE); exact R|]. split; [split; assumption | constructor].
      - rewrite <- Ed in *. assert (NE : d <> []) by (subst; discriminate).
        assert (NB : bp ++ d <> []) by (intro X; apply app_eq_nil in X; tauto).
        destruct (bp ++ d) as [|x y] eqn:EB; [contradiction|]. rewrite <- EB.
        rewrite removelast_app_ne by assumption.
        pose proof (IH h (removelast d) G (removelast_nodd d ND)) as S1.
        destruct (h_mkdirall n h (bp ++ removelast d)) as [[h1 ok] t1]. destruct S1 as [G1 U1].
        exists h1, ok, t1. repeat split; [apply G1 | apply G1 | exact U1]. }
    destruct PAR as [h1 [ok [t1 [E [G1 U1]]]]]. rewrite E.
    destruct ok; [|split; assumption].
    pose proof (h_mkdir_safe h1 d G1 ND) as M.
    destruct (h_mkdir h1 (bp ++ d)) as [[h2 ok2] t2]. destruct M as [G2 U2].
    split; [exact G2 | simpl in *; apply Forall_app; split; assumption].
  Qed.

  Lemma h_mkdirall_safe : forall n h d, good P bp h -> nodd d = true -> call_safe P bp (h_mkdirall n h (bp ++ d)).
  Proof.
    induction n as [|n IH]; intros h d G ND.
    - simpl. destruct (kwalk kfuel h [] (bp ++ d) true) as [q [| |ch]|par c|]; apply hfail_safe; assumption.
    - simpl. destruct (kwalk kfuel h [] (bp ++ d) true) as [q [| |ch]|par c|] eqn:K;
        try (apply hfail_safe; assumption); apply mkdirall_step; assumption.
  Qed.
End Calls.

(* ---- E. a step and a run of dirFS --------------------------------------------------------------------- *)

Lemma downs_proper : forall n, Forall proper (downs n).
Proof.
  intro n. unfold downs. apply Forall_rev.
  apply (crun_inv false (split n) 0 [] (split_no_slash n) (Forall_nil _)). intro; discriminate.
Qed.

Lemma hpath_nc : forall b n, is_abs b = true -> ups n = 0 -> hpath b n = cc b ++ downs n.
Proof.
  intros b n HB U. unfold hpath, dirfs_host_path. rewrite cc_join_abs by assumption.
  rewrite U, Nat.sub_0_r, firstn_all. reflexivity.
Qed.

Lemma link_target_split : forall b old t, is_abs b = true -> link_target b old = Some t ->
  exists r, cc t = cc b ++ r /\ nodd r = true.
Proof.
  intros b old t HB L. destruct (link_target_sound b old t L) as [EA [r E]].
  exists r. split; [assumption|]. apply proper_nodd.
  pose proof (cc_wf t) as W. rewrite <- EA, HB in W. apply wf_true_proper in W. rewrite E in W.
  apply Forall_app in W. tauto.
Qed.

(* names that do not climb (lexically: a/../b is fine); Remove: not the root itself *)
Definition names_ok (o : hop) : bool :=
  match o with
  | HWriteFile n | HMkdirAll n | HMkdir n | HCreate n | HChmod n | HMknod n => Nat.eqb (ups n) 0
  | HSymlink _ n => Nat.eqb (ups n) 0
  | HLink _ new => Nat.eqb (ups new) 0         (* the old name is tested by dirFS.Link itself *)
  | HRemove n => Nat.eqb (ups n) 0 && negb (match downs n with [] => true | _ => false end)
  end.

(* where the kernel puts a new link its target satisfies [P] *)
Definition fits (P : nat -> str -> bool) (b : str) (h : node) (o : hop) : Prop :=
  match o with
  | HSymlink t n => forall d' c, kwalk kfuel h [] (hpath b n) false = KAbsent (cc b ++ d') c -> P (List.length d') t = true
  | HLink old new =>
      forall t0 q x d' c, link_target b old = Some t0 -> kwalk kfuel h [] (cc t0) false = KFound q (NLink x) ->
        kwalk kfuel h [] (hpath b new) false = KAbsent (cc b ++ d') c -> P (List.length d') x = true
  | _ => True
  end.

Definition step_safe (P : nat -> str -> bool) (bp : pos) (r : xst * bool * list pos) : Prop :=
  good P bp (x_host (fst (fst r))) /\ under_all bp (snd r).

Lemma host_then_safe : forall P bp s r ovf, call_safe P bp r -> step_safe P bp (host_then s r ovf).
Proof.
  intros P bp s [[h1 ok] t] ovf [G U]. unfold host_then. destruct ok.
  - destruct (ovf (x_ov s)) as [v1 ok']. split; assumption.
  - split; assumption.
Qed.

Lemma ov_then_safe : forall P bp s r hf, good P bp (x_host s) -> call_safe P bp (hf (x_host s)) ->
  step_safe P bp (ov_then s r hf).
Proof.
  intros P bp s [v1 ok] hf G S. unfold ov_then. destruct ok.
  - destruct (hf (x_host s)) as [[h1 ok'] t]. destruct S as [G1 U1]. split; assumption.
  - split; [assumption | constructor].
Qed.

Theorem xstep_confined : forall P, (forall k t, P k t = true -> tame_target k t = true) ->
  forall b s o, is_abs b = true -> good P (cc b) (x_host s) -> names_ok o = true -> fits P b (x_host s) o ->
  step_safe P (cc b) (xstep b s o).
Proof.
  intros P PT b s o HB G NO F.
  destruct o as [n|n|n|n|t n|old new|n|n|n]; simpl in NO; unfold xstep;
    try (apply Nat.eqb_eq in NO; rewrite (hpath_nc b n HB NO);
         pose proof (proper_nodd _ (downs_proper n)) as ND).
  - apply host_then_safe. apply h_write_safe; assumption.
  - apply host_then_safe. apply h_mkdirall_safe; assumption.
  - apply host_then_safe. apply h_mkdir_safe; assumption.
  - apply ov_then_safe; [assumption|]. apply h_write_safe; assumption.
  - apply host_then_safe. apply h_symlink_safe; try assumption.
    intros d' c K. simpl in F. rewrite (hpath_nc b n HB NO) in F. eapply F. exact K.
  - apply Nat.eqb_eq in NO.
    destruct (link_target b old) as [t0|] eqn:L; [|split; [assumption | constructor]].
    destruct (link_target_split b old t0 HB L) as [r [E NR]].
    rewrite E, (hpath_nc b new HB NO). apply host_then_safe.
    apply h_link_safe; try assumption; [apply proper_nodd, downs_proper|].
    intros q x d' c KO KN. simpl in F. rewrite (hpath_nc b new HB NO) in F.
    eapply (F t0 q x d' c L); [rewrite E; exact KO | exact KN].
  - apply andb_true_iff in NO. destruct NO as [NO NE]. apply Nat.eqb_eq in NO. rewrite (hpath_nc b n HB NO).
    apply ov_then_safe; [assumption|]. apply h_remove_safe; try assumption.
    + apply proper_nodd, downs_proper.
    + apply proper_ends; [apply downs_proper|]. destruct (downs n); [discriminate | discriminate].
  - pose proof (h_chmod_safe P PT (cc b) (x_host s) (downs n) G ND) as S.
    destruct (h_chmod (x_host s) (cc b ++ downs n)) as [[h1 ok] t]. destruct (ov_chmod (x_ov s) n) as [v1 ok'].
    exact S.
  - pose proof (h_mknod_safe P PT (cc b) (x_host s) (downs n) G ND) as S.
    destruct (h_mknod (x_host s) (cc b ++ downs n)) as [[h1 ok] t]. destruct ok.
    + apply host_then_safe. exact S.
    + apply host_then_safe. apply h_write_safe; assumption.
Qed.

(* along a run: the conditions are asked of each operation in the state it meets *)
Fixpoint run_ok (P : nat -> str -> bool) (b : str) (s : xst) (ops : list hop) : Prop :=
  match ops with
  | [] => True
  | o :: r => names_ok o = true /\ fits P b (x_host s) o /\ run_ok P b (fst (fst (xstep b s o))) r
  end.

Theorem xrun_confined : forall P, (forall k t, P k t = true -> tame_target k t = true) ->
  forall b stop ops s, is_abs b = true -> good P (cc b) (x_host s) -> run_ok P b s ops ->
  good P (cc b) (x_host (fst (xrun b stop s ops))) /\
  Forall (fun r => under_all (cc b) (snd r)) (snd (xrun b stop s ops)).
Proof.
  intros P PT b stop. induction ops as [|o r IH]; intros s HB G R.
  - simpl. split; [assumption | constructor].
  - simpl in R. destruct R as [NO [F R]].
    pose proof (xstep_confined P PT b s o HB G NO F) as S.
    simpl. destruct (xstep b s o) as [[s1 ok] t]. destruct S as [G1 U1]. simpl in G1, U1, R.
    destruct (stop && negb ok).
    + simpl. split; [assumption | constructor; [assumption | constructor]].
    + specialize (IH s1 HB G1 R). destruct (xrun b stop s1 r) as [s2 rs]. simpl in *.
      destruct IH as [G2 U2]. split; [assumption | constructor; assumption].
Qed.

(* the static form: no symbolic link with a ".." in its target, before or made by the run *)
Definition flat_op (o : hop) : bool :=
  names_ok o && match o with HSymlink t _ => flat_target t | _ => true end.

Lemma flatP_tame : forall k t, flatP k t = true -> tame_target k t = true.
Proof. intros k t H. unfold flatP, flat_target in H. eapply tame_target_mono; [|exact H]. lia. Qed.

Lemma flat_fits : forall b s o, is_abs b = true -> good flatP (cc b) (x_host s) -> flat_op o = true ->
  fits flatP b (x_host s) o.
Proof.
  intros b s o HB G FO. unfold flat_op in FO. apply andb_true_iff in FO. destruct FO as [NO FT].
  destruct o; simpl; try exact I.
  - intros d' c _. exact FT.
  - intros t0 q x d' c L KO _.
    destruct (link_target_split b oldname t0 HB L) as [r [E NR]].
    pose proof (kwalk_host_safe flatP (cc b) (x_host s) r false kfuel flatP_tame G NR) as S.
    rewrite <- E, KO in S. simpl in S. destruct S as [dq [Eq [A _]]]. subst q.
    pose proof (good_at flatP (cc b) (x_host s) dq (NLink x) G A) as T. exact T.
Qed.

Theorem xrun_confined_flat : forall b stop ops s, is_abs b = true -> good flatP (cc b) (x_host s) ->
  forallb flat_op ops = true ->
  Forall (fun r => under_all (cc b) (snd r)) (snd (xrun b stop s ops)).
Proof.
  intros b stop ops s HB G FO.
  apply (xrun_confined flatP flatP_tame b stop ops s HB G).
  revert s G. induction ops as [|o r IH]; intros s G; [exact I|].
  simpl in FO. apply andb_true_iff in FO. destruct FO as [FO FR].
  simpl. assert (NO : names_ok o = true) by (unfold flat_op in FO; apply andb_true_iff in FO; tauto).
  pose proof (flat_fits b s o HB G FO) as F.
  split; [assumption|]. split; [assumption|].
  apply IH; [assumption|].
  apply (xstep_confined flatP flatP_tame b s o HB G NO F).
Qed.

(* ---- F. the overlay's lookup ------------------------------------------------------------------------------ *)

(* [get_pos] is [get_node] with the place of the node *)
Lemma pwalk_walk : forall ml root (rp : str -> nat -> option pos) (rn : str -> nat -> lres),
  (forall t d, match rp t d with
               | Some q => exists n, rn t d = LOk n /\ node_at root q = Some n
               | None => forall n, rn t d <> LOk n end) ->
  forall parts cur curn tr depth, node_at root cur = Some curn ->
    match pwalk ml root rp cur tr parts depth with
    | Some q => exists n, walk ml rn curn tr parts depth = LOk n /\ node_at root q = Some n
    | None => forall n, walk ml rn curn tr parts depth <> LOk n
    end.
Proof.
  intros ml root rp rn HR. induction parts as [|part rest IH]; intros cur curn tr depth A.
  - simpl. exists curn. split; [reflexivity | assumption].
  - simpl. destruct (str_eqb part []); [apply IH; assumption|].
    rewrite A. destruct curn as [| |ch]; try (intros n; discriminate).
    destruct (lookup_child ch part) as [x|] eqn:L; [|intros n; discriminate].
    assert (A' : node_at root (cur ++ [part]) = Some x) by (eapply node_at_snoc; eassumption).
    destruct x as [|target|ch'].
    + apply IH. assumption.
    + destruct (Nat.ltb ml (S depth)); [intros n; discriminate|].
      specialize (HR (if is_abs target then target else join [join_sl tr; target]) (S depth)).
      destruct (rp (if is_abs target then target else join [join_sl tr; target]) (S depth)) as [q|].
      * destruct HR as [m [R Aq]]. rewrite R. apply IH. assumption.
      * destruct (rn (if is_abs target then target else join [join_sl tr; target]) (S depth)) as [m| | |] eqn:R;
          try (intros n; discriminate). exfalso. apply (HR m). reflexivity.
    + apply IH. assumption.
Qed.

Lemma get_pos_get_node : forall fuel ml root path depth,
  match get_pos fuel ml root path depth with
  | Some q => exists n, get_node fuel ml root path depth = LOk n /\ node_at root q = Some n
  | None => forall n, get_node fuel ml root path depth <> LOk n
  end.
Proof.
  induction fuel as [|fuel IH]; intros ml root path depth; simpl; [intros n; discriminate|].
  destruct (str_eqb path [sl] || str_eqb path [dot]).
  - exists root. split; reflexivity.
  - apply pwalk_walk; [|reflexivity]. intros t d. apply IH.
Qed.

(* a clean relative path that begins with ".." names nothing in a tree whose root
   has no child called ".." *)
Lemma clean_rel_split : forall t, is_abs t = false -> clean t = t -> cc t <> [] -> split t = cc t.
Proof.
  intros t HA HC NE. rewrite <- HC at 1. unfold clean. rewrite HA.
  destruct (cc t) as [|x l] eqn:E; [contradiction|].
  unfold render. rewrite <- E. apply split_join_sl; [rewrite E; discriminate|].
  pose proof (cc_wf t) as W. eapply wf_no_slash. exact W.
Qed.

Lemma dd_not_proper : ~ proper dd.
Proof. intros [_ [_ D]]. discriminate. Qed.

Lemma hd_dd_rel : forall t, hd_error (cc t) = Some dd -> is_abs t = false.
Proof.
  intros t H. destruct (is_abs t) eqn:A; [|reflexivity]. exfalso.
  pose proof (cc_wf t) as W. rewrite A in W. apply wf_true_proper in W.
  destruct (cc t) as [|x l]; [discriminate|]. inversion H; subst. inversion W; subst.
  apply dd_not_proper. assumption.
Qed.

Lemma get_node_climbing : forall fuel ml ch t depth,
  lookup_child ch dd = None -> clean t = t -> hd_error (cc t) = Some dd ->
  forall n, get_node fuel ml (NDir ch) t depth <> LOk n.
Proof.
  intros fuel ml ch t depth ND HC HD n. pose proof (hd_dd_rel t HD) as HA.
  destruct fuel as [|fuel]; [discriminate|]. simpl.
  assert (NE : cc t <> []) by (intro E; rewrite E in HD; discriminate).
  assert (N1 : str_eqb t [sl] = false).
  { apply str_eqb_neq. intro E. subst. discriminate. }
  assert (N2 : str_eqb t [dot] = false).
  { apply str_eqb_neq. intro E. subst. discriminate. }
  rewrite N1, N2. simpl. rewrite (clean_rel_split t HA HC NE).
  destruct (cc t) as [|x l]; [contradiction|]. inversion HD; subst x.
  simpl. change (str_eqb dd []) with false. cbv iota. rewrite ND. discriminate.
Qed.

Lemma join_clean : forall l, join l = [] \/ clean (join l) = join l.
Proof.
  intro l. unfold join. destruct (drop_empty l); [left; reflexivity | right; apply clean_idem].
Qed.

(* The gate that confines Create / OpenFile(O_CREATE) / Remove: a walk that meets a
   relative link whose target, joined to the names traversed so far, still begins
   with ".." fails — whatever else the tree holds, as long as its root has no child
   literally called "..". *)
Theorem overlay_refuses_climbing_link : forall fuel ml ch chd traversed part rest depth target,
  lookup_child ch dd = None ->
  str_eqb part [] = false -> lookup_child chd part = Some (NLink target) -> is_abs target = false ->
  hd_error (cc (join [join_sl traversed; target])) = Some dd ->
  forall n, walk ml (get_node fuel ml (NDir ch)) (NDir chd) traversed (part :: rest) depth <> LOk n.
Proof.
  intros fuel ml ch chd tr part rest depth target ND NP L HA HD n.
  simpl. rewrite NP, L. destruct (Nat.ltb ml (S depth)); [discriminate|]. rewrite HA.
  destruct (get_node fuel ml (NDir ch) (join [join_sl tr; target]) (S depth)) as [m| | |] eqn:R; try discriminate.
  exfalso. destruct (join_clean [join_sl tr; target]) as [E | E].
  - rewrite E in HD. discriminate.
  - eapply (get_node_climbing fuel ml ch _ (S depth) ND E HD). exact R.
Qed.

(* ---- G. DirFS on a root that already has content ------------------------------------------------ *)

(* with an lstat the overlay is the image of the root: every entry by its own kind *)
Lemma mirror_lstat_id : forall h t cur, mirror false h cur t = t.
Proof.
  intro h. fix IH 1. intros t cur. destruct t as [|x|ch]; [reflexivity | reflexivity|].
  simpl. f_equal. induction ch as [|[k x] r IHr]; [reflexivity|].
  simpl. rewrite IH, IHr. reflexivity.
Qed.

Lemma xinit_is_lstat_image : forall b h, xinit_stat false b h = xinit b h.
Proof.
  intros b h. unfold xinit_stat, xinit. destruct (node_at h (cc b)); [rewrite mirror_lstat_id|]; reflexivity.
Qed.
