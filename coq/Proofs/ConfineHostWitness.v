(* C18 — witnesses on a concrete host: what the confinement theorems of
   Proofs/ConfineHostProofs.v need their hypotheses for (each escape is replayed on
   the real dirFS by the canary corpus), and that the hypotheses can be met. *)
From Coq Require Import List Ascii String Bool Arith Lia.
From Apko Require Import Base.Prelude Base.C18Path Generated.C18 Model.Confine Model.ConfineHost
  Proofs.ConfineProofs Proofs.ConfineHostProofs.
Import ListNotations.
Open Scope list_scope.

Definition s (x : string) : str := la x.

(* /n/T/root is the base; host directories called victim next to it and above it *)
Definition w_host : node :=
  NDir [(s "n", NDir [(s "T", NDir [(s "root", NDir [(s "existing.txt", NFile)]);
                                    (s "victim", NDir [(s "keep.txt", NFile)])]);
                      (s "victim", NDir [(s "keep.txt", NFile)])]);
        (s "victim", NDir [])].
Definition w_base : str := s "/n/T/root".
Definition w_init : xst := xinit w_base w_host.

Definition answers (r : xst * list (bool * list pos)) : list bool := map fst (snd r).
Definition touched (r : xst * list (bool * list pos)) : list (list pos) := map snd (snd r).
Definition outside_base (q : pos) : bool := negb (cprefixb (cc w_base) q).

(* F1: the name itself climbs; the host has written when the overlay says no *)
Definition w_f1 : list hop := [HWriteFile (s "../escaped.txt")].
(* F2: an absolute link to a host directory, a host-first method beneath it *)
Definition w_f2 : list hop := [HSymlink (s "/n/T/victim") (s "l"); HWriteFile (s "l/x")].
(* F6, absolute: the tree holds the same path below its root, so Create is accepted *)
Definition w_f6_abs : list hop :=
  [HMkdirAll (s "n/T/victim"); HSymlink (s "/n/T/victim") (s "l"); HCreate (s "l/pwned.txt")].
(* F6, unclean: a ".." in the target cancels a name that is itself a link *)
Definition w_f6_unclean : list hop :=
  [HMkdirAll (s "p/victim"); HSymlink (s "..") (s "p/a"); HSymlink (s "a/../victim") (s "p/l"); HCreate (s "p/l/pwned.txt")].
(* F6, detour: every target stays below the depth of the NAME it is made under,
   but d1/d2/up/l3 is physically the root's own entry *)
Definition w_f6_detour : list hop :=
  [HMkdirAll (s "d1/d2"); HSymlink (s "../..") (s "d1/d2/up"); HMkdirAll (s "d1/victim");
   HSymlink (s "../../victim") (s "d1/d2/up/l3"); HCreate (s "d1/d2/up/l3/pwned.txt")].
(* ... and Remove deletes there *)
Definition w_f6_remove : list hop :=
  [HMkdirAll (s "d1/d2"); HSymlink (s "../..") (s "d1/d2/up"); HMkdirAll (s "d1/victim"); HWriteFile (s "d1/victim/keep.txt");
   HSymlink (s "../../victim") (s "d1/d2/up/l3"); HRemove (s "d1/d2/up/l3/keep.txt")].

Lemma w_f1_escapes :
  names_ok (HWriteFile (s "../escaped.txt")) = false /\
  answers (xrun w_base false w_init w_f1) = [false] /\
  touched (xrun w_base false w_init w_f1) = [[[s "n"; s "T"; s "escaped.txt"]]].
Proof. repeat split; vm_compute; reflexivity. Qed.

Lemma w_f2_escapes :
  forallb names_ok w_f2 = true /\
  answers (xrun w_base false w_init w_f2) = [true; false] /\
  touched (xrun w_base false w_init w_f2) = [[[s "n"; s "T"; s "root"; s "l"]]; [[s "n"; s "T"; s "victim"; s "x"]]].
Proof. repeat split; vm_compute; reflexivity. Qed.

Lemma w_f6_abs_escapes :
  forallb names_ok w_f6_abs = true /\
  answers (xrun w_base false w_init w_f6_abs) = [true; true; true] /\
  last (touched (xrun w_base false w_init w_f6_abs)) [] = [[s "n"; s "T"; s "victim"; s "pwned.txt"]].
Proof. repeat split; vm_compute; reflexivity. Qed.

Lemma w_f6_unclean_escapes :
  forallb names_ok w_f6_unclean = true /\
  answers (xrun w_base false w_init w_f6_unclean) = [true; true; true; true] /\
  last (touched (xrun w_base false w_init w_f6_unclean)) [] = [[s "n"; s "T"; s "victim"; s "pwned.txt"]] /\
  (* lexically the unclean target stays inside: filepath.Clean gives "victim" *)
  clean (s "a/../victim") = s "victim".
Proof. repeat split; vm_compute; reflexivity. Qed.

Lemma w_f6_detour_escapes :
  forallb names_ok w_f6_detour = true /\
  answers (xrun w_base false w_init w_f6_detour) = [true; true; true; true; true] /\
  last (touched (xrun w_base false w_init w_f6_detour)) [] = [[s "n"; s "victim"; s "pwned.txt"]] /\
  (* each target climbs no more than the directory of the NAME is deep *)
  tame_target 2 (s "../..") = true /\ tame_target 3 (s "../../victim") = true.
Proof. repeat split; vm_compute; reflexivity. Qed.

Lemma w_f6_remove_escapes :
  forallb names_ok w_f6_remove = true /\
  answers (xrun w_base false w_init w_f6_remove) = [true; true; true; true; true; true] /\
  last (touched (xrun w_base false w_init w_f6_remove)) [] = [[s "n"; s "victim"; s "keep.txt"]].
Proof. repeat split; vm_compute; reflexivity. Qed.

(* the shape of seeded change C18-4 on the code as it is: the link climbs above the
   root, the in-root /victim exists, the overlay refuses, the host is not asked *)
Definition w_climb : list hop :=
  [HMkdirAll (s "victim"); HMkdirAll (s "opt"); HSymlink (s "../../victim") (s "opt/data");
   HCreate (s "opt/data/pwned.txt"); HRemove (s "opt/data/keep.txt")].
Lemma w_climb_refused :
  answers (xrun w_base false w_init w_climb) = [true; true; true; false; false] /\
  forallb (fun t => forallb (fun q => negb (outside_base q)) t) (touched (xrun w_base false w_init w_climb)) = true /\
  hd_error (cc (join [join_sl [s "opt"]; s "../../victim"])) = Some dd.
Proof. repeat split; vm_compute; reflexivity. Qed.

(* the hypotheses of the confinement theorems can be met: the host is good, links
   with ".." that fit their directory are made and used, unclean names are fine *)
Definition w_tame : list hop :=
  [HMkdirAll (s "usr/lib/x"); HSymlink (s "../usr/lib") (s "usr/lib64"); HCreate (s "usr/lib64/x/f");
   HSymlink (s "../../existing.txt") (s "usr/lib/e"); HWriteFile (s "usr/./lib64/../lib/e");
   HLink (s "usr/lib64/x/f") (s "usr/h"); HRemove (s "usr/lib64/x/f")].

(* a hard link to a symbolic link puts the same target text into another directory:
   usr/lib/e -> ../../existing.txt, linked as usr/h, points above the base from there
   (the condition [fits] of the step theorem is about exactly this) *)
Definition w_unfit : list hop :=
  [HMkdirAll (s "usr/lib"); HSymlink (s "../../existing.txt") (s "usr/lib/e"); HLink (s "usr/lib/e") (s "usr/h")].
Lemma w_unfit_not_tame :
  forallb names_ok w_unfit = true /\ answers (xrun w_base false w_init w_unfit) = [true; true; true] /\
  tame_at tameP (cc w_base) (x_host (fst (xrun w_base false w_init w_unfit))) = false.
Proof. repeat split; vm_compute; reflexivity. Qed.

Lemma w_host_good : good tameP (cc w_base) w_host /\ good flatP (cc w_base) w_host.
Proof. repeat split; vm_compute; reflexivity. Qed.

Lemma w_tame_facts : forallb names_ok w_tame = true /\
  answers (xrun w_base false w_init w_tame) = [true; true; true; true; true; true; true] /\
  good tameP (cc w_base) (x_host (fst (xrun w_base false w_init w_tame))).
Proof. repeat split; vm_compute; reflexivity. Qed.

Definition w_flat : list hop :=
  [HMkdirAll (s "etc/apk"); HSymlink (s "apk") (s "etc/a"); HCreate (s "etc/a/world"); HMkdir (s "x/../y");
   HLink (s "etc/apk/world") (s "w"); HChmod (s "w"); HMknod (s "etc/a/null"); HRemove (s "etc/a/world")].
Lemma w_flat_ok : forallb flat_op w_flat = true /\
  answers (xrun w_base false w_init w_flat) = [true; true; true; true; true; true; true; true].
Proof. repeat split; vm_compute; reflexivity. Qed.

(* ---- a root that already has content when DirFS is opened on it -------------------------- *)

(* left there by an earlier run: links to a host directory (absolute, relative), a
   dangling one, one to an in-root directory *)
Definition w_host_pre : node :=
  NDir [(s "n", NDir [(s "T", NDir [(s "root", NDir [(s "existing.txt", NFile);
                                                     (s "labs", NLink (s "/n/T/victim"));
                                                     (s "lrel", NLink (s "../victim"));
                                                     (s "ldang", NLink (s "nowhere/x"));
                                                     (s "lin", NLink (s "usr"));
                                                     (s "usr", NDir [])]);
                                    (s "victim", NDir [(s "keep.txt", NFile)])])])].
Definition w_pre_ops : list hop :=
  [HCreate (s "labs/job"); HCreate (s "lrel/job"); HRemove (s "labs/keep.txt"); HCreate (s "ldang/x"); HCreate (s "lin/ok")].

(* as the code is (lstat): everything beneath the outside links is refused, nothing is
   touched outside; with a stat that follows links the same operations are accepted
   (the link is an empty directory in memory) and the kernel writes in the host directory *)
Lemma w_pre_lstat_refused :
  x_ov (xinit w_base w_host_pre) = match node_at w_host_pre (cc w_base) with Some n => n | None => NDir [] end /\
  answers (xrun w_base false (xinit w_base w_host_pre) w_pre_ops) = [false; false; false; false; true] /\
  forallb (fun t => forallb (fun q => negb (outside_base q)) t) (touched (xrun w_base false (xinit w_base w_host_pre) w_pre_ops)) = true.
Proof. repeat split; vm_compute; reflexivity. Qed.

Lemma w_pre_follow_escapes :
  answers (xrun w_base false (xinit_stat true w_base w_host_pre) w_pre_ops) = [true; true; false; false; true] /\
  firstn 2 (touched (xrun w_base false (xinit_stat true w_base w_host_pre) w_pre_ops)) =
    [[[s "n"; s "T"; s "victim"; s "job"]]; [[s "n"; s "T"; s "victim"; s "job"]]].
Proof. repeat split; vm_compute; reflexivity. Qed.
