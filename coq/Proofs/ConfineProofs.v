(* C18 — proofs about Base/C18Path.v and Model/Confine.v. *)
From Apko Require Import Base.Prelude Base.C18Path Generated.C18 Spec.ConfineSpec Model.Confine.
Open Scope list_scope.

(* ======================================================================== *)
(* 1. split / join_sl                                                        *)
(* ======================================================================== *)

Lemma split_nonempty : forall s, split s <> [].
Proof.
  induction s as [|c s IH]; simpl; [discriminate|].
  destruct (Ascii.eqb c sl); [discriminate|].
  destruct (split s); discriminate.
Qed.

Lemma split_app_sl : forall a b, split (a ++ sl :: b) = split a ++ split b.
Proof.
  induction a as [|c a IH]; intro b; simpl.
  - try rewrite Ascii.eqb_refl. reflexivity.
  - destruct (Ascii.eqb c sl); [rewrite IH; reflexivity|].
    rewrite IH. destruct (split a) as [|h t] eqn:E; [exfalso; eapply split_nonempty; eauto|].
    reflexivity.
Qed.

Lemma split_no_slash : forall s, Forall no_slash (split s).
Proof.
  induction s as [|c s IH]; simpl.
  - constructor; [intros []|constructor].
  - destruct (Ascii.eqb c sl) eqn:E.
    + constructor; [intros []|assumption].
    + destruct (split s) as [|h t]; [constructor; [|constructor]|].
      * intros [H|[]]. subst. rewrite Ascii.eqb_refl in E. discriminate.
      * inversion IH; subst. constructor; [|assumption].
        intros [H|H]; [subst; rewrite Ascii.eqb_refl in E; discriminate | contradiction].
Qed.

Lemma split_single : forall x, no_slash x -> split x = [x].
Proof.
  induction x as [|c x IH]; intro H; simpl; [reflexivity|].
  destruct (Ascii.eqb c sl) eqn:E.
  - apply Ascii.eqb_eq in E. subst. exfalso. apply H. left. reflexivity.
  - rewrite IH; [reflexivity|]. intro I. apply H. right. assumption.
Qed.

Lemma split_join_sl : forall l, l <> [] -> Forall no_slash l -> split (join_sl l) = l.
Proof.
  induction l as [|x l IH]; intros NE F; [contradiction|].
  inversion F as [|? ? Hx Hl]; subst.
  destruct l as [|y t].
  - simpl. apply split_single. assumption.
  - change (join_sl (x :: y :: t)) with (x ++ sl :: join_sl (y :: t)).
    rewrite split_app_sl, split_single by assumption.
    rewrite IH; [reflexivity | discriminate | assumption].
Qed.

(* ======================================================================== *)
(* 2. the cleaner                                                            *)
(* ======================================================================== *)

Lemma crun_app : forall r l1 l2 st, crun r st (l1 ++ l2) = crun r (crun r st l1) l2.
Proof. intros. unfold crun. apply fold_left_app. Qed.

Lemma proper_no_slash : forall c, proper c -> no_slash c.
Proof. intros c [H _]. exact H. Qed.

Lemma dd_no_slash : no_slash dd.
Proof. intros [H|[H|[]]]; discriminate. Qed.

Lemma cstep_proper : forall r st c, proper c -> cstep r st c = (fst st, c :: snd st).
Proof. intros r st c [_ [H1 H2]]. unfold cstep. rewrite H1, H2. reflexivity. Qed.

Lemma crun_proper : forall r t k out, Forall proper t -> crun r (k, out) t = (k, rev t ++ out).
Proof.
  induction t as [|c t IH]; intros k out F; [reflexivity|].
  inversion F; subst. unfold crun. simpl fold_left. rewrite cstep_proper by assumption. simpl fst. simpl snd.
  fold (crun r (k, c :: out) t). rewrite IH by assumption. simpl. rewrite <- app_assoc. reflexivity.
Qed.

Lemma crun_dds : forall n k, crun false (k, []) (repeat dd n) = (k + n, []).
Proof.
  induction n as [|n IH]; intro k; simpl.
  - f_equal. lia.
  - unfold crun in *. simpl fold_left.
    change (cstep false (k, []) dd) with (S k, @nil str).
    rewrite IH. f_equal. lia.
Qed.

(* what the cleaner can output *)
Definition wf (r : bool) (l : list str) : Prop :=
  exists k t, l = repeat dd k ++ t /\ Forall proper t /\ (r = true -> k = 0).

Lemma wf_true_proper : forall L, wf true L -> Forall proper L.
Proof. intros L [k [t [E [P R]]]]. rewrite (R eq_refl) in E. simpl in E. subst. assumption. Qed.

Lemma crun_inv : forall r l k out,
  Forall no_slash l -> Forall proper out -> (r = true -> k = 0) ->
  Forall proper (snd (crun r (k, out) l)) /\ (r = true -> fst (crun r (k, out) l) = 0).
Proof.
  induction l as [|c l IH]; intros k out F P R; [split; assumption|].
  inversion F; subst. unfold crun. simpl fold_left. fold (crun r (cstep r (k, out) c) l).
  unfold cstep. simpl fst. simpl snd.
  destruct (is_skip c) eqn:Es; [apply IH; assumption|].
  destruct (is_dd c) eqn:Ed.
  - destruct out as [|o out'].
    + destruct r; apply IH; auto. intro; discriminate.
    + inversion P; subst. apply IH; assumption.
  - apply IH; auto. constructor; [|assumption]. repeat split; assumption.
Qed.

Lemma ccomps_wf : forall r l, Forall no_slash l -> wf r (ccomps r l).
Proof.
  intros r l F. unfold ccomps, st_comps.
  destruct (crun_inv r l 0 [] F (Forall_nil _) (fun _ => eq_refl)) as [P R].
  exists (fst (crun r (0, []) l)), (rev (snd (crun r (0, []) l))).
  split; [reflexivity|]. split; [|assumption].
  apply Forall_rev. assumption.
Qed.

Lemma cc_wf : forall s, wf (is_abs s) (cc s).
Proof. intro s. apply ccomps_wf. apply split_no_slash. Qed.

Lemma ccomps_fix : forall r l, wf r l -> ccomps r l = l.
Proof.
  intros r l [k [t [E [P R]]]]. subst l. unfold ccomps.
  destruct r.
  - rewrite (R eq_refl). simpl repeat. simpl app. rewrite crun_proper by assumption.
    unfold st_comps. simpl. rewrite app_nil_r, rev_involutive. reflexivity.
  - rewrite crun_app, crun_dds, crun_proper by assumption.
    unfold st_comps. simpl fst. simpl snd. rewrite app_nil_r, rev_involutive. reflexivity.
Qed.

Lemma wf_no_slash : forall r l, wf r l -> Forall no_slash l.
Proof.
  intros r l [k [t [E [P _]]]]. subst. apply Forall_app. split.
  - apply Forall_forall. intros x I. apply repeat_spec in I. subst. apply dd_no_slash.
  - eapply Forall_impl; [|exact P]. apply proper_no_slash.
Qed.

Lemma is_skip_nil : is_skip [] = true. Proof. reflexivity. Qed.

Lemma wf_head_nonempty : forall r x l, wf r (x :: l) -> exists c y, x = c :: y /\ c <> sl.
Proof.
  intros r x l H. pose proof (wf_no_slash _ _ H) as NS. inversion NS as [|? ? Hx _]; subst.
  destruct H as [k [t [E [P _]]]].
  destruct x as [|c y].
  - exfalso. destruct k; simpl in E.
    + destruct t; [discriminate|]. inversion E; subst. inversion P as [|? ? [_ [Hs _]] _]; subst.
      discriminate.
    + discriminate.
  - exists c, y. split; [reflexivity|]. intro; subst. apply Hx. left. reflexivity.
Qed.

Lemma join_sl_head : forall c y l, exists z, join_sl ((c :: y) :: l) = c :: z.
Proof. intros. destruct l; simpl; eauto. Qed.

Lemma neq_sl_eqb : forall c, c <> sl -> Ascii.eqb c sl = false.
Proof. intros c H. destruct (Ascii.eqb c sl) eqn:E; [apply Ascii.eqb_eq in E; contradiction | reflexivity]. Qed.

Lemma render_abs : forall r l, wf r l -> is_abs (render r l) = r.
Proof.
  intros r l W. destruct l as [|x l]; [destruct r; reflexivity|].
  destruct r; [reflexivity|].
  destruct (wf_head_nonempty _ _ _ W) as [c [y [E N]]]. subst.
  change (render false ((c :: y) :: l)) with (join_sl ((c :: y) :: l)).
  destruct (join_sl_head c y l) as [z Ez]. rewrite Ez. simpl.
  apply neq_sl_eqb. assumption.
Qed.

Lemma ccomps_skip_head : forall r l, ccomps r ([] :: l) = ccomps r l.
Proof. reflexivity. Qed.

Lemma cc_render : forall r l, wf r l -> cc (render r l) = l.
Proof.
  intros r l W. unfold cc. rewrite render_abs by assumption.
  destruct l as [|x l].
  - destruct r; reflexivity.
  - pose proof (wf_no_slash _ _ W) as NS.
    destruct r; unfold render.
    + change (split (sl :: join_sl (x :: l))) with ([] :: split (join_sl (x :: l))).
      rewrite split_join_sl by (assumption || discriminate).
      rewrite ccomps_skip_head. apply (ccomps_fix true). assumption.
    + rewrite split_join_sl by (assumption || discriminate).
      apply ccomps_fix. assumption.
Qed.

(* filepath.Clean is idempotent on components and keeps rootedness *)
Lemma clean_abs : forall s, is_abs (clean s) = is_abs s.
Proof. intro s. unfold clean. apply render_abs. apply cc_wf. Qed.

Lemma cc_clean : forall s, cc (clean s) = cc s.
Proof. intro s. unfold clean. apply cc_render. apply cc_wf. Qed.

Lemma clean_idem : forall s, clean (clean s) = clean s.
Proof. intro s. unfold clean at 1. rewrite clean_abs, cc_clean. reflexivity. Qed.

(* ======================================================================== *)
(* 3. join base p                                                            *)
(* ======================================================================== *)

Lemma is_abs_app : forall a b, a <> [] -> is_abs (a ++ b) = is_abs a.
Proof. intros [|c a] b H; [contradiction | reflexivity]. Qed.

Lemma join2 : forall b p, b <> [] -> join [b; p] = clean (b ++ sl :: p).
Proof. intros [|c b] p H; [contradiction | reflexivity]. Qed.

Lemma join2_nil : forall p, join [[]; p] = match p with [] => [] | _ => clean p end.
Proof. intros [|c p]; reflexivity. Qed.

Lemma cc_join2 : forall b p, b <> [] ->
  cc (b ++ sl :: p) = st_comps (crun (is_abs b) (crun (is_abs b) (0, []) (split b)) (split p)).
Proof.
  intros b p H. unfold cc, ccomps. rewrite is_abs_app, split_app_sl, crun_app by assumption. reflexivity.
Qed.

(* the relative reading of p: how far it climbs and where it then descends *)
Definition ups (p : str) : nat := fst (crun false (0, []) (split p)).
Definition downs (p : str) : list str := rev (snd (crun false (0, []) (split p))).

Lemma skipn_S_tl : forall (A : Type) k (l : list A), skipn (S k) l = tl (skipn k l).
Proof.
  intros A k. induction k as [|k IH]; intros l.
  - destruct l; reflexivity.
  - destruct l as [|x l]; [reflexivity|].
    change (skipn (S (S k)) (x :: l)) with (skipn (S k) l).
    change (skipn (S k) (x :: l)) with (skipn k l). apply IH.
Qed.

(* a rooted run from a stack is the relative run, replayed on the stack *)
Lemma crun_sim : forall l k T S,
  crun true (0, T ++ skipn k S) l =
  (0, snd (crun false (k, T) l) ++ skipn (fst (crun false (k, T) l)) S).
Proof.
  induction l as [|c l IH]; intros k T S; [reflexivity|].
  unfold crun. simpl fold_left.
  fold (crun true (cstep true (0, T ++ skipn k S) c) l).
  fold (crun false (cstep false (k, T) c) l).
  unfold cstep. simpl fst. simpl snd.
  destruct (is_skip c); [apply IH|].
  destruct (is_dd c).
  - destruct T as [|t0 T'].
    + simpl app. destruct (skipn k S) as [|x rest] eqn:E.
      * specialize (IH (Datatypes.S k) [] S). rewrite skipn_S_tl, E in IH. simpl in IH. exact IH.
      * specialize (IH (Datatypes.S k) [] S). rewrite skipn_S_tl, E in IH. simpl in IH. exact IH.
    + simpl app. apply IH.
  - apply (IH k (c :: T) S).
Qed.

Lemma rooted_run : forall b, is_abs b = true ->
  crun true (0, []) (split b) = (0, rev (cc b)).
Proof.
  intros b H. unfold cc, ccomps, st_comps. rewrite H.
  destruct (crun_inv true (split b) 0 [] (split_no_slash b) (Forall_nil _) (fun _ => eq_refl)) as [_ R].
  destruct (crun true (0, []) (split b)) as [k out]. simpl in *. rewrite (R eq_refl). simpl.
  rewrite rev_involutive. reflexivity.
Qed.

(* the components of clean(join(base, p)) for an absolute base *)
Lemma cc_join_abs : forall b p, is_abs b = true ->
  cc (join [b; p]) = firstn (List.length (cc b) - ups p) (cc b) ++ downs p.
Proof.
  intros b p H. assert (b <> []) as NE by (intro; subst; discriminate).
  rewrite join2, cc_clean, cc_join2 by assumption. rewrite H, rooted_run by assumption.
  pose proof (crun_sim (split p) 0 [] (rev (cc b))) as S. simpl app in S. simpl skipn in S at 1.
  rewrite S. unfold st_comps, ups, downs. simpl fst. simpl snd. simpl repeat. simpl app.
  rewrite rev_app_distr, skipn_rev, rev_involutive. reflexivity.
Qed.

Lemma join_abs_is_abs : forall b p, is_abs b = true -> is_abs (join [b; p]) = true.
Proof.
  intros b p H. assert (b <> []) as NE by (intro; subst; discriminate).
  rewrite join2, clean_abs, is_abs_app by assumption. assumption.
Qed.

Lemma cprefix_app_head : forall (x y r : list str), cprefix (x ++ y) (x ++ r) <-> cprefix y r.
Proof.
  intros x y r. unfold cprefix. split; intros [z E].
  - exists z. rewrite <- app_assoc in E. apply app_inv_head in E. assumption.
  - exists z. rewrite <- app_assoc. f_equal. assumption.
Qed.

Lemma clean_join_under : forall b p, is_abs b = true ->
  (under b (join [b; p]) <->
   cprefix (skipn (List.length (cc b) - ups p) (cc b)) (downs p)).
Proof.
  intros b p H. unfold under. rewrite join_abs_is_abs, H, cc_join_abs by assumption.
  set (n := List.length (cc b) - ups p).
  rewrite <- (firstn_skipn n (cc b)) at 1.
  rewrite cprefix_app_head. tauto.
Qed.

Lemma no_climb_under : forall b p, is_abs b = true -> ups p = 0 -> under b (join [b; p]).
Proof.
  intros b p H U. apply clean_join_under; [assumption|].
  rewrite U, Nat.sub_0_r, skipn_all. exists (downs p). reflexivity.
Qed.

(* climbing out and not coming back through the same components escapes *)
Lemma climb_escapes : forall b p, is_abs b = true ->
  ~ cprefix (skipn (List.length (cc b) - ups p) (cc b)) (downs p) -> ~ under b (join [b; p]).
Proof. intros b p H N U. apply N. apply clean_join_under; assumption. Qed.

(* ======================================================================== *)
(* 4. the string-prefix tests                                                *)
(* ======================================================================== *)

Definition s (x : string) : str := la x.

(* the test the three functions used before fix 566455e (and cacheFileFromEtag
   still uses) does not imply containment *)
Lemma string_prefix_unsound :
  exists b v, string_prefix_test b v = true /\ is_abs b = true /\ v = clean v /\ ~ under b v.
Proof.
  exists (s "/r"), (s "/r2/x"). split; [vm_compute; reflexivity|]. split; [reflexivity|].
  split; [vm_compute; reflexivity|].
  intro U. apply underb_iff in U. vm_compute in U. discriminate.
Qed.

(* ---- filepath.Rel and the component-wise test --------------------------- *)

Lemma strip_common_spec : forall a b,
  exists c, a = c ++ fst (strip_common a b) /\ b = c ++ snd (strip_common a b).
Proof.
  induction a as [|x a IH]; intros b.
  - exists []. split; reflexivity.
  - destruct b as [|y b]; [exists []; split; reflexivity|].
    simpl. destruct (str_eqb x y) eqn:E.
    + apply str_eqb_eq in E. subst y. destruct (IH b) as [c [E1 E2]].
      exists (x :: c). split; simpl; congruence.
    + exists []. split; reflexivity.
Qed.

Lemma strip_common_prefix : forall a r, strip_common a (a ++ r) = ([], r).
Proof.
  induction a as [|x a IH]; intro r; [destruct r; reflexivity|].
  simpl. rewrite str_eqb_refl. apply IH.
Qed.

Lemma is_dd_dd : is_dd dd = true. Proof. reflexivity. Qed.

(* what an accepted Rel result says about the components *)
Lemma rel_accept : forall b p l,
  rel b p = Some l -> (match l with [] => true | c :: _ => negb (is_dd c) end) = true ->
  is_abs b = is_abs p /\ cc p = cc b ++ l.
Proof.
  intros b p l H A. unfold rel in H.
  destruct (Bool.eqb (is_abs b) (is_abs p)) eqn:EA; [|discriminate]. apply Bool.eqb_prop in EA.
  split; [assumption|]. simpl negb in H. cbv iota in H.
  destruct (strip_common_spec (cc b) (cc p)) as [c [E1 E2]].
  destruct (fst (strip_common (cc b) (cc p))) as [|b0 B'] eqn:EF.
  - inversion H; subst l. rewrite app_nil_r in E1.
    transitivity (c ++ snd (strip_common (cc b) (cc p))); [exact E2 | f_equal; symmetry; exact E1].
  - destruct (is_dd b0); [discriminate|]. inversion H; subst l. simpl in A. discriminate.
Qed.

Lemma within_sound : forall b p, within b p = true -> under b p.
Proof.
  intros b p H. unfold within in H. destruct (rel b p) as [l|] eqn:R; [|discriminate].
  destruct (rel_accept b p l R) as [EA EC]; [destruct l; assumption|].
  split; [assumption | exists l; assumption].
Qed.

Lemma strictly_within_sound : forall b p, strictly_within b p = true ->
  is_abs b = is_abs p /\ exists c r, cc p = cc b ++ c :: r.
Proof.
  intros b p H. unfold strictly_within in H. destruct (rel b p) as [[|c r]|] eqn:R; try discriminate.
  destruct (rel_accept b p (c :: r) R H) as [EA EC]. split; [assumption | exists c, r; assumption].
Qed.

(* for absolute paths the test is exact *)
Lemma within_complete_abs : forall b p, is_abs b = true -> under b p -> within b p = true.
Proof.
  intros b p HB [EA [r E]]. unfold within, rel. rewrite <- EA, HB. simpl. rewrite E, strip_common_prefix. simpl.
  destruct r as [|c r']; [reflexivity|].
  pose proof (cc_wf p) as W. rewrite <- EA, HB, E in W. apply wf_true_proper in W.
  apply Forall_app in W. destruct W as [_ W]. inversion W as [|? ? [_ [_ D]] _]; subst. rewrite D. reflexivity.
Qed.

Lemma sanitize_path_sound : forall b p v, sanitize_path b p = Some v -> under b v.
Proof.
  intros b p v H. unfold sanitize_path, is_within in H.
  destruct (within b (join [b; p])) eqn:W; [|discriminate]. inversion H; subst. apply within_sound. assumption.
Qed.

Lemma sanitize_archive_path_sound : forall d t v, sanitize_archive_path d t = Some v -> under d v.
Proof.
  intros d t v H. unfold sanitize_archive_path, is_within in H.
  destruct (within d (join [d; t])) eqn:W; [|discriminate]. inversion H; subst. apply within_sound. assumption.
Qed.

Lemma link_target_sound : forall b old t, link_target b old = Some t -> under b t.
Proof.
  intros b old t H. unfold link_target, is_within in H.
  destruct (within b (clean (join [b; old]))) eqn:W; [|discriminate]. inversion H; subst. apply within_sound. assumption.
Qed.

Lemma sanitize_path_exact : forall b p, is_abs b = true ->
  (sanitize_path b p = Some (join [b; p]) <-> under b (join [b; p])).
Proof.
  intros b p HB. unfold sanitize_path, is_within. split.
  - destruct (within b (join [b; p])) eqn:W; [|discriminate]. intros _. apply within_sound. assumption.
  - intro U. rewrite (within_complete_abs b _ HB U). reflexivity.
Qed.

(* ======================================================================== *)
(* 5. the validator                                                          *)
(* ======================================================================== *)

Lemma outside_false_iff : forall roots p, outside roots p = false <-> Exists (fun r => under r p) roots.
Proof.
  intros roots p. unfold outside. rewrite negb_false_iff, existsb_exists, Exists_exists.
  split; intros [r [I U]]; exists r; (split; [assumption|]); apply underb_iff; assumption.
Qed.

Lemma escapes_nil_iff : forall roots touched, escapes roots touched = [] <-> Confined roots touched.
Proof.
  intros roots touched. unfold escapes, Confined. induction touched as [|p t IH]; simpl.
  - split; [constructor | reflexivity].
  - destruct (outside roots p) eqn:E.
    + split; [discriminate|]. intro F. inversion F; subst.
      apply outside_false_iff in H1. congruence.
    + rewrite IH. split.
      * intro F. constructor; [apply outside_false_iff; assumption | assumption].
      * intro F. inversion F; assumption.
Qed.

(* ======================================================================== *)
(* 6. the directory-backed filesystem is not confined                        *)
(* ======================================================================== *)

Lemma dirfs_lexical_escape :
  exists b name, is_abs b = true /\ ~ under b (dirfs_host_path b name).
Proof.
  exists (s "/T/root"), (s "../escaped.txt"). split; [reflexivity|].
  intro U. apply underb_iff in U. vm_compute in U. discriminate.
Qed.

Lemma dirfs_symlink_escape :
  exists b links name,
    under b (dirfs_host_path b name) /\
    Forall (fun l => under b (fst l)) links /\
    ~ under b (resolve 4 links (dirfs_host_path b name)).
Proof.
  exists (s "/T/root"), [(s "/T/root/l", s "/T/host")], (s "l/x"). split; [|split].
  - apply underb_iff. vm_compute. reflexivity.
  - constructor; [|constructor]. apply underb_iff. vm_compute. reflexivity.
  - intro U. apply underb_iff in U. vm_compute in U. discriminate.
Qed.

Lemma dirfs_confined_when_not_climbing : forall b name,
  is_abs b = true -> ups name = 0 -> under b (dirfs_host_path b name).
Proof. intros. apply no_climb_under; assumption. Qed.

(* ======================================================================== *)
(* 7. the in-memory trees                                                    *)
(* ======================================================================== *)

(* [n] is [root] or one of its descendants along child edges *)
Inductive sub : node -> node -> Prop :=
| sub_refl : forall n, sub n n
| sub_child : forall ch name x n, lookup_child ch name = Some x -> sub x n -> sub (NDir ch) n.

Lemma sub_step : forall root ch name x, sub root (NDir ch) -> lookup_child ch name = Some x -> sub root x.
Proof.
  intros root ch name x H. remember (NDir ch) as d eqn:E. revert ch name x E.
  induction H as [n | ch0 name0 x0 n L S IH]; intros ch name x E L'; subst.
  - eapply sub_child; [exact L' | apply sub_refl].
  - eapply sub_child; [exact L |]. eapply IH; [reflexivity | exact L'].
Qed.

Lemma walk_sub : forall ml root (recurse : str -> nat -> lres),
  (forall t d n, recurse t d = LOk n -> sub root n) ->
  forall parts cur tr depth n, sub root cur ->
    walk ml recurse cur tr parts depth = LOk n -> sub root n.
Proof.
  intros ml root recurse HR. induction parts as [|part rest IH]; intros cur tr depth n HS W; simpl in W.
  - inversion W; subst. assumption.
  - destruct (str_eqb part []); [eapply IH; eassumption|].
    destruct cur as [| |ch]; try discriminate.
    destruct (lookup_child ch part) as [x|] eqn:L; [|discriminate].
    destruct x as [|target|ch'].
    + eapply IH; [|exact W]. eapply sub_step; eassumption.
    + destruct (Nat.ltb ml (Datatypes.S depth)); [discriminate|].
      destruct (recurse _ (Datatypes.S depth)) as [m| | |] eqn:R; try discriminate.
      eapply IH; [|exact W]. eapply HR. exact R.
    + eapply IH; [|exact W]. eapply sub_step; eassumption.
Qed.

Lemma get_node_sub : forall fuel ml root path depth n,
  get_node fuel ml root path depth = LOk n -> sub root n.
Proof.
  induction fuel as [|fuel IH]; intros ml root path depth n H; simpl in H; [discriminate|].
  destruct (str_eqb path [sl] || str_eqb path [dot]).
  - inversion H; subst. apply sub_refl.
  - eapply walk_sub; [| apply sub_refl | exact H].
    intros t d m R. eapply IH. exact R.
Qed.

(* ".." is an ordinary name: without a child of that name the lookup fails *)
Lemma dotdot_is_a_name : forall fuel ml ch,
  lookup_child ch dd = None -> get_node (S fuel) ml (NDir ch) dd 0 = LNotExist.
Proof.
  intros fuel ml ch H.
  change (get_node (S fuel) ml (NDir ch) dd 0)
    with (walk ml (get_node fuel ml (NDir ch)) (NDir ch) [] [dd] 0).
  unfold walk. change (str_eqb dd []) with false. cbv iota. rewrite H. reflexivity.
Qed.

(* ======================================================================== *)
(* 8. key files                                                              *)
(* ======================================================================== *)

Lemma last_Forall : forall (A : Type) (P : A -> Prop) l d, Forall P l -> P d -> P (last l d).
Proof.
  intros A P l d F Pd. induction F as [|x l Px F IH]; [assumption|].
  destruct l; [assumption|]. simpl in *. apply IH.
Qed.

Lemma base_shape : forall x, base x = [sl] \/ no_slash (base x).
Proof.
  intros [|c x]; [right; intros [H|[]]; discriminate|].
  unfold base. destruct (strip_trailing_slashes (c :: x)) as [|c' x'] eqn:E; [left; reflexivity|].
  right. apply last_Forall; [apply split_no_slash | intros []].
Qed.

Definition keys_dir : str := la "etc/apk/keys".

Lemma key_path_eq : forall e, key_path e = clean (keys_dir ++ sl :: base e).
Proof. intro e. reflexivity. Qed.

Lemma keys_dir_run : crun false (0, []) (split keys_dir) = (0, [la "keys"; la "apk"; la "etc"]).
Proof. vm_compute. reflexivity. Qed.

Lemma cstep_cases : forall r st c, no_slash c ->
  (is_skip c = true /\ cstep r st c = st) \/
  (is_dd c = true /\ is_skip c = false) \/
  (proper c /\ cstep r st c = (fst st, c :: snd st)).
Proof.
  intros r st c NS. unfold cstep. destruct (is_skip c) eqn:Es; [left; auto|].
  destruct (is_dd c) eqn:Ed; [right; left; auto|].
  right; right. split; [repeat split; assumption | reflexivity].
Qed.

Lemma is_dd_eq : forall c, is_dd c = true -> c = dd.
Proof. intros c H. apply str_eqb_eq. exact H. Qed.

Lemma key_path_comps : forall e,
  cc (key_path e) = [la "etc"; la "apk"; la "keys"] \/
  cc (key_path e) = [la "etc"; la "apk"] \/
  (proper (base e) /\ cc (key_path e) = [la "etc"; la "apk"; la "keys"; base e]).
Proof.
  intro e. rewrite key_path_eq, cc_clean, cc_join2 by discriminate.
  change (is_abs keys_dir) with false. rewrite keys_dir_run.
  remember (0, [la "keys"; la "apk"; la "etc"]) as st0 eqn:Est0.
  destruct (base_shape e) as [E|NS].
  - rewrite E. left. subst st0. reflexivity.
  - rewrite split_single by assumption.
    change (crun false st0 [base e]) with (cstep false st0 (base e)).
    destruct (cstep_cases false st0 (base e) NS) as [[_ E]|[[D _]|[P E]]].
    + rewrite E. left. subst st0. reflexivity.
    + apply is_dd_eq in D. rewrite D. right. left. subst st0. reflexivity.
    + rewrite E. right. right. split; [assumption | subst st0; reflexivity].
Qed.

Lemma key_path_under : forall e, under (la "etc/apk") (key_path e).
Proof.
  intro e. unfold under. split.
  - rewrite key_path_eq, clean_abs. reflexivity.
  - change (cc (la "etc/apk")) with [la "etc"; la "apk"].
    destruct (key_path_comps e) as [E|[E|[_ E]]]; rewrite E.
    + exists [la "keys"]. reflexivity.
    + exists []. reflexivity.
    + exists [la "keys"; base e]. reflexivity.
Qed.

Lemma keyname_ok_no_slash : forall k, keyname_ok k = true -> no_slash k.
Proof.
  intros k H I. unfold keyname_ok in H. apply negb_true_iff in H.
  assert (contains k (la keyname_forbidden) = true) as C; [|congruence].
  clear H. change (la keyname_forbidden) with [sl].
  induction k as [|c k IH]; [contradiction|].
  destruct I as [E|I].
  - subst. reflexivity.
  - change (contains (c :: k) [sl]) with (has_prefix (c :: k) [sl] || contains k [sl]).
    rewrite (IH I). apply orb_true_r.
Qed.

(* ======================================================================== *)
(* 9. ETag -> file name                                                      *)
(* ======================================================================== *)

Definition okc (alpha : str) (pad c : ascii) : Prop := In c alpha \/ c = pad.

Lemma b32c_ok : forall alpha pad v i, okc alpha pad (b32c alpha pad v i).
Proof.
  intros. unfold okc, b32c.
  destruct (nth_in_or_default (N.to_nat ((v / 2 ^ (35 - 5 * i)) mod 32)) alpha pad); auto.
Qed.

Lemma b32chunk_ok : forall alpha pad v n, Forall (okc alpha pad) (b32chunk alpha pad v n).
Proof.
  intros. unfold b32chunk. apply Forall_app. split.
  - apply Forall_forall. intros x I. apply in_map_iff in I. destruct I as [i [E _]]. subst. apply b32c_ok.
  - apply Forall_forall. intros x I. apply repeat_spec in I. subst. right. reflexivity.
Qed.

Lemma b32_ok : forall alpha pad l, Forall (okc alpha pad) (b32 alpha pad l).
Proof.
  intros alpha pad l.
  assert (forall n l, List.length l <= n -> Forall (okc alpha pad) (b32 alpha pad l)) as H.
  { induction n as [|n IH]; intros l0 L.
    - destruct l0; [constructor | simpl in L; lia].
    - destruct l0 as [|a [|b [|c [|d [|e rest]]]]]; cbn [b32]; try apply b32chunk_ok; [constructor|].
      apply Forall_app. split; [apply b32chunk_ok|]. apply IH. simpl in L. lia. }
  apply (H (List.length l)). lia.
Qed.

Definition etag_char (c : ascii) : Prop := okc (la etag_alphabet) pad_char c.

Lemma etag_from_response_chars : forall hdr e,
  etag_from_response hdr = Some e -> Forall etag_char e /\ e <> [].
Proof.
  intros hdr e H. unfold etag_from_response in H.
  destruct hdr as [[|v l]|]; try discriminate. destruct v as [|c v]; [discriminate|].
  destruct (etag_encode (trim (la etag_trim_cutset) (c :: v))) as [|x y] eqn:E; [discriminate|].
  inversion H; subst. split; [|discriminate].
  rewrite <- E. unfold etag_encode. apply b32_ok.
Qed.

(* no character the encoding can produce is a separator or a dot *)
Definition safe_char (c : ascii) : bool := negb (is_sl c) && negb (Ascii.eqb c dot).

Lemma etag_alphabet_safe : forallb safe_char (la etag_alphabet ++ [pad_char]) = true.
Proof. vm_compute. reflexivity. Qed.

Lemma etag_char_safe : forall c, etag_char c -> safe_char c = true.
Proof.
  intros c H. pose proof etag_alphabet_safe as F. rewrite forallb_forall in F. apply F.
  apply in_or_app. destruct H as [H|H]; [left; assumption | right; left; symmetry; assumption].
Qed.

Lemma etag_name_proper : forall e x, Forall etag_char e -> e <> [] -> no_slash x -> proper (e ++ x).
Proof.
  intros e x F NE NS. destruct e as [|c e]; [contradiction|]. inversion F as [|? ? Hc He]; subst.
  pose proof (etag_char_safe c Hc) as Sc. unfold safe_char in Sc. apply andb_true_iff in Sc.
  destruct Sc as [S1 S2]. apply negb_true_iff in S1. apply negb_true_iff in S2.
  repeat split.
  - intro I. apply in_app_or in I. destruct I as [I|I]; [|contradiction].
    rewrite Forall_forall in F. specialize (F sl I). apply etag_char_safe in F.
    vm_compute in F. discriminate.
  - unfold is_skip. simpl. rewrite S2. reflexivity.
  - unfold is_dd, dd. simpl. rewrite S2. reflexivity.
Qed.

Lemma proper_ups_downs : forall n, proper n -> ups n = 0 /\ downs n = [n].
Proof.
  intros n P. unfold ups, downs. rewrite split_single by (apply proper_no_slash; assumption).
  change (crun false (0, []) [n]) with (cstep false (0, []) n). rewrite cstep_proper by assumption.
  split; reflexivity.
Qed.

Lemma etag_ext_no_slash : forall f, no_slash (snd (etag_dir_ext f)).
Proof.
  intro f. unfold etag_dir_ext. destruct (has_suffix f (la etag_index_suffix)); simpl snd;
    apply no_slashb_iff; vm_compute; reflexivity.
Qed.

Lemma etag_file_in_dir : forall hdr e cwd f p,
  etag_from_response hdr = Some e ->
  is_abs (fst (etag_dir_ext f)) = true ->
  cache_file_from_etag cwd f e = Some p ->
  proper (e ++ snd (etag_dir_ext f)) /\
  is_abs p = true /\
  cc p = cc (fst (etag_dir_ext f)) ++ [e ++ snd (etag_dir_ext f)].
Proof.
  intros hdr e cwd f p HE HA HC.
  destruct (etag_from_response_chars hdr e HE) as [F NE].
  pose proof (etag_name_proper e _ F NE (etag_ext_no_slash f)) as P.
  split; [assumption|].
  unfold cache_file_from_etag in HC. destruct (etag_dir_ext f) as [cd x]. simpl fst in *. simpl snd in *.
  destruct (has_prefix _ cd); [|discriminate]. inversion HC; subst. clear HC.
  unfold abs. rewrite join_abs_is_abs by assumption.
  rewrite clean_abs, cc_clean, join_abs_is_abs, cc_join_abs by assumption.
  destruct (proper_ups_downs _ P) as [U D]. rewrite U, D, Nat.sub_0_r, firstn_all.
  split; reflexivity.
Qed.

Lemma key_path_proper : forall e, proper (base e) ->
  cc (key_path e) = map la key_dir_elems ++ [base e].
Proof.
  intros e P. rewrite key_path_eq, cc_clean, cc_join2 by discriminate.
  change (is_abs keys_dir) with false. rewrite keys_dir_run.
  rewrite split_single by (apply proper_no_slash; assumption).
  change (crun false (0, [la "keys"; la "apk"; la "etc"]) [base e])
    with (cstep false (0, [la "keys"; la "apk"; la "etc"]) (base e)).
  rewrite cstep_proper by assumption. reflexivity.
Qed.

(* ======================================================================== *)
(* 10. URL -> cache path                                                     *)
(* ======================================================================== *)

Lemma hexdigit_not_sl : forall n, hexdigit n <> sl.
Proof.
  intro n. unfold hexdigit.
  destruct (nth_in_or_default (N.to_nat n) (la "0123456789ABCDEF") "0"%char) as [I|E].
  - intro H. rewrite H in I. vm_compute in I. repeat (destruct I as [I|I]; [discriminate|]). contradiction.
  - rewrite E. discriminate.
Qed.

Lemma qescape_no_slash : forall x, no_slash (qescape x).
Proof.
  induction x as [|c x IH]; [intros []|]. simpl.
  destruct (unreserved c) eqn:U.
  - intros [H|H]; [|contradiction]. subst. vm_compute in U. discriminate.
  - destruct (Ascii.eqb c " "%char).
    + intros [H|H]; [discriminate | contradiction].
    + intros [H|[H|[H|H]]]; [discriminate | | | contradiction].
      * eapply hexdigit_not_sl. exact H.
      * eapply hexdigit_not_sl. exact H.
Qed.

Definition pct : ascii := "%"%char.

Lemma qescape_has_pct : forall x, In sl x -> In pct (qescape x).
Proof.
  induction x as [|c x IH]; [intros []|]. intros [E|I].
  - subst. left. reflexivity.
  - specialize (IH I). simpl. destruct (unreserved c); [right; assumption|].
    destruct (Ascii.eqb c " "%char); [right; assumption|]. right. right. right. assumption.
Qed.

Lemma pct_not_special : forall e, In pct e -> is_skip e = false /\ is_dd e = false.
Proof.
  intros e H. destruct e as [|a [|b [|c e]]].
  - contradiction.
  - destruct H as [H|[]]. subst. split; reflexivity.
  - destruct H as [H|[H|[]]]; subst; split; try reflexivity.
    + unfold is_skip. simpl. rewrite andb_false_r. reflexivity.
    + unfold is_dd, dd. simpl. rewrite andb_false_r. reflexivity.
  - split; [unfold is_skip | unfold is_dd, dd]; simpl; rewrite ?andb_false_r; reflexivity.
Qed.

Lemma run_shape : forall x st, (x = [sl] \/ no_slash x) ->
  crun false st (split x) = st \/
  (is_dd x = true /\ crun false st (split x) = cstep false st dd) \/
  crun false st (split x) = (fst st, x :: snd st).
Proof.
  intros x st [E|NS].
  - subst. left. reflexivity.
  - rewrite split_single by assumption. change (crun false st [x]) with (cstep false st x).
    destruct (cstep_cases false st x NS) as [[_ E]|[[D _]|[_ E]]].
    + left. assumption.
    + right. left. split; [assumption|]. apply is_dd_eq in D. subst. reflexivity.
    + right. right. assumption.
Qed.

Lemma under_clean_r : forall r p, under r (clean p) <-> under r p.
Proof. intros. unfold under. rewrite clean_abs, cc_clean. tauto. Qed.

(* the path cachePathFromURL builds, before its containment test *)
Definition cache_joined (root ustr path : str) : str :=
  clean (join [root; qescape ustr; base (dir path); base path]).

(* with the arch-directory name base(dir(path)) not "..", the joined path is at
   or below the root whatever the test says *)
Lemma cache_joined_under_partial : forall root ustr path,
  is_abs root = true -> In sl ustr -> is_dd (base (dir path)) = false ->
  under root (cache_joined root ustr path).
Proof.
  intros root ustr path HA HS HD. unfold cache_joined.
  set (e := qescape ustr). set (d := base (dir path)) in *. set (fn := base path).
  assert (join [root; e; d; fn] = join [root; e ++ sl :: d ++ sl :: fn]) as EJ.
  { destruct root as [|c r]; [discriminate|]. unfold join. simpl drop_empty. cbn [join_sl].
    reflexivity. }
  rewrite EJ. apply under_clean_r. apply no_climb_under; [assumption|].
  unfold ups. rewrite !split_app_sl, !crun_app.
  assert (proper e) as PE.
  { destruct (pct_not_special e (qescape_has_pct ustr HS)) as [P1 P2].
    repeat split; [apply qescape_no_slash | assumption | assumption]. }
  rewrite (split_single e) by (apply proper_no_slash; assumption).
  change (crun false (0, []) [e]) with (cstep false (0, []) e). rewrite cstep_proper by assumption.
  simpl fst. simpl snd.
  assert (exists y ys, crun false (0, [e]) (split d) = (0, y :: ys)) as [y [ys E1]].
  { destruct (run_shape d (0, [e]) (base_shape (dir path))) as [E|[[D _]|E]].
    - eauto.
    - exfalso. subst d. rewrite HD in D. discriminate.
    - simpl in E. eauto. }
  rewrite E1.
  destruct (run_shape fn (0, y :: ys) (base_shape path)) as [E|[[_ E]|E]]; rewrite E; reflexivity.
Qed.

(* the result of cachePathFromURL is strictly below the root — every root,
   every URL — because the component-wise test says so *)
Lemma cache_path_strictly_under : forall root ustr path p,
  cache_path_from_url root ustr path = Some p ->
  is_abs root = is_abs p /\ exists c r, cc p = cc root ++ c :: r.
Proof.
  intros root ustr path p H. unfold cache_path_from_url in H.
  destruct (strictly_within (clean root) _) eqn:W; [|discriminate]. inversion H; subst; clear H.
  apply strictly_within_sound in W. rewrite (clean_abs root), (cc_clean root) in W. exact W.
Qed.

(* ======================================================================== *)
(* 11. base of a cleaned absolute path                                       *)
(* ======================================================================== *)

Lemma strip_id : forall a c, c <> sl -> strip_trailing_slashes (a ++ [c]) = a ++ [c].
Proof.
  intros a c H. unfold strip_trailing_slashes. rewrite rev_app_distr. simpl rev at 1. simpl app.
  simpl drop_while. unfold is_sl. rewrite (neq_sl_eqb c H). simpl. rewrite rev_involutive. reflexivity.
Qed.

Lemma join_sl_snoc : forall l z, l <> [] -> join_sl (l ++ [z]) = join_sl l ++ sl :: z.
Proof.
  induction l as [|x l IH]; intros z NE; [contradiction|].
  destruct l as [|y t]; [reflexivity|].
  change (join_sl ((x :: y :: t) ++ [z])) with (x ++ sl :: join_sl ((y :: t) ++ [z])).
  rewrite IH by discriminate.
  change (join_sl (x :: y :: t)) with (x ++ sl :: join_sl (y :: t)).
  rewrite <- app_assoc. reflexivity.
Qed.

Lemma proper_snoc : forall z, proper z -> exists zi c, z = zi ++ [c] /\ c <> sl.
Proof.
  intros z [NS [Sk _]]. destruct z as [|a z']; [discriminate|].
  destruct (exists_last (l := a :: z')) as [zi [c E]]; [discriminate|].
  exists zi, c. split; [assumption|]. intro; subst c. apply NS. rewrite E. apply in_or_app. right. left. reflexivity.
Qed.

Lemma rooted_ends : forall L, L <> [] -> Forall proper L ->
  exists a c, sl :: join_sl L = a ++ [c] /\ c <> sl.
Proof.
  intros L NE F. destruct (exists_last NE) as [L' [z E]]. subst L.
  apply Forall_app in F. destruct F as [_ Fz]. inversion Fz as [|? ? Pz _]; subst.
  destruct (proper_snoc z Pz) as [zi [c [Ez Nc]]]. subst z.
  destruct L' as [|x L'].
  - exists (sl :: zi), c. split; [reflexivity | assumption].
  - rewrite join_sl_snoc by discriminate.
    exists (sl :: join_sl (x :: L') ++ sl :: zi), c. split; [|assumption].
    simpl. rewrite <- app_assoc. reflexivity.
Qed.

Lemma last_cons_ne : forall (A : Type) (x : A) l d, l <> [] -> last (x :: l) d = last l d.
Proof. intros A x [|y l] d H; [contradiction | reflexivity]. Qed.

Lemma base_rooted : forall L, L <> [] -> Forall proper L -> base (sl :: join_sl L) = last L [].
Proof.
  intros L NE F. destruct (rooted_ends L NE F) as [a [c [E Nc]]].
  unfold base. rewrite E at 1. rewrite strip_id by assumption. rewrite <- E.
  change (split (sl :: join_sl L)) with ([] :: split (join_sl L)).
  rewrite split_join_sl; [| assumption | eapply Forall_impl; [|exact F]; apply proper_no_slash].
  apply last_cons_ne. assumption.
Qed.

Lemma last_proper : forall L, L <> [] -> Forall proper L -> proper (last L []).
Proof.
  intros L NE F. destruct (exists_last NE) as [L' [z E]]. subst. rewrite last_last.
  apply Forall_app in F. destruct F as [_ F]. inversion F; assumption.
Qed.

(* filepath.Base of an absolute cleaned path is "/" or a proper component *)
Lemma base_clean_abs : forall x, is_abs x = true -> base (clean x) = [sl] \/ proper (base (clean x)).
Proof.
  intros x H. unfold clean. rewrite H. pose proof (cc_wf x) as W. rewrite H in W.
  destruct (cc x) as [|c L] eqn:E.
  - left. reflexivity.
  - right. change (render true (c :: L)) with (sl :: join_sl (c :: L)).
    pose proof (wf_true_proper _ W) as F.
    rewrite base_rooted by (discriminate || assumption). apply last_proper; [discriminate | assumption].
Qed.

Lemma drop_while_snoc : forall f a x, f x = false -> exists y, drop_while f (a ++ [x]) = y ++ [x].
Proof.
  intros f a x H. induction a as [|c a [y IH]]; simpl.
  - rewrite H. exists []. reflexivity.
  - destruct (f c); [exists y; assumption|]. exists (c :: a). reflexivity.
Qed.

Lemma upto_last_slash_abs : forall p, is_abs p = true -> is_abs (upto_last_slash p) = true.
Proof.
  intros [|c p] H; [discriminate|]. simpl in H. apply Ascii.eqb_eq in H. subst c.
  unfold upto_last_slash. simpl rev.
  destruct (drop_while_snoc (fun c => negb (is_sl c)) (rev p) sl) as [y E]; [reflexivity|].
  rewrite E, rev_app_distr. reflexivity.
Qed.

Lemma base_dir_not_dd : forall p, is_abs p = true -> is_dd (base (dir p)) = false.
Proof.
  intros p H. unfold dir.
  destruct (base_clean_abs (upto_last_slash p) (upto_last_slash_abs p H)) as [E|[_ [_ D]]].
  - rewrite E. reflexivity.
  - assumption.
Qed.

(* for the URLs the callers produce the joined path is at or below the root
   whatever the test says, so the test only ever refuses the root itself *)
Lemma cache_joined_under : forall root ustr path,
  is_abs root = true -> is_abs path = true -> In sl ustr ->
  under root (cache_joined root ustr path).
Proof.
  intros root ustr path HR HP HS.
  apply cache_joined_under_partial; auto. apply base_dir_not_dd. assumption.
Qed.

Lemma cache_path_accepts : forall root ustr path,
  is_abs root = true -> is_abs path = true -> In sl ustr ->
  cc (cache_joined root ustr path) <> cc root ->
  cache_path_from_url root ustr path = Some (cache_joined root ustr path).
Proof.
  intros root ustr path HR HP HS NE.
  pose proof (cache_joined_under root ustr path HR HP HS) as [EA [r E]].
  unfold cache_path_from_url. fold (cache_joined root ustr path).
  unfold strictly_within, rel. rewrite clean_abs, cc_clean, <- EA, HR. simpl.
  rewrite E, strip_common_prefix. simpl.
  destruct r as [|c r']; [exfalso; apply NE; rewrite E, app_nil_r; reflexivity|].
  pose proof (cc_wf (cache_joined root ustr path)) as W. rewrite <- EA, HR, E in W. apply wf_true_proper in W.
  apply Forall_app in W. destruct W as [_ W]. inversion W as [|? ? [_ [_ D]] _]; subst. rewrite D. reflexivity.
Qed.
