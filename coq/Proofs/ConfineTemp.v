(* C18 — proofs about the names apko makes up itself (Model/ConfineTemp.v): temporary
   files and directories lie in the directory given, ExpandApk's files in the cache
   directory, the advertised names too; the key name of fetchAlpineKeys can climb and is
   held back only by the in-memory tree's lookup. *)
From Coq Require Import List Ascii String Bool Arith Lia NArith.
From Apko Require Import Base.Prelude Base.C18Path Generated.C18 Spec.ConfineSpec Model.Confine Model.ConfineHost
  Model.ConfineTemp Proofs.ConfineProofs Proofs.ConfineCache Proofs.ConfineHostProofs.
Import ListNotations.
Open Scope list_scope.

(* ---- names with a decimal digit in them --------------------------------------------------- *)

Lemma digit_not_special : forall d n, In d n -> is_digit d = true -> is_skip n = false /\ is_dd n = false.
Proof.
  intros d n I D. split.
  - unfold is_skip. apply orb_false_iff. split; apply str_eqb_neq; intro E; subst n.
    + inversion I.
    + destruct I as [I|[]]. subst d. vm_compute in D. discriminate.
  - unfold is_dd. apply str_eqb_neq. intro E. subst n. unfold dd in I.
    destruct I as [I|[I|[]]]; subst d; vm_compute in D; discriminate.
Qed.

Lemma digit_not_sl : forall d, is_digit d = true -> d <> sl.
Proof. intros d D E. subst. vm_compute in D. discriminate. Qed.

Lemma digits_no_slash : forall r, forallb is_digit r = true -> no_slash r.
Proof.
  intros r F I. rewrite forallb_forall in F. specialize (F sl I). vm_compute in F. discriminate.
Qed.

Lemma digits_ok_inv : forall r, digits_ok r = true -> exists d r', r = d :: r' /\ is_digit d = true /\ forallb is_digit r = true.
Proof.
  intros r H. unfold digits_ok in H. apply andb_true_iff in H. destruct H as [N F].
  destruct r as [|d r']; [discriminate|]. exists d, r'. split; [reflexivity|]. split; [|assumption].
  simpl in F. apply andb_true_iff in F. tauto.
Qed.

(* a name made of slash-free pieces around a run of digits is a proper component *)
Lemma around_digits_proper : forall a r b, no_slash a -> no_slash b -> digits_ok r = true -> proper (a ++ r ++ b).
Proof.
  intros a r b NA NB D. destruct (digits_ok_inv r D) as [d [r' [E [Dd F]]]].
  assert (I : In d (a ++ r ++ b)).
  { apply in_or_app. right. apply in_or_app. left. subst. left. reflexivity. }
  split.
  - intro S. apply in_app_or in S. destruct S as [S|S]; [contradiction|].
    apply in_app_or in S. destruct S as [S|S]; [|contradiction]. exact (digits_no_slash r F S).
  - eapply digit_not_special; eassumption.
Qed.

Lemma no_slash_existsb : forall p, existsb is_sl p = false -> no_slash p.
Proof.
  intros p H. apply no_slashb_iff. unfold no_slashb. rewrite H. reflexivity.
Qed.

Lemma last_star_spec : forall p a b, last_star p = Some (a, b) -> p = a ++ star :: b.
Proof.
  induction p as [|c p IH]; intros a b H; simpl in H; [discriminate|].
  destruct (last_star p) as [[a' b']|].
  - inversion H; subst. rewrite (IH a' b eq_refl). reflexivity.
  - destruct (Ascii.eqb c star) eqn:E; [|discriminate]. apply Ascii.eqb_eq in E. inversion H; subst. reflexivity.
Qed.

Lemma no_slash_app_inv : forall a b, no_slash (a ++ b) -> no_slash a /\ no_slash b.
Proof. intros a b N. split; intro I; apply N; apply in_or_app; auto. Qed.

Lemma temp_name_proper : forall pattern r n, temp_name pattern r = Some n -> digits_ok r = true -> proper n.
Proof.
  intros pattern r n H D. unfold temp_name in H.
  destruct (existsb is_sl pattern) eqn:S; [discriminate|]. apply no_slash_existsb in S.
  destruct (last_star pattern) as [[pre suf]|] eqn:L; inversion H; subst.
  - apply last_star_spec in L. subst pattern. apply no_slash_app_inv in S. destruct S as [S1 S2].
    apply around_digits_proper; [assumption| |assumption]. intro I. apply S2. right. assumption.
  - rewrite <- (app_nil_r r). apply around_digits_proper; [assumption | intros [] | assumption].
Qed.

(* ---- a proper name put after a directory, textually ------------------------------------------- *)

Lemma cc_text_join : forall b n, is_abs b = true -> proper n ->
  is_abs (b ++ sl :: n) = true /\ cc (b ++ sl :: n) = cc b ++ [n].
Proof.
  intros b n HB P. assert (NE : b <> []) by (intro; subst; discriminate).
  split; [rewrite is_abs_app; assumption|].
  rewrite <- cc_clean, <- join2 by assumption. rewrite cc_join_abs by assumption.
  destruct (proper_ups_downs n P) as [U D]. rewrite U, D, Nat.sub_0_r, firstn_all. reflexivity.
Qed.

Lemma has_suffix_sl : forall d, has_suffix d [sl] = true -> exists d', d = d' ++ [sl].
Proof.
  intros d H. unfold has_suffix in H. apply has_prefix_iff in H. destruct H as [r E].
  exists (rev r). rewrite <- (rev_involutive d), E. simpl. reflexivity.
Qed.

Lemma cc_root_name : forall n, proper n -> cc (sl :: n) = [n].
Proof.
  intros n P. unfold cc. change (is_abs (sl :: n)) with true.
  change (split (sl :: n)) with ([] :: split n). rewrite split_single by (apply proper_no_slash; assumption).
  unfold ccomps, crun. simpl fold_left. change (cstep true (0, []) []) with (0, @nil str).
  rewrite cstep_proper by assumption. reflexivity.
Qed.

Lemma temp_path_in_dir : forall d pattern r p, is_abs d = true -> temp_path d pattern r = Some p -> digits_ok r = true ->
  exists n, proper n /\ is_abs p = true /\ cc p = cc d ++ [n].
Proof.
  intros d pattern r p HD H D. unfold temp_path in H.
  destruct (temp_name pattern r) as [n|] eqn:T; [|discriminate]. simpl in H. inversion H; subst p.
  pose proof (temp_name_proper _ _ _ T D) as P. exists n. split; [assumption|].
  destruct (has_suffix d [sl]) eqn:S.
  - destruct (has_suffix_sl d S) as [d' E]. subst d. rewrite <- app_assoc. simpl app.
    destruct d' as [|c d''].
    + simpl. split; [reflexivity|]. apply cc_root_name. assumption.
    + assert (HD' : is_abs (c :: d'') = true) by (simpl in HD |- *; assumption).
      destruct (cc_text_join (c :: d'') n HD' P) as [A C]. split; [assumption|].
      rewrite C. rewrite cc_snoc_sl by discriminate. reflexivity.
  - apply cc_text_join; assumption.
Qed.

Lemma under_snoc : forall b p l, is_abs b = true -> is_abs p = true -> cc p = cc b ++ l -> under b p.
Proof. intros b p l HB HP E. split; [congruence | exists l; assumption]. Qed.

(* ---- ExpandApk ----------------------------------------------------------------------------------- *)

Definition tar_ext : str := trim_suffix (la expand_stream_ext) (la expand_tar_trim).
Lemma stream_ext_split : la expand_stream_ext = tar_ext ++ la expand_tar_trim.
Proof. reflexivity. Qed.

Lemma stream_name_proper : forall k e, digits_ok k = true -> no_slash e ->
  proper (la expand_stream_base ++ la "-" ++ k ++ la "." ++ e).
Proof.
  intros k e D NE.
  replace (la expand_stream_base ++ la "-" ++ k ++ la "." ++ e)
    with ((la expand_stream_base ++ la "-") ++ k ++ (la "." ++ e)) by (rewrite <- !app_assoc; reflexivity).
  apply around_digits_proper; [apply no_slashb_iff; reflexivity | | assumption].
  intro I. destruct I as [I|I]; [vm_compute in I; discriminate | contradiction].
Qed.

Lemma join_name_cc : forall b n, is_abs b = true -> proper n ->
  is_abs (join [b; n]) = true /\ cc (join [b; n]) = cc b ++ [n].
Proof.
  intros b n HB P. split; [apply join_abs_is_abs; assumption|].
  rewrite cc_join_abs by assumption. destruct (proper_ups_downs n P) as [U D].
  rewrite U, D, Nat.sub_0_r, firstn_all. reflexivity.
Qed.

Lemma stream_file_eq : forall td k e, is_abs td = true -> digits_ok k = true -> no_slash e ->
  join [td; la expand_stream_base] ++ la "-" ++ k ++ la "." ++ e =
  join [td; la expand_stream_base ++ la "-" ++ k ++ la "." ++ e].
Proof.
  intros td k e HT D NE.
  assert (PB : proper (la expand_stream_base)) by (apply properb_iff; reflexivity).
  etransitivity; [|symmetry; apply (join_proper_string td _ HT (stream_name_proper k e D NE))].
  etransitivity; [apply (f_equal2 (@app ascii)); [apply (join_proper_string td _ HT PB) | reflexivity]|].
  rewrite <- !app_assoc. reflexivity.
Qed.

Theorem expand_creates_confined : forall cacheDir r ks kt p, is_abs cacheDir = true ->
  digits_ok r = true -> forallb digits_ok ks = true -> digits_ok kt = true ->
  In p (expand_creates cacheDir r ks kt) -> under cacheDir p.
Proof.
  intros b r ks kt p HB DR DK DT I. unfold expand_creates in I.
  destruct (expand_tmpdir b r) as [td|] eqn:E; [|contradiction].
  destruct (temp_path_in_dir b _ r td HB E DR) as [n [Pn [At Ct]]].
  assert (FILE : forall k e, digits_ok k = true -> no_slash e ->
            under b (join [td; la expand_stream_base ++ la "-" ++ k ++ la "." ++ e])).
  { intros k e D NE. destruct (join_name_cc td _ At (stream_name_proper k e D NE)) as [A C].
    eapply under_snoc; [assumption | exact A |]. etransitivity; [exact C|]. rewrite Ct, <- app_assoc. reflexivity. }
  destruct I as [I | I].
  - subst p. eapply under_snoc; [assumption | exact At | exact Ct].
  - apply in_app_or in I. destruct I as [I | [I | []]].
    + apply in_map_iff in I. destruct I as [k [Ek Ik]]. subst p.
      rewrite forallb_forall in DK. unfold stream_file.
      rewrite stream_file_eq; [|assumption | apply DK; assumption | apply no_slashb_iff; reflexivity].
      apply FILE; [apply DK; assumption | apply no_slashb_iff; reflexivity].
    + subst p. unfold stream_tar, stream_file.
      assert (NT : no_slash tar_ext) by (apply no_slashb_iff; reflexivity).
      assert (NX : no_slash (la expand_stream_ext)) by (apply no_slashb_iff; reflexivity).
      match goal with |- under _ (trim_suffix ?X ?Y) =>
        assert (EQ : trim_suffix X Y = join [td; la expand_stream_base ++ la "-" ++ kt ++ la "." ++ tar_ext]) end.
      { etransitivity; [apply (f_equal (fun z => trim_suffix z (la expand_tar_trim))); apply (stream_file_eq td kt _ At DT NX)|].
        etransitivity; [apply (f_equal (fun z => trim_suffix z (la expand_tar_trim)));
                        apply (join_proper_string td _ At (stream_name_proper kt _ DT NX))|].
        etransitivity; [|symmetry; apply (join_proper_string td _ At (stream_name_proper kt _ DT NT))].
        replace (dir_prefix td ++ la expand_stream_base ++ la "-" ++ kt ++ la "." ++ la expand_stream_ext)
          with ((dir_prefix td ++ la expand_stream_base ++ la "-" ++ kt ++ la "." ++ tar_ext) ++ la expand_tar_trim).
        - apply trim_suffix_app.
        - rewrite stream_ext_split, <- !app_assoc. reflexivity. }
      rewrite EQ. apply FILE; assumption.
Qed.

(* PackageData's temporary file is made next to TarFile *)
Theorem packagedata_tmp_confined : forall tarf r p, is_abs tarf = true -> digits_ok r = true ->
  packagedata_tmp tarf r = Some p -> under (dir tarf) p.
Proof.
  intros tarf r p HT D H. unfold packagedata_tmp in H.
  assert (HD : is_abs (dir tarf) = true).
  { unfold dir. rewrite clean_abs. apply upto_last_slash_abs. assumption. }
  destruct (temp_path_in_dir _ _ r p HD H D) as [n [P [A C]]].
  eapply under_snoc; [assumption | exact A | exact C].
Qed.

(* what cachePackage advertises: a hexadecimal name and a suffix, in the cache directory *)
Theorem advertised_name_confined : forall cacheDir h x, is_abs cacheDir = true ->
  forallb is_hex_char h = true -> no_slash x -> 2 < List.length x ->
  under cacheDir (advertised_name cacheDir h x) /\ cc (advertised_name cacheDir h x) = cc cacheDir ++ [h ++ x].
Proof.
  intros b h x HB F NS L. pose proof (hex_name_proper h x F NS L) as P.
  destruct (join_name_cc b _ HB P) as [A C]. unfold advertised_name.
  split; [eapply under_snoc; [assumption | exact A | exact C] | exact C].
Qed.

(* ---- fetchAlpineKeys ------------------------------------------------------------------------------ *)

(* the decoded name can climb out of the keys directory, and out of the root *)
Lemma alpine_key_climbs : exists u p,
  alpine_key_file u = Some p /\ p = la "../c18-k.rsa.pub" /\ hd_error (cc (dir p)) = Some dd.
Proof.
  exists (la "https://alpinelinux.org/keys/..%2F..%2F..%2F..%2Fc18-k.rsa.pub"), (la "../c18-k.rsa.pub").
  repeat split; vm_compute; reflexivity.
Qed.

(* what holds it back on the directory-backed filesystem: the overlay's lookup of the
   name's directory fails, the method answers "does not exist" and the host is not asked *)
Lemma ov_pos_climbing : forall ch t, lookup_child ch dd = None -> clean t = t -> hd_error (cc t) = Some dd ->
  ov_pos (NDir ch) t = None.
Proof.
  intros ch t ND HC HD. unfold ov_pos.
  pose proof (get_pos_get_node ov_fuel memfs_max_links (NDir ch) t 0) as G.
  destruct (get_pos ov_fuel memfs_max_links (NDir ch) t 0) as [q|]; [|reflexivity].
  destruct G as [n [G _]]. exfalso. exact (get_node_climbing _ _ ch t 0 ND HC HD n G).
Qed.

Lemma dir_clean : forall p, clean (dir p) = dir p.
Proof. intro p. unfold dir. apply clean_idem. Qed.

Theorem tree_first_refuses_climbing_dir : forall b h ch p,
  lookup_child ch dd = None -> hd_error (cc (dir p)) = Some dd ->
  xstep b (mkX h (NDir ch)) (HCreate p) = (mkX h (NDir ch), false, []) /\
  xstep b (mkX h (NDir ch)) (HRemove p) = (mkX h (NDir ch), false, []).
Proof.
  intros b h ch p ND HD. pose proof (ov_pos_climbing ch (dir p) ND (dir_clean p) HD) as E.
  split; unfold xstep, ov_then; simpl x_ov; simpl x_host.
  - change ov_fuel with (S (S memfs_max_links)). simpl ov_open. rewrite E. reflexivity.
  - unfold ov_remove. rewrite E. reflexivity.
Qed.

(* ---- cachePackage's names and retrieveAndSaveFile's temporary file ------------------------------------ *)

Lemma cp_suffixes_ok : forall i, i < 3 -> no_slash (cp_suffix i) /\ 2 < List.length (cp_suffix i).
Proof.
  intros i L. destruct i as [|[|[|i]]]; try lia; (split; [apply no_slashb_iff; reflexivity | vm_compute; lia]).
Qed.

(* the data member's suffix ends with the trimmed literal *)
Definition cp_tar_suffix : str := trim_suffix (cp_suffix 2) (la cachepackage_tar_trim).
Lemma cp_dat_split : cp_suffix 2 = cp_tar_suffix ++ la cachepackage_tar_trim.
Proof. reflexivity. Qed.

Theorem cache_package_dsts_confined : forall cacheDir ctl dat p, is_abs cacheDir = true ->
  forallb is_hex_char ctl = true -> forallb is_hex_char dat = true ->
  In p (cache_package_dsts cacheDir ctl dat) ->
  under cacheDir p /\ exists n, proper n /\ cc p = cc cacheDir ++ [n].
Proof.
  intros b ctl dat p HB FC FD I.
  assert (ADV : forall h i, forallb is_hex_char h = true -> i < 3 ->
            under b (advertised_name b h (cp_suffix i)) /\
            exists n, proper n /\ cc (advertised_name b h (cp_suffix i)) = cc b ++ [n]).
  { intros h i F L. destruct (cp_suffixes_ok i L) as [NS LN].
    destruct (advertised_name_confined b h _ HB F NS LN) as [U C]. split; [exact U|].
    exists (h ++ cp_suffix i). split; [apply hex_name_proper; assumption | exact C]. }
  destruct I as [I|[I|[I|[I|[]]]]]; subst p; try (apply ADV; [assumption | lia]).
  (* the tar: the data member's name without the trimmed literal *)
  assert (NT : no_slash cp_tar_suffix) by (apply no_slashb_iff; reflexivity).
  assert (LT : 2 < List.length cp_tar_suffix) by (vm_compute; lia).
  pose proof (hex_name_proper dat _ FD NT LT) as PT.
  destruct (cp_suffixes_ok 2 ltac:(lia)) as [NS LN].
  pose proof (hex_name_proper dat _ FD NS LN) as PD.
  assert (EQ : trim_suffix (advertised_name b dat (cp_suffix 2)) (la cachepackage_tar_trim) = join [b; dat ++ cp_tar_suffix]).
  { unfold advertised_name.
    etransitivity; [apply (f_equal (fun z => trim_suffix z (la cachepackage_tar_trim))); apply (join_proper_string b _ HB PD)|].
    etransitivity; [|symmetry; apply (join_proper_string b _ HB PT)].
    replace (dir_prefix b ++ dat ++ cp_suffix 2) with ((dir_prefix b ++ dat ++ cp_tar_suffix) ++ la cachepackage_tar_trim).
    - apply trim_suffix_app.
    - rewrite cp_dat_split, <- !app_assoc. reflexivity. }
  rewrite EQ. destruct (join_name_cc b _ HB PT) as [A C].
  split; [eapply under_snoc; [assumption | exact A | exact C]|].
  exists (dat ++ cp_tar_suffix). split; assumption.
Qed.

(* retrieveAndSaveFile: for a cache file <d>/<one proper component> (what cacheFileFromEtag
   returns: c18_etag_safe) the directory made, the temporary file and the advertised name
   are all at or below <d> *)
Theorem retrieve_creates_confined : forall d n r p, is_abs d = true -> proper n -> digits_ok r = true ->
  In p (retrieve_creates (join [d; n]) r) -> under d p.
Proof.
  intros d n r p HD P D I. unfold retrieve_creates in I.
  pose proof (join_proper_string d n HD P) as E.
  destruct (dir_of_member d n HD (proper_no_slash _ P)) as [AD CD]. rewrite <- E in AD, CD.
  destruct I as [I|I].
  - subst p. eapply under_snoc with (l := []); [assumption | exact AD | rewrite app_nil_r; exact CD].
  - apply in_app_or in I. destruct I as [I|[I|[]]].
    + destruct (temp_path (dir (join [d; n])) retrieve_tmp_pattern r) as [t|] eqn:T; [|contradiction].
      destruct I as [I|[]]. subst p.
      destruct (temp_path_in_dir _ _ r t AD T D) as [m [Pm [At Ct]]].
      eapply under_snoc; [assumption | exact At | rewrite Ct, CD; reflexivity].
    + subst p. destruct (join_name_cc d n HD P) as [A C]. eapply under_snoc; [assumption | exact A | exact C].
Qed.
