(* C03 — the constraint splitter: a constraint assembled from clean parts
   (name, operator run, version, optional pin) is accepted by the source's
   packageNameRegex and split back into exactly those parts. *)
From Apko Require Import Base.Prelude Base.Regex Spec.VersionSpec Model.Version
  Generated.Regexes Generated.VersionConsts Generated.C03Version.
Open Scope N_scope.

Definition name_cls : list (N * N) := [(0, 59); (63, 63); (65, 125); (127, 255)].
Definition op_cls : list (N * N) := [(60, 62); (126, 126)].
Definition ver_cls : list (N * N) := [(0, 63); (65, 255)].
Definition pin_cls : list (N * N) := [(48, 57); (65, 90); (97, 122)].

Definition pn_body : re :=
  Cat (Grp 1 (Plus (Cls name_cls)))
 (Cat (Opt (Grp 2 (Cat (Grp 3 (Plus (Cls op_cls))) (Grp 4 (Plus (Cls ver_cls))))))
 (Cat (Opt (Grp 5 (Cat (Lit [64]) (Grp 6 (Plus (Cls pin_cls)))))) Eps)).

Lemma package_name_regex_body : anchored package_name_regex = Some pn_body.
Proof. vm_compute. reflexivity. Qed.

Definition is_alnum (c : N) : bool := in_ranges pin_cls c.
Definition byte (c : N) : Prop := c < 256.

(* ---- the hand-written character tests agree with the regex's classes ------ *)
Definition all_bytes : list N := List.map N.of_nat (seq 0 256).

Lemma in_all_bytes c : c < 256 -> In c all_bytes.
Proof.
  intros H. unfold all_bytes. apply in_map_iff. exists (N.to_nat c). split; [apply N2Nat.id|].
  apply in_seq. lia.
Qed.

Lemma classes_agree :
  forallb (fun c => Bool.eqb (is_namechar c) (in_ranges name_cls c) &&
                    Bool.eqb (is_opchar c) (in_ranges op_cls c) &&
                    Bool.eqb (not_at c) (in_ranges ver_cls c)) all_bytes = true.
Proof. vm_compute. reflexivity. Qed.

Lemma class_facts c : c < 256 ->
  is_namechar c = in_ranges name_cls c /\ is_opchar c = in_ranges op_cls c /\ not_at c = in_ranges ver_cls c.
Proof.
  intros H. pose proof classes_agree as T. rewrite forallb_forall in T.
  specialize (T c (in_all_bytes c H)). apply andb_true_iff in T. destruct T as [T T3].
  apply andb_true_iff in T. destruct T as [T1 T2].
  apply Bool.eqb_prop in T1, T2, T3. auto.
Qed.

(* ---- L (Plus (Cls rs)) ---------------------------------------------------- *)
Lemma L_star_cls rs l : forallb (in_ranges rs) l = true -> L (Star (Cls rs)) l.
Proof.
  induction l as [|c l IH]; simpl; intros H; [constructor|].
  apply andb_true_iff in H. destruct H as [Hc Hl].
  change (c :: l) with ([c] ++ l). constructor; [constructor; exact Hc | apply IH; exact Hl].
Qed.

Lemma L_plus_cls rs l : l <> [] -> forallb (in_ranges rs) l = true -> L (Plus (Cls rs)) l.
Proof.
  destruct l as [|c l]; [congruence|]. simpl. intros _ H.
  apply andb_true_iff in H. destruct H as [Hc Hl].
  change (c :: l) with ([c] ++ l). constructor; [constructor; exact Hc | apply L_star_cls; exact Hl].
Qed.

Lemma forallb_cls (p : N -> bool) rs l :
  Forall byte l -> (forall c, c < 256 -> p c = in_ranges rs c) -> forallb p l = true -> forallb (in_ranges rs) l = true.
Proof.
  intros Hb Hp. induction Hb as [|c l Hc Hl IH]; simpl; auto.
  intros H. apply andb_true_iff in H. destruct H as [H1 H2].
  rewrite <- (Hp c Hc), H1. simpl. apply IH; exact H2.
Qed.

(* ---- span ------------------------------------------------------------------ *)
Lemma span_app (p : N -> bool) a b :
  forallb p a = true -> match b with [] => True | c :: _ => p c = false end ->
  span p (a ++ b) = (a, b).
Proof.
  induction a as [|x a IH]; simpl; intros Ha Hb.
  - destruct b as [|c b]; simpl; [reflexivity | rewrite Hb; reflexivity].
  - apply andb_true_iff in Ha. destruct Ha as [Hx Ha]. rewrite Hx, (IH Ha Hb). reflexivity.
Qed.

Definition pin_tail (pin : list N) : list N := match pin with [] => [] | _ => 64 :: pin end.

Record clean (name ops v pin : list N) : Prop := {
  cl_bytes : Forall byte (name ++ ops ++ v ++ pin);
  cl_name : name <> [] /\ forallb is_namechar name = true;
  cl_ops : ops <> [] /\ forallb is_opchar ops = true;
  cl_v : v <> [] /\ forallb not_at v = true /\ match v with c :: _ => is_opchar c = false | [] => True end;
  cl_pin : forallb is_alnum pin = true
}.

Lemma split_clean name ops v pin : clean name ops v pin ->
  split_constraint (name ++ ops ++ v ++ pin_tail pin) = (name, ops, v, pin).
Proof.
  intros [Hb [Hn1 Hn2] [Ho1 Ho2] [Hv1 [Hv2 Hv3]] Hp].
  unfold split_constraint.
  rewrite (span_app is_namechar name (ops ++ v ++ pin_tail pin) Hn2).
  2:{ destruct ops as [|o ops']; [congruence|]. simpl. simpl in Ho2. apply andb_true_iff in Ho2.
      destruct Ho2 as [Ho _]. unfold is_namechar. rewrite Ho. reflexivity. }
  rewrite (span_app is_opchar ops (v ++ pin_tail pin) Ho2).
  2:{ destruct v as [|c v']; [congruence|]. simpl. exact Hv3. }
  rewrite (span_app not_at v (pin_tail pin) Hv2).
  2:{ destruct pin; simpl; [exact I | reflexivity]. }
  destruct ops as [|o ops']; [congruence|]. destruct v as [|c v']; [congruence|].
  destruct pin; reflexivity.
Qed.

Lemma Forall_app_l {A} (P : A -> Prop) a b : Forall P (a ++ b) -> Forall P a /\ Forall P b.
Proof. intros H. apply Forall_app in H. exact H. Qed.

Lemma match_clean name ops v pin : clean name ops v pin ->
  matches pn_body (name ++ ops ++ v ++ pin_tail pin) = true.
Proof.
  intros [Hb [Hn1 Hn2] [Ho1 Ho2] [Hv1 [Hv2 Hv3]] Hp].
  apply Forall_app_l in Hb. destruct Hb as [Bn Hb].
  apply Forall_app_l in Hb. destruct Hb as [Bo Hb].
  apply Forall_app_l in Hb. destruct Hb as [Bv Bp].
  apply matches_L; [vm_compute; reflexivity|].
  unfold pn_body. apply L_cat.
  - apply L_grp. apply L_plus_cls; [exact Hn1|].
    apply (forallb_cls is_namechar); auto. intros c Hc. apply (class_facts c Hc).
  - replace (ops ++ v ++ pin_tail pin) with ((ops ++ v) ++ pin_tail pin) by (rewrite app_assoc; reflexivity).
    apply L_cat.
    + apply L_opt1. apply L_grp. apply L_cat.
      * apply L_grp. apply L_plus_cls; [exact Ho1|].
        apply (forallb_cls is_opchar); auto. intros c Hc. apply (class_facts c Hc).
      * apply L_grp. apply L_plus_cls; [exact Hv1|].
        apply (forallb_cls not_at); auto. intros c Hc. apply (class_facts c Hc).
    + rewrite <- (app_nil_r (pin_tail pin)). apply L_cat; [|apply L_eps].
      destruct pin as [|p0 pin']; [apply L_opt0|].
      apply L_opt1. apply L_grp. change (pin_tail (p0 :: pin')) with ([64] ++ (p0 :: pin')).
      apply L_cat; [apply L_lit|]. apply L_grp. apply L_plus_cls; [discriminate | exact Hp].
Qed.

(* ---- strings <-> bytes ----------------------------------------------------- *)
Lemma string_of_bytes_of_string s : string_of_bytes (bytes_of_string s) = s.
Proof.
  unfold string_of_bytes, bytes_of_string. rewrite map_map.
  rewrite (map_ext _ (fun a => a)) by (intros a; apply ascii_N_embedding).
  rewrite map_id. apply string_of_list_ascii_of_string.
Qed.

Lemma bytes_are_bytes s : Forall byte (bytes_of_string s).
Proof.
  unfold bytes_of_string. apply Forall_forall. intros c Hc. apply in_map_iff in Hc.
  destruct Hc as (a & <- & _). apply N_ascii_bounded.
Qed.

(* ---- the whole resolver on a clean constraint ------------------------------- *)
Definition no_so_prefix (s : list N) : Prop := strip_prefix (bytes_of_string "so:") s = None.

Lemma resolve_clean s0 name ops v pin :
  bytes_of_string s0 = name ++ ops ++ v ++ pin_tail pin ->
  no_so_prefix (bytes_of_string s0) ->
  clean name ops v pin ->
  resolve_constraint s0 =
    {| c_name := string_of_bytes name; c_version := string_of_bytes v;
       c_dep := dep_of_matcher (string_of_bytes ops); c_pin := string_of_bytes pin |}.
Proof.
  intros Hs Hso Hc. unfold resolve_constraint, so_rewrite, so_rewrite_with. rewrite Hso.
  rewrite string_of_bytes_of_string.
  unfold full_match. rewrite package_name_regex_body. rewrite Hs.
  rewrite (match_clean _ _ _ _ Hc). rewrite (split_clean _ _ _ _ Hc).
  destruct Hc as [_ _ [Ho _] _ _]. destruct ops; [congruence | reflexivity].
Qed.
