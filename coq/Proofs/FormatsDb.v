(* C16 — lib/apk/db/installed with SEVERAL records: AddInstalledPackage called for
   each record in turn (Model.write_db), then ParseInstalled of the whole file.
   The reader resets its state at the blank line that ends a record, so every
   record is read as if it were alone: nothing of a record (its last directory,
   its last file, its fields) leaks into the next one. *)
From Apko Require Import Base.Prelude Base.C16Lib Model.Formats Spec.FormatsSpec Proofs.FormatsProofs
  Proofs.FormatsPasswd Proofs.FormatsPath Proofs.FormatsSort Proofs.FormatsInstalled Proofs.FormatsFixpoint Proofs.FormatsFit Proofs.FormatsFields.
From Coq Require Import Permutation.
Open Scope string_scope. Open Scope list_scope.

Section Db.
Variable enc : list N -> string.
Variable dec : string -> option (list N).
Variable hexdec : string -> option (list N).
Hypothesis codec : forall b, dec (enc b) = Some b.

(* what the reader returns for one written record *)
Definition readback_of (r : pkg * list hdr) : pkg * list hdr :=
  match sort_headers (snd r) with Ok s => (norm_inst (fst r), map rec_clean s) | _ => r end.

(* one record inside the envelope of c16_installed_roundtrip_fields_partial *)
Record rec_ok (r : pkg * list hdr) : Prop := {
  ro_pkg : inst_pkg_ok (fst r); ro_name : p_name (fst r) <> ""; ro_env : sort_envelope (snd r); ro_id : Forall id_ok (snd r);
  ro_pf : inst_fields_fit enc installed_max_token (fst r);
  ro_ff : Forall (file_fields_fit enc hexdec installed_max_token) (snd r) }.

(* the lines of one record *)
Definition rec_lines (r : pkg * list hdr) (sorted : list hdr) (ls : list string) : Prop :=
  sort_headers (snd r) = Ok sorted /\ installed_record_lines enc hexdec (fst r) sorted = Ok ls.

Lemma record_lines_nonempty p sorted ls : installed_record_lines enc hexdec p sorted = Ok ls -> ls <> [].
Proof.
  destruct installed_tables_pinned as (Hrows & _). unfold installed_record_lines.
  destruct (files_lines enc hexdec sorted) as [fl| | |]; cbn [rbind]; try discriminate. intro H. apply Ok_inj in H. subst ls.
  unfold pkg_to_installed. rewrite Hrows, pkg_lines. unfold inst_pkg_items. cbn [lines_of opt_line app]. discriminate.
Qed.

(* the text of the database is the lines of its records, each followed by a blank line *)
Lemma write_db_lines rs : forall t, write_db enc hexdec rs = Ok t ->
  exists sl, Forall2 (fun r x => rec_lines r (fst x) (snd x)) rs sl /\
             t = unlines (flat_map (fun x => snd x ++ [""]) sl).
Proof.
  induction rs as [|[p files] rs IH]; intros t H; cbn [write_db] in H.
  - apply Ok_inj in H. subst t. exists []. split; [constructor|reflexivity].
  - unfold write_installed in H. destruct (sort_headers files) as [sorted| | |] eqn:Es; cbn [rbind] in H; try discriminate.
    destruct (installed_record_lines enc hexdec p sorted) as [ls| | |] eqn:El; cbn [rbind] in H; try discriminate.
    destruct (write_db enc hexdec rs) as [rest| | |] eqn:Er; cbn [rbind] in H; try discriminate.
    apply Ok_inj in H. subst t. destruct (IH rest eq_refl) as (sl & F & ->).
    exists ((sorted, ls) :: sl). split; [constructor; [split; assumption|exact F]|].
    cbn [flat_map snd]. rewrite unlines_app, (join_nl_unlines ls (record_lines_nonempty p sorted ls El)). reflexivity.
Qed.

(* one record through the reader, whatever follows and whatever was read before *)
Lemma read_one r sorted ls rest acc : rec_ok r -> rec_lines r sorted ls ->
  inst_lines dec ((ls ++ [""]) ++ rest) empty_ist acc = inst_lines dec rest empty_ist (readback_of r :: acc).
Proof.
  intros [Hp Hn Henv Hid _ _] [Es El]. destruct r as [p files]. cbn [fst snd] in *.
  destruct installed_tables_pinned as (Hrows & _).
  destruct (sort_headers_in_envelope files Henv) as (sorted' & Es' & Ps & Gs). rewrite Es in Es'. apply Ok_inj in Es'. subst sorted'.
  assert (Hid' : Forall id_ok sorted) by (eapply Permutation_Forall; [symmetry; exact Ps|exact Hid]).
  unfold readback_of. cbn [fst snd]. rewrite Es.
  unfold installed_record_lines in El. destruct (files_lines enc hexdec sorted) as [fl| | |] eqn:Ef; cbn [rbind] in El; try discriminate.
  apply Ok_inj in El. subst ls. unfold pkg_to_installed. rewrite Hrows, pkg_lines. rewrite <- !app_assoc.
  rewrite (read_pkg_lines enc dec codec p _ acc Hp).
  destruct (read_files enc dec hexdec sorted (mkIst (norm_inst p) [] None None) fl ([""] ++ rest) acc Ef Hid') as (st' & E1 & E2 & E3).
  rewrite E1. cbn [app]. rewrite inst_lines_blank, E2, E3. cbn [i_pkg i_files i_ldir ldname].
  rewrite app_nil_r, rev_involutive, (recs_governed _ _ Gs).
  replace (p_name (norm_inst p)) with (p_name p) by reflexivity.
  assert (Sn : snonempty (p_name p) = true) by (unfold snonempty; apply negb_true_iff, String.eqb_neq, Hn). rewrite Sn. reflexivity.
Qed.

Lemma read_all rs : forall sl acc, Forall rec_ok rs -> Forall2 (fun r x => rec_lines r (fst x) (snd x)) rs sl ->
  inst_lines dec (flat_map (fun x => snd x ++ [""]) sl) empty_ist acc = Ok (rev acc ++ map readback_of rs).
Proof.
  induction rs as [|r rs IH]; intros sl acc Hok F; inversion F as [|? x ? sl' Hx F']; subst.
  - cbn. rewrite app_nil_r. reflexivity.
  - inversion Hok; subst. cbn [flat_map map]. rewrite (read_one r (fst x) (snd x) _ acc); [|assumption|exact Hx].
    rewrite (IH sl' _); [|assumption|exact F']. cbn [rev]. rewrite <- app_assoc. reflexivity.
Qed.

Lemma db_lines_fit rs sl : Forall rec_ok rs -> Forall2 (fun r x => rec_lines r (fst x) (snd x)) rs sl ->
  lines_fit installed_max_token (flat_map (fun x => snd x ++ [""]) sl).
Proof.
  intros Hok F. induction F as [|r x rs sl [Es El] _ IH]; [constructor|]. inversion Hok as [|? ? Hr Hrs]; subst.
  cbn [flat_map]. apply Forall_app. split; [|apply IH, Hrs]. destruct Hr as [Hp Hn Henv Hid Fp Ff]. destruct r as [p files]. cbn [fst snd] in *.
  apply Forall_app. split.
  - exact (fit_hyp enc hexdec p files Henv Hp Hid Fp Ff (fst x) (snd x) Es El).
  - constructor; [|constructor]. split; [split; [reflexivity|discriminate]|]. pose proof installed_token_room. cbn [nlen]. lia.
Qed.

(* AddInstalledPackage for every record, then ParseInstalled: one record per record, in
   order, each exactly what it would be read as alone *)
Theorem db_roundtrip rs t : Forall rec_ok rs -> write_db enc hexdec rs = Ok t ->
  parse_installed dec t = Ok (map readback_of rs).
Proof.
  intros Hok Hw. destruct (write_db_lines rs t Hw) as (sl & F & ->).
  unfold parse_installed, parse_installed_max. rewrite (scan_unlines _ _ (db_lines_fit rs sl Hok F)).
  rewrite (read_all rs sl [] Hok F). reflexivity.
Qed.

(* each record of the read-back relates to the written one as c16_installed_roundtrip_partial says *)
Theorem db_records_survive rs : Forall rec_ok rs ->
  Forall (fun r => exists sorted, sort_headers (snd r) = Ok sorted /\ readback_of r = (norm_inst (fst r), map rec_clean sorted) /\
                    SamePkgButInstallIf (fst r) (fst (readback_of r)) /\
                    p_installif (fst (readback_of r)) = go_slice_readback (p_installif (fst r)) /\
                    Permutation sorted (snd r)) rs.
Proof.
  intro Hok. eapply Forall_impl; [|exact Hok]. intros [p files] [_ _ Henv _ _ _]. cbn [fst snd] in *.
  destruct (sort_headers_in_envelope files Henv) as (sorted & Es & Ps & _). exists sorted. unfold readback_of. cbn [fst snd]. rewrite Es.
  split; [reflexivity|]. split; [reflexivity|]. split; [apply same_norm_inst|]. split; [reflexivity|exact Ps].
Qed.

(* ---- reading the database and writing every record again ------------------------------------------ *)
Lemma write_db_of_lines rs : forall sl, Forall2 (fun r x => rec_lines r (fst x) (snd x)) rs sl ->
  write_db enc hexdec rs = Ok (unlines (flat_map (fun x => snd x ++ [""]) sl)).
Proof.
  induction rs as [|[p files] rs IH]; intros sl F; inversion F as [|? x ? sl' [Es El] F']; subst; [reflexivity|].
  cbn [fst snd] in *. cbn [write_db]. unfold write_installed. rewrite Es. cbn [rbind]. rewrite El. cbn [rbind]. rewrite (IH sl' F'). cbn [rbind flat_map].
  rewrite unlines_app, (join_nl_unlines (snd x) (record_lines_nonempty p (fst x) (snd x) El)). reflexivity.
Qed.

Definition nlfree (ls : list string) : Prop := Forall (fun l => has_char ch_nl l = false) ls.

(* one record: the lines of its read-back are the first ones without the Z: lines and with another i: line *)
Lemma rewrite_one r sorted ls : rec_ok r -> rec_lines r sorted ls ->
  exists ls', rec_lines (readback_of r) (map rec_clean sorted) ls' /\
    Forall2 line_mod_i (drop_z ls) ls' /\ nlfree ls /\ nlfree ls'.
Proof.
  intros [Hp Hn Henv Hid Fp Ff] [Es El]. destruct r as [p files]. cbn [fst snd] in *.
  destruct installed_tables_pinned as (Hrows & _).
  pose proof (fit_hyp enc hexdec p files Henv Hp Hid Fp Ff sorted ls Es El) as Fit.
  destruct (sort_headers_in_envelope files Henv) as (sorted' & Es' & Ps & Gs). rewrite Es in Es'. apply Ok_inj in Es'. subst sorted'.
  unfold installed_record_lines in El. destruct (files_lines enc hexdec sorted) as [fl| | |] eqn:Ef; cbn [rbind] in El; try discriminate.
  apply Ok_inj in El. subst ls.
  assert (C : forall x, In x files -> ckey (rec_clean x) = ckey x).
  { intros x Ix. unfold rec_clean, ckey. cbn [h_name]. destruct (h_isdir x); [|apply clean_idem].
    apply clean_dir_trim. exact (reach_not_root files (ckey x) (envelope_reach files Henv x Ix)). }
  assert (S2 : sort_headers (map rec_clean sorted) = Ok (map rec_clean sorted)).
  { rewrite (sort_headers_map_perm rec_clean files sorted (fun h => eq_refl) (se_nodup files Henv) Ps C (se_nodot files Henv)), Es. reflexivity. }
  assert (PB : forall h, In h sorted -> h_isdir h = false -> plain_base (h_name h)).
  { intros h Ih. apply (se_base files Henv). eapply Permutation_in; [exact Ps|exact Ih]. }
  pose proof (files_lines_clean enc hexdec sorted fl Ef PB) as Ef2.
  unfold readback_of. cbn [fst snd]. rewrite Es.
  exists (pkg_to_installed enc (norm_inst p) ++ drop_z fl). split.
  { split; cbn [fst snd]; [exact S2|]. unfold installed_record_lines. rewrite Ef2. reflexivity. }
  unfold pkg_to_installed in *. rewrite Hrows in *. rewrite !pkg_lines in *.
  destruct (pkg_items_norm enc p) as (F2 & DZ).
  assert (NL : nlfree (lines_of (inst_pkg_items enc p) ++ fl)).
  { eapply Forall_impl; [|exact Fit]. intros l [[H _] _]. exact H. }
  pose proof NL as NL0. apply Forall_app in NL. destruct NL as [NL1 NL2].
  split; [|split; [exact NL0|]].
  - rewrite drop_z_app, DZ. apply forall2_app; [|apply forall2_refl_mod].
    clear - F2. induction F2; constructor; [apply line_step_mod; assumption|assumption].
  - apply Forall_app. split.
    + eapply forall2_nl; [apply line_step_nl|exact F2|exact NL1].
    + apply Forall_forall. intros l Il. apply filter_In in Il. unfold nlfree in NL2. rewrite Forall_forall in NL2. apply NL2, Il.
Qed.

Lemma rewrite_all rs : forall sl, Forall rec_ok rs -> Forall2 (fun r x => rec_lines r (fst x) (snd x)) rs sl ->
  exists sl', Forall2 (fun r x => rec_lines r (fst x) (snd x)) (map readback_of rs) sl' /\
    Forall2 line_mod_i (drop_z (flat_map (fun x => snd x ++ [""]) sl)) (flat_map (fun x => snd x ++ [""]) sl') /\
    nlfree (flat_map (fun x => snd x ++ [""]) sl) /\ nlfree (flat_map (fun x => snd x ++ [""]) sl').
Proof.
  induction rs as [|r rs IH]; intros sl Hok F; inversion F as [|? x ? sl0 Hx F']; subst.
  - exists []. repeat split; constructor.
  - inversion Hok as [|? ? Hr Hrs]; subst. destruct (IH sl0 Hrs F') as (sl' & G & M & N1 & N2).
    destruct (rewrite_one r (fst x) (snd x) Hr Hx) as (ls' & R & M1 & A1 & A2).
    exists ((map rec_clean (fst x), ls') :: sl'). cbn [map flat_map fst snd]. split; [constructor; [exact R|exact G]|].
    assert (B : nlfree [""]) by (repeat constructor).
    split; [|split; (apply Forall_app; split; [apply Forall_app; split; assumption|assumption])].
    rewrite !drop_z_app. apply forall2_app; [apply forall2_app; [exact M1|apply forall2_refl_mod]|exact M].
Qed.

(* The whole database read and written again: every record is written, and the new
   text is the old one without the Z: lines and with other i: lines, line for line *)
Theorem db_fixpoint rs t : Forall rec_ok rs -> write_db enc hexdec rs = Ok t ->
  exists t', parse_installed dec t = Ok (map readback_of rs) /\
    write_db enc hexdec (map readback_of rs) = Ok t' /\ InstalledFixpointModIZ t t'.
Proof.
  intros Hok Hw. pose proof (db_roundtrip rs t Hok Hw) as Rd. destruct (write_db_lines rs t Hw) as (sl & F & ->).
  destruct (rewrite_all rs sl Hok F) as (sl' & G & M & N1 & N2).
  eexists. split; [exact Rd|]. split; [exact (write_db_of_lines _ sl' G)|].
  unfold InstalledFixpointModIZ. rewrite !split_on_unlines by assumption. rewrite drop_z_app.
  apply forall2_app; [exact M|apply forall2_refl_mod].
Qed.
End Db.
