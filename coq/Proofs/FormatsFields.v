(* C16 — the round-trip theorems with every hypothesis on the FIELDS of the
   records: "the written lines fit the scanner" (Proofs/FormatsFit.v) is derived
   from per-field conditions and the token limits goextract read from the two
   readers, and plugged into the theorems of FormatsProofs / FormatsInstalled /
   FormatsFixpoint. *)
From Apko Require Import Base.Prelude Base.C16Lib Model.Formats Spec.FormatsSpec Proofs.FormatsProofs
  Proofs.FormatsPasswd Proofs.FormatsPath Proofs.FormatsSort Proofs.FormatsInstalled Proofs.FormatsFixpoint Proofs.FormatsFit.
From Coq Require Import Permutation.
Open Scope string_scope. Open Scope list_scope.

(* the limits in the source leave room for the longest fixed-shape lines
   (a 20-digit number behind its letter; "M:" uid ":" gid ":" mode) *)
Lemma index_token_room : (23 <= index_max_token)%N.
Proof. vm_compute. discriminate. Qed.
Lemma installed_token_room : (49 <= installed_max_token)%N.
Proof. vm_compute. discriminate. Qed.

Section Fields.
Variable enc : list N -> string.
Variable dec : string -> option (list N).
Variable hexdec : string -> option (list N).
Hypothesis codec : forall b, dec (enc b) = Some b.

Theorem index_roundtrip_fields ps :
  Forall pkg_ok ps -> Forall (index_fields_fit enc index_max_token) ps ->
  parse_index dec (write_index enc ps) = Ok (map norm_index (named ps)) /\
  (Forall (fun p => p_replaces p = []) ps -> IndexRoundTrip ps (parse_index dec (write_index enc ps))) /\
  (exists l, parse_index dec (write_index enc ps) = Ok l /\ write_index enc l = write_index enc ps).
Proof.
  intros H1 H2. pose proof (index_lines_fit enc index_max_token ps index_token_room H1 H2) as Fit.
  split; [exact (index_roundtrip enc dec codec ps H1 Fit)|]. split.
  - intro H3. exact (index_roundtrip_spec enc dec codec ps H1 Fit H3).
  - exact (index_read_write_fixpoint enc dec codec ps H1 Fit).
Qed.

Lemma installed_fit_of_fields p files :
  inst_pkg_ok p -> Forall id_ok files ->
  inst_fields_fit enc installed_max_token p -> Forall (file_fields_fit enc hexdec installed_max_token) files ->
  forall sorted ls, Permutation sorted files -> installed_record_lines enc hexdec p sorted = Ok ls ->
  lines_fit installed_max_token ls.
Proof.
  intros Hp Hid Fp Ff sorted ls Ps El. destruct installed_tables_pinned as (Hrows & _).
  eapply (installed_lines_fit enc hexdec installed_max_token p sorted ls Hrows installed_token_room Hp Fp); [| |exact El].
  - eapply Permutation_Forall; [symmetry; exact Ps|exact Hid].
  - eapply Permutation_Forall; [symmetry; exact Ps|exact Ff].
Qed.

Lemma fit_hyp p files : sort_envelope files ->
  inst_pkg_ok p -> Forall id_ok files ->
  inst_fields_fit enc installed_max_token p -> Forall (file_fields_fit enc hexdec installed_max_token) files ->
  forall sorted ls, sort_headers files = Ok sorted -> installed_record_lines enc hexdec p sorted = Ok ls ->
  lines_fit installed_max_token ls.
Proof.
  intros Henv Hp Hid Fp Ff sorted ls Es El.
  destruct (sort_headers_in_envelope files Henv) as (sorted' & Es' & Ps & _). rewrite Es in Es'. apply Ok_inj in Es'. subst sorted'.
  eapply installed_fit_of_fields; eassumption.
Qed.

Theorem installed_roundtrip_fields_partial p files t :
  inst_pkg_ok p -> p_name p <> "" -> sort_envelope files -> Forall id_ok files ->
  inst_fields_fit enc installed_max_token p -> Forall (file_fields_fit enc hexdec installed_max_token) files ->
  write_installed enc hexdec p files = Ok t ->
  exists sorted, sort_headers files = Ok sorted /\
    parse_installed dec t = Ok [(norm_inst p, map rec_clean sorted)] /\
    InstalledRoundTripPartial p files (parse_installed dec t).
Proof.
  intros Hp Hn Henv Hid Fp Ff Hw.
  exact (installed_roundtrip_partial enc dec hexdec codec p files t Hp Hn Henv Hid Hw (fit_hyp p files Henv Hp Hid Fp Ff)).
Qed.

Theorem installed_fixpoint_fields p files t :
  inst_pkg_ok p -> p_name p <> "" -> sort_envelope files -> Forall id_ok files ->
  inst_fields_fit enc installed_max_token p -> Forall (file_fields_fit enc hexdec installed_max_token) files ->
  write_installed enc hexdec p files = Ok t ->
  exists sorted fl t',
    sort_headers files = Ok sorted /\ files_lines enc hexdec sorted = Ok fl /\
    t = join s_nl (pkg_to_installed enc p ++ fl) +++ s_nl +++ s_nl /\
    parse_installed dec t = Ok [(norm_inst p, map rec_clean sorted)] /\
    sort_headers (map rec_clean sorted) = Ok (map rec_clean sorted) /\
    write_installed enc hexdec (norm_inst p) (map rec_clean sorted) = Ok t' /\
    t' = join s_nl (pkg_to_installed enc (norm_inst p) ++ drop_z fl) +++ s_nl +++ s_nl /\
    Forall2 line_step (pkg_to_installed enc p) (pkg_to_installed enc (norm_inst p)) /\
    InstalledFixpointModIZ t t'.
Proof.
  intros Hp Hn Henv Hid Fp Ff Hw.
  exact (installed_fixpoint enc dec hexdec codec p files t Hp Hn Henv Hid Hw (fit_hyp p files Henv Hp Hid Fp Ff)).
Qed.
End Fields.
