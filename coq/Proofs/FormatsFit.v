(* C16 — "every written line fits the scanner" derived from conditions on the
   FIELDS of the records (no LF, no final CR, shorter than the token limit that
   goextract read from the reader), for the APKINDEX and for the installed
   database.  Numbers need no condition beyond their Go range: a uint64 prints
   in at most 20 digits, an int64 in at most 20 characters. *)
From Apko Require Import Base.Prelude Base.C16Lib Model.Formats Spec.FormatsSpec Proofs.FormatsProofs
  Proofs.FormatsPasswd Proofs.FormatsPath Proofs.FormatsSort Proofs.FormatsInstalled.
From Coq Require Import Decimal DecimalFacts DecimalPos DecimalN DecimalString Permutation.
Open Scope string_scope. Open Scope list_scope.

(* ---- how long a printed number is ------------------------------------------------------ *)
Lemma nlen_string_of_uint d : nlen (NilEmpty.string_of_uint d) = N.of_nat (nb_digits d).
Proof. induction d; cbn [NilEmpty.string_of_uint nlen nb_digits]; rewrite ?IHd; lia. Qed.

Lemma of_uint_acc_ge l : forall acc, (Npos acc * 10 ^ N.of_nat (nb_digits l) <= Npos (Pos.of_uint_acc l acc))%N.
Proof.
  induction l; intro acc; cbn [Pos.of_uint_acc nb_digits];
    try (rewrite Nat2N.inj_succ, N.pow_succ_r'; set (X := (10 ^ N.of_nat (nb_digits l))%N) in *;
         match goal with |- (_ <= N.pos (Pos.of_uint_acc l ?a))%N => specialize (IHl a) end; nia).
  cbn. lia.
Qed.

Lemma of_uint_normal_ge d : unorm d = d -> d <> zero -> (10 ^ (N.of_nat (nb_digits d) - 1) <= N.of_uint d)%N.
Proof.
  intros U Z.
  assert (P : forall l (a : positive), (10 ^ (N.of_nat (S (nb_digits l)) - 1) <= Npos (Pos.of_uint_acc l a))%N).
  { intros l a. pose proof (of_uint_acc_ge l a) as H. replace (N.of_nat (S (nb_digits l)) - 1)%N with (N.of_nat (nb_digits l)) by lia.
    set (X := (10 ^ N.of_nat (nb_digits l))%N) in *. nia. }
  destruct d; cbn [nb_digits N.of_uint Pos.of_uint]; try apply P.
  - discriminate U.
  - exfalso. rewrite unorm_D0 in U. unfold unorm in U. destruct (nzhead d) eqn:E; try (eapply nzhead_nonzero; rewrite E; exact U).
    injection U as <-. apply Z. reflexivity.
Qed.

Lemma to_uint_normal n : unorm (N.to_uint n) = N.to_uint n.
Proof. rewrite <- (DecimalN.Unsigned.of_to n) at 2. symmetry. apply DecimalN.Unsigned.to_of. Qed.

(* a number below 10^k prints in at most k digits *)
Lemma fmt_n_len n k : (n < 10 ^ k)%N -> (1 <= k)%N -> (nlen (fmt_n n) <= k)%N.
Proof.
  intros H K. unfold fmt_n. rewrite nlen_string_of_uint.
  destruct (uint_eq_dec (N.to_uint n) zero) as [E|E]; [rewrite E; cbn; lia|].
  pose proof (of_uint_normal_ge _ (to_uint_normal n) E) as G. rewrite DecimalN.Unsigned.of_to in G.
  assert (L : (10 ^ (N.of_nat (nb_digits (N.to_uint n)) - 1) < 10 ^ k)%N) by lia.
  apply N.pow_lt_mono_r_iff in L; lia.
Qed.
Lemma fmt_n_len64 n : (n < two64)%N -> (nlen (fmt_n n) <= 20)%N.
Proof. intro H. apply fmt_n_len; [|lia]. unfold two64 in H. eapply N.lt_trans; [exact H|]. vm_compute. reflexivity. Qed.
Lemma fmt_z_len64 z : (- Z.of_N two63 <= z < Z.of_N two63)%Z -> (nlen (fmt_z z) <= 20)%N.
Proof.
  intro H. unfold two63 in H. destruct z as [|p|p]; unfold fmt_z.
  - cbn. lia.
  - assert (nlen (fmt_n (Z.to_N (Z.pos p))) <= 19)%N; [|lia]. apply fmt_n_len; [|lia]. cbn [Z.to_N].
    assert (N.pos p < 9223372036854775808)%N by lia. eapply N.lt_trans; [eassumption|]. vm_compute. reflexivity.
  - cbn [nlen]. assert (nlen (fmt_n (N.pos p)) <= 19)%N; [|lia]. apply fmt_n_len; [|lia].
    assert (N.pos p <= 9223372036854775808)%N by lia. eapply N.le_lt_trans; [eassumption|]. vm_compute. reflexivity.
Qed.

(* ---- one tagged line ----------------------------------------------------------------------- *)
(* a field as a line carries it: no LF, no final CR, and with [k] more bytes (the
   letter, the colon, the terminator, ...) it fits in [max] *)
Definition text_fits (max k : N) (s : string) : Prop :=
  has_char ch_nl s = false /\ last_char s <> Some ch_cr /\ (nlen s + k <= max)%N.
Definition fits (max : N) (l : string) : Prop := line_ok l /\ (nlen l + 1 <= max)%N.

Lemma last_char_cons a s : last_char (String a s) = match s with "" => Some a | _ => last_char s end.
Proof. destruct s; reflexivity. Qed.
Lemma last_char_some_has c s : last_char s = Some c -> has_char c s = true.
Proof.
  induction s as [|a s IH]; [discriminate|]. rewrite last_char_cons. destruct s as [|b s].
  - intro H. injection H as ->. cbn. rewrite Ascii.eqb_refl. reflexivity.
  - intro H. change (has_char c (String a (String b s))) with (Ascii.eqb a c || has_char c (String b s)). rewrite (IH H). apply orb_true_r.
Qed.
Lemma no_cr_last s : has_char ch_cr s = false -> last_char s <> Some ch_cr.
Proof. intros H E. apply last_char_some_has in E. congruence. Qed.

(* "X:" followed by the field *)
Lemma tag_fits max (a : ascii) v : Ascii.eqb a ch_nl = false -> text_fits max 3 v -> fits max (String a (String ":" v)).
Proof.
  intros Ha (H1 & H2 & H3). split; [split|].
  - cbn [has_char]. rewrite Ha, H1. reflexivity.
  - rewrite !last_char_cons. destruct v; [discriminate|exact H2].
  - cbn [nlen]. lia.
Qed.
(* "X:" followed by a fixed prefix and the field *)
Lemma tag_pre_fits max (a : ascii) pre v : Ascii.eqb a ch_nl = false -> has_char ch_nl pre = false ->
  last_char pre <> Some ch_cr -> text_fits max (3 + nlen pre) v -> fits max (String a (String ":" (pre +++ v))).
Proof.
  intros Ha Hp Hl (H1 & H2 & H3). split; [split|].
  - cbn [has_char]. rewrite Ha, has_char_app, Hp, H1. reflexivity.
  - rewrite !last_char_cons. destruct (pre +++ v) eqn:E; [discriminate|]. rewrite <- E.
    destruct v; [rewrite sapp_nil_r; exact Hl|]. rewrite last_char_app by discriminate. exact H2.
  - cbn [nlen]. rewrite nlen_app. lia.
Qed.

Lemma fmt_n_fits max n : (n < two64)%N -> (23 <= max)%N -> text_fits max 3 (fmt_n n).
Proof.
  intros H M. split; [apply fmt_n_no_char; reflexivity|]. split; [apply fmt_n_last; reflexivity|].
  pose proof (fmt_n_len64 n H). lia.
Qed.
Lemma fmt_z_fits max z : (- Z.of_N two63 <= z < Z.of_N two63)%Z -> (23 <= max)%N -> text_fits max 3 (fmt_z z).
Proof.
  intros H M. split; [apply fmt_z_no_char; [reflexivity|discriminate]|]. split; [apply fmt_z_last; reflexivity|].
  pose proof (fmt_z_len64 z H). lia.
Qed.

(* ---- space-joined lists ----------------------------------------------------------------------- *)
Fixpoint items_len (l : list string) : N := match l with [] => 0%N | x :: l' => (nlen x + 1 + items_len l')%N end.
(* the items of a list as its line carries them: no LF in any, no CR at the end of
   the last, and all of them with their separators fit *)
Definition items_fit (max k : N) (l : list string) : Prop :=
  Forall (fun x => has_char ch_nl x = false) l /\ last_char (last l "") <> Some ch_cr /\ (items_len l + k <= max)%N.

Lemma nlen_join l : (nlen (join " " l) <= items_len l)%N.
Proof.
  induction l as [|x l IH]; [cbn; lia|]. destruct l as [|y l]; [cbn [join items_len]; lia|].
  rewrite join_cons2, !nlen_app. cbn [items_len nlen] in *. lia.
Qed.
Lemma last_char_join l : last_char (join " " l) = Some ch_cr -> last_char (last l "") = Some ch_cr.
Proof.
  induction l as [|x l IH]; [discriminate|]. destruct l as [|y l]; [exact (fun H => H)|].
  rewrite join_cons2. change (last (x :: y :: l) "") with (last (y :: l) "").
  rewrite last_char_app by discriminate. change (" " +++ join " " (y :: l)) with (String " " (join " " (y :: l))).
  rewrite last_char_cons. destruct (join " " (y :: l)) eqn:E; [discriminate|exact IH].
Qed.
Lemma join_fits max k l : items_fit max k l -> text_fits max k (join " " l).
Proof.
  intros (H1 & H2 & H3). split; [apply has_char_join; [reflexivity|exact H1]|]. split.
  - intro E. apply H2, last_char_join, E.
  - pose proof (nlen_join l). lia.
Qed.

(* ---- the APKINDEX ---------------------------------------------------------------------------------- *)
Section Fit.
Variable enc : list N -> string.

Record index_fields_fit (max : N) (p : pkg) : Prop := {
  xf_name : text_fits max 3 (p_name p); xf_version : text_fits max 3 (p_version p); xf_arch : text_fits max 3 (p_arch p);
  xf_desc : text_fits max 3 (p_desc p); xf_url : text_fits max 3 (p_url p); xf_license : text_fits max 3 (p_license p);
  xf_origin : text_fits max 3 (p_origin p); xf_maint : text_fits max 3 (p_maint p); xf_commit : text_fits max 3 (p_commit p);
  xf_deps : items_fit max 3 (p_deps p); xf_installif : items_fit max 3 (p_installif p); xf_provides : items_fit max 3 (p_provides p);
  xf_csum : text_fits max 5 (enc (p_checksum p)) }.

Lemma fits_opt max c l rest : fits max l -> Forall (fits max) rest -> Forall (fits max) (opt_line c l ++ rest).
Proof. intros H R. destruct c; cbn [opt_line app]; [constructor|]; assumption. Qed.

Lemma index_record_fits max p : (23 <= max)%N -> pkg_ok p -> index_fields_fit max p -> lines_fit max (record_lines enc p).
Proof.
  intros M [Hs Hi Hk Hb _ _ _] [F1 F2 F3 F4 F5 F6 F7 F8 F9 F10 F11 F12 F13].
  unfold lines_fit, record_lines, index_lines, index_items, checksum_string. cbn [lines_of]. fold (fits max).
  apply Forall_app. split; [|constructor; [|constructor]; split; [split; [reflexivity|discriminate]|cbn; lia]].
  constructor; [apply (tag_pre_fits max "C" "Q1"); [reflexivity|reflexivity|discriminate|exact F13]|].
  repeat (apply fits_opt; [first [apply tag_fits; [reflexivity|first [assumption | apply fmt_n_fits; assumption | apply fmt_z_fits; assumption | apply join_fits; assumption]]]|]).
  constructor.
Qed.

Theorem index_lines_fit max ps : (23 <= max)%N -> Forall pkg_ok ps -> Forall (index_fields_fit max) ps ->
  lines_fit max (flat_map (record_lines enc) (named ps)).
Proof.
  intros M H1 H2. unfold named. induction ps as [|p ps IH]; [constructor|].
  inversion H1; subst. inversion H2; subst. cbn [filter]. destruct (snonempty (p_name p)); [|apply IH; assumption].
  cbn [flat_map]. apply Forall_app. split; [apply index_record_fits; assumption|apply IH; assumption].
Qed.

(* ---- the installed database ------------------------------------------------------------------------- *)
Record inst_fields_fit (max : N) (p : pkg) : Prop := {
  nf_name : text_fits max 3 (p_name p); nf_version : text_fits max 3 (p_version p); nf_arch : text_fits max 3 (p_arch p);
  nf_license : text_fits max 3 (p_license p); nf_desc : text_fits max 3 (p_desc p); nf_origin : text_fits max 3 (p_origin p);
  nf_maint : text_fits max 3 (p_maint p); nf_url : text_fits max 3 (p_url p); nf_commit : text_fits max 3 (p_commit p);
  nf_deps : items_fit max 3 (p_deps p); nf_provides : items_fit max 3 (p_provides p); nf_replaces : items_fit max 3 (p_replaces p);
  (* i: is written as "[a b]": brackets around the joined items *)
  nf_installif : Forall (fun x => has_char ch_nl x = false) (p_installif p) /\ (items_len (p_installif p) + 5 <= max)%N;
  nf_csum : text_fits max 5 (enc (p_checksum p)) }.

Lemma inst_pkg_lines_fit max p : (23 <= max)%N -> inst_pkg_ok p -> inst_fields_fit max p ->
  lines_fit max (lines_of (inst_pkg_items enc p)).
Proof.
  intros M [Hs Hi Hk Hb _ _ _] [F1 F2 F3 F4 F5 F6 F7 F8 F9 F10 F11 F12 [I1 I2] F14].
  unfold lines_fit, inst_pkg_items, checksum_string. cbn [lines_of]. fold (fits max).
  assert (FI : fits max ("i:" +++ fmt_s (AList (p_installif p)))).
  { cbn [fmt_s]. change ("i:" +++ "[" +++ join " " (p_installif p) +++ "]") with (String "i" (String ":" (String "[" (join " " (p_installif p) +++ "]")))).
    pose proof (nlen_join (p_installif p)) as L. split; [split|].
    - cbn [has_char]. rewrite has_char_app, (has_char_join ch_nl " " _ eq_refl I1). reflexivity.
    - rewrite !last_char_cons. destruct (join " " (p_installif p) +++ "]") eqn:E; [discriminate|]. rewrite <- E.
      rewrite last_char_app by discriminate. discriminate.
    - cbn [nlen]. rewrite nlen_app. cbn [nlen]. lia. }
  repeat (apply fits_opt; [first [exact FI | apply tag_fits; [reflexivity|first [assumption | apply fmt_n_fits; assumption | apply fmt_z_fits; assumption | apply join_fits; assumption]]
                                  | apply (tag_pre_fits max "C" "Q1"); [reflexivity|reflexivity|discriminate|exact F14]]|]).
  constructor.
Qed.

(* ---- file entries ---------------------------------------------------------------------------------- *)
Lemma drop_last_has c s : has_char c s = false -> has_char c (drop_last s) = false.
Proof.
  induction s as [|a s IH]; [reflexivity|]. destruct s as [|b s]; [reflexivity|].
  change (has_char c (String a (String b s))) with (Ascii.eqb a c || has_char c (String b s)).
  change (drop_last (String a (String b s))) with (String a (drop_last (String b s))). cbn [has_char].
  intro H. apply orb_false_iff in H. destruct H as [H1 H2]. rewrite H1. exact (IH H2).
Qed.
Lemma drop_last_len s : (nlen (drop_last s) <= nlen s)%N.
Proof.
  induction s as [|a s IH]; [reflexivity|]. destruct s as [|b s]; [cbn; lia|].
  change (drop_last (String a (String b s))) with (String a (drop_last (String b s))). cbn [nlen] in *. lia.
Qed.
Lemma trim_has c d s : has_char c s = false -> has_char c (trim_suffix_char d s) = false.
Proof. intro H. unfold trim_suffix_char. destruct (last_char s) as [a|]; [|exact H]. destruct (Ascii.eqb a d); [apply drop_last_has, H|exact H]. Qed.
Lemma trim_len d s : (nlen (trim_suffix_char d s) <= nlen s)%N.
Proof. unfold trim_suffix_char. destruct (last_char s) as [a|]; [|lia]. destruct (Ascii.eqb a d); [apply drop_last_len|lia]. Qed.

Lemma trim_right_has c d s : has_char c s = false -> has_char c (trim_right_char d s) = false.
Proof.
  induction s as [|a s IH]; [reflexivity|]. cbn [has_char trim_right_char]. intro H. apply orb_false_iff in H. destruct H as [H1 H2].
  specialize (IH H2). destruct (trim_right_char d s) as [|b r].
  - destruct (Ascii.eqb a d); [reflexivity|]. cbn [has_char]. rewrite H1. reflexivity.
  - change (has_char c (String a (String b r))) with (Ascii.eqb a c || has_char c (String b r)). rewrite H1. exact IH.
Qed.
Lemma trim_right_len d s : (nlen (trim_right_char d s) <= nlen s)%N.
Proof.
  induction s as [|a s IH]; [reflexivity|]. cbn [trim_right_char]. destruct (trim_right_char d s) as [|b r].
  - destruct (Ascii.eqb a d); cbn [nlen] in *; lia.
  - cbn [nlen] in *. lia.
Qed.
Lemma dir_trim_has c s : has_char c s = false -> has_char c (dir_trim s) = false.
Proof. intro H. unfold dir_trim. destruct installed_dir_trim_all; [apply trim_right_has, H|apply trim_has, H]. Qed.
Lemma dir_trim_len s : (nlen (dir_trim s) <= nlen s)%N.
Proof. unfold dir_trim. destruct installed_dir_trim_all; [apply trim_right_len|apply trim_len]. Qed.

Lemma split_on_has c d s : has_char c s = false -> Forall (fun x => has_char c x = false) (split_on d s).
Proof.
  induction s as [|a s IH]; [repeat constructor|]. cbn [has_char split_on]. intro H. apply orb_false_iff in H. destruct H as [H1 H2].
  specialize (IH H2). destruct (Ascii.eqb a d); [constructor; [reflexivity|exact IH]|].
  destruct (split_on d s) as [|x xs]; [repeat constructor; cbn; rewrite H1; reflexivity|].
  inversion IH; subst. constructor; [cbn [has_char]; rewrite H1; assumption|assumption].
Qed.
Lemma split_on_len d s : Forall (fun x => (nlen x <= nlen s)%N) (split_on d s).
Proof.
  induction s as [|a s IH]; [repeat constructor; reflexivity|]. cbn [split_on nlen].
  assert (W : forall l, Forall (fun x => (nlen x <= nlen s)%N) l -> Forall (fun x => (nlen x <= N.succ (nlen s))%N) l).
  { intros l F. eapply Forall_impl; [|exact F]. cbn beta. intros. lia. }
  destruct (Ascii.eqb a d); [constructor; [cbn; lia|apply W, IH]|].
  destruct (split_on d s) as [|x xs]; [repeat constructor; cbn; lia|].
  inversion IH; subst. constructor; [cbn [nlen]; lia|apply W; assumption].
Qed.
Lemma first_nonempty_in l b : first_nonempty l = Some b -> In b l.
Proof. intro H. destruct (first_nonempty_some _ _ H) as (zs & rest & -> & _). apply in_or_app. right. left. reflexivity. Qed.
Lemma path_base_has c n : has_char c n = false -> Ascii.eqb "." c = false -> Ascii.eqb "/" c = false -> has_char c (path_base n) = false.
Proof.
  intros H D S. unfold path_base. destruct (n =? ""); [cbn [has_char]; rewrite D; reflexivity|].
  destruct (first_nonempty (List.rev (split_on ch_slash n))) as [b|] eqn:E; [|cbn [has_char]; rewrite S; reflexivity].
  apply first_nonempty_in, in_rev in E. pose proof (split_on_has c ch_slash n H) as F. rewrite Forall_forall in F. apply F, E.
Qed.
Lemma path_base_len n : (nlen (path_base n) <= N.max 1 (nlen n))%N.
Proof.
  unfold path_base. destruct (n =? ""); [cbn; lia|].
  destruct (first_nonempty (List.rev (split_on ch_slash n))) as [b|] eqn:E; [|cbn; lia].
  apply first_nonempty_in, in_rev in E. pose proof (split_on_len ch_slash n) as F. rewrite Forall_forall in F. specialize (F b E). lia.
Qed.

Variable hexdec : string -> option (list N).

Lemma file_lines_nocsum_fit h : h_csum h = "" -> file_lines enc hexdec h = Ok (file_head h).
Proof.
  intro C. unfold file_lines, file_head, nth_fmt.
  change installed_file_formats with ["%c"; "F:%s"; "M:%d:%d:%04o"; "R:%s"; "a:%d:%d:%04o"; "Z:%s"]. cbn [nth].
  destruct (h_isdir h).
  - rewrite perm_line_M. cbn [sprintf Ascii.eqb Bool.eqb fmt_s]. rewrite sapp_nil_r. reflexivity.
  - rewrite perm_line_a, C. cbn [String.eqb rbind]. cbn [sprintf Ascii.eqb Bool.eqb fmt_s]. rewrite sapp_nil_r, List.app_nil_r. reflexivity.
Qed.

(* the per-file checksum as the Z: line carries it: as it is when it already has the
   Q1 prefix, otherwise the base64 of its hex decoding *)
Definition csum_fits (max : N) (h : hdr) : Prop :=
  h_isdir h = true \/ h_csum h = "" \/
  (has_prefix "Q1" (h_csum h) = true /\ text_fits max 3 (h_csum h)) \/
  (has_prefix "Q1" (h_csum h) = false /\ forall b, hexdec (h_csum h) = Some b -> text_fits max 5 (enc b)).
(* the name contains neither LF nor CR and fits *)
Record file_fields_fit (max : N) (h : hdr) : Prop := {
  hf_nl : has_char ch_nl (h_name h) = false; hf_cr : has_char ch_cr (h_name h) = false;
  hf_len : (nlen (h_name h) + 3 <= max)%N; hf_csum : csum_fits max h }.

Lemma name_fits max (a : ascii) v : Ascii.eqb a ch_nl = false -> has_char ch_nl v = false -> has_char ch_cr v = false ->
  (nlen v + 3 <= max)%N -> fits max (String a (String ":" v)).
Proof. intros Ha H1 H2 H3. apply tag_fits; [exact Ha|]. split; [exact H1|]. split; [apply no_cr_last, H2|exact H3]. Qed.

Lemma perm_text_has c h : is_digit c = false -> c <> "-"%char -> c <> ":"%char -> has_char c (perm_text h) = false.
Proof.
  intros D M C. unfold perm_text. rewrite !has_char_app, !fmt_z_no_char by assumption.
  assert (X : has_char c ":" = false).
  { change (has_char c ":") with (Ascii.eqb ":" c || false). rewrite orb_false_r. apply Ascii.eqb_neq. congruence. }
  rewrite X. cbn [orb].
  pose proof (land_511_range (h_mode h)) as R. fold (perm_of_mode h) in R.
  eapply all_chars_has_char; [apply fmt_o4_digits; lia|exact D].
Qed.
Lemma perm_line_fits max (a : ascii) h : (49 <= max)%N -> Ascii.eqb a ch_nl = false -> id_ok h ->
  fits max (String a (String ":" (perm_text h))).
Proof.
  intros M Ha [Hu Hg]. apply name_fits; [exact Ha| | |].
  - apply perm_text_has; [reflexivity|discriminate|discriminate].
  - apply perm_text_has; [reflexivity|discriminate|discriminate].
  - unfold perm_text. rewrite !nlen_app. pose proof (fmt_z_len64 _ Hu). pose proof (fmt_z_len64 _ Hg).
    change (nlen ":") with 1%N. change (nlen (fmt_o4 (Z.to_N (perm_of_mode h)))) with 4%N. lia.
Qed.

Lemma file_head_fits max h : (49 <= max)%N -> id_ok h -> file_fields_fit max h -> Forall (fits max) (file_head h).
Proof.
  intros M Hid [H1 H2 H3 _]. unfold file_head, perm_items. destruct (h_isdir h).
  - constructor.
    + apply (name_fits max "F"); [reflexivity|apply dir_trim_has, H1|apply dir_trim_has, H2|]. pose proof (dir_trim_len (h_name h)). lia.
    + destruct (negb _); cbn [opt_line]; constructor; [apply (perm_line_fits max "M"); [exact M|reflexivity|exact Hid]|constructor].
  - constructor.
    + apply (name_fits max "R"); [reflexivity|apply path_base_has; [exact H1|reflexivity|reflexivity]|apply path_base_has; [exact H2|reflexivity|reflexivity]|].
      pose proof (path_base_len (h_name h)). lia.
    + destruct (negb _); cbn [opt_line]; constructor; [apply (perm_line_fits max "a"); [exact M|reflexivity|exact Hid]|constructor].
Qed.

Lemma file_lines_fit max h ls : (49 <= max)%N -> id_ok h -> file_fields_fit max h ->
  file_lines enc hexdec h = Ok ls -> Forall (fits max) ls.
Proof.
  intros M Hid F E. pose proof (file_head_fits max h M Hid F) as FH. destruct F as [_ _ _ C].
  destruct (h_csum h =? "") eqn:E0.
  { apply String.eqb_eq in E0. rewrite (file_lines_nocsum_fit h E0) in E. apply Ok_inj in E. subst ls. exact FH. }
  revert E. unfold file_lines. unfold file_head in FH. destruct (h_isdir h) eqn:D.
  - unfold nth_fmt. change installed_file_formats with ["%c"; "F:%s"; "M:%d:%d:%04o"; "R:%s"; "a:%d:%d:%04o"; "Z:%s"]. cbn [nth].
    rewrite perm_line_M. cbn [sprintf Ascii.eqb Bool.eqb fmt_s]. rewrite sapp_nil_r. intro E. apply Ok_inj in E. subst ls. exact FH.
  - unfold nth_fmt. change installed_file_formats with ["%c"; "F:%s"; "M:%d:%d:%04o"; "R:%s"; "a:%d:%d:%04o"; "Z:%s"]. cbn [nth].
    rewrite perm_line_a, E0.
    assert (S1 : forall x, sprintf "R:%s" [AStr x] = "R:" +++ x) by (intro x; cbn [sprintf Ascii.eqb Bool.eqb fmt_s]; rewrite sapp_nil_r; reflexivity).
    assert (S2 : forall x, sprintf "Z:%s" [AStr x] = "Z:" +++ x) by (intro x; cbn [sprintf Ascii.eqb Bool.eqb fmt_s]; rewrite sapp_nil_r; reflexivity).
    rewrite S1. destruct C as [C|[C|[[C1 C2]|[C1 C2]]]]; [congruence|rewrite C in E0; discriminate| |].
    + rewrite C1. cbn [rbind]. intro E. apply Ok_inj in E. subst ls. rewrite S2.
      change (?x :: ?a ++ ?b) with ((x :: a) ++ b). apply Forall_app. split; [exact FH|]. constructor; [|constructor].
      apply (tag_fits max "Z"); [reflexivity|exact C2].
    + rewrite C1. destruct (hexdec (h_csum h)) as [b|] eqn:Hx; cbn [from_opt rbind]; [|discriminate].
      intro E. apply Ok_inj in E. subst ls. rewrite S2.
      change (?x :: ?a ++ ?b) with ((x :: a) ++ b). apply Forall_app. split; [exact FH|]. constructor; [|constructor].
      apply (tag_pre_fits max "Z" "Q1"); [reflexivity|reflexivity|discriminate|apply C2; reflexivity].
Qed.

Lemma files_lines_fit max sorted : forall fl, (49 <= max)%N -> Forall id_ok sorted -> Forall (file_fields_fit max) sorted ->
  files_lines enc hexdec sorted = Ok fl -> Forall (fits max) fl.
Proof.
  induction sorted as [|h sorted IH]; intros fl M Hid F E.
  - cbn in E. apply Ok_inj in E. subst fl. constructor.
  - cbn [files_lines] in E. destruct (file_lines enc hexdec h) as [a| | |] eqn:Ea; cbn [rbind] in E; try discriminate.
    destruct (files_lines enc hexdec sorted) as [b| | |] eqn:Eb; cbn [rbind] in E; try discriminate.
    apply Ok_inj in E. subst fl. inversion Hid; subst. inversion F; subst. apply Forall_app. split.
    + eapply file_lines_fit; eassumption.
    + match goal with A : Forall id_ok sorted, B : Forall (file_fields_fit max) sorted |- _ => exact (IH b M A B eq_refl) end.
Qed.

(* every line of one record fits, from conditions on the fields alone *)
Theorem installed_lines_fit max p sorted ls :
  installed_pkg_rows = expected_installed_rows ->
  (49 <= max)%N -> inst_pkg_ok p -> inst_fields_fit max p -> Forall id_ok sorted -> Forall (file_fields_fit max) sorted ->
  installed_record_lines enc hexdec p sorted = Ok ls -> lines_fit max ls.
Proof.
  intros Hrows M Hp Fp Hid Ff E. unfold installed_record_lines in E.
  destruct (files_lines enc hexdec sorted) as [fl| | |] eqn:Ef; cbn [rbind] in E; try discriminate.
  apply Ok_inj in E. subst ls. unfold pkg_to_installed. rewrite Hrows, pkg_lines. apply Forall_app. split.
  - apply inst_pkg_lines_fit; [lia|exact Hp|exact Fp].
  - eapply files_lines_fit; eassumption.
Qed.
End Fit.
