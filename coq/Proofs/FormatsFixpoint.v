(* C16 — the installed database: reading a written record and writing it again.
   sortTarHeaders run on what ParseInstalled returned gives back the same list
   (its result depends on the input only through the two maps it builds, which
   a permutation of the input and the reader's renaming of the entries leave
   alone), the F:/M:/R:/a: lines are reproduced, the Z: lines are gone (C16-F2)
   and the i: line is written in Go's slice syntax once more (C16-F1). *)
From Apko Require Import Base.Prelude Base.C16Lib Model.Formats Spec.FormatsSpec Proofs.FormatsProofs
  Proofs.FormatsPasswd Proofs.FormatsPath Proofs.FormatsSort Proofs.FormatsInstalled.
From Coq Require Import Permutation.
Open Scope string_scope. Open Scope list_scope.

Definition rmap {A B} (f : A -> B) (r : res A) : res B :=
  match r with Ok a => Ok (f a) | Err => Err | Panic => Panic | OutOfFuel => OutOfFuel end.

(* ---- sortChildrenTarHeaders looks at its inputs through the two maps only ------------ *)
Definition knorm (o : option (list string)) : list string := match o with Some l => l | None => [] end.

Section MapPerm.
Variable g : hdr -> hdr.
Hypothesis g_dir : forall h, h_isdir (g h) = h_isdir h.
Variables (dc dc' : list (string * list string)) (all all' : list (string * hdr)).
Hypothesis ALL : forall c, alookup c all' = option_map g (alookup c all).
Hypothesis DC : forall c, Permutation (knorm (alookup c dc)) (knorm (alookup c dc')).

Lemma files_of_map cs : files_of all' cs = map g (files_of all cs).
Proof.
  unfold files_of. induction cs as [|c cs IH]; [reflexivity|]. cbn [flat_map]. rewrite IH, map_app, ALL.
  destruct (alookup c all) as [h|]; cbn [option_map]; [|reflexivity]. rewrite g_dir. destruct (h_isdir h); reflexivity.
Qed.

Lemma sub_alt f (d : list (string * list string)) (a : list (string * hdr)) c :
  match alookup c d with Some (x :: xs) => sort_children f d a (x :: xs) | _ => Ok [] end =
  match knorm (alookup c d) with [] => Ok [] | l => sort_children f d a l end.
Proof. destruct (alookup c d) as [[|x xs]|]; reflexivity. Qed.

Lemma dirs_of_map f :
  (forall cs cs', Permutation cs cs' -> sort_children f dc' all' cs' = rmap (map g) (sort_children f dc all cs)) ->
  forall l, dirs_of f dc' all' l = rmap (map g) (dirs_of f dc all l).
Proof.
  intros IHf l. induction l as [|c l IH]; [reflexivity|]. cbn [dirs_of]. rewrite ALL.
  destruct (alookup c all) as [h|]; cbn [option_map]; [|exact IH]. rewrite g_dir. destruct (h_isdir h); [|exact IH].
  rewrite !sub_alt. pose proof (DC c) as P.
  assert (S : match knorm (alookup c dc') with [] => Ok [] | l0 => sort_children f dc' all' l0 end =
              rmap (map g) (match knorm (alookup c dc) with [] => Ok [] | l0 => sort_children f dc all l0 end)).
  { destruct (knorm (alookup c dc)) as [|x xs].
    - apply Permutation_nil in P. rewrite P. reflexivity.
    - destruct (knorm (alookup c dc')) as [|y ys]; [apply Permutation_sym, Permutation_nil in P; discriminate|].
      apply IHf, P. }
  rewrite S, IH.
  destruct (match knorm (alookup c dc) with [] => Ok [] | l0 => sort_children f dc all l0 end) as [sub| | |]; cbn [rmap rbind]; try reflexivity.
  destruct (dirs_of f dc all l) as [rest| | |]; cbn [rmap rbind]; try reflexivity.
  cbn [map]. rewrite map_app. reflexivity.
Qed.

Lemma sort_children_map : forall f cs cs', Permutation cs cs' ->
  sort_children f dc' all' cs' = rmap (map g) (sort_children f dc all cs).
Proof.
  induction f as [|f IHf]; intros cs cs' P; [reflexivity|].
  rewrite !sort_children_S, (ssort_perm_eq _ _ (Permutation_sym P)), (dirs_of_map f IHf), files_of_map.
  destruct (dirs_of f dc all (ssort cs)) as [d| | |]; cbn [rmap rbind]; try reflexivity.
  rewrite map_app. reflexivity.
Qed.
End MapPerm.

(* ---- the two maps of a permuted, renamed header list ---------------------------------- *)
Lemma kids_map g d l : (forall x, In x l -> ckey (g x) = ckey x) -> kids d (map g l) = kids d l.
Proof.
  unfold kids. induction l as [|x l IH]; intro H; [reflexivity|]. cbn [map filter].
  rewrite (H x (or_introl eq_refl)). destruct (path_dir (ckey x) =? d); cbn [map];
    rewrite ?(H x (or_introl eq_refl)), IH; try reflexivity; intros y Iy; apply H; right; exact Iy.
Qed.
Lemma filter_perm {A} (p : A -> bool) l l' : Permutation l l' -> Permutation (filter p l) (filter p l').
Proof.
  induction 1 as [|x l l' _ IH|x y l|l l' l'' _ IH1 _ IH2]; cbn [filter].
  - constructor.
  - destruct (p x); [constructor|]; exact IH.
  - destruct (p x), (p y); try reflexivity. apply perm_swap.
  - etransitivity; eassumption.
Qed.
Lemma kids_perm d l l' : Permutation l l' -> Permutation (kids d l) (kids d l').
Proof. intro P. unfold kids. apply Permutation_map, filter_perm, P. Qed.
Lemma knorm_dc hs d : knorm (alookup d (dir_children hs)) = kids d hs.
Proof. rewrite dc_lookup. destruct (kids d hs); reflexivity. Qed.

Lemma all_lookup_map_perm g hs hs2 c :
  NoDup (map ckey hs) -> Permutation hs2 hs -> (forall x, In x hs -> ckey (g x) = ckey x) ->
  alookup c (all_headers (map g hs2)) = option_map g (alookup c (all_headers hs)).
Proof.
  intros N P K.
  assert (E : map ckey (map g hs2) = map ckey hs2).
  { rewrite map_map. apply map_ext_in. intros x Ix. apply K. eapply Permutation_in; [exact P|exact Ix]. }
  assert (N2 : NoDup (map ckey (map g hs2))).
  { rewrite E. eapply Permutation_NoDup; [apply Permutation_map, Permutation_sym, P|exact N]. }
  destruct (find (fun h => ckey h =? c) hs) as [h|] eqn:F.
  - apply find_some in F. destruct F as [I Ec]. apply String.eqb_eq in Ec. subst c.
    rewrite (all_lookup_in hs h N I). cbn [option_map]. rewrite <- (K h I).
    apply all_lookup_in; [exact N2|]. apply in_map. eapply Permutation_in; [symmetry; exact P|exact I].
  - assert (No : forall y, In y hs -> ckey y <> c).
    { intros y Iy Ey. pose proof (find_none _ _ F y Iy) as X. cbn beta in X. rewrite Ey, String.eqb_refl in X. discriminate. }
    rewrite (all_lookup_none hs c No). cbn [option_map]. apply all_lookup_none.
    intros y Iy. apply in_map_iff in Iy. destruct Iy as (x & <- & Ix).
    assert (Ix' : In x hs) by (eapply Permutation_in; [exact P|exact Ix]). rewrite (K x Ix'). apply No, Ix'.
Qed.

Lemma dc_keys_perm hs hs' : (forall d, Permutation (kids d hs) (kids d hs')) ->
  Permutation (map fst (dir_children hs)) (map fst (dir_children hs')).
Proof.
  intro K. apply NoDup_Permutation; try apply dc_keys_nodup. intro d.
  rewrite !alookup_in, !dc_lookup. specialize (K d).
  destruct (kids d hs) as [|x xs], (kids d hs') as [|y ys]; try tauto.
  - apply Permutation_nil in K. discriminate.
  - apply Permutation_sym, Permutation_nil in K. discriminate.
  - split; discriminate.
Qed.

(* sortTarHeaders of a permuted and renamed list: nothing but the renaming shows *)
Theorem sort_headers_map_perm g hs hs2 :
  (forall h, h_isdir (g h) = h_isdir h) -> NoDup (map ckey hs) -> Permutation hs2 hs ->
  (forall x, In x hs -> ckey (g x) = ckey x) -> (forall x, In x hs -> ckey x <> ".") ->
  sort_headers (map g hs2) = rmap (map g) (sort_headers hs).
Proof.
  intros Gd N P K ND0.
  unfold sort_headers. rewrite (filter_not_dot_id hs ND0).
  rewrite (filter_not_dot_id (map g hs2)).
  2:{ intros y Iy. apply in_map_iff in Iy. destruct Iy as (x & <- & Ix).
      assert (Ix' : In x hs) by (eapply Permutation_in; [exact P|exact Ix]).
      change (ckey (g x) <> "."). rewrite (K x Ix'). apply ND0, Ix'. }
  assert (KP : forall d, Permutation (kids d hs) (kids d (map g hs2))).
  { intro d. rewrite kids_map by (intros x Ix; apply K; eapply Permutation_in; [exact P|exact Ix]).
    apply kids_perm, Permutation_sym, P. }
  unfold sort_headers_raw, sort_headers_ord_raw.
  rewrite map_length, (Permutation_length P).
  rewrite (ssort_perm_eq _ _ (Permutation_sym (dc_keys_perm hs (map g hs2) KP))).
  apply sort_children_map; [exact Gd| | |reflexivity].
  - intro c. apply all_lookup_map_perm; assumption.
  - intro c. rewrite !knorm_dc. apply KP.
Qed.

(* ---- the file lines of the records the reader returned ---------------------------------- *)
Lemma path_base_render r b S : normal b -> vs r S -> path_base (render r (rev (b :: S))) = b.
Proof.
  intros Nb V. assert (V' : vs r (b :: S)) by (cbn [vs]; left; auto).
  pose proof (vs_good r (b :: S) V') as G'. cbn [rev] in *.
  assert (NE : rev S ++ [b] <> []) by (destruct (rev S); discriminate).
  assert (FN : first_nonempty (rev (rev S ++ [b])) = Some b).
  { rewrite rev_app_distr. cbn [rev app first_nonempty]. destruct Nb as (B1 & _). rewrite (eqb_false_of_neq _ _ B1). reflexivity. }
  unfold path_base. destruct r.
  - rewrite render_true. cbn [String.eqb]. cbn [split_on]. rewrite Ascii.eqb_refl, split_join_good by assumption.
    change (rev ("" :: rev S ++ [b])) with (rev (rev S ++ [b]) ++ [""]).
    rewrite rev_app_distr. cbn [rev app first_nonempty]. destruct Nb as (B1 & _). rewrite (eqb_false_of_neq _ _ B1). reflexivity.
  - destruct (rev S ++ [b]) as [|y Y] eqn:EY; [congruence|].
    rewrite (render_false_cons _ _ G').
    assert (J : join "/" (y :: Y) <> "") by (apply join_nonempty; inversion G' as [|? ? (H & _) _]; exact H).
    rewrite (eqb_false_of_neq _ _ J), split_join_good by (try discriminate; exact G'). rewrite FN. reflexivity.
Qed.
Lemma path_base_clean n : plain_base n -> path_base (clean n) = path_base n.
Proof. intro PB. destruct (plain_base_clean n PB) as (S & Nb & V & En). rewrite En. apply path_base_render; assumption. Qed.

Lemma perm_of_mode_clean h : perm_of_mode (rec_clean h) = perm_of_mode h.
Proof. unfold perm_of_mode, rec_clean. cbn [h_mode]. apply land_511_idem. Qed.
Lemma perm_items_clean tag d h : perm_items tag d (rec_clean h) = perm_items tag d h.
Proof. unfold perm_items, perm_default, perm_text. rewrite perm_of_mode_clean. reflexivity. Qed.

Lemma file_head_clean h : (h_isdir h = false -> plain_base (h_name h)) ->
  file_head (rec_clean h) = file_head h.
Proof.
  intros B. unfold file_head. rewrite !perm_items_clean. unfold rec_clean at 1 2 3. cbn [h_isdir h_name].
  destruct (h_isdir h) eqn:D.
  - rewrite dir_trim_idem. reflexivity.
  - rewrite (path_base_clean _ (B eq_refl)). reflexivity.
Qed.

Section Lines.
Variable enc : list N -> string.
Variable hexdec : string -> option (list N).

Lemma file_lines_nocsum h : h_csum h = "" -> file_lines enc hexdec h = Ok (file_head h).
Proof.
  intro C. unfold file_lines, file_head, nth_fmt.
  change installed_file_formats with ["%c"; "F:%s"; "M:%d:%d:%04o"; "R:%s"; "a:%d:%d:%04o"; "Z:%s"]. cbn [nth].
  destruct (h_isdir h).
  - rewrite perm_line_M. cbn [sprintf Ascii.eqb Bool.eqb fmt_s]. rewrite sapp_nil_r. reflexivity.
  - rewrite perm_line_a, C. cbn [String.eqb rbind]. cbn [sprintf Ascii.eqb Bool.eqb fmt_s]. rewrite sapp_nil_r, app_nil_r. reflexivity.
Qed.

Lemma drop_z_app a b : drop_z (a ++ b) = drop_z a ++ drop_z b.
Proof. apply filter_app. Qed.
Lemma drop_z_opt c l : keepz l = true -> drop_z (opt_line c l) = opt_line c l.
Proof. intro H. destruct c; cbn [opt_line drop_z filter]; [rewrite H|]; reflexivity. Qed.

Lemma drop_z_head h : drop_z (file_head h) = file_head h.
Proof.
  unfold file_head, perm_items. destruct (h_isdir h); change (?x :: ?l) with ([x] ++ l); rewrite drop_z_app, drop_z_opt by reflexivity; reflexivity.
Qed.
Lemma drop_z_zline z : zline_ok z -> drop_z z = [].
Proof. intros [->|(x & ->)]; reflexivity. Qed.

Lemma files_lines_clean sorted : forall fl, files_lines enc hexdec sorted = Ok fl ->
  (forall h, In h sorted -> h_isdir h = false -> plain_base (h_name h)) ->
  files_lines enc hexdec (map rec_clean sorted) = Ok (drop_z fl).
Proof.
  induction sorted as [|h sorted IH]; intros fl E B.
  - cbn in E. apply Ok_inj in E. subst fl. reflexivity.
  - cbn [files_lines] in E. destruct (file_lines enc hexdec h) as [a| | |] eqn:Ea; cbn [rbind] in E; try discriminate.
    destruct (files_lines enc hexdec sorted) as [b| | |] eqn:Eb; cbn [rbind] in E; try discriminate.
    apply Ok_inj in E. subst fl.
    destruct (file_lines_shape enc hexdec h a Ea) as (z & Hz & ->).
    cbn [map files_lines]. rewrite (file_lines_nocsum (rec_clean h) eq_refl).
    rewrite (IH b eq_refl (fun x Ix => B x (or_intror Ix))). cbn [rbind].
    rewrite (file_head_clean h (B h (or_introl eq_refl))).
    rewrite !drop_z_app, drop_z_head, (drop_z_zline z Hz), app_nil_r. reflexivity.
Qed.

(* ---- the package lines: only the i: line changes ------------------------------------------ *)
(* strings.Join(strings.Split(s, c), c) = s *)
Lemma join_split c s : join (String c "") (split_on c s) = s.
Proof.
  induction s as [|a s IH]; [reflexivity|]. cbn [split_on]. destruct (Ascii.eqb a c) eqn:E.
  - apply Ascii.eqb_eq in E. subst a. destruct (split_on c s) as [|x xs] eqn:S; [exfalso; eapply split_on_nonnil; exact S|].
    rewrite join_cons2, IH. reflexivity.
  - destruct (split_on c s) as [|x xs] eqn:S; [exfalso; eapply split_on_nonnil; exact S|].
    rewrite <- IH. destruct xs; reflexivity.
Qed.
(* the i: line of the re-written record: Go's slice syntax applied to the fields of the first one *)
Lemma fmt_readback l : fmt_s (AList (go_slice_readback l)) = "[" +++ fmt_s (AList l) +++ "]".
Proof.
  unfold go_slice_readback, split_repeated. cbn [fmt_s]. cbn [String.append String.eqb].
  change " " with (String " "%char "") at 1. rewrite join_split. reflexivity.
Qed.

(* [y] is [x], or both are i: lines and [y] has one more pair of brackets *)
Definition line_step (x y : string) : Prop := x = y \/ exists v, x = "i:" +++ v /\ y = "i:[" +++ v +++ "]".
Lemma line_step_mod x y : line_step x y -> line_mod_i x y.
Proof. intros [->|(v & -> & ->)]; [left; reflexivity|right; split; reflexivity]. Qed.
Lemma line_step_nl x y : line_step x y -> has_char ch_nl x = false -> has_char ch_nl y = false.
Proof.
  intros [->|(v & -> & ->)] H; [exact H|]. rewrite has_char_app in H. apply orb_false_iff in H. destruct H as [_ Hv].
  rewrite !has_char_app, Hv. reflexivity.
Qed.

Opaque fmt_s.
Lemma pkg_items_norm p :
  Forall2 line_step (lines_of (inst_pkg_items enc p)) (lines_of (inst_pkg_items enc (norm_inst p))) /\
  drop_z (lines_of (inst_pkg_items enc p)) = lines_of (inst_pkg_items enc p).
Proof.
  unfold inst_pkg_items, norm_inst, checksum_string. cbn [p_name p_version p_arch p_desc p_license p_origin p_maint p_url p_commit p_checksum p_deps p_provides p_installif p_replaces p_size p_isize p_prio p_btime p_bdate set_installif set_bdate].
  rewrite fmt_readback. cbn [lines_of opt_line app]. split.
  - destruct (lnonempty (p_replaces p)), (lnonempty (p_checksum p)); cbn [opt_line app];
      repeat (constructor; [first [left; reflexivity | right; eexists; split; reflexivity]|]); constructor.
  - destruct (lnonempty (p_replaces p)), (lnonempty (p_checksum p)); reflexivity.
Qed.
Transparent fmt_s.
End Lines.

(* ---- the text and its lines ------------------------------------------------------------------ *)
Lemma split_on_unlines ls : Forall (fun l => has_char ch_nl l = false) ls -> split_on ch_nl (unlines ls) = ls ++ [""].
Proof.
  induction 1 as [|l ls Hl _ IH]; [reflexivity|]. cbn [unlines app]. rewrite (split_on_app _ _ _ Hl), IH. reflexivity.
Qed.
Lemma text_lines ls : ls <> [] -> Forall (fun l => has_char ch_nl l = false) ls ->
  split_on ch_nl (join s_nl ls +++ s_nl +++ s_nl) = ls ++ [""; ""].
Proof.
  intros N F. rewrite (join_nl_unlines _ N), split_on_unlines.
  - rewrite <- app_assoc. reflexivity.
  - apply Forall_app. split; [exact F|repeat constructor].
Qed.
Lemma forall2_refl_mod l : Forall2 line_mod_i l l.
Proof. induction l; constructor; [left; reflexivity|assumption]. Qed.
Lemma forall2_app {A B} (R : A -> B -> Prop) a a' b b' : Forall2 R a a' -> Forall2 R b b' -> Forall2 R (a ++ b) (a' ++ b').
Proof. induction 1; cbn [app]; [auto|]. intro H2. constructor; auto. Qed.
Lemma forall2_nl (R : string -> string -> Prop) a b :
  (forall x y, R x y -> has_char ch_nl x = false -> has_char ch_nl y = false) ->
  Forall2 R a b -> Forall (fun l => has_char ch_nl l = false) a -> Forall (fun l => has_char ch_nl l = false) b.
Proof. intros H F. induction F; intro Fa; [constructor|]. inversion Fa; subst. constructor; eauto. Qed.

(* ---- AddInstalledPackage, ParseInstalled, AddInstalledPackage ------------------------------------ *)
Section Rewrite.
Variable enc : list N -> string.
Variable dec : string -> option (list N).
Variable hexdec : string -> option (list N).
Hypothesis codec : forall b, dec (enc b) = Some b.

Theorem installed_fixpoint p files t :
  inst_pkg_ok p -> p_name p <> "" -> sort_envelope files -> Forall id_ok files ->
  write_installed enc hexdec p files = Ok t ->
  (forall sorted ls, sort_headers files = Ok sorted -> installed_record_lines enc hexdec p sorted = Ok ls ->
     lines_fit installed_max_token ls) ->
  exists sorted fl t',
    sort_headers files = Ok sorted /\ files_lines enc hexdec sorted = Ok fl /\
    t = join s_nl (pkg_to_installed enc p ++ fl) +++ s_nl +++ s_nl /\
    parse_installed dec t = Ok [(norm_inst p, map rec_clean sorted)] /\
    sort_headers (map rec_clean sorted) = Ok (map rec_clean sorted) /\
    write_installed enc hexdec (norm_inst p) (map rec_clean sorted) = Ok t' /\
    t' = join s_nl (pkg_to_installed enc (norm_inst p) ++ drop_z fl) +++ s_nl +++ s_nl /\
    Forall2 line_step (pkg_to_installed enc p) (pkg_to_installed enc (norm_inst p)) /\
    InstalledFixpointModIZ t t'.
Proof.
  intros Hp Hn Henv Hid Hw Hfit. destruct installed_tables_pinned as (Hrows & _).
  destruct (installed_roundtrip_partial enc dec hexdec codec p files t Hp Hn Henv Hid Hw Hfit) as (sorted & Es & Rd & _).
  destruct (sort_headers_in_envelope files Henv) as (sorted' & Es' & Ps & Gs). rewrite Es in Es'. apply Ok_inj in Es'. subst sorted'.
  pose proof Hw as Hw0. unfold write_installed in Hw. rewrite Es in Hw. cbn [rbind] in Hw.
  destruct (installed_record_lines enc hexdec p sorted) as [ls| | |] eqn:El; cbn [rbind] in Hw; try discriminate.
  apply Ok_inj in Hw. pose proof (Hfit sorted ls Es El) as Fit.
  unfold installed_record_lines in El. destruct (files_lines enc hexdec sorted) as [fl| | |] eqn:Ef; cbn [rbind] in El; try discriminate.
  apply Ok_inj in El. subst ls.
  (* the second sort *)
  assert (C : forall x, In x files -> ckey (rec_clean x) = ckey x).
  { intros x Ix. unfold rec_clean, ckey. cbn [h_name]. destruct (h_isdir x); [|apply clean_idem].
    apply clean_dir_trim. exact (reach_not_root files (ckey x) (envelope_reach files Henv x Ix)). }
  assert (S2 : sort_headers (map rec_clean sorted) = Ok (map rec_clean sorted)).
  { rewrite (sort_headers_map_perm rec_clean files sorted (fun h => eq_refl) (se_nodup files Henv) Ps C (se_nodot files Henv)), Es. reflexivity. }
  (* the second list of file lines *)
  assert (PB : forall h, In h sorted -> h_isdir h = false -> plain_base (h_name h)).
  { intros h Ih. apply (se_base files Henv). eapply Permutation_in; [exact Ps|exact Ih]. }
  pose proof (files_lines_clean enc hexdec sorted fl Ef PB) as Ef2.
  exists sorted, fl, (join s_nl (pkg_to_installed enc (norm_inst p) ++ drop_z fl) +++ s_nl +++ s_nl).
  split; [exact Es|]. split; [exact Ef|]. split; [symmetry; exact Hw|]. split; [exact Rd|]. split; [exact S2|].
  split. { unfold write_installed. rewrite S2. cbn [rbind]. unfold installed_record_lines. rewrite Ef2. reflexivity. }
  split; [reflexivity|].
  unfold pkg_to_installed in *. rewrite Hrows in *. rewrite !pkg_lines in *.
  destruct (pkg_items_norm enc p) as (F2 & DZ).
  split; [exact F2|].
  (* the two texts, line by line *)
  assert (NL : Forall (fun l => has_char ch_nl l = false) (lines_of (inst_pkg_items enc p) ++ fl)).
  { eapply Forall_impl; [|exact Fit]. intros l [[H _] _]. exact H. }
  apply Forall_app in NL. destruct NL as [NL1 NL2].
  assert (NL1' : Forall (fun l => has_char ch_nl l = false) (lines_of (inst_pkg_items enc (norm_inst p)))).
  { eapply forall2_nl; [apply line_step_nl|exact F2|exact NL1]. }
  assert (NL2' : Forall (fun l => has_char ch_nl l = false) (drop_z fl)).
  { apply Forall_forall. intros l Il. apply filter_In in Il. rewrite Forall_forall in NL2. apply NL2, Il. }
  unfold InstalledFixpointModIZ. subst t. rewrite !text_lines.
  - rewrite !drop_z_app, DZ. apply forall2_app; [apply forall2_app; [|apply forall2_refl_mod]|apply forall2_refl_mod].
    clear - F2. induction F2; constructor; [apply line_step_mod; assumption|assumption].
  - unfold inst_pkg_items. cbn [lines_of opt_line app]. discriminate.
  - apply Forall_app. split; assumption.
  - unfold inst_pkg_items. cbn [lines_of opt_line app]. discriminate.
  - apply Forall_app. split; assumption.
Qed.
End Rewrite.

(* ---- the validator decides the statement ----------------------------------------------------- *)
Lemma lines_tags_mod a : forall b,
  Forall2 line_mod_i a b <-> (forall t, In t (lines_tags a b) -> t = s_f1).
Proof.
  induction a as [|x a IH]; intros [|y b]; cbn [lines_tags].
  - split; [intros _ t []|constructor].
  - split; [intro H; inversion H|]. intro H. specialize (H _ (or_introl eq_refl)). discriminate.
  - split; [intro H; inversion H|]. intro H. specialize (H _ (or_introl eq_refl)). discriminate.
  - split.
    + intros H t It. inversion H as [|? ? ? ? Hxy Hab]; subst. apply in_app_or in It. destruct It as [It|It]; [|apply (proj1 (IH b) Hab t It)].
      destruct Hxy as [->|[H1 H2]]; [rewrite String.eqb_refl in It; destruct It|].
      destruct (x =? y); [destruct It|]. rewrite H1, H2 in It. destruct It as [<-|[]]. reflexivity.
    + intro H. constructor.
      * destruct (x =? y) eqn:E; [left; apply String.eqb_eq, E|]. right.
        destruct (starts "i:" x && starts "i:" y) eqn:B; [apply andb_true_iff in B; exact B|].
        specialize (H _ (or_introl eq_refl)). discriminate.
      * apply IH. intros t It. apply H, in_or_app. right. exact It.
Qed.
Theorem installed_fixpoint_validator orig rw :
  InstalledFixpointModIZ orig rw <-> (forall t, In t (installed_fixpoint_tags orig (Ok rw)) -> t = s_f1 \/ t = s_f2).
Proof.
  unfold InstalledFixpointModIZ, installed_fixpoint_tags. cbv zeta. fold keepz. fold (drop_z (split_on ch_nl orig)).
  rewrite lines_tags_mod. split.
  - intros H t It. apply in_app_or in It. destruct It as [It|It]; [|left; apply H, It].
    destruct (negb _); [destruct It as [<-|[]]; right; reflexivity|destruct It].
  - intros H t It. destruct (H t (in_or_app _ _ _ (or_intror It))) as [E|E]; [exact E|].
    exfalso. subst t. clear H. revert It. generalize (split_on ch_nl rw). induction (drop_z (split_on ch_nl orig)) as [|x a IH]; intros [|y b]; cbn [lines_tags].
    + intros [].
    + intros [E|[]]; discriminate.
    + intros [E|[]]; discriminate.
    + intro It. apply in_app_or in It. destruct It as [It|It]; [|eapply IH; exact It].
      destruct (x =? y); [destruct It|]. destruct (starts "i:" x && starts "i:" y); destruct It as [E|[]]; discriminate.
Qed.

(* ---- fixed C16-F8: a directory name ending in two slashes ------------------------------------------ *)
(* Before fix 8e9dafb, AddInstalledPackage removed ONE trailing slash per write: the
   header a// was written F:a/, read as a/, and written F:a the second time.  Now it
   is written F:a both times (regression replay; the same list is in the harness corpus). *)
Definition witness_two_slashes : list hdr := [mkHdr "a//" true 493 0 0 ""; mkHdr "a/x" false 420 0 0 ""].
Theorem installed_double_slash_fixed :
  sort_envelope witness_two_slashes /\ two_slashes witness_two_slashes = true /\
  exists t t',
    write_installed wenc whex witness_inst_pkg witness_two_slashes = Ok t /\
    parse_installed wdec t = Ok [(norm_inst witness_inst_pkg, [mkHdr "a" true 493 0 0 ""; mkHdr "a/x" false 420 0 0 ""])] /\
    write_installed wenc whex (norm_inst witness_inst_pkg) [mkHdr "a" true 493 0 0 ""; mkHdr "a/x" false 420 0 0 ""] = Ok t' /\
    In "F:a" (split_on ch_nl t) /\ In "F:a" (split_on ch_nl t') /\
    InstalledFixpointModIZ t t'.
Proof.
  split; [|split; [reflexivity|]].
  - constructor.
    + vm_compute. repeat constructor; cbn; intuition discriminate.
    + intros h I. cbn in I. repeat destruct I as [<-|I]; try (vm_compute; discriminate). destruct I.
    + intros h I. cbn in I. repeat destruct I as [<-|I]; try (vm_compute; reflexivity). destruct I.
    + intros h I D. cbn in I. repeat destruct I as [<-|I]; try discriminate D; try (vm_compute; repeat split; discriminate). destruct I.
  - eexists _, _. split; [vm_compute; reflexivity|]. split; [vm_compute; reflexivity|]. split; [vm_compute; reflexivity|].
    split; [vm_compute; tauto|]. split; [vm_compute; tauto|].
    apply installed_fixpoint_validator. vm_compute. intros t [<-|[]]. left. reflexivity.
Qed.
