(* C16 — the installed database: AddInstalledPackage (PackageToInstalled +
   sortTarHeaders + the F:/M:/R:/a:/Z: lines) then ParseInstalled, for the
   model of Model/Formats.v.  The full round-trip is refuted by the two recorded
   findings (i: in Go slice syntax, Z: never read); everything else survives. *)
From Apko Require Import Base.Prelude Base.C16Lib Model.Formats Spec.FormatsSpec Proofs.FormatsProofs
  Proofs.FormatsPasswd Proofs.FormatsPath Proofs.FormatsSort.
From Coq Require Import Permutation.
Open Scope string_scope. Open Scope list_scope.

(* ---- the tables read from package.go / installed.go are the ones the proofs are about ---- *)
Definition expected_installed_rows : list (string * (string * string)) :=
  [("", ("P:%s", ".Name")); ("", ("V:%s", ".Version")); ("", ("A:%s", ".Arch")); ("", ("L:%s", ".License"));
   ("", ("T:%s", ".Description")); ("", ("o:%s", ".Origin")); ("", ("m:%s", ".Maintainer")); ("", ("U:%s", ".URL"));
   ("", ("D:%s", "strings.Join(.Dependencies, "" "")")); ("", ("p:%s", "strings.Join(.Provides, "" "")"));
   ("len(.Replaces) != 0", ("r:%s", "strings.Join(.Replaces, "" "")"));
   ("", ("c:%s", ".RepoCommit")); ("", ("i:%s", ".InstallIf")); ("", ("t:%d", ".BuildTime.Unix()")); ("", ("S:%d", ".Size"));
   ("", ("I:%d", ".InstalledSize")); ("", ("k:%d", ".ProviderPriority")); ("len(.Checksum) > 0", ("C:%s", ".ChecksumString()"))].
Lemma installed_tables_pinned :
  installed_pkg_rows = expected_installed_rows /\
  installed_file_formats = ["%c"; "F:%s"; "M:%d:%d:%04o"; "R:%s"; "a:%d:%d:%04o"; "Z:%s"] /\
  installed_mode_mask = 511%Z /\ installed_dir_default_mode = 493%Z /\ installed_file_default_mode = 420%Z /\
  installed_join_and_trailer = [s_nl +++ s_nl; s_nl] /\
  installed_dir_trim_fn = "strings.TrimRight".
Proof. vm_compute. repeat split. Qed.
(* since fix 8e9dafb the F: line carries the name without ANY trailing slash *)
Lemma dir_trim_all s : dir_trim s = trim_right_char ch_slash s.
Proof. reflexivity. Qed.
Lemma dir_trim_idem s : dir_trim (dir_trim s) = dir_trim s.
Proof. rewrite !dir_trim_all. apply trim_right_idem. Qed.

Lemma join_nl_unlines ls : ls <> [] -> join s_nl ls +++ s_nl +++ s_nl = unlines (ls ++ [""]).
Proof.
  induction ls as [|x ls IH]; [congruence|]. intros _. destruct ls as [|y ls].
  - cbn [join app unlines]. reflexivity.
  - rewrite join_cons2. cbn [app unlines]. rewrite !sapp_assoc. f_equal.
    change (s_nl +++ join s_nl (y :: ls) +++ s_nl +++ s_nl) with (String ch_nl (join s_nl (y :: ls) +++ s_nl +++ s_nl)).
    f_equal. apply IH. discriminate.
Qed.

Lemma land_511 m : Z.land m 511 = (m mod 512)%Z.
Proof. change 511%Z with (Z.ones 9). rewrite Z.land_ones by lia. reflexivity. Qed.
Lemma land_511_range m : (0 <= Z.land m 511 < 512)%Z.
Proof. rewrite land_511. apply Z.mod_pos_bound. lia. Qed.
Lemma land_511_idem m : Z.land (Z.land m 511) 511 = Z.land m 511.
Proof. rewrite !land_511. apply Z.mod_mod. lia. Qed.

Section Installed.
Variable enc : list N -> string.
Variable dec : string -> option (list N).
Variable hexdec : string -> option (list N).
Hypothesis codec : forall b, dec (enc b) = Some b.

(* ---- the lines of one package ----------------------------------------------------------- *)
Definition inst_pkg_items (p : pkg) : list (bool * string) :=
  [(true, "P:" +++ p_name p); (true, "V:" +++ p_version p); (true, "A:" +++ p_arch p); (true, "L:" +++ p_license p);
   (true, "T:" +++ p_desc p); (true, "o:" +++ p_origin p); (true, "m:" +++ p_maint p); (true, "U:" +++ p_url p);
   (true, "D:" +++ join " " (p_deps p)); (true, "p:" +++ join " " (p_provides p));
   (lnonempty (p_replaces p), "r:" +++ join " " (p_replaces p));
   (true, "c:" +++ p_commit p); (true, "i:" +++ fmt_s (AList (p_installif p))); (true, "t:" +++ fmt_z (p_btime p));
   (true, "S:" +++ fmt_n (p_size p)); (true, "I:" +++ fmt_n (p_isize p)); (true, "k:" +++ fmt_n (p_prio p));
   (lnonempty (p_checksum p), "C:" +++ checksum_string enc p)].

Opaque fmt_n fmt_z join.
Lemma pkg_lines p : pkg_to_installed_with enc expected_installed_rows p = lines_of (inst_pkg_items p).
Proof.
  unfold pkg_to_installed_with, inst_pkg_items. cbn.
  rewrite !sapp_nil_r, !fmt_z_of_N.
  destruct (p_replaces p), (p_checksum p); reflexivity.
Qed.
Transparent fmt_n fmt_z join.

(* ---- one line through the reader --------------------------------------------------------- *)
Definition ist_step (l : string) (st : ist) : res ist :=
  do tv <- inst_split l; inst_field dec (fst tv) (snd tv) st.
Lemma inst_lines_cons l ls st acc : (l =? "") = false ->
  inst_lines dec (l :: ls) st acc = do st' <- ist_step l st; inst_lines dec ls st' acc.
Proof.
  intro H. cbn [inst_lines]. rewrite H. unfold ist_step.
  destruct (inst_split l) as [tv| | |]; cbn [rbind]; try reflexivity.
Qed.
Lemma inst_lines_blank ls st acc :
  inst_lines dec ("" :: ls) st acc =
  inst_lines dec ls empty_ist (if snonempty (p_name (i_pkg st)) then (i_pkg st, rev (i_files st)) :: acc else acc).
Proof. reflexivity. Qed.
Lemma ist_opt (c : bool) (l : string) (f : ist -> ist) ls st acc :
  (l =? "") = false -> (c = true -> ist_step l st = Ok (f st)) -> (c = false -> f st = st) ->
  inst_lines dec (opt_line c l ++ ls) st acc = inst_lines dec ls (f st) acc.
Proof.
  intros Hl Ht Hf. destruct c; cbn [opt_line app].
  - rewrite inst_lines_cons by exact Hl. rewrite (Ht eq_refl). reflexivity.
  - rewrite (Hf eq_refl). reflexivity.
Qed.

Definition with_pkg (f : pkg -> pkg) (st : ist) : ist := mkIst (f (i_pkg st)) (i_files st) (i_ldir st) (i_lfile st).
Lemma with_pkg_id f st : f (i_pkg st) = i_pkg st -> with_pkg f st = st.
Proof. destruct st. unfold with_pkg. cbn. intros ->. reflexivity. Qed.

Opaque fmt_n fmt_z parse_uint64 parse_int64 split_repeated join.
Lemma pstep_name v st : ist_step ("P:" +++ v) st = Ok (with_pkg (set_name v) st). Proof. reflexivity. Qed.
Lemma pstep_version v st : ist_step ("V:" +++ v) st = Ok (with_pkg (set_version v) st). Proof. reflexivity. Qed.
Lemma pstep_arch v st : ist_step ("A:" +++ v) st = Ok (with_pkg (set_arch v) st). Proof. reflexivity. Qed.
Lemma pstep_license v st : ist_step ("L:" +++ v) st = Ok (with_pkg (set_license v) st). Proof. reflexivity. Qed.
Lemma pstep_desc v st : ist_step ("T:" +++ v) st = Ok (with_pkg (set_desc v) st). Proof. reflexivity. Qed.
Lemma pstep_origin v st : ist_step ("o:" +++ v) st = Ok (with_pkg (set_origin v) st). Proof. reflexivity. Qed.
Lemma pstep_maint v st : ist_step ("m:" +++ v) st = Ok (with_pkg (set_maint v) st). Proof. reflexivity. Qed.
Lemma pstep_url v st : ist_step ("U:" +++ v) st = Ok (with_pkg (set_url v) st). Proof. reflexivity. Qed.
Lemma pstep_commit v st : ist_step ("c:" +++ v) st = Ok (with_pkg (set_commit v) st). Proof. reflexivity. Qed.
Lemma pstep_deps v st : ist_step ("D:" +++ v) st = Ok (with_pkg (set_deps (split_repeated v)) st). Proof. reflexivity. Qed.
Lemma pstep_provides v st : ist_step ("p:" +++ v) st = Ok (with_pkg (set_provides (split_repeated v)) st). Proof. reflexivity. Qed.
Lemma pstep_replaces v st : ist_step ("r:" +++ v) st = Ok (with_pkg (set_replaces (split_repeated v)) st). Proof. reflexivity. Qed.
Lemma pstep_installif v st : ist_step ("i:" +++ v) st = Ok (with_pkg (set_installif (split_repeated v)) st). Proof. reflexivity. Qed.
Lemma pstep_t z st : (- Z.of_N two63 <= z < Z.of_N two63)%Z ->
  ist_step ("t:" +++ fmt_z z) st = Ok (with_pkg (fun q => set_bdate z (set_btime z q)) st).
Proof. intro H. unfold ist_step. cbn. unfold inst_field. cbn. rewrite (parse_int64_fmt _ H). reflexivity. Qed.
Lemma pstep_size n st : (n < two64)%N -> ist_step ("S:" +++ fmt_n n) st = Ok (with_pkg (set_size n) st).
Proof. intro H. unfold ist_step. cbn. unfold inst_field. cbn. rewrite (parse_uint64_fmt _ H). reflexivity. Qed.
Lemma pstep_isize n st : (n < two64)%N -> ist_step ("I:" +++ fmt_n n) st = Ok (with_pkg (set_isize n) st).
Proof. intro H. unfold ist_step. cbn. unfold inst_field. cbn. rewrite (parse_uint64_fmt _ H). reflexivity. Qed.
Lemma pstep_prio n st : (n < two64)%N -> ist_step ("k:" +++ fmt_n n) st = Ok (with_pkg (set_prio n) st).
Proof. intro H. unfold ist_step. cbn. unfold inst_field. cbn. rewrite (parse_uint64_fmt _ H). reflexivity. Qed.
Lemma pstep_C b st : ist_step ("C:" +++ checksum_string enc (set_checksum b empty_pkg)) st = Ok (with_pkg (set_checksum b) st).
Proof. unfold ist_step, checksum_string. cbn. unfold inst_field. cbn. rewrite codec. reflexivity. Qed.
Transparent fmt_n fmt_z parse_uint64 parse_int64 split_repeated join.

Lemma split_repeated_join_all l : Forall item_ok l -> split_repeated (join " " l) = l.
Proof. intro H. destruct l as [|x l]; [reflexivity|]. apply split_repeated_join; [discriminate|exact H]. Qed.

(* what the installed database keeps of a package record: everything but install_if,
   which comes back as the space-split of Go's slice syntax (finding C16-F1) *)
Definition norm_inst (p : pkg) : pkg :=
  set_installif (go_slice_readback (p_installif p)) (set_bdate (p_btime p) p).

Record inst_pkg_ok (p : pkg) : Prop := {
  io_size : (p_size p < two64)%N; io_isize : (p_isize p < two64)%N; io_prio : (p_prio p < two64)%N;
  io_btime : (- Z.of_N two63 <= p_btime p < Z.of_N two63)%Z;
  io_deps : Forall item_ok (p_deps p); io_provides : Forall item_ok (p_provides p);
  io_replaces : Forall item_ok (p_replaces p) }.

Lemma set_replaces_id q : p_replaces q = [] -> set_replaces [] q = q.
Proof. destruct q; cbn; intros ->; reflexivity. Qed.
Lemma set_checksum_id q : p_checksum q = [] -> set_checksum [] q = q.
Proof. destruct q; cbn; intros ->; reflexivity. Qed.

Ltac flat := cbn beta iota delta [with_pkg i_pkg i_files i_ldir i_lfile empty_ist empty_pkg set_name p_name set_version p_version set_arch p_arch set_desc p_desc set_license p_license set_origin p_origin set_maint p_maint set_url p_url set_commit p_commit set_checksum p_checksum set_deps p_deps set_provides p_provides set_installif p_installif set_replaces p_replaces set_size p_size set_isize p_isize set_prio p_prio set_btime p_btime set_bdate p_bdate].

Opaque fmt_n fmt_z parse_uint64 parse_int64 split_repeated join fmt_s.
Lemma read_pkg_lines p rest acc : inst_pkg_ok p ->
  inst_lines dec (lines_of (inst_pkg_items p) ++ rest) empty_ist acc =
  inst_lines dec rest (mkIst (norm_inst p) [] None None) acc.
Proof.
  intros [Hs Hi Hk Hb Hd Hp Hr].
  unfold inst_pkg_items. cbn [lines_of]. rewrite <- !app_assoc.
  rewrite (ist_opt _ _ (with_pkg (set_name (p_name p)))); [|reflexivity|intros _; apply pstep_name|discriminate]. flat.
  rewrite (ist_opt _ _ (with_pkg (set_version (p_version p)))); [|reflexivity|intros _; apply pstep_version|discriminate]. flat.
  rewrite (ist_opt _ _ (with_pkg (set_arch (p_arch p)))); [|reflexivity|intros _; apply pstep_arch|discriminate]. flat.
  rewrite (ist_opt _ _ (with_pkg (set_license (p_license p)))); [|reflexivity|intros _; apply pstep_license|discriminate]. flat.
  rewrite (ist_opt _ _ (with_pkg (set_desc (p_desc p)))); [|reflexivity|intros _; apply pstep_desc|discriminate]. flat.
  rewrite (ist_opt _ _ (with_pkg (set_origin (p_origin p)))); [|reflexivity|intros _; apply pstep_origin|discriminate]. flat.
  rewrite (ist_opt _ _ (with_pkg (set_maint (p_maint p)))); [|reflexivity|intros _; apply pstep_maint|discriminate]. flat.
  rewrite (ist_opt _ _ (with_pkg (set_url (p_url p)))); [|reflexivity|intros _; apply pstep_url|discriminate]. flat.
  rewrite (ist_opt _ _ (with_pkg (set_deps (p_deps p)))); [|reflexivity|intros _; rewrite pstep_deps, (split_repeated_join_all _ Hd); reflexivity|discriminate]. flat.
  rewrite (ist_opt _ _ (with_pkg (set_provides (p_provides p)))); [|reflexivity|intros _; rewrite pstep_provides, (split_repeated_join_all _ Hp); reflexivity|discriminate]. flat.
  rewrite (ist_opt _ _ (with_pkg (set_replaces (p_replaces p)))); [|reflexivity|intros _; rewrite pstep_replaces, (split_repeated_join_all _ Hr); reflexivity|].
  2:{ intro E. apply lnonempty_false in E. rewrite E. apply with_pkg_id, set_replaces_id. reflexivity. }
  flat.
  rewrite (ist_opt _ _ (with_pkg (set_commit (p_commit p)))); [|reflexivity|intros _; apply pstep_commit|discriminate]. flat.
  rewrite (ist_opt _ _ (with_pkg (set_installif (go_slice_readback (p_installif p))))); [|reflexivity|intros _; apply pstep_installif|discriminate]. flat.
  rewrite (ist_opt _ _ (with_pkg (fun q => set_bdate (p_btime p) (set_btime (p_btime p) q)))); [|reflexivity|intros _; apply pstep_t; exact Hb|discriminate]. flat.
  rewrite (ist_opt _ _ (with_pkg (set_size (p_size p)))); [|reflexivity|intros _; apply pstep_size; exact Hs|discriminate]. flat.
  rewrite (ist_opt _ _ (with_pkg (set_isize (p_isize p)))); [|reflexivity|intros _; apply pstep_isize; exact Hi|discriminate]. flat.
  rewrite (ist_opt _ _ (with_pkg (set_prio (p_prio p)))); [|reflexivity|intros _; apply pstep_prio; exact Hk|discriminate]. flat.
  cbn [app].
  rewrite (ist_opt _ _ (with_pkg (set_checksum (p_checksum p)))); [|reflexivity| |].
  2:{ intros _. change (checksum_string enc p) with (checksum_string enc (set_checksum (p_checksum p) empty_pkg)). apply pstep_C. }
  2:{ intro E. apply lnonempty_false in E. rewrite E. apply with_pkg_id, set_checksum_id. reflexivity. }
  reflexivity.
Qed.
Transparent fmt_n fmt_z parse_uint64 parse_int64 split_repeated join fmt_s.

(* ---- the lines of one file entry ------------------------------------------------------------ *)
Definition int64 (z : Z) : Prop := (- Z.of_N two63 <= z < Z.of_N two63)%Z.
Definition perm_of_mode (h : hdr) : Z := Z.land (h_mode h) 511.
Definition perm_default (h : hdr) (dflt : Z) : bool := (perm_of_mode h =? dflt)%Z && (h_uid h =? 0)%Z && (h_gid h =? 0)%Z.
Definition perm_text (h : hdr) : string :=
  fmt_z (h_uid h) +++ ":" +++ fmt_z (h_gid h) +++ ":" +++ fmt_o4 (Z.to_N (perm_of_mode h)).
Definition perm_items (tag : string) (dflt : Z) (h : hdr) : list string :=
  opt_line (negb (perm_default h dflt)) (tag +++ perm_text h).

Opaque fmt_z fmt_o4.
Lemma perm_line_M h dflt : perm_line "M:%d:%d:%04o" dflt h = perm_items "M:" dflt h.
Proof.
  unfold perm_line, perm_items, perm_default, perm_text, perm_of_mode. change installed_mode_mask with 511%Z.
  pose proof (land_511_range (h_mode h)) as R.
  assert (E : fmt_04o (AInt (Z.land (h_mode h) 511)) = fmt_o4 (Z.to_N (Z.land (h_mode h) 511))).
  { cbn [fmt_04o]. replace ((0 <=? Z.land (h_mode h) 511)%Z && (Z.land (h_mode h) 511 <? 4096)%Z) with true; [reflexivity|].
    symmetry. apply andb_true_iff. split; [apply Z.leb_le|apply Z.ltb_lt]; lia. }
  destruct (Z.land (h_mode h) 511 =? dflt)%Z, (h_uid h =? 0)%Z, (h_gid h =? 0)%Z; cbn [negb orb andb opt_line]; try reflexivity.
  all: cbn [sprintf Ascii.eqb Bool.eqb fmt_d]; rewrite E, sapp_nil_r; reflexivity.
Qed.
Lemma perm_line_a h dflt : perm_line "a:%d:%d:%04o" dflt h = perm_items "a:" dflt h.
Proof.
  unfold perm_line, perm_items, perm_default, perm_text, perm_of_mode. change installed_mode_mask with 511%Z.
  pose proof (land_511_range (h_mode h)) as R.
  assert (E : fmt_04o (AInt (Z.land (h_mode h) 511)) = fmt_o4 (Z.to_N (Z.land (h_mode h) 511))).
  { cbn [fmt_04o]. replace ((0 <=? Z.land (h_mode h) 511)%Z && (Z.land (h_mode h) 511 <? 4096)%Z) with true; [reflexivity|].
    symmetry. apply andb_true_iff. split; [apply Z.leb_le|apply Z.ltb_lt]; lia. }
  destruct (Z.land (h_mode h) 511 =? dflt)%Z, (h_uid h =? 0)%Z, (h_gid h =? 0)%Z; cbn [negb orb andb opt_line]; try reflexivity.
  all: cbn [sprintf Ascii.eqb Bool.eqb fmt_d]; rewrite E, sapp_nil_r; reflexivity.
Qed.
Transparent fmt_z fmt_o4.

Definition file_head (h : hdr) : list string :=
  if h_isdir h then ("F:" +++ dir_trim (h_name h)) :: perm_items "M:" installed_dir_default_mode h
  else ("R:" +++ path_base (h_name h)) :: perm_items "a:" installed_file_default_mode h.
Definition zline_ok (z : list string) : Prop := z = [] \/ exists x, z = ["Z:" +++ x].

Lemma Ok_inj {A} (a b : A) : Ok a = Ok b -> a = b.
Proof. intro H. injection H. auto. Qed.
Lemma file_lines_shape h ls : file_lines enc hexdec h = Ok ls ->
  exists z, zline_ok z /\ ls = file_head h ++ z.
Proof.
  unfold file_lines, file_head, nth_fmt. change installed_file_formats with ["%c"; "F:%s"; "M:%d:%d:%04o"; "R:%s"; "a:%d:%d:%04o"; "Z:%s"].
  cbn [nth]. destruct (h_isdir h).
  - intro H. injection H as <-. exists []. split; [left; reflexivity|]. rewrite app_nil_r, perm_line_M.
    cbn [sprintf Ascii.eqb Bool.eqb fmt_s]. rewrite sapp_nil_r. reflexivity.
  - rewrite perm_line_a.
    assert (S1 : forall x, sprintf "R:%s" [AStr x] = "R:" +++ x) by (intro x; cbn [sprintf Ascii.eqb Bool.eqb fmt_s]; rewrite sapp_nil_r; reflexivity).
    assert (S2 : forall x, sprintf "Z:%s" [AStr x] = "Z:" +++ x) by (intro x; cbn [sprintf Ascii.eqb Bool.eqb fmt_s]; rewrite sapp_nil_r; reflexivity).
    rewrite S1. destruct (h_csum h =? "").
    + cbn [rbind]. intro H. injection H as <-. exists []. split; [left; reflexivity|]. rewrite !app_nil_r. reflexivity.
    + destruct (has_prefix "Q1" (h_csum h)).
      * cbn [rbind]. intro H. apply Ok_inj in H. subst ls. rewrite S2. eexists. split; [right; eexists; reflexivity|reflexivity].
      * destruct (hexdec (h_csum h)) as [b|]; cbn [from_opt rbind]; [|discriminate].
        intro H. apply Ok_inj in H. subst ls. rewrite S2. eexists. split; [right; eexists; reflexivity|reflexivity].
Qed.

(* ---- the file lines through the reader ---------------------------------------------------------- *)
Lemma fstep_F v st : ist_step ("F:" +++ v) st =
  Ok (mkIst (i_pkg st) (mkHdr v true installed_dir_default_mode 0 0 "" :: i_files st) (Some (O, v)) None).
Proof. reflexivity. Qed.
Lemma fstep_R v st : ist_step ("R:" +++ v) st =
  Ok (mkIst (i_pkg st)
        (mkHdr (match i_ldir st with Some (_, d) => sanitize_archive_path d v | None => v end) false installed_file_default_mode 0 0 "" :: i_files st)
        (bump (i_ldir st)) (Some O)).
Proof. reflexivity. Qed.
Lemma fstep_Z v st : ist_step ("Z:" +++ v) st = Ok st.
Proof. reflexivity. Qed.

Lemma fmt_z_colon z : has_char ":" (fmt_z z) = false.
Proof. apply fmt_z_no_char; [reflexivity|discriminate]. Qed.
Lemma fmt_o4_colon n : (n < 512)%N -> has_char ":" (fmt_o4 n) = false.
Proof. intro H. eapply all_chars_has_char; [apply fmt_o4_digits, H|reflexivity]. Qed.
Lemma parse_perms_text u g n : int64 u -> int64 g -> (n < 512)%N ->
  parse_perms (fmt_z u +++ ":" +++ fmt_z g +++ ":" +++ fmt_o4 n) = Ok (u, g, Z.of_N n).
Proof.
  intros Hu Hg Hn. unfold parse_perms.
  change (fmt_z u +++ ":" +++ fmt_z g +++ ":" +++ fmt_o4 n) with (fmt_z u +++ String ":" (fmt_z g +++ String ":" (fmt_o4 n))).
  rewrite (split_on_app _ _ _ (fmt_z_colon u)), (split_on_app _ _ _ (fmt_z_colon g)), (split_on_single _ _ (fmt_o4_colon n Hn)).
  rewrite (parse_int64_fmt _ Hu), (parse_int64_fmt _ Hg), (parse_oct_fmt_o4 _ Hn). reflexivity.
Qed.
Lemma fstep_M val st k d u g m : i_ldir st = Some (k, d) -> parse_perms val = Ok (u, g, m) ->
  ist_step ("M:" +++ val) st = Ok (mkIst (i_pkg st) (upd_at k (set_perms u g m) (i_files st)) (i_ldir st) (i_lfile st)).
Proof.
  intros H1 H2. unfold ist_step. change (inst_split ("M:" +++ val)) with (Ok ("M", val)). cbn [rbind fst snd].
  unfold inst_field. change (pkg_field dec true "M" val (i_pkg st)) with (Ok (@None pkg)). cbn [rbind].
  change ("M" =? "F") with false. change ("M" =? "M") with true. cbn iota. rewrite H1, H2. reflexivity.
Qed.
Lemma fstep_a val st k u g m : i_lfile st = Some k -> parse_perms val = Ok (u, g, m) ->
  ist_step ("a:" +++ val) st = Ok (mkIst (i_pkg st) (upd_at k (set_perms u g m) (i_files st)) (i_ldir st) (i_lfile st)).
Proof.
  intros H1 H2. unfold ist_step. change (inst_split ("a:" +++ val)) with (Ok ("a", val)). cbn [rbind fst snd].
  unfold inst_field. change (pkg_field dec true "a" val (i_pkg st)) with (Ok (@None pkg)). cbn [rbind].
  change ("a" =? "F") with false. change ("a" =? "M") with false. change ("a" =? "R") with false. change ("a" =? "a") with true. cbn iota.
  rewrite H1, H2. reflexivity.
Qed.

Definition ldname (o : option (nat * string)) : option string := match o with Some (_, d) => Some d | None => None end.
Lemma ldname_bump o : ldname (bump o) = ldname o.
Proof. destruct o as [[k d]|]; reflexivity. Qed.

(* the record the reader builds for one written entry, [ld] being the name on the last F: line *)
Definition rec_of (ld : option string) (h : hdr) : hdr :=
  mkHdr (if h_isdir h then dir_trim (h_name h)
         else match ld with Some d => sanitize_archive_path d (path_base (h_name h)) | None => path_base (h_name h) end)
        (h_isdir h) (perm_of_mode h) (h_uid h) (h_gid h) "".
Definition id_ok (h : hdr) : Prop := int64 (h_uid h) /\ int64 (h_gid h).

Lemma perm_default_true h dflt : perm_default h dflt = true -> perm_of_mode h = dflt /\ h_uid h = 0%Z /\ h_gid h = 0%Z.
Proof.
  unfold perm_default. intro H. apply andb_true_iff in H. destruct H as [H H3]. apply andb_true_iff in H. destruct H as [H1 H2].
  apply Z.eqb_eq in H1, H2, H3. auto.
Qed.
Lemma perm_text_parse h : id_ok h -> parse_perms (perm_text h) = Ok (h_uid h, h_gid h, perm_of_mode h).
Proof.
  intros [Hu Hg]. unfold perm_text. pose proof (land_511_range (h_mode h)) as R. fold (perm_of_mode h) in R.
  rewrite parse_perms_text; [|assumption|assumption|lia]. rewrite Z2N.id by lia. reflexivity.
Qed.

Lemma read_head h st rest acc : id_ok h ->
  inst_lines dec (file_head h ++ rest) st acc =
  inst_lines dec rest
    (mkIst (i_pkg st) (rec_of (ldname (i_ldir st)) h :: i_files st)
       (if h_isdir h then Some (O, dir_trim (h_name h)) else bump (i_ldir st))
       (if h_isdir h then None else Some O)) acc.
Proof.
  intro Hid. unfold file_head, rec_of. destruct (h_isdir h).
  - cbn [app]. rewrite inst_lines_cons by reflexivity. rewrite fstep_F. cbn [rbind].
    unfold perm_items.
    rewrite (ist_opt _ _ (fun s => mkIst (i_pkg s) (mkHdr (dir_trim (h_name h)) true (perm_of_mode h) (h_uid h) (h_gid h) "" :: i_files st) (i_ldir s) (i_lfile s)));
      [reflexivity|reflexivity| |].
    + intros _. rewrite (fstep_M (perm_text h) _ O (dir_trim (h_name h)) (h_uid h) (h_gid h) (perm_of_mode h)); [reflexivity|reflexivity|apply perm_text_parse, Hid].
    + intro E. apply negb_false_iff, perm_default_true in E. destruct E as (E1 & E2 & E3). cbn [i_pkg i_ldir i_lfile]. rewrite E1, E2, E3. reflexivity.
  - cbn [app]. rewrite inst_lines_cons by reflexivity. rewrite fstep_R. cbn [rbind].
    unfold perm_items.
    set (nm := match i_ldir st with Some (_, d) => sanitize_archive_path d (path_base (h_name h)) | None => path_base (h_name h) end).
    assert (Enm : match ldname (i_ldir st) with Some d => sanitize_archive_path d (path_base (h_name h)) | None => path_base (h_name h) end = nm).
    { unfold nm. destruct (i_ldir st) as [[k d]|]; reflexivity. }
    rewrite Enm.
    rewrite (ist_opt _ _ (fun s => mkIst (i_pkg s) (mkHdr nm false (perm_of_mode h) (h_uid h) (h_gid h) "" :: i_files st) (i_ldir s) (i_lfile s)));
      [reflexivity|reflexivity| |].
    + intros _. rewrite (fstep_a (perm_text h) _ O (h_uid h) (h_gid h) (perm_of_mode h)); [reflexivity|reflexivity|apply perm_text_parse, Hid].
    + intro E. apply negb_false_iff, perm_default_true in E. destruct E as (E1 & E2 & E3). cbn [i_pkg i_ldir i_lfile]. rewrite E1, E2, E3. reflexivity.
Qed.

Lemma read_z z st rest acc : zline_ok z -> inst_lines dec (z ++ rest) st acc = inst_lines dec rest st acc.
Proof.
  intros [->|(x & ->)]; [reflexivity|]. cbn [app]. rewrite inst_lines_cons by reflexivity. rewrite fstep_Z. reflexivity.
Qed.

Fixpoint recs (ld : option string) (l : list hdr) : list hdr :=
  match l with
  | [] => []
  | h :: l' => rec_of ld h :: recs (if h_isdir h then Some (dir_trim (h_name h)) else ld) l'
  end.

Lemma read_files sorted : forall st ls rest acc, files_lines enc hexdec sorted = Ok ls -> Forall id_ok sorted ->
  exists st', inst_lines dec (ls ++ rest) st acc = inst_lines dec rest st' acc /\
    i_pkg st' = i_pkg st /\ i_files st' = rev (recs (ldname (i_ldir st)) sorted) ++ i_files st.
Proof.
  induction sorted as [|h sorted IH]; intros st ls rest acc E F.
  - cbn in E. injection E as <-. exists st. auto.
  - cbn [files_lines] in E. destruct (file_lines enc hexdec h) as [a| | |] eqn:Ea; cbn [rbind] in E; try discriminate.
    destruct (files_lines enc hexdec sorted) as [b| | |] eqn:Eb; cbn [rbind] in E; try discriminate.
    injection E as <-. inversion F as [|? ? Fh Fs]; subst.
    destruct (file_lines_shape h a Ea) as (z & Hz & ->).
    rewrite <- !app_assoc. rewrite (read_head h st _ acc Fh), (read_z z _ _ acc Hz).
    match goal with |- exists st', inst_lines dec (b ++ rest) ?s acc = _ /\ _ => destruct (IH s b rest acc eq_refl Fs) as (st' & E1 & E2 & E3) end.
    exists st'. split; [exact E1|]. split; [exact E2|]. rewrite E3. cbn [i_ldir i_files recs rev].
    rewrite <- app_assoc. cbn [app]. destruct (h_isdir h); cbn [ldname]; rewrite ?ldname_bump; reflexivity.
Qed.

(* ---- one whole record ------------------------------------------------------------------------------ *)
Theorem installed_readback p sorted ls :
  installed_pkg_rows = expected_installed_rows ->
  inst_pkg_ok p -> Forall id_ok sorted ->
  installed_record_lines enc hexdec p sorted = Ok ls ->
  lines_fit installed_max_token ls ->
  parse_installed dec (join s_nl ls +++ s_nl +++ s_nl) =
  Ok (if snonempty (p_name p) then [(norm_inst p, recs None sorted)] else []).
Proof.
  intros Hrows Hp Hid El Hfit. unfold installed_record_lines in El.
  destruct (files_lines enc hexdec sorted) as [fl| | |] eqn:Ef; cbn [rbind] in El; try discriminate.
  apply Ok_inj in El. subst ls. unfold pkg_to_installed in Hfit |- *. rewrite Hrows in Hfit |- *. rewrite pkg_lines in Hfit |- *.
  assert (NE : lines_of (inst_pkg_items p) ++ fl <> []) by (unfold inst_pkg_items; cbn [lines_of opt_line app]; discriminate).
  unfold parse_installed, parse_installed_max. rewrite (join_nl_unlines _ NE).
  rewrite scan_unlines.
  2:{ apply Forall_app. split; [exact Hfit|]. constructor; [|constructor]. split; [split; [reflexivity|discriminate]|]. vm_compute. discriminate. }
  rewrite <- app_assoc. rewrite (read_pkg_lines p _ [] Hp).
  destruct (read_files sorted (mkIst (norm_inst p) [] None None) fl [""] [] Ef Hid) as (st' & E1 & E2 & E3).
  rewrite E1. rewrite inst_lines_blank. cbn [inst_lines rev rbind]. rewrite E2, E3. cbn [i_pkg i_files i_ldir ldname].
  rewrite app_nil_r, rev_involutive.
  replace (p_name (norm_inst p)) with (p_name p) by reflexivity.
  destruct (snonempty (p_name p)); reflexivity.
Qed.
End Installed.

(* ---- with sortTarHeaders in front: AddInstalledPackage then ParseInstalled ------------------------ *)
(* the record the reader returns for an entry that is governed by its directory *)
Definition rec_clean (h : hdr) : hdr :=
  mkHdr (if h_isdir h then dir_trim (h_name h) else clean (h_name h))
        (h_isdir h) (perm_of_mode h) (h_uid h) (h_gid h) "".
Lemma recs_governed l : forall ld, governed ld l = true -> recs ld l = map rec_clean l.
Proof.
  induction l as [|h l IH]; intros ld G; [reflexivity|]. cbn [governed] in G. cbn [recs map]. unfold rec_of, rec_clean.
  destruct (h_isdir h).
  - rewrite (IH _ G). reflexivity.
  - destruct ld as [d|]; [|discriminate]. apply andb_true_iff in G. destruct G as [G1 G2]. apply String.eqb_eq in G1.
    rewrite G1, (IH _ G2). reflexivity.
Qed.

Lemma find_rec_clean (l : list hdr) : NoDup (map ckey l) ->
  (forall x, In x l -> clean (h_name (rec_clean x)) = ckey x) ->
  forall h, In h l -> find_rec (ckey h) (map rec_clean l) = Some (rec_clean h).
Proof.
  unfold find_rec. induction l as [|x l IH]; intros N C h I; [destruct I|]. cbn [map find].
  cbn [map] in N. inversion N as [|? ? Hn Hl]; subst. rewrite (C x (or_introl eq_refl)).
  destruct I as [->|I].
  - rewrite String.eqb_refl. reflexivity.
  - destruct (ckey x =? ckey h) eqn:E.
    + apply String.eqb_eq in E. exfalso. apply Hn. rewrite E. apply in_map, I.
    + apply IH; [exact Hl|intros y Iy; apply C; right; exact Iy|exact I].
Qed.

Section RoundTrip.
Variable enc : list N -> string.
Variable dec : string -> option (list N).
Variable hexdec : string -> option (list N).
Hypothesis codec : forall b, dec (enc b) = Some b.

Lemma same_norm_inst p : SamePkgButInstallIf p (norm_inst p).
Proof. constructor; reflexivity. Qed.

Theorem installed_roundtrip_partial p files t :
  inst_pkg_ok p -> p_name p <> "" -> sort_envelope files -> Forall id_ok files ->
  write_installed enc hexdec p files = Ok t ->
  (forall sorted ls, sort_headers files = Ok sorted -> installed_record_lines enc hexdec p sorted = Ok ls ->
     lines_fit installed_max_token ls) ->
  exists sorted, sort_headers files = Ok sorted /\
    parse_installed dec t = Ok [(norm_inst p, map rec_clean sorted)] /\
    InstalledRoundTripPartial p files (parse_installed dec t).
Proof.
  intros Hp Hn Henv Hid Hw Hfit. destruct installed_tables_pinned as (Hrows & _).
  destruct (sort_headers_in_envelope files Henv) as (sorted & Es & Ps & Gs).
  unfold write_installed in Hw. rewrite Es in Hw. cbn [rbind] in Hw.
  destruct (installed_record_lines enc hexdec p sorted) as [ls| | |] eqn:El; cbn [rbind] in Hw; try discriminate.
  apply Ok_inj in Hw. subst t.
  assert (Hid' : Forall id_ok sorted) by (eapply Permutation_Forall; [symmetry; exact Ps|exact Hid]).
  pose proof (installed_readback enc dec hexdec codec p sorted ls Hrows Hp Hid' El (Hfit sorted ls Es El)) as R.
  assert (Sn : snonempty (p_name p) = true) by (unfold snonempty; apply negb_true_iff, String.eqb_neq, Hn).
  rewrite Sn, (recs_governed _ _ Gs) in R.
  exists sorted. split; [exact Es|]. split; [exact R|].
  exists (norm_inst p), (map rec_clean sorted). split; [exact R|]. split; [apply same_norm_inst|]. split; [reflexivity|].
  assert (C : forall x, In x sorted -> clean (h_name (rec_clean x)) = ckey x).
  { intros x Ix. assert (Ix' : In x files) by (eapply Permutation_in; [exact Ps|exact Ix]).
    unfold rec_clean, ckey. cbn [h_name]. destruct (h_isdir x); [|apply clean_idem].
    apply clean_dir_trim. exact (reach_not_root files (ckey x) (envelope_reach files Henv x Ix')). }
  assert (N : NoDup (map ckey sorted)).
  { eapply Permutation_NoDup; [apply Permutation_map; symmetry; exact Ps|exact (se_nodup files Henv)]. }
  split.
  - intros h Ih. assert (Ih' : In h sorted) by (eapply Permutation_in; [symmetry; exact Ps|exact Ih]).
    exists (rec_clean h). split; [exact (find_rec_clean sorted N C h Ih')|].
    constructor; try reflexivity. unfold perm_of, rec_clean, perm_of_mode. cbn [h_mode]. symmetry. apply land_511_idem.
  - intros r Ir. apply in_map_iff in Ir. destruct Ir as (x & <- & Ix). exists x. split; [eapply Permutation_in; [exact Ps|exact Ix]|].
    symmetry. apply C, Ix.
Qed.
End RoundTrip.

(* ---- the full statement is false: the two recorded findings ---------------------------------------- *)
Definition witness_inst_pkg : pkg := set_version "1" (set_name "a" empty_pkg).
Definition wenc : list N -> string := fun _ => "".
Definition wdec : string -> option (list N) := fun _ => Some [].
Definition whex : string -> option (list N) := fun _ => None.

(* C16-F1: even the empty install_if list does not come back *)
Theorem installed_installif_refuted :
  exists t, write_installed wenc whex witness_inst_pkg [] = Ok t /\
    ~ InstalledRoundTrip witness_inst_pkg [] (parse_installed wdec t) /\
    installed_rt_tags witness_inst_pkg [] (parse_installed wdec t) = ["viol:installed-installif-go-slice-format"].
Proof.
  eexists. split; [vm_compute; reflexivity|]. split; [|vm_compute; reflexivity].
  intros (p' & fs & E & SP & _). vm_compute in E. apply Ok_inj in E. injection E as <- <-.
  destruct SP as [_ _ _ _ _ _ _ _ _ _ _ _ Hi _ _ _ _ _]. vm_compute in Hi. discriminate.
Qed.

(* C16-F2: the per-file checksum is written and never read *)
Definition witness_z_files : list hdr :=
  [mkHdr "usr/" true 493 0 0 ""; mkHdr "usr/ls" false 420 0 0 "Q1abc"].
Theorem installed_Z_refuted :
  exists t, write_installed wenc whex witness_inst_pkg witness_z_files = Ok t /\
    ~ InstalledRoundTrip witness_inst_pkg witness_z_files (parse_installed wdec t) /\
    In "viol:installed-Z-not-read" (installed_rt_tags witness_inst_pkg witness_z_files (parse_installed wdec t)).
Proof.
  eexists. split; [vm_compute; reflexivity|]. split; [|vm_compute; tauto].
  intros (p' & fs & E & _ & (FS & _)). vm_compute in E. apply Ok_inj in E. injection E as <- <-.
  destruct (FS (mkHdr "usr/ls" false 420 0 0 "Q1abc")) as (r & Fr & SF); [right; left; reflexivity|].
  vm_compute in Fr. injection Fr as <-. destruct SF as [_ _ _ _ [_ Hc]]. cbn in Hc. specialize (Hc eq_refl). discriminate.
Qed.

(* ---- the validator decides the full statement --------------------------------------------------------- *)
Lemma file_tags_iff files rb h :
  file_tags files rb h = [] <-> exists r, find_rec (clean (h_name h)) rb = Some r /\ SameFile h r.
Proof.
  unfold file_tags. destruct (find_rec (clean (h_name h)) rb) as [r|].
  - split.
    + intro H. repeat (apply app_eq_nil in H; let H1 := fresh "T" in destruct H as [H1 H]).
      apply tag_if_nil, negb_false_iff in T, T0, T1, T2.
      exists r. split; [reflexivity|]. constructor.
      * apply Bool.eqb_prop, T.
      * apply Z.eqb_eq, T0.
      * apply Z.eqb_eq, T1.
      * apply Z.eqb_eq, T2.
      * destruct (Bool.eqb (h_csum h =? "") (h_csum r =? "")) eqn:E; [|destruct (h_csum r =? ""); discriminate].
        apply Bool.eqb_prop in E. rewrite <- !String.eqb_eq, E. tauto.
    + intros (r' & E & [K M U G C]). injection E as <-. rewrite K, M, U, G, Bool.eqb_reflx, !Z.eqb_refl. cbn [negb tag_if app].
      assert (X : Bool.eqb (h_csum h =? "") (h_csum r =? "") = true); [|rewrite X; reflexivity].
      destruct (h_csum h =? "") eqn:E1, (h_csum r =? "") eqn:E2; try reflexivity; exfalso.
      * apply String.eqb_eq in E1. apply String.eqb_neq in E2. tauto.
      * apply String.eqb_neq in E1. apply String.eqb_eq in E2. tauto.
  - split; [destruct (reachable _ _ _); discriminate|]. intros (r & E & _). discriminate.
Qed.
Lemma spurious_tags_iff files rb :
  spurious_tags files rb = [] <-> forall r, In r rb -> exists h, In h files /\ clean (h_name h) = clean (h_name r).
Proof.
  unfold spurious_tags. rewrite flat_map_nil. split; intros H r Ir; specialize (H r Ir).
  - apply tag_if_nil, negb_false_iff, existsb_exists in H. destruct H as (h & Ih & E). apply String.eqb_eq in E. eauto.
  - apply tag_if_nil, negb_false_iff, existsb_exists. destruct H as (h & Ih & E). exists h. split; [exact Ih|apply String.eqb_eq, E].
Qed.
Theorem installed_validator_decides p files rb : installed_rt_tags p files rb = [] <-> InstalledRoundTrip p files rb.
Proof.
  unfold installed_rt_tags, InstalledRoundTrip. destruct rb as [l| | |]; try (split; [discriminate|intros (? & ? & E & _); discriminate]).
  destruct l as [|[p' fs] l]; [split; [discriminate|intros (? & ? & E & _); discriminate]|].
  destruct l as [|x l]; [|split; [discriminate|intros (? & ? & E & _); discriminate]].
  split.
  - intro H. apply app_eq_nil in H. destruct H as [H1 H]. apply app_eq_nil in H. destruct H as [H2 H3].
    exists p', fs. split; [reflexivity|]. split; [eapply pkg_tags_sound; exact H1|]. split.
    + intros h Ih. rewrite flat_map_nil in H2. apply (proj1 (file_tags_iff files fs h)), H2, Ih.
    + apply (proj1 (spurious_tags_iff files fs)), H3.
  - intros (q & fs' & E & SP & FS1 & FS2). apply Ok_inj in E. injection E as <- <-.
    rewrite (pkg_tags_complete _ _ _ SP). cbn [app].
    assert (A : flat_map (file_tags files fs) files = []).
    { apply flat_map_nil. intros h Ih. apply (proj2 (file_tags_iff files fs h)), FS1, Ih. }
    rewrite A. cbn [app]. apply (proj2 (spurious_tags_iff files fs)), FS2.
Qed.
