(* C16 — passwd / group: UserFile.Write then Load, GroupFile.Write then Load
   (Model/Formats.v write_users/load_users, write_groups/load_groups), and the
   validators of Spec/FormatsSpec.v for the two formats. *)
From Apko Require Import Base.Prelude Base.C16Lib Model.Formats Spec.FormatsSpec Proofs.FormatsProofs.
Open Scope string_scope. Open Scope list_scope.

(* the formats and separators read from passwd.go / group.go are the ones the proofs are about *)
Lemma passwd_formats_pinned :
  passwd_format = "%s:%s:%d:%d:%s:%s:%s" +++ s_nl /\ group_format = "%s:%s:%d:%s" +++ s_nl /\
  group_member_sep = "," /\ passwd_split_seps = [":"] /\ group_split_seps = [":"; ","] /\
  passwd_part_count = 7%nat /\ group_part_count = 4%nat.
Proof. vm_compute. repeat split. Qed.

(* ---- blanks at the ends of a line (strings.TrimSpace) ------------------------ *)
Definition starts_space (s : string) : bool := match s with String a _ => is_space a | _ => false end.
Definition ends_space (s : string) : bool := match last_char s with Some a => is_space a | None => false end.

Lemma trim_left_id s : starts_space s = false -> trim_left s = s.
Proof. destruct s as [|a s]; cbn; intro H; [reflexivity|]. rewrite H. reflexivity. Qed.
Lemma trim_right_id s : ends_space s = false -> trim_right s = s.
Proof.
  unfold ends_space. induction s as [|a s IH]; [reflexivity|]. intro H. cbn [trim_right].
  destruct s as [|b s].
  - cbn in *. rewrite H. reflexivity.
  - rewrite IH by exact H. reflexivity.
Qed.
Lemma trim_space_id s : starts_space s = false -> ends_space s = false -> trim_space s = s.
Proof. intros H1 H2. unfold trim_space. rewrite (trim_left_id s H1). apply trim_right_id, H2. Qed.

Lemma last_char_app a b : b <> "" -> last_char (a +++ b) = last_char b.
Proof.
  intro Hb. induction a as [|x a IH]; [reflexivity|]. cbn [String.append last_char].
  destruct (a +++ b) eqn:E.
  - destruct a; cbn in E; [congruence|discriminate].
  - exact IH.
Qed.
Lemma ends_space_app a b : b <> "" -> ends_space (a +++ b) = ends_space b.
Proof. intro H. unfold ends_space. rewrite last_char_app by exact H. reflexivity. Qed.
Lemma ends_space_colon s : ends_space (String ":" s) = ends_space s.
Proof. unfold ends_space. destruct s; reflexivity. Qed.
Lemma ends_space_comma s : ends_space (String "," s) = ends_space s.
Proof. unfold ends_space. destruct s; reflexivity. Qed.
Lemma starts_space_app a b : starts_space (a +++ b) = if a =? "" then starts_space b else starts_space a.
Proof. destruct a; reflexivity. Qed.
Lemma ends_space_not_cr s : ends_space s = false -> last_char s <> Some ch_cr.
Proof. unfold ends_space. intros H E. rewrite E in H. discriminate. Qed.

(* ---- numbers -------------------------------------------------------------------- *)
Lemma fmt_z_of_N n : fmt_z (Z.of_N n) = fmt_n n.
Proof. destruct n; reflexivity. Qed.
Lemma parse_id n : (n < 4294967296)%N -> parse_int64 (fmt_n n) = Some (Z.of_N n).
Proof.
  intro H. rewrite <- fmt_z_of_N. apply parse_int64_fmt. unfold two63. lia.
Qed.
Lemma to_uint32_small n : (n < 4294967296)%N -> to_uint32 (Z.of_N n) = n.
Proof. intro H. unfold to_uint32, two32. rewrite Z.mod_small by lia. apply N2Z.id. Qed.
Lemma fmt_n_colon n : has_char ":" (fmt_n n) = false.
Proof. apply fmt_n_no_char. reflexivity. Qed.
Lemma fmt_n_nl n : has_char ch_nl (fmt_n n) = false.
Proof. apply fmt_n_no_char. reflexivity. Qed.
Lemma fmt_n_nonempty n : fmt_n n <> "".
Proof. destruct (fmt_n_first_digit n) as (a & r & E & _). rewrite E. discriminate. Qed.

Lemma nlen_app a b : nlen (a +++ b) = (nlen a + nlen b)%N.
Proof. induction a as [|x a IH]; cbn [String.append nlen]; [reflexivity|]. rewrite IH. lia. Qed.

(* ---- one passwd line ---------------------------------------------------------------- *)
Definition field_ok (s : string) : Prop := has_char ":" s = false /\ has_char ch_nl s = false.

Definition user_line (u : user) : string :=
  u_name u +++ ":" +++ u_pass u +++ ":" +++ fmt_n (u_uid u) +++ ":" +++ fmt_n (u_gid u) +++ ":" +++
  u_info u +++ ":" +++ u_home u +++ ":" +++ u_shell u.

(* What the reader needs of an entry: no field contains ':' or LF; the line
   neither starts nor ends with an ASCII blank (TrimSpace; a final CR is a blank,
   and bufio.ScanLines would drop it as well) — the first field decides the
   start, the last one the end; the ids fit uint32; the line fits the scanner. *)
Record user_ok (u : user) : Prop := {
  uo_name : field_ok (u_name u); uo_pass : field_ok (u_pass u); uo_info : field_ok (u_info u);
  uo_home : field_ok (u_home u); uo_shell : field_ok (u_shell u);
  uo_lead : starts_space (u_name u) = false; uo_trail : ends_space (u_shell u) = false;
  uo_uid : (u_uid u < 4294967296)%N; uo_gid : (u_gid u < 4294967296)%N;
  uo_fit : (nlen (user_line u) + 1 <= default_max_token)%N }.

Lemma sprintf_s_cons a args r : sprintf (String "%" (String "s" r)) (a :: args) = fmt_s a +++ sprintf r args.
Proof. reflexivity. Qed.
Lemma sprintf_d_cons a args r : sprintf (String "%" (String "d" r)) (a :: args) = fmt_d a +++ sprintf r args.
Proof. reflexivity. Qed.
Lemma sprintf_colon args r : sprintf (String ":" r) args = String ":" (sprintf r args).
Proof. reflexivity. Qed.
Lemma sprintf_nl args : sprintf s_nl args = s_nl.
Proof. reflexivity. Qed.

Lemma write_user_line u : passwd_format = "%s:%s:%d:%d:%s:%s:%s" +++ s_nl ->
  write_user u = user_line u +++ s_nl.
Proof.
  intro F. unfold write_user, user_line. rewrite F.
  change ("%s:%s:%d:%d:%s:%s:%s" +++ s_nl) with
    (String "%" (String "s" (String ":" (String "%" (String "s" (String ":" (String "%" (String "d" (String ":"
     (String "%" (String "d" (String ":" (String "%" (String "s" (String ":" (String "%" (String "s" (String ":"
     (String "%" (String "s" s_nl)))))))))))))))))))).
  repeat (rewrite sprintf_s_cons || rewrite sprintf_d_cons || rewrite sprintf_colon). rewrite sprintf_nl.
  cbn [fmt_s fmt_d]. rewrite !fmt_z_of_N.
  rewrite !sapp_assoc. reflexivity.
Qed.

Ltac colons :=
  repeat match goal with |- context [":" +++ ?x] => change (":" +++ x) with (String ":"%char x) end.

Lemma user_line_split u : user_ok u ->
  split_on ":" (user_line u) = [u_name u; u_pass u; fmt_n (u_uid u); fmt_n (u_gid u); u_info u; u_home u; u_shell u].
Proof.
  intros [[N1 _] [P1 _] [I1 _] [H1 _] [S1 _] _ _ _ _ _]. unfold user_line. colons.
  rewrite (split_on_app _ _ _ N1), (split_on_app _ _ _ P1), (split_on_app _ _ _ (fmt_n_colon _)),
    (split_on_app _ _ _ (fmt_n_colon _)), (split_on_app _ _ _ I1), (split_on_app _ _ _ H1), (split_on_single _ _ S1).
  reflexivity.
Qed.

Lemma user_line_ends u : ends_space (u_shell u) = false -> ends_space (user_line u) = false.
Proof.
  intro H. unfold user_line.
  colons. repeat (rewrite ends_space_app by discriminate; rewrite ends_space_colon). exact H.
Qed.
Lemma user_line_starts u : starts_space (u_name u) = false -> starts_space (user_line u) = false.
Proof.
  intro H. unfold user_line. rewrite starts_space_app. destruct (u_name u =? ""); [reflexivity|exact H].
Qed.
Lemma user_line_nl u : user_ok u -> has_char ch_nl (user_line u) = false.
Proof.
  intros [[_ N1] [_ P1] [_ I1] [_ H1] [_ S1] _ _ _ _ _]. unfold user_line.
  rewrite !has_char_app, N1, P1, I1, H1, S1, !fmt_n_nl. reflexivity.
Qed.

Lemma parse_user_line u : user_ok u -> parse_user (user_line u) = Ok u.
Proof.
  intro H. unfold parse_user.
  rewrite trim_space_id by (first [apply user_line_starts | apply user_line_ends]; apply H).
  rewrite (user_line_split u H).
  rewrite (parse_id _ (uo_uid u H)), (parse_id _ (uo_gid u H)). cbn [from_opt rbind].
  rewrite (to_uint32_small _ (uo_uid u H)), (to_uint32_small _ (uo_gid u H)).
  destruct u; reflexivity.
Qed.

(* ---- whole files ------------------------------------------------------------------------ *)
Lemma sconcat_lines {A} (f line : A -> string) (l : list A) :
  (forall x, f x = line x +++ s_nl) -> sconcat (map f l) = unlines (map line l).
Proof.
  intro H. induction l as [|x l IH]; [reflexivity|]. cbn [map sconcat unlines].
  rewrite H, IH, sapp_assoc. reflexivity.
Qed.

Lemma map_res_lines {A} (parse : string -> res A) (line : A -> string) (l : list A) :
  Forall (fun x => parse (line x) = Ok x) l -> map_res parse (map line l) = Ok l.
Proof.
  induction 1 as [|x l Hx _ IH]; [reflexivity|]. cbn [map map_res]. rewrite Hx, IH. reflexivity.
Qed.

Lemma load_written {A} (parse : string -> res A) (line : A -> string) (l : list A) :
  Forall (fun x => parse (line x) = Ok x) l ->
  Forall (fun x => line_ok (line x) /\ (nlen (line x) + 1 <= default_max_token)%N) l ->
  load_file parse default_max_token (unlines (map line l)) = Ok l.
Proof.
  intros HP HL. unfold load_file. rewrite scan_unlines.
  - rewrite (map_res_lines _ _ _ HP). reflexivity.
  - apply Forall_forall. intros s Hs. apply in_map_iff in Hs. destruct Hs as (x & <- & Hx).
    rewrite Forall_forall in HL. apply HL, Hx.
Qed.

Theorem users_roundtrip us : Forall user_ok us -> load_users (write_users us) = Ok us.
Proof.
  intro H. destruct passwd_formats_pinned as (F & _).
  unfold load_users, write_users. rewrite (sconcat_lines write_user user_line us (fun u => write_user_line u F)).
  apply load_written.
  - eapply Forall_impl; [|exact H]. intros u Hu. apply parse_user_line, Hu.
  - eapply Forall_impl; [|exact H]. intros u Hu. split; [split|].
    + apply user_line_nl, Hu.
    + apply ends_space_not_cr, user_line_ends, Hu.
    + apply Hu.
Qed.

Theorem users_read_write_fixpoint us : Forall user_ok us ->
  exists l, load_users (write_users us) = Ok l /\ write_users l = write_users us.
Proof. intro H. exists us. split; [apply users_roundtrip, H | reflexivity]. Qed.

(* ---- one group line ---------------------------------------------------------------------- *)
Definition group_line (g : group) : string :=
  g_name g +++ ":" +++ g_pass g +++ ":" +++ fmt_n (g_gid g) +++ ":" +++ join "," (g_members g).

Definition member_ok (m : string) : Prop := has_char ":" m = false /\ has_char ch_nl m = false /\ has_char "," m = false.
(* as for passwd; the last field is the comma-joined member list, so the line
   ends with the last member (or with ',' / ':' when that is empty) *)
Record group_ok (g : group) : Prop := {
  go_name : field_ok (g_name g); go_pass : field_ok (g_pass g); go_members : Forall member_ok (g_members g);
  go_lead : starts_space (g_name g) = false; go_trail : ends_space (last (g_members g) "") = false;
  go_gid : (g_gid g < 4294967296)%N;
  go_fit : (nlen (group_line g) + 1 <= default_max_token)%N }.

Lemma write_group_line g : group_format = "%s:%s:%d:%s" +++ s_nl -> group_member_sep = "," ->
  write_group g = group_line g +++ s_nl.
Proof.
  intros F S. unfold write_group, group_line. rewrite F, S.
  change ("%s:%s:%d:%s" +++ s_nl) with
    (String "%" (String "s" (String ":" (String "%" (String "s" (String ":" (String "%" (String "d" (String ":"
     (String "%" (String "s" s_nl))))))))))).
  repeat (rewrite sprintf_s_cons || rewrite sprintf_d_cons || rewrite sprintf_colon). rewrite sprintf_nl.
  cbn [fmt_s fmt_d]. rewrite !fmt_z_of_N. rewrite !sapp_assoc. reflexivity.
Qed.

Lemma join_cons2 sep x y l : join sep (x :: y :: l) = x +++ sep +++ join sep (y :: l).
Proof. reflexivity. Qed.

Lemma ends_space_join l : ends_space (join "," l) = ends_space (last l "").
Proof.
  induction l as [|x l IH]; [reflexivity|]. destruct l as [|y l]; [reflexivity|].
  rewrite join_cons2. change (last (x :: y :: l) "") with (last (y :: l) "").
  rewrite ends_space_app by discriminate.
  change ("," +++ join "," (y :: l)) with (String "," (join "," (y :: l))).
  rewrite ends_space_comma. exact IH.
Qed.

Lemma members_no_char c l : c <> ","%char -> Forall (fun m => has_char c m = false) l -> has_char c (join "," l) = false.
Proof.
  intros Hc H. apply has_char_join; [|exact H]. cbn [has_char]. rewrite orb_false_r. apply Ascii.eqb_neq. congruence.
Qed.

(* GroupEntry.Parse since fix C16-F6: an empty member field is no member. The one list
   the format cannot carry is [""] (a single member with the empty name): it is
   written like the empty list and comes back as the empty list. *)
Definition norm_members (ms : list string) : list string := match ms with [""] => [] | _ => ms end.
Definition norm_group (g : group) : group := mkGroup (g_name g) (g_pass g) (g_gid g) (norm_members (g_members g)).

Lemma split_join_members ms : Forall member_ok ms ->
  (if join "," ms =? "" then [] else split_on "," (join "," ms)) = norm_members ms.
Proof.
  intro H. destruct ms as [|m ms]; [reflexivity|].
  assert (S : split_on "," (join "," (m :: ms)) = m :: ms).
  { change "," with (String ","%char ""). apply split_join; [discriminate|].
    eapply Forall_impl; [|exact H]. intros x (_ & _ & Hx). exact Hx. }
  destruct ms as [|m' ms].
  - cbn [join] in *. destruct m as [|a m]; [reflexivity|]. cbn [String.eqb norm_members]. exact S.
  - rewrite S. replace (join "," (m :: m' :: ms) =? "") with false; [destruct m; reflexivity|].
    symmetry. apply String.eqb_neq. rewrite join_cons2. destruct m; discriminate.
Qed.

Lemma group_line_facts g : group_ok g ->
  trim_space (group_line g) = group_line g /\
  split_on ":" (group_line g) = [g_name g; g_pass g; fmt_n (g_gid g); join "," (g_members g)] /\
  has_char ch_nl (group_line g) = false /\ ends_space (group_line g) = false.
Proof.
  intros [[N1 N2] [P1 P2] HM HL HT _ _].
  assert (J1 : has_char ":" (join "," (g_members g)) = false).
  { apply members_no_char; [discriminate|]. eapply Forall_impl; [|exact HM]. intros x (Hx & _). exact Hx. }
  assert (J2 : has_char ch_nl (join "," (g_members g)) = false).
  { apply members_no_char; [discriminate|]. eapply Forall_impl; [|exact HM]. intros x (_ & Hx & _). exact Hx. }
  assert (E : ends_space (group_line g) = false).
  { unfold group_line. colons. repeat (rewrite ends_space_app by discriminate; rewrite ends_space_colon).
    rewrite ends_space_join. exact HT. }
  split; [|split; [|split]].
  - apply trim_space_id; [|exact E]. unfold group_line. rewrite starts_space_app.
    destruct (g_name g =? ""); [reflexivity|exact HL].
  - unfold group_line. colons.
    rewrite (split_on_app _ _ _ N1), (split_on_app _ _ _ P1), (split_on_app _ _ _ (fmt_n_colon _)), (split_on_single _ _ J1).
    reflexivity.
  - unfold group_line. rewrite !has_char_app, N2, P2, J2, fmt_n_nl. reflexivity.
  - exact E.
Qed.

Lemma parse_group_line g : group_ok g -> parse_group (group_line g) = Ok (norm_group g).
Proof.
  intro H. destruct (group_line_facts g H) as (T & S & _ & _). unfold parse_group. rewrite T, S.
  rewrite (parse_id _ (go_gid g H)). cbn [from_opt rbind]. rewrite (to_uint32_small _ (go_gid g H)).
  rewrite (split_join_members _ (go_members g H)). reflexivity.
Qed.

Lemma map_res_lines' {A} (parse : string -> res A) (line : A -> string) (norm : A -> A) (l : list A) :
  Forall (fun x => parse (line x) = Ok (norm x)) l -> map_res parse (map line l) = Ok (map norm l).
Proof.
  induction 1 as [|x l Hx _ IH]; [reflexivity|]. cbn [map map_res]. rewrite Hx, IH. reflexivity.
Qed.

Theorem groups_readback gs : Forall group_ok gs -> load_groups (write_groups gs) = Ok (map norm_group gs).
Proof.
  intro H. destruct passwd_formats_pinned as (_ & F & S & _).
  unfold load_groups, write_groups. rewrite (sconcat_lines write_group group_line gs (fun g => write_group_line g F S)).
  unfold load_file. rewrite scan_unlines.
  - rewrite (map_res_lines' parse_group group_line norm_group); [reflexivity|].
    eapply Forall_impl; [|exact H]. intros g Hg. apply parse_group_line, Hg.
  - apply Forall_forall. intros s Hs. apply in_map_iff in Hs. destruct Hs as (g & <- & Hg).
    rewrite Forall_forall in H. specialize (H g Hg). destruct (group_line_facts g H) as (_ & _ & A & B).
    split; [split; [exact A | apply ends_space_not_cr, B] | apply H].
Qed.

Lemma norm_group_id g : g_members g <> [""] -> norm_group g = g.
Proof. destruct g as [n p i [|[|a m] [|m' ms]]]; cbn; try reflexivity. congruence. Qed.

Theorem groups_roundtrip gs : Forall group_ok gs -> Forall (fun g => g_members g <> [""]) gs ->
  load_groups (write_groups gs) = Ok gs.
Proof.
  intros H1 H2. rewrite (groups_readback gs H1). f_equal.
  induction H2 as [|g gs Hg _ IH]; [reflexivity|]. inversion H1; subst. cbn [map]. rewrite (norm_group_id g Hg), IH by assumption. reflexivity.
Qed.

(* the one member list the format cannot carry: a single member with the empty name *)
Definition witness_group : group := mkGroup "g" "x" 5 [""].
Lemma witness_group_ok : group_ok witness_group.
Proof. constructor; try (split; reflexivity); try (repeat constructor); try reflexivity; vm_compute; (reflexivity || discriminate). Qed.
Theorem groups_single_empty_name_refuted :
  group_ok witness_group /\ ~ GroupsRoundTrip [witness_group] (load_groups (write_groups [witness_group])) /\
  write_groups [witness_group] = write_groups [mkGroup "g" "x" 5 []] /\
  groups_rt_tags [witness_group] (load_groups (write_groups [witness_group])) = ["viol:group-members-changed"].
Proof.
  split; [exact witness_group_ok|]. split; [|split; vm_compute; reflexivity].
  unfold GroupsRoundTrip. vm_compute. discriminate.
Qed.
(* a group without members comes back without members (regression replay of C16-F6) *)
Theorem groups_no_members_roundtrip :
  load_groups (write_groups [mkGroup "g" "x" 5 []]) = Ok [mkGroup "g" "x" 5 []].
Proof. vm_compute. reflexivity. Qed.

(* the writer does not tell [] from [""]: reading then writing again reproduces the file *)
Lemma join_norm_members sep ms : join sep (norm_members ms) = join sep ms.
Proof. destruct ms as [|[|a m] [|m' ms]]; reflexivity. Qed.
Lemma write_group_norm g : write_group (norm_group g) = write_group g.
Proof. unfold write_group, norm_group. cbn [g_name g_pass g_gid g_members]. rewrite join_norm_members. reflexivity. Qed.
Theorem groups_read_write_fixpoint gs : Forall group_ok gs ->
  exists l, load_groups (write_groups gs) = Ok l /\ write_groups l = write_groups gs.
Proof.
  intro H. exists (map norm_group gs). split; [apply groups_readback, H|].
  unfold write_groups. rewrite map_map. apply (f_equal sconcat). apply map_ext. intro g. apply write_group_norm.
Qed.

(* ---- the validators decide the Props ------------------------------------------------------ *)
Lemma user_eqb_eq a b : user_eqb a b = true <-> a = b.
Proof.
  unfold user_eqb. split.
  - intro H. repeat (apply andb_true_iff in H; destruct H as [H ?]).
    repeat match goal with
    | X : (_ =? _) = true |- _ => apply String.eqb_eq in X
    | X : (_ =? _)%N = true |- _ => apply N.eqb_eq in X
    end.
    destruct a, b; cbn in *; subst; reflexivity.
  - intros <-. rewrite !String.eqb_refl, !N.eqb_refl. reflexivity.
Qed.
Theorem users_validator_decides orig rb : users_rt_tags orig rb = [] <-> UsersRoundTrip orig rb.
Proof.
  unfold users_rt_tags, UsersRoundTrip. destruct rb as [l| | |]; try (split; discriminate).
  rewrite tag_if_nil, negb_false_iff, (list_eqb_spec user_eqb user_eqb_eq). split; congruence.
Qed.

Lemma group_tags_iff a b : group_tags a b = [] <-> a = b.
Proof.
  unfold group_tags. split.
  - intro H. apply app_eq_nil in H. destruct H as [H1 H2].
    apply tag_if_nil, negb_false_iff in H1. repeat (apply andb_true_iff in H1; destruct H1 as [H1 ?]).
    destruct (strs_eqb (g_members a) (g_members b)) eqn:E; [| destruct (_ && _); discriminate].
    apply strs_eqb_eq in E. apply String.eqb_eq in H1, H0. apply N.eqb_eq in H.
    destruct a, b; cbn in *; subst; reflexivity.
  - intros <-. rewrite !String.eqb_refl, N.eqb_refl, strs_eqb_refl. reflexivity.
Qed.
Lemma groups_tags_iff a : forall b, groups_tags a b = [] <-> a = b.
Proof.
  induction a as [|x a IH]; intros [|y b]; cbn [groups_tags]; try (split; (reflexivity || discriminate)).
  split.
  - intro H. apply app_eq_nil in H. destruct H as [H1 H2]. apply group_tags_iff in H1. apply IH in H2. congruence.
  - intro H. injection H as -> ->. rewrite (proj2 (group_tags_iff y y) eq_refl). apply IH. reflexivity.
Qed.
Theorem groups_validator_decides orig rb : groups_rt_tags orig rb = [] <-> GroupsRoundTrip orig rb.
Proof.
  unfold groups_rt_tags, GroupsRoundTrip. destruct rb as [l| | |]; try (split; discriminate).
  rewrite groups_tags_iff. split; congruence.
Qed.
