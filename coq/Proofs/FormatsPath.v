(* C16 — facts about the path/filepath transcriptions of Model/Formats.v
   (clean, path_dir, path_base, path_join2, is_within, sanitize_archive_path)
   that the installed-database theorems need: a cleaned path is a rootedness flag
   plus a valid component stack; Clean is idempotent; Dir drops the last
   component; and the one the format rests on: joining the directory's name (as
   the F: line spells it) with the file's base name gives back the file's
   cleaned path, and passes the containment test. *)
From Apko Require Import Base.Prelude Base.C16Lib Model.Formats.
Open Scope string_scope. Open Scope list_scope.

Local Notation comps := (split_on ch_slash).
Local Notation rt := starts_with_slash.

(* ---- strings.Split ---------------------------------------------------------------- *)
Lemma split_on_cat c a b : split_on c (a +++ String c b) = split_on c a ++ split_on c b.
Proof.
  induction a as [|x a IH]; cbn [String.append split_on].
  - rewrite Ascii.eqb_refl. reflexivity.
  - destruct (Ascii.eqb x c); [rewrite IH; reflexivity|]. rewrite IH.
    destruct (split_on c a) eqn:E; [exfalso; eapply split_on_nonnil; exact E|reflexivity].
Qed.
Lemma split_on_free c s : Forall (fun x => has_char c x = false) (split_on c s).
Proof.
  induction s as [|a s IH]; cbn [split_on]; [repeat constructor|].
  destruct (Ascii.eqb a c) eqn:E; [constructor; [reflexivity|exact IH]|].
  destruct (split_on c s) as [|x xs]; [repeat constructor; cbn; rewrite E; reflexivity|].
  inversion IH; subst. constructor; [cbn; rewrite E; assumption|assumption].
Qed.

(* ---- one step of Clean's component loop ------------------------------------------- *)
Definition push (rooted : bool) (out : list string) (c : string) : list string :=
  if (c =? "") || (c =? ".") then out
  else if c =? ".." then
    match out with
    | top :: out' => if top =? ".." then c :: out else out'
    | [] => if rooted then out else [c]
    end
  else c :: out.
Lemma clean_comps_fold r cs : forall out, clean_comps r cs out = rev (fold_left (push r) cs out).
Proof.
  induction cs as [|c cs IH]; intro out; [reflexivity|]. cbn [clean_comps fold_left]. unfold push at 2.
  destruct ((c =? "") || (c =? ".")); [apply IH|]. destruct (c =? "..") eqn:E; [|apply IH].
  destruct out as [|top out']; [destruct r; apply IH|]. destruct (top =? ".."); apply IH.
Qed.

Definition render (rooted : bool) (l : list string) : string :=
  let body := join "/" l in
  let r := if rooted then String ch_slash body else body in
  if r =? "" then "." else r.
Definition st (s : string) : list string := fold_left (push (rt s)) (comps s) [].
Lemma clean_eq s : clean s = render (rt s) (rev (st s)).
Proof. unfold clean, render, st. rewrite clean_comps_fold. reflexivity. Qed.

(* ---- valid stacks (top first): ordinary components, ".." only at the bottom of a relative path *)
Definition normal (c : string) : Prop := c <> "" /\ c <> "." /\ c <> ".." /\ has_char ch_slash c = false.
Fixpoint vs (r : bool) (out : list string) : Prop :=
  match out with
  | [] => True
  | c :: out' => (normal c /\ vs r out') \/ (c = ".." /\ r = false /\ Forall (eq "..") out')
  end.
Lemma dd_vs out : Forall (eq "..") out -> vs false out.
Proof. induction 1 as [|c out <- H IH]; cbn [vs]; [exact I|]. right. auto. Qed.
Lemma vs_tail r c out : vs r (c :: out) -> vs r out.
Proof. intros [[_ H]|(_ & -> & H)]; [exact H|apply dd_vs, H]. Qed.

Lemma eqb_false_of_neq a b : a <> b -> (a =? b) = false.
Proof. apply String.eqb_neq. Qed.
Lemma push_normal r out c : normal c -> push r out c = c :: out.
Proof.
  intros (H1 & H2 & H3 & _). unfold push. rewrite (eqb_false_of_neq _ _ H1), (eqb_false_of_neq _ _ H2), (eqb_false_of_neq _ _ H3). reflexivity.
Qed.
Lemma push_empty r out : push r out "" = out.
Proof. reflexivity. Qed.

Lemma push_vs r out c : vs r out -> has_char ch_slash c = false -> vs r (push r out c).
Proof.
  intros V Hc. unfold push. destruct (c =? "") eqn:E1; [exact V|]. destruct (c =? ".") eqn:E2; [exact V|]. cbn [orb].
  destruct (c =? "..") eqn:E3.
  - apply String.eqb_eq in E3. subst c. destruct out as [|top out'].
    + destruct r; [exact I|]. cbn [vs]. right. auto.
    + destruct (top =? "..") eqn:E4; [|eapply vs_tail; exact V].
      apply String.eqb_eq in E4. subst top. cbn [vs] in V. destruct V as [[(_ & _ & N & _) _]|(_ & -> & F)]; [congruence|].
      cbn [vs]. right. split; [reflexivity|]. split; [reflexivity|]. constructor; [reflexivity|exact F].
  - cbn [vs]. left. split; [|exact V]. apply String.eqb_neq in E1, E2, E3. repeat split; assumption.
Qed.
Lemma fold_push_vs r cs : forall out, vs r out -> Forall (fun c => has_char ch_slash c = false) cs -> vs r (fold_left (push r) cs out).
Proof.
  induction cs as [|c cs IH]; intros out V F; [exact V|]. inversion F; subst. cbn [fold_left]. apply IH; [apply push_vs|]; assumption.
Qed.
Lemma st_vs s : vs (rt s) (st s).
Proof. apply fold_push_vs; [exact I|apply split_on_free]. Qed.

(* pushing the rendered components again reproduces the stack *)
Lemma fold_valid r out : vs r out -> fold_left (push r) (rev out) [] = out.
Proof.
  induction out as [|c out IH]; intro V; [reflexivity|]. cbn [rev]. rewrite fold_left_app. cbn [fold_left].
  rewrite IH by (eapply vs_tail; exact V). destruct V as [[N _]|(-> & -> & F)]; [apply push_normal, N|].
  unfold push. cbn [String.eqb Ascii.eqb Bool.eqb orb]. destruct F as [|top out' <- _]; reflexivity.
Qed.
Lemma fold_push_empties r zs : forall out, Forall (eq "") zs -> fold_left (push r) zs out = out.
Proof. induction zs as [|z zs IH]; intros out F; [reflexivity|]. inversion F; subst. cbn [fold_left]. rewrite push_empty. apply IH. assumption. Qed.

Lemma vs_items r out : vs r out -> Forall (fun x => x <> "" /\ x <> "." /\ has_char ch_slash x = false) out.
Proof.
  induction out as [|c out IH]; intro V; [constructor|]. constructor; [|apply IH; eapply vs_tail; exact V].
  destruct V as [[(H1 & H2 & _ & H4) _]|(-> & _ & _)]; [auto|]. repeat split; discriminate.
Qed.
Lemma forall_rev {A} (P : A -> Prop) l : Forall P l -> Forall P (rev l).
Proof. intro H. apply Forall_forall. intros x I. apply in_rev in I. rewrite Forall_forall in H. auto. Qed.

(* ---- reading a rendered path back --------------------------------------------------- *)
Lemma rt_free x : has_char ch_slash x = false -> rt x = false.
Proof. destruct x as [|a x]; [reflexivity|]. cbn. intro H. apply orb_false_iff in H. apply H. Qed.
Lemma join_first x l : x <> "" -> exists a t, join "/" (x :: l) = String a t /\ x = String a (match x with String _ x' => x' | _ => "" end).
Proof. destruct x as [|a x]; [congruence|]. intros _. destruct l; cbn; eauto. Qed.
Lemma rt_join x l : x <> "" -> rt (join "/" (x :: l)) = rt x.
Proof. destruct x as [|a x]; [congruence|]. intros _. destruct l; reflexivity. Qed.
Lemma join_nonempty x l : x <> "" -> join "/" (x :: l) <> "".
Proof. destruct x as [|a x]; [congruence|]. intros _. destruct l; discriminate. Qed.

Definition good (x : string) : Prop := x <> "" /\ x <> "." /\ has_char ch_slash x = false.
Lemma split_join_good L : L <> [] -> Forall good L -> comps (join "/" L) = L.
Proof.
  intros N F. change "/" with (String ch_slash ""). apply split_join; [exact N|].
  eapply Forall_impl; [|exact F]. intros x (_ & _ & H). exact H.
Qed.

Lemma render_false_cons x L : Forall good (x :: L) -> render false (x :: L) = join "/" (x :: L).
Proof.
  intro F. inversion F as [|? ? (H & _) _]; subst. unfold render. cbn zeta.
  rewrite (eqb_false_of_neq _ _ (join_nonempty x L H)). reflexivity.
Qed.
Lemma render_true L : render true L = String ch_slash (join "/" L).
Proof. reflexivity. Qed.

Lemma rt_render r L : Forall good L -> rt (render r L) = r.
Proof.
  intro F. destruct r; [reflexivity|]. destruct L as [|x L]; [reflexivity|].
  rewrite (render_false_cons _ _ F). inversion F as [|? ? (H1 & _ & H3) _]; subst. rewrite rt_join by exact H1. apply rt_free, H3.
Qed.

Definition rprefix (r : bool) : list string := if r then [""] else [].
Lemma rel_comps_render r L : Forall good L -> rel_comps (render r L) = rprefix r ++ L.
Proof.
  intro F. destruct L as [|x L].
  - destruct r; reflexivity.
  - assert (S : comps (join "/" (x :: L)) = x :: L) by (apply split_join_good; [discriminate|exact F]).
    inversion F as [|? ? (H1 & H2 & H3) F']; subst.
    destruct r.
    + rewrite render_true. unfold rel_comps.
      destruct (join_first x L H1) as (a & t & E & _). rewrite E. cbn [String.eqb Ascii.eqb Bool.eqb].
      repeat match goal with |- context [if ?c then false else false] =>
        replace (if c then false else false) with false by (destruct c; reflexivity) end.
      rewrite <- E. cbn [split_on]. rewrite Ascii.eqb_refl, S. reflexivity.
    + rewrite (render_false_cons _ _ F). unfold rel_comps.
      destruct (join "/" (x :: L) =? ".") eqn:E1.
      { apply String.eqb_eq in E1. rewrite E1 in S. cbn in S. injection S as <- _. congruence. }
      destruct (join "/" (x :: L) =? "/") eqn:E2.
      { apply String.eqb_eq in E2. rewrite E2 in S. cbn in S. injection S as <- _. congruence. }
      exact S.
Qed.

Lemma render_inj r L r' L' : Forall good L -> Forall good L' -> render r L = render r' L' -> r = r' /\ L = L'.
Proof.
  intros F F' E. assert (r = r') as <- by (rewrite <- (rt_render r L F), <- (rt_render r' L' F'), E; reflexivity).
  split; [reflexivity|]. pose proof (rel_comps_render r L F) as A. rewrite E, (rel_comps_render r L' F') in A.
  apply app_inv_head in A. congruence.
Qed.

Lemma vs_good r S : vs r S -> Forall good (rev S).
Proof. intro V. apply forall_rev. exact (vs_items r S V). Qed.

(* the components of a rendered path, as Clean's loop sees them *)
Lemma st_render r S : vs r S -> st (render r (rev S)) = S.
Proof.
  intro V. pose proof (vs_good r S V) as G. unfold st. rewrite (rt_render r _ G).
  destruct (rev S) as [|x L] eqn:E.
  - assert (S = []) as -> by (destruct S; [reflexivity|]; cbn in E; destruct (rev S); discriminate).
    destruct r; reflexivity.
  - destruct r.
    + rewrite render_true. cbn [split_on]. rewrite Ascii.eqb_refl. cbn [fold_left]. rewrite push_empty.
      rewrite split_join_good by (try discriminate; exact G). rewrite <- E. apply fold_valid, V.
    + rewrite (render_false_cons _ _ G). rewrite split_join_good by (try discriminate; exact G). rewrite <- E. apply fold_valid, V.
Qed.

(* filepath.Clean is idempotent *)
Lemma clean_render r S : vs r S -> clean (render r (rev S)) = render r (rev S).
Proof. intro V. rewrite clean_eq, (st_render r S V), (rt_render r _ (vs_good r S V)). reflexivity. Qed.
Theorem clean_idem s : clean (clean s) = clean s.
Proof. rewrite (clean_eq s). apply clean_render, st_vs. Qed.

(* ---- a trailing slash does not matter ------------------------------------------------ *)
Lemma last_char_split s a : last_char s = Some a -> s = drop_last s +++ String a "".
Proof.
  induction s as [|b s IH]; [discriminate|]. cbn [last_char drop_last]. destruct s as [|c s].
  - intro H. injection H as ->. reflexivity.
  - intro H. cbn [String.append]. f_equal. apply IH, H.
Qed.
Lemma last_char_none s : last_char s = None -> s = "".
Proof. induction s as [|a s IH]; [reflexivity|]. cbn [last_char]. destruct s; [discriminate|]. intro H. specialize (IH H). discriminate. Qed.
Lemma rt_app a b : a <> "" -> rt (a +++ b) = rt a.
Proof. destruct a; [congruence|reflexivity]. Qed.

(* the directory name as the F: line spells it *)
Lemma trimmed_dir D : D <> "" -> D <> "/" ->
  let d := trim_suffix_char ch_slash D in d <> "" /\ rt d = rt D /\ fold_left (push (rt d)) (comps d) [] = st D.
Proof.
  intros N1 N2. cbn zeta. unfold trim_suffix_char. destruct (last_char D) as [a|] eqn:E.
  2:{ exfalso. apply N1. apply last_char_none, E. }
  destruct (Ascii.eqb a ch_slash) eqn:Ea; [|split; [exact N1|split; reflexivity]].
  apply Ascii.eqb_eq in Ea. subst a. pose proof (last_char_split D _ E) as ED. remember (drop_last D) as d eqn:Hd. clear Hd E.
  assert (Nd : d <> ""). { intro H. rewrite H in ED. cbn in ED. apply N2. exact ED. }
  split; [exact Nd|]. assert (R : rt d = rt D) by (rewrite ED; symmetry; apply rt_app, Nd).
  split; [exact R|]. unfold st. rewrite R.
  assert (C : comps D = comps d ++ [""]) by (rewrite ED; apply split_on_cat).
  rewrite C, fold_left_app. cbn [fold_left]. rewrite push_empty. reflexivity.
Qed.
Theorem clean_trim_slash D : D <> "/" -> clean (trim_suffix_char ch_slash D) = clean D.
Proof.
  intro N. destruct (string_dec D "") as [->|N1]; [reflexivity|].
  destruct (trimmed_dir D N1 N) as (_ & R & E). rewrite !clean_eq. unfold st at 1. rewrite E, R. reflexivity.
Qed.

(* ---- filepath.Dir of a cleaned path drops the last component --------------------------- *)
Lemma comps_join_slash L : L <> [] -> Forall good L -> comps (join "/" L +++ "/") = L ++ [""].
Proof.
  intros N F. change (join "/" L +++ "/") with (join "/" L +++ String ch_slash ""). rewrite split_on_cat, split_join_good by assumption. reflexivity.
Qed.
Lemma path_dir_render r b S : normal b -> vs r S -> path_dir (render r (rev (b :: S))) = render r (rev S).
Proof.
  intros Nb V. assert (V' : vs r (b :: S)) by (cbn [vs]; left; auto).
  pose proof (vs_good r S V) as G. pose proof (vs_good r (b :: S) V') as G'. cbn [rev] in *.
  unfold path_dir. destruct r.
  - rewrite render_true.
    assert (C : comps (String ch_slash (join "/" (rev S ++ [b]))) = "" :: rev S ++ [b]).
    { cbn [split_on]. rewrite Ascii.eqb_refl, split_join_good; [reflexivity|destruct (rev S); discriminate|exact G']. }
    rewrite C. cbn [rev]. rewrite rev_app_distr, rev_involutive. cbn [rev app].
    assert (RS : rev (S ++ [""]) = "" :: rev S) by (rewrite rev_app_distr; reflexivity).
    destruct (S ++ [""]) as [|y Y] eqn:EA; [destruct S; discriminate|]. rewrite RS. clear EA RS.
    destruct (rev S) as [|z Z] eqn:EL; [reflexivity|]. set (L := z :: Z) in *.
    assert (NL : L <> []) by discriminate.
    assert (J : join "/" ("" :: L) = String ch_slash (join "/" L)) by reflexivity.
    rewrite J, clean_eq. unfold st.
    change (String ch_slash (join "/" L) +++ "/") with (String ch_slash (join "/" L +++ "/")).
    cbn [rt split_on]. rewrite Ascii.eqb_refl.
    rewrite comps_join_slash by assumption. cbn [fold_left]. rewrite push_empty, fold_left_app. cbn [fold_left]. rewrite push_empty.
    rewrite <- EL, fold_valid by exact V. reflexivity.
  - assert (E : rev S ++ [b] = rev (b :: S)) by reflexivity.
    destruct (rev S ++ [b]) as [|y Y] eqn:EY; [destruct (rev S); discriminate|].
    rewrite (render_false_cons _ _ G'). rewrite split_join_good by (try discriminate; exact G').
    rewrite E, rev_involutive. destruct S as [|x S']; [reflexivity|].
    set (L := rev (x :: S')) in *. assert (NL : L <> []) by (unfold L; cbn [rev]; destruct (rev S'); discriminate).
    rewrite clean_eq. unfold st.
    assert (R : rt (join "/" L +++ "/") = false).
    { destruct L as [|z Z]; [congruence|]. inversion G as [|? ? (H1 & _ & H3) _]; subst.
      rewrite rt_app by (apply join_nonempty, H1). rewrite rt_join by exact H1. apply rt_free, H3. }
    rewrite R, comps_join_slash by assumption. rewrite fold_left_app. cbn [fold_left]. rewrite push_empty.
    unfold L. rewrite fold_valid by exact V. reflexivity.
Qed.

(* ---- filepath.Base ----------------------------------------------------------------------- *)
Lemma first_nonempty_some l b : first_nonempty l = Some b ->
  exists zs rest, l = zs ++ b :: rest /\ Forall (eq "") zs /\ b <> "".
Proof.
  induction l as [|x l IH]; [discriminate|]. cbn [first_nonempty]. destruct (x =? "") eqn:E.
  - apply String.eqb_eq in E. subst x. intro H. destruct (IH H) as (zs & rest & -> & F & N).
    exists ("" :: zs), rest. split; [reflexivity|]. split; [constructor; [reflexivity|exact F]|exact N].
  - intro H. injection H as ->. exists [], l. split; [reflexivity|]. split; [constructor|]. apply String.eqb_neq, E.
Qed.

(* a name whose last component is an ordinary one *)
Definition plain_base (n : string) : Prop := path_base n <> "." /\ path_base n <> ".." /\ path_base n <> "/".
Lemma plain_base_clean n : plain_base n ->
  exists S, normal (path_base n) /\ vs (rt n) S /\ clean n = render (rt n) (rev (path_base n :: S)).
Proof.
  intros (P1 & P2 & P3). unfold path_base in *. destruct (n =? "") eqn:En; [congruence|].
  destruct (first_nonempty (rev (comps n))) as [b|] eqn:Fb; [|congruence].
  destruct (first_nonempty_some _ _ Fb) as (zs & rest & E & Fz & Nb).
  assert (C : comps n = rev rest ++ [b] ++ rev zs).
  { rewrite <- (rev_involutive (comps n)), E, rev_app_distr. cbn [rev]. rewrite <- app_assoc. reflexivity. }
  assert (Fr : Forall (fun c => has_char ch_slash c = false) (comps n)) by apply split_on_free.
  assert (Hb : has_char ch_slash b = false).
  { rewrite Forall_forall in Fr. apply Fr. rewrite C. apply in_or_app. right. left. reflexivity. }
  assert (N : normal b) by (repeat split; assumption).
  set (S := fold_left (push (rt n)) (rev rest) []).
  assert (V : vs (rt n) S).
  { apply fold_push_vs; [exact I|]. apply Forall_forall. intros x Ix. rewrite Forall_forall in Fr. apply Fr. rewrite C. apply in_or_app. left. exact Ix. }
  exists S. split; [exact N|]. split; [exact V|]. rewrite clean_eq. f_equal. f_equal. unfold st. rewrite C, !fold_left_app.
  fold S. cbn [fold_left]. rewrite (push_normal _ _ _ N). apply fold_push_empties, forall_rev, Fz.
Qed.

(* ---- the directory's F: name joined with the file's base name ------------------------------ *)
Lemma strip_prefix_app a x : strip_prefix a (a ++ x) = Some x.
Proof. induction a as [|y a IH]; [reflexivity|]. cbn [app strip_prefix]. rewrite String.eqb_refl. exact IH. Qed.

Theorem join_dir_base n D : plain_base n -> D <> "" -> D <> "/" -> clean D = path_dir (clean n) ->
  sanitize_archive_path (trim_suffix_char ch_slash D) (path_base n) = clean n.
Proof.
  intros PB N1 N2 ED. destruct (plain_base_clean n PB) as (S & Nb & V & En). set (b := path_base n) in *.
  rewrite En, (path_dir_render _ _ _ Nb V), clean_eq in ED.
  destruct (render_inj _ _ _ _ (vs_good _ _ (st_vs D)) (vs_good _ _ V) ED) as [Er Es].
  apply (f_equal (@rev string)) in Es. rewrite !rev_involutive in Es.
  destruct (trimmed_dir D N1 N2) as (Nd & Rd & Sd). set (d := trim_suffix_char ch_slash D) in *.
  assert (Ev : clean (d +++ "/" +++ b) = clean n).
  { rewrite clean_eq, En. unfold st. change (d +++ "/" +++ b) with (d +++ String ch_slash b).
    rewrite (rt_app d _ Nd), split_on_cat, fold_left_app, Sd, Es, Rd, Er.
    destruct Nb as (B1 & B2 & B3 & B4). rewrite (split_on_single _ _ B4). cbn [fold_left].
    rewrite push_normal by (repeat split; assumption). reflexivity. }
  unfold sanitize_archive_path, path_join2. rewrite (eqb_false_of_neq _ _ Nd). cbn [negb]. rewrite Ev.
  assert (W : is_within d (clean n) = true); [|rewrite W; reflexivity].
  unfold is_within. rewrite clean_idem.
  assert (Cd : clean d = render (rt n) (rev S)).
  { rewrite clean_eq. unfold st. rewrite Sd, Es, Rd, Er. reflexivity. }
  rewrite Cd, En. destruct (render (rt n) (rev S) =? render (rt n) (rev (b :: S))); [reflexivity|].
  assert (V' : vs (rt n) (b :: S)) by (cbn [vs]; left; auto).
  rewrite !rt_render by (eapply vs_good; eassumption). rewrite Bool.eqb_reflx. cbn [negb].
  rewrite !rel_comps_render by (eapply vs_good; eassumption). cbn [rev]. rewrite app_assoc, strip_prefix_app.
  destruct Nb as (_ & _ & B3 & _). rewrite (eqb_false_of_neq _ _ B3). reflexivity.
Qed.

(* ---- strings.TrimRight(D, "/"): every trailing slash ------------------------------------------ *)
Definition slashes (z : string) : Prop := all_chars (fun a => Ascii.eqb a ch_slash) z = true.
Lemma trim_right_split D : exists z, D = trim_right_char ch_slash D +++ z /\ slashes z.
Proof.
  induction D as [|a D (z & E & Z)]; [exists ""; split; reflexivity|]. cbn [trim_right_char].
  destruct (trim_right_char ch_slash D) as [|b r] eqn:T.
  - destruct (Ascii.eqb a ch_slash) eqn:Ea.
    + exists (String a z). cbn [String.append] in *. split; [f_equal; exact E|]. unfold slashes. cbn [all_chars]. rewrite Ea. exact Z.
    + exists z. cbn [String.append] in *. split; [f_equal; exact E|exact Z].
  - exists z. cbn [String.append]. split; [f_equal; exact E|exact Z].
Qed.
Lemma trim_right_idem c s : trim_right_char c (trim_right_char c s) = trim_right_char c s.
Proof.
  induction s as [|a s IH]; [reflexivity|]. cbn [trim_right_char]. destruct (trim_right_char c s) as [|b r] eqn:T.
  - destruct (Ascii.eqb a c) eqn:E; [reflexivity|]. cbn [trim_right_char]. rewrite E. reflexivity.
  - cbn [trim_right_char] in *. fold (trim_right_char c (String b r)). rewrite IH. reflexivity.
Qed.
Lemma slashes_comps z : slashes z -> Forall (eq "") (comps z).
Proof.
  unfold slashes. induction z as [|a z IH]; [repeat constructor|]. cbn [all_chars split_on]. intro H. apply andb_true_iff in H. destruct H as [H1 H2].
  rewrite H1. constructor; [reflexivity|exact (IH H2)].
Qed.
Lemma slashes_clean z : slashes z -> z <> "" -> clean z = "/".
Proof.
  intros Z N. destruct z as [|a z]; [congruence|]. unfold slashes in Z. cbn [all_chars] in Z. apply andb_true_iff in Z. destruct Z as [Za Z].
  apply Ascii.eqb_eq in Za. subst a. rewrite clean_eq. unfold st. cbn [rt]. rewrite Ascii.eqb_refl.
  rewrite fold_push_empties by (apply (slashes_comps (String ch_slash z)); unfold slashes; cbn [all_chars]; rewrite Ascii.eqb_refl; exact Z). reflexivity.
Qed.
(* the directory name as the F: line spells it since fix 8e9dafb *)
Lemma trimmed_dir_all D : clean D <> "." -> clean D <> "/" ->
  let d := trim_right_char ch_slash D in d <> "" /\ rt d = rt D /\ fold_left (push (rt d)) (comps d) [] = st D.
Proof.
  intros N1 N2. cbn zeta. destruct (trim_right_split D) as (z & E & Z). set (d := trim_right_char ch_slash D) in *.
  assert (Nd : d <> "").
  { intro H. rewrite H in E. cbn [String.append] in E. subst z. destruct (string_dec D "") as [->|ND]; [apply N1; reflexivity|].
    apply N2, slashes_clean; assumption. }
  split; [exact Nd|]. assert (R : rt d = rt D) by (rewrite E; symmetry; apply rt_app, Nd).
  split; [exact R|]. unfold st. rewrite R. destruct z as [|a z]; [rewrite sapp_nil_r in E; rewrite <- E; reflexivity|].
  pose proof Z as Z0. unfold slashes in Z. cbn [all_chars] in Z. apply andb_true_iff in Z. destruct Z as [Za Z]. apply Ascii.eqb_eq in Za. subst a.
  replace (comps D) with (comps (d +++ String ch_slash z)) by (rewrite <- E; reflexivity).
  rewrite split_on_cat, fold_left_app. symmetry. apply fold_push_empties, slashes_comps, Z.
Qed.
Lemma clean_trim_right D : clean D <> "/" -> clean (trim_right_char ch_slash D) = clean D.
Proof.
  intro N2. destruct (string_dec (clean D) ".") as [E1|N1].
  - (* D cleans to ".": its trimmed form does as well *)
    destruct (trim_right_split D) as (z & E & Z). set (d := trim_right_char ch_slash D) in *.
    destruct (string_dec d "") as [Ed|Nd].
    + rewrite Ed in *. cbn [String.append] in E. subst z. destruct (string_dec D "") as [->|ND]; [reflexivity|].
      exfalso. apply N2, slashes_clean; assumption.
    + rewrite !clean_eq. assert (R : rt d = rt D) by (rewrite E; symmetry; apply rt_app, Nd). rewrite R. f_equal. f_equal.
      unfold st. rewrite R. destruct z as [|a z]; [rewrite sapp_nil_r in E; rewrite <- E; reflexivity|].
      unfold slashes in Z. cbn [all_chars] in Z. apply andb_true_iff in Z. destruct Z as [Za Z]. apply Ascii.eqb_eq in Za. subst a.
      replace (comps D) with (comps (d +++ String ch_slash z)) by (rewrite <- E; reflexivity).
      rewrite split_on_cat, fold_left_app. symmetry. apply fold_push_empties, slashes_comps, Z.
  - destruct (trimmed_dir_all D N1 N2) as (_ & R & E). rewrite !clean_eq. unfold st at 1. rewrite E, R. reflexivity.
Qed.

Theorem join_dir_base_all n D : plain_base n -> clean D <> "." -> clean D <> "/" -> clean D = path_dir (clean n) ->
  sanitize_archive_path (trim_right_char ch_slash D) (path_base n) = clean n.
Proof.
  intros PB N1 N2 ED. destruct (plain_base_clean n PB) as (S & Nb & V & En). set (b := path_base n) in *.
  rewrite En, (path_dir_render _ _ _ Nb V), clean_eq in ED.
  destruct (render_inj _ _ _ _ (vs_good _ _ (st_vs D)) (vs_good _ _ V) ED) as [Er Es].
  apply (f_equal (@rev string)) in Es. rewrite !rev_involutive in Es.
  destruct (trimmed_dir_all D N1 N2) as (Nd & Rd & Sd). set (d := trim_right_char ch_slash D) in *.
  assert (Ev : clean (d +++ "/" +++ b) = clean n).
  { rewrite clean_eq, En. unfold st. change (d +++ "/" +++ b) with (d +++ String ch_slash b).
    rewrite (rt_app d _ Nd), split_on_cat, fold_left_app, Sd, Es, Rd, Er.
    destruct Nb as (B1 & B2 & B3 & B4). rewrite (split_on_single _ _ B4). cbn [fold_left].
    rewrite push_normal by (repeat split; assumption). reflexivity. }
  unfold sanitize_archive_path, path_join2. rewrite (eqb_false_of_neq _ _ Nd). cbn [negb]. rewrite Ev.
  assert (W : is_within d (clean n) = true); [|rewrite W; reflexivity].
  unfold is_within. rewrite clean_idem.
  assert (Cd : clean d = render (rt n) (rev S)).
  { rewrite clean_eq. unfold st. rewrite Sd, Es, Rd, Er. reflexivity. }
  rewrite Cd, En. destruct (render (rt n) (rev S) =? render (rt n) (rev (b :: S))); [reflexivity|].
  assert (V' : vs (rt n) (b :: S)) by (cbn [vs]; left; auto).
  rewrite !rt_render by (eapply vs_good; eassumption). rewrite Bool.eqb_reflx. cbn [negb].
  rewrite !rel_comps_render by (eapply vs_good; eassumption). cbn [rev]. rewrite app_assoc, strip_prefix_app.
  destruct Nb as (_ & _ & B3 & _). rewrite (eqb_false_of_neq _ _ B3). reflexivity.
Qed.

(* ---- whichever of the two the source uses (Model.dir_trim) ---------------------------------- *)
Lemma clean_dot_nonempty D : clean D <> "." -> D <> "".
Proof. intros H ->. apply H. reflexivity. Qed.
Lemma clean_root_not D : clean D <> "/" -> D <> "/".
Proof. intros H ->. apply H. reflexivity. Qed.
Theorem join_dir_trim n D : plain_base n -> clean D <> "." -> clean D <> "/" -> clean D = path_dir (clean n) ->
  sanitize_archive_path (dir_trim D) (path_base n) = clean n.
Proof.
  intros PB N1 N2 ED. unfold dir_trim. destruct installed_dir_trim_all.
  - apply join_dir_base_all; assumption.
  - apply join_dir_base; [exact PB|apply clean_dot_nonempty, N1|apply clean_root_not, N2|exact ED].
Qed.
Theorem clean_dir_trim D : clean D <> "/" -> clean (dir_trim D) = clean D.
Proof.
  intro N. unfold dir_trim. destruct installed_dir_trim_all; [apply clean_trim_right, N|apply clean_trim_slash, clean_root_not, N].
Qed.

(* rooted names are their own ancestors: filepath.Dir("/") = "/" *)
Lemma path_dir_root : path_dir "/" = "/".
Proof. reflexivity. Qed.
