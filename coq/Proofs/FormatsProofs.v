(* C16 — proofs about Model/Formats.v and the validators of Spec/FormatsSpec.v. *)
From Apko Require Import Base.Prelude Base.C16Lib Model.Formats Spec.FormatsSpec.
Open Scope string_scope. Open Scope list_scope.

(* ---- the tables read from the source are the ones the proofs below are about ---- *)
Definition expected_index_rows : list (string * (string * string)) :=
  [("", ("C:", ".ChecksumString"));
   ("", (s_nl +++ "P:", ".Name")); ("", (s_nl +++ "V:", ".Version"));
   (".Arch", (s_nl +++ "A:", ".Arch")); (".Size", (s_nl +++ "S:", ".Size"));
   (".InstalledSize", (s_nl +++ "I:", ".InstalledSize")); ("", (s_nl +++ "T:", ".Description"));
   (".URL", (s_nl +++ "U:", ".URL")); (".License", (s_nl +++ "L:", ".License"));
   (".Origin", (s_nl +++ "o:", ".Origin")); (".Maintainer", (s_nl +++ "m:", ".Maintainer"));
   ("and .BuildTime (not .BuildTime.IsZero)", (s_nl +++ "t:", ".BuildTime.Unix"));
   (".RepoCommit", (s_nl +++ "c:", ".RepoCommit")); (".Dependencies", (s_nl +++ "D:", "join .Dependencies"));
   (".InstallIf", (s_nl +++ "i:", "join .InstallIf")); (".Provides", (s_nl +++ "p:", "join .Provides"));
   (".ProviderPriority", (s_nl +++ "k:", ".ProviderPriority"))].
Lemma index_rows_pinned : index_template_rows = expected_index_rows /\ index_template_trailer = s_nl +++ s_nl /\ index_join_sep = " ".
Proof. vm_compute. auto. Qed.
