(* C16 — proofs about Model/Formats.v and the validators of Spec/FormatsSpec.v. *)
From Apko Require Import Base.Prelude Base.C16Lib Model.Formats Spec.FormatsSpec.
Open Scope string_scope. Open Scope list_scope.

(* ---- the tables read from the source are the ones the proofs below are about ---- *)
Definition expected_index_rows : list (string * (string * string)) :=
  [("", ("C:", ".ChecksumString"));
   ("", (s_nl +++ "P:", ".Name")); ("", (s_nl +++ "V:", ".Version"));
   (".Arch", (s_nl +++ "A:", ".Arch")); (".Size", (s_nl +++ "S:", ".Size"));
   (".InstalledSize", (s_nl +++ "I:", ".InstalledSize")); ("", (s_nl +++ "T:", ".Description"));
   (".URL", (s_nl +++ "U:", ".URL")); (".License", (s_nl +++ "L:", ".License"));
   (".Origin", (s_nl +++ "o:", ".Origin")); (".Maintainer", (s_nl +++ "m:", ".Maintainer"));
   ("and .BuildTime (not .BuildTime.IsZero)", (s_nl +++ "t:", ".BuildTime.Unix"));
   (".RepoCommit", (s_nl +++ "c:", ".RepoCommit")); (".Dependencies", (s_nl +++ "D:", "join .Dependencies"));
   (".InstallIf", (s_nl +++ "i:", "join .InstallIf")); (".Provides", (s_nl +++ "p:", "join .Provides"));
   (".ProviderPriority", (s_nl +++ "k:", ".ProviderPriority"))].
Lemma index_rows_pinned : index_template_rows = expected_index_rows /\ index_template_trailer = s_nl +++ s_nl /\ index_join_sep = " ".
Proof. vm_compute. auto. Qed.


(* ---- lines written conditionally ----------------------------------------------- *)
Definition opt_line (c : bool) (l : string) : list string := if c then [l] else [].
Fixpoint lines_of (items : list (bool * string)) : list string :=
  match items with [] => [] | (c, l) :: r => opt_line c l ++ lines_of r end.
Definition piece (it : bool * string) : string := if fst it then String ch_nl (snd it) else "".

Lemma unlines_app a b : unlines (a ++ b) = unlines a +++ unlines b.
Proof. induction a as [|x a IH]; simpl; [reflexivity|]. rewrite IH, sapp_assoc. reflexivity. Qed.

(* "first\nl1\nl2...\n\n" is the lines followed by a blank line *)
Lemma pieces_unlines items : forall first,
  sconcat (first :: map piece items ++ [s_nl +++ s_nl]) = unlines (first :: lines_of items ++ [""]).
Proof.
  induction items as [|[c l] items IH]; intro first.
  - reflexivity.
  - destruct c.
    + change (sconcat (first :: map piece ((true, l) :: items) ++ [s_nl +++ s_nl]))
        with (first +++ String ch_nl (sconcat (l :: map piece items ++ [s_nl +++ s_nl]))).
      rewrite IH. reflexivity.
    + change (sconcat (first :: map piece ((false, l) :: items) ++ [s_nl +++ s_nl]))
        with (sconcat (first :: map piece items ++ [s_nl +++ s_nl])).
      rewrite IH. reflexivity.
Qed.

Section RT.
Variable enc : list N -> string.
Variable dec : string -> option (list N).
Hypothesis codec : forall b, dec (enc b) = Some b.

Definition index_items (p : pkg) : list (bool * string) :=
  [(true, "P:" +++ p_name p); (true, "V:" +++ p_version p);
   (snonempty (p_arch p), "A:" +++ p_arch p);
   (negb (p_size p =? 0)%N, "S:" +++ fmt_n (p_size p));
   (negb (p_isize p =? 0)%N, "I:" +++ fmt_n (p_isize p));
   (true, "T:" +++ p_desc p);
   (snonempty (p_url p), "U:" +++ p_url p);
   (snonempty (p_license p), "L:" +++ p_license p);
   (snonempty (p_origin p), "o:" +++ p_origin p);
   (snonempty (p_maint p), "m:" +++ p_maint p);
   (negb (p_btime p =? zero_time_unix)%Z, "t:" +++ fmt_z (p_btime p));
   (snonempty (p_commit p), "c:" +++ p_commit p);
   (lnonempty (p_deps p), "D:" +++ join " " (p_deps p));
   (lnonempty (p_installif p), "i:" +++ join " " (p_installif p));
   (lnonempty (p_provides p), "p:" +++ join " " (p_provides p));
   (negb (p_prio p =? 0)%N, "k:" +++ fmt_n (p_prio p))].
(* the lines of one APKINDEX record *)
Definition index_lines (p : pkg) : list string := ("C:" +++ checksum_string enc p) :: lines_of (index_items p).

Lemma exec_template_lines p :
  exec_template enc expected_index_rows (s_nl +++ s_nl) p = unlines (index_lines p ++ [""]).
Proof.
  unfold index_lines. rewrite <- app_comm_cons. rewrite <- pieces_unlines. reflexivity.
Qed.

Definition record_lines (p : pkg) : list string := index_lines p ++ [""].
Lemma write_index_lines ps :
  write_index_with enc expected_index_rows (s_nl +++ s_nl) ps = unlines (flat_map record_lines (named ps)).
Proof.
  unfold write_index_with, named. induction ps as [|p ps IH]; [reflexivity|].
  cbn [map sconcat filter]. unfold snonempty at 1. destruct (p_name p =? ""); cbn [negb].
  - rewrite IH. reflexivity.
  - cbn [flat_map]. rewrite unlines_app, <- IH, exec_template_lines. reflexivity.
Qed.

(* ---- reading the lines back ------------------------------------------------------ *)
Definition idx_step (l : string) (cur : pkg) : res pkg :=
  do tv <- idx_split l;
  do r <- pkg_field dec false (fst tv) (snd tv) cur;
  Ok (match r with Some p => p | None => cur end).

Lemma idx_lines_cons l ls cur acc : (String.length l =? 0)%nat = false ->
  idx_lines dec (l :: ls) cur acc = do c <- idx_step l cur; idx_lines dec ls c acc.
Proof.
  intro H. cbn [idx_lines]. rewrite H. unfold idx_step.
  destruct (idx_split l) as [tv| | |]; cbn [rbind]; try reflexivity.
  destruct (pkg_field dec false (fst tv) (snd tv) cur); reflexivity.
Qed.

Lemma idx_lines_blank ls cur acc :
  idx_lines dec ("" :: ls) cur acc = idx_lines dec ls empty_pkg (if snonempty (p_name cur) then cur :: acc else acc).
Proof. reflexivity. Qed.

Lemma step_opt (c : bool) (l : string) (f : pkg -> pkg) ls cur acc :
  (String.length l =? 0)%nat = false ->
  (c = true -> idx_step l cur = Ok (f cur)) -> (c = false -> f cur = cur) ->
  idx_lines dec (opt_line c l ++ ls) cur acc = idx_lines dec ls (f cur) acc.
Proof.
  intros Hl Ht Hf. destruct c; cbn [opt_line app].
  - rewrite idx_lines_cons by exact Hl. rewrite (Ht eq_refl). reflexivity.
  - rewrite (Hf eq_refl). reflexivity.
Qed.

Definition item_ok (x : string) : Prop := x <> "" /\ has_char " " x = false.
Lemma split_repeated_join l : l <> [] -> Forall item_ok l -> split_repeated (join " " l) = l.
Proof.
  intros Hn HF. unfold split_repeated.
  assert (E : (join " " l =? "") = false).
  { destruct l as [|x l]; [congruence|]. inversion HF as [|? ? [Hx _] _]; subst.
    destruct x as [|a x]; [congruence|]. destruct l; reflexivity. }
  rewrite E. change " " with (String " "%char "") at 1. apply split_join; [exact Hn|].
  eapply Forall_impl; [|exact HF]. intros x [_ H]. exact H.
Qed.
Lemma lnonempty_true {A} (l : list A) : lnonempty l = true -> l <> [].
Proof. destruct l; [discriminate|congruence]. Qed.
Lemma lnonempty_false {A} (l : list A) : lnonempty l = false -> l = [].
Proof. destruct l; [reflexivity|discriminate]. Qed.
Lemma snonempty_false s : snonempty s = false -> s = "".
Proof. unfold snonempty. intro H. apply negb_false_iff in H. apply String.eqb_eq in H. exact H. Qed.
Lemma nnonzero_false n : negb (n =? 0)%N = false -> n = 0%N.
Proof. intro H. apply negb_false_iff in H. apply N.eqb_eq in H. exact H. Qed.

(* what the index keeps of a record: everything but replaces (C16-F3); BuildDate
   is the build time when a t: line was written *)
Definition norm_index (p : pkg) : pkg :=
  set_replaces [] (set_bdate (if negb (p_btime p =? zero_time_unix)%Z then p_btime p else 0%Z) p).

Record pkg_ok (p : pkg) : Prop := {
  ok_size : (p_size p < two64)%N; ok_isize : (p_isize p < two64)%N; ok_prio : (p_prio p < two64)%N;
  ok_btime : (- Z.of_N two63 <= p_btime p < Z.of_N two63)%Z;
  ok_deps : Forall item_ok (p_deps p); ok_provides : Forall item_ok (p_provides p);
  ok_installif : Forall item_ok (p_installif p) }.

Opaque fmt_n fmt_z parse_uint64 parse_int64 split_repeated join.

Lemma pkg_ext (a b : pkg) :
  p_name a = p_name b ->
  p_version a = p_version b ->
  p_arch a = p_arch b ->
  p_desc a = p_desc b ->
  p_license a = p_license b ->
  p_origin a = p_origin b ->
  p_maint a = p_maint b ->
  p_url a = p_url b ->
  p_commit a = p_commit b ->
  p_checksum a = p_checksum b ->
  p_deps a = p_deps b ->
  p_provides a = p_provides b ->
  p_installif a = p_installif b ->
  p_replaces a = p_replaces b ->
  p_size a = p_size b ->
  p_isize a = p_isize b ->
  p_prio a = p_prio b ->
  p_btime a = p_btime b ->
  p_bdate a = p_bdate b -> a = b.
Proof. destruct a, b; cbn; intros; subst; reflexivity. Qed.
Lemma set_arch_id cur : p_arch cur = "" -> set_arch "" cur = cur.
Proof. destruct cur; cbn; intros ->; reflexivity. Qed.
Lemma set_url_id cur : p_url cur = "" -> set_url "" cur = cur.
Proof. destruct cur; cbn; intros ->; reflexivity. Qed.
Lemma set_license_id cur : p_license cur = "" -> set_license "" cur = cur.
Proof. destruct cur; cbn; intros ->; reflexivity. Qed.
Lemma set_origin_id cur : p_origin cur = "" -> set_origin "" cur = cur.
Proof. destruct cur; cbn; intros ->; reflexivity. Qed.
Lemma set_maint_id cur : p_maint cur = "" -> set_maint "" cur = cur.
Proof. destruct cur; cbn; intros ->; reflexivity. Qed.
Lemma set_commit_id cur : p_commit cur = "" -> set_commit "" cur = cur.
Proof. destruct cur; cbn; intros ->; reflexivity. Qed.
Lemma set_deps_id cur : p_deps cur = [] -> set_deps [] cur = cur.
Proof. destruct cur; cbn; intros ->; reflexivity. Qed.
Lemma set_installif_id cur : p_installif cur = [] -> set_installif [] cur = cur.
Proof. destruct cur; cbn; intros ->; reflexivity. Qed.
Lemma set_provides_id cur : p_provides cur = [] -> set_provides [] cur = cur.
Proof. destruct cur; cbn; intros ->; reflexivity. Qed.
Lemma set_size_id cur : p_size cur = 0%N -> set_size 0%N cur = cur.
Proof. destruct cur; cbn; intros ->; reflexivity. Qed.
Lemma set_isize_id cur : p_isize cur = 0%N -> set_isize 0%N cur = cur.
Proof. destruct cur; cbn; intros ->; reflexivity. Qed.
Lemma set_prio_id cur : p_prio cur = 0%N -> set_prio 0%N cur = cur.
Proof. destruct cur; cbn; intros ->; reflexivity. Qed.
Lemma set_time_id cur : p_btime cur = zero_time_unix -> p_bdate cur = 0%Z -> set_bdate 0%Z (set_btime zero_time_unix cur) = cur.
Proof. destruct cur; cbn; intros -> ->; reflexivity. Qed.
Lemma step_name v cur : idx_step ("P:" +++ v) cur = Ok (set_name v cur).
Proof. reflexivity. Qed.
Lemma step_version v cur : idx_step ("V:" +++ v) cur = Ok (set_version v cur).
Proof. reflexivity. Qed.
Lemma step_arch v cur : idx_step ("A:" +++ v) cur = Ok (set_arch v cur).
Proof. reflexivity. Qed.
Lemma step_desc v cur : idx_step ("T:" +++ v) cur = Ok (set_desc v cur).
Proof. reflexivity. Qed.
Lemma step_url v cur : idx_step ("U:" +++ v) cur = Ok (set_url v cur).
Proof. reflexivity. Qed.
Lemma step_license v cur : idx_step ("L:" +++ v) cur = Ok (set_license v cur).
Proof. reflexivity. Qed.
Lemma step_origin v cur : idx_step ("o:" +++ v) cur = Ok (set_origin v cur).
Proof. reflexivity. Qed.
Lemma step_maint v cur : idx_step ("m:" +++ v) cur = Ok (set_maint v cur).
Proof. reflexivity. Qed.
Lemma step_commit v cur : idx_step ("c:" +++ v) cur = Ok (set_commit v cur).
Proof. reflexivity. Qed.
Lemma step_size n cur : (n < two64)%N -> idx_step ("S:" +++ fmt_n n) cur = Ok (set_size n cur).
Proof. intro H. unfold idx_step. cbn. rewrite (parse_uint64_fmt _ H). reflexivity. Qed.
Lemma step_isize n cur : (n < two64)%N -> idx_step ("I:" +++ fmt_n n) cur = Ok (set_isize n cur).
Proof. intro H. unfold idx_step. cbn. rewrite (parse_uint64_fmt _ H). reflexivity. Qed.
Lemma step_prio n cur : (n < two64)%N -> idx_step ("k:" +++ fmt_n n) cur = Ok (set_prio n cur).
Proof. intro H. unfold idx_step. cbn. rewrite (parse_uint64_fmt _ H). reflexivity. Qed.
Lemma step_deps l cur : l <> [] -> Forall item_ok l -> idx_step ("D:" +++ join " " l) cur = Ok (set_deps l cur).
Proof. intros H1 H2. unfold idx_step. cbn. rewrite (split_repeated_join _ H1 H2). reflexivity. Qed.
Lemma step_installif l cur : l <> [] -> Forall item_ok l -> idx_step ("i:" +++ join " " l) cur = Ok (set_installif l cur).
Proof. intros H1 H2. unfold idx_step. cbn. rewrite (split_repeated_join _ H1 H2). reflexivity. Qed.
Lemma step_provides l cur : l <> [] -> Forall item_ok l -> idx_step ("p:" +++ join " " l) cur = Ok (set_provides l cur).
Proof. intros H1 H2. unfold idx_step. cbn. rewrite (split_repeated_join _ H1 H2). reflexivity. Qed.
Lemma step_t z cur : (- Z.of_N two63 <= z < Z.of_N two63)%Z -> idx_step ("t:" +++ fmt_z z) cur = Ok (set_bdate z (set_btime z cur)).
Proof. intro H. unfold idx_step. cbn. rewrite (parse_int64_fmt _ H). reflexivity. Qed.
Lemma step_C b cur : idx_step ("C:" +++ checksum_string enc (set_checksum b empty_pkg)) cur = Ok (set_checksum b cur).
Proof. unfold idx_step, checksum_string. cbn. rewrite codec. reflexivity. Qed.

Ltac flat := cbn beta iota delta [empty_pkg set_name p_name set_version p_version set_arch p_arch set_desc p_desc set_license p_license set_origin p_origin set_maint p_maint set_url p_url set_commit p_commit set_checksum p_checksum set_deps p_deps set_provides p_provides set_installif p_installif set_replaces p_replaces set_size p_size set_isize p_isize set_prio p_prio set_btime p_btime set_bdate p_bdate].
Lemma read_record p rest acc : pkg_ok p ->
  idx_lines dec (record_lines p ++ rest) empty_pkg acc =
  idx_lines dec rest empty_pkg (if snonempty (p_name p) then norm_index p :: acc else acc).
Proof.
  intros [Hs Hi Hk Hb Hd Hp Hf].
  unfold record_lines, index_lines, index_items. cbn [lines_of].
  rewrite <- !app_assoc. cbn [app].
  rewrite idx_lines_cons by reflexivity.
  change (checksum_string enc p) with (checksum_string enc (set_checksum (p_checksum p) empty_pkg)).
  rewrite step_C. cbn [rbind]. rewrite <- !app_assoc. cbn [app].
  flat.
  rewrite (step_opt _ _ (set_name (p_name p))); [|reflexivity|intros _; apply step_name|discriminate].
  flat.
  rewrite (step_opt _ _ (set_version (p_version p))); [|reflexivity|intros _; apply step_version|discriminate].
  flat.
  rewrite (step_opt _ _ (set_arch (p_arch p))); [|reflexivity|intros _; apply step_arch|intro E; apply snonempty_false in E; rewrite E; apply set_arch_id; reflexivity].
  flat.
  rewrite (step_opt _ _ (set_size (p_size p))); [|reflexivity|intros _; apply step_size; exact Hs|intro E; apply nnonzero_false in E; rewrite E; apply set_size_id; reflexivity].
  flat.
  rewrite (step_opt _ _ (set_isize (p_isize p))); [|reflexivity|intros _; apply step_isize; exact Hi|intro E; apply nnonzero_false in E; rewrite E; apply set_isize_id; reflexivity].
  flat.
  rewrite (step_opt _ _ (set_desc (p_desc p))); [|reflexivity|intros _; apply step_desc|discriminate].
  flat.
  rewrite (step_opt _ _ (set_url (p_url p))); [|reflexivity|intros _; apply step_url|intro E; apply snonempty_false in E; rewrite E; apply set_url_id; reflexivity].
  flat.
  rewrite (step_opt _ _ (set_license (p_license p))); [|reflexivity|intros _; apply step_license|intro E; apply snonempty_false in E; rewrite E; apply set_license_id; reflexivity].
  flat.
  rewrite (step_opt _ _ (set_origin (p_origin p))); [|reflexivity|intros _; apply step_origin|intro E; apply snonempty_false in E; rewrite E; apply set_origin_id; reflexivity].
  flat.
  rewrite (step_opt _ _ (set_maint (p_maint p))); [|reflexivity|intros _; apply step_maint|intro E; apply snonempty_false in E; rewrite E; apply set_maint_id; reflexivity].
  flat.
  rewrite (step_opt _ _ (fun c => set_bdate (if negb (p_btime p =? zero_time_unix)%Z then p_btime p else 0%Z) (set_btime (p_btime p) c))); [|reflexivity| |].
  2:{ intros E. rewrite E. apply step_t. exact Hb. }
  2:{ intro E. rewrite E. apply negb_false_iff in E. apply Z.eqb_eq in E. rewrite E. apply set_time_id; reflexivity. }
  flat.
  rewrite (step_opt _ _ (set_commit (p_commit p))); [|reflexivity|intros _; apply step_commit|intro E; apply snonempty_false in E; rewrite E; apply set_commit_id; reflexivity].
  flat.
  rewrite (step_opt _ _ (set_deps (p_deps p))); [|reflexivity|intros E; apply step_deps; [apply lnonempty_true; exact E|exact Hd]|intro E; apply lnonempty_false in E; rewrite E; apply set_deps_id; reflexivity].
  flat.
  rewrite (step_opt _ _ (set_installif (p_installif p))); [|reflexivity|intros E; apply step_installif; [apply lnonempty_true; exact E|exact Hf]|intro E; apply lnonempty_false in E; rewrite E; apply set_installif_id; reflexivity].
  flat.
  rewrite (step_opt _ _ (set_provides (p_provides p))); [|reflexivity|intros E; apply step_provides; [apply lnonempty_true; exact E|exact Hp]|intro E; apply lnonempty_false in E; rewrite E; apply set_provides_id; reflexivity].
  flat.
  rewrite (step_opt _ _ (set_prio (p_prio p))); [|reflexivity|intros _; apply step_prio; exact Hk|intro E; apply nnonzero_false in E; rewrite E; apply set_prio_id; reflexivity].
  flat.
  rewrite idx_lines_blank.
  match goal with |- idx_lines dec rest empty_pkg (if snonempty (p_name ?q) then ?q :: acc else acc) = _ => set (Q := q) end.
  assert (EQ : Q = norm_index p).
  { apply pkg_ext. all: subst Q. all: vm_compute. all: reflexivity. }
  rewrite EQ. replace (p_name (norm_index p)) with (p_name p) by reflexivity. reflexivity.
Qed.

Lemma read_records ps : Forall pkg_ok ps -> forall acc,
  idx_lines dec (flat_map record_lines (named ps)) empty_pkg acc = Ok (rev acc ++ map norm_index (named ps)).
Proof.
  induction ps as [|p ps IH]; intros HF acc.
  - cbn. rewrite app_nil_r. reflexivity.
  - inversion HF as [|? ? Hp Hps]; subst. unfold named in *. cbn [filter].
    destruct (snonempty (p_name p)) eqn:E.
    + cbn [flat_map map]. rewrite (read_record p _ acc Hp), E, (IH Hps). cbn [rev]. rewrite <- app_assoc. reflexivity.
    + apply IH. exact Hps.
Qed.
Transparent fmt_n fmt_z parse_uint64 parse_int64 split_repeated join.

(* every written line is free of LF, does not end in CR, and fits the reader's token limit *)
Definition lines_fit (max : N) (ls : list string) : Prop := Forall (fun l => line_ok l /\ (nlen l + 1 <= max)%N) ls.

Theorem index_roundtrip_lines ps :
  index_template_rows = expected_index_rows -> index_template_trailer = s_nl +++ s_nl ->
  Forall pkg_ok ps -> lines_fit index_max_token (flat_map record_lines (named ps)) ->
  parse_index dec (write_index enc ps) = Ok (map norm_index (named ps)).
Proof.
  intros Hr Ht Hok Hfit. unfold parse_index, parse_index_max, write_index. rewrite Hr, Ht, write_index_lines.
  rewrite (scan_unlines _ _ Hfit). rewrite (read_records ps Hok []). reflexivity.
Qed.

(* with the tables read from the source *)
Theorem index_roundtrip ps :
  Forall pkg_ok ps -> lines_fit index_max_token (flat_map record_lines (named ps)) ->
  parse_index dec (write_index enc ps) = Ok (map norm_index (named ps)).
Proof.
  destruct index_rows_pinned as (Hr & Ht & _). apply index_roundtrip_lines; assumption.
Qed.

Lemma same_norm p : p_replaces p = [] -> SamePkg p (norm_index p).
Proof. intro H. constructor; try reflexivity. rewrite H. reflexivity. Qed.
Lemma same_norm_all l : Forall (fun p => p_replaces p = []) l -> Forall2 SamePkg l (map norm_index l).
Proof. induction 1; cbn; constructor; auto using same_norm. Qed.
Lemma named_forall (P : pkg -> Prop) ps : Forall P ps -> Forall P (named ps).
Proof. unfold named. induction 1; cbn; [constructor|]. destruct (snonempty (p_name x)); [constructor|]; assumption. Qed.

Theorem index_roundtrip_spec ps :
  Forall pkg_ok ps -> lines_fit index_max_token (flat_map record_lines (named ps)) ->
  Forall (fun p => p_replaces p = []) ps ->
  IndexRoundTrip ps (parse_index dec (write_index enc ps)).
Proof.
  intros H1 H2 H3. exists (map norm_index (named ps)). split; [apply index_roundtrip; assumption|].
  apply same_norm_all, named_forall, H3.
Qed.

(* reading then writing again reproduces the file: the writer does not look at what norm_index changes *)
Lemma exec_template_norm p :
  exec_template enc expected_index_rows (s_nl +++ s_nl) (norm_index p) = exec_template enc expected_index_rows (s_nl +++ s_nl) p.
Proof. destruct p. reflexivity. Qed.
Lemma write_index_norm ps :
  write_index_with enc expected_index_rows (s_nl +++ s_nl) (map norm_index (named ps)) =
  write_index_with enc expected_index_rows (s_nl +++ s_nl) ps.
Proof.
  unfold write_index_with, named. induction ps as [|p ps IH]; [reflexivity|].
  cbn [filter]. destruct (snonempty (p_name p)) eqn:E.
  - cbn [map sconcat]. rewrite IH, exec_template_norm.
    replace (p_name (norm_index p)) with (p_name p) by (destruct p; reflexivity). reflexivity.
  - cbn [map sconcat]. rewrite IH. unfold snonempty in E. apply negb_false_iff in E. rewrite E. reflexivity.
Qed.
Theorem index_read_write_fixpoint ps :
  Forall pkg_ok ps -> lines_fit index_max_token (flat_map record_lines (named ps)) ->
  exists l, parse_index dec (write_index enc ps) = Ok l /\ write_index enc l = write_index enc ps.
Proof.
  intros H1 H2. exists (map norm_index (named ps)). split; [apply index_roundtrip; assumption|].
  unfold write_index. destruct index_rows_pinned as (Hr & Ht & _). rewrite Hr, Ht. apply write_index_norm.
Qed.
End RT.

(* the index drops replaces (finding C16-F3) *)
Definition witness_replaces : pkg := set_replaces ["b"] (set_version "1" (set_name "a" empty_pkg)).
Lemma index_replaces_refuted :
  let enc := fun _ : list N => "" in let dec := fun _ : string => Some (@nil N) in
  dec (enc (p_checksum witness_replaces)) = Some (p_checksum witness_replaces) /\
  ~ IndexRoundTrip [witness_replaces] (parse_index dec (write_index enc [witness_replaces])).
Proof.
  cbn zeta. split; [reflexivity|]. intros (l & Hl & HF). vm_compute in Hl. injection Hl as <-.
  vm_compute in HF. inversion HF as [|? ? ? ? HS _]; subst. destruct HS as [_ _ _ _ _ _ _ _ _ _ _ _ _ Hr _ _ _ _]. discriminate.
Qed.

(* ---- the validator decides the Prop ------------------------------------------------ *)
Lemma tag_if_nil b t : tag_if b t = [] <-> b = false.
Proof. destruct b; cbn; split; congruence. Qed.
Lemma strs_eqb_eq a b : strs_eqb a b = true <-> a = b.
Proof. apply list_eqb_spec. intros; apply String.eqb_eq. Qed.
Lemma bytes_eqb_eq a b : bytes_eqb a b = true <-> a = b.
Proof. apply list_eqb_spec. intros; apply N.eqb_eq. Qed.
Lemma strs_eqb_refl a : strs_eqb a a = true.
Proof. apply strs_eqb_eq. reflexivity. Qed.
Lemma bytes_eqb_refl a : bytes_eqb a a = true.
Proof. apply bytes_eqb_eq. reflexivity. Qed.

Lemma pkg_tags_sound k a b : pkg_tags k a b = [] -> SamePkg a b.
Proof.
  unfold pkg_tags. intro H.
  repeat (apply app_eq_nil in H; let H1 := fresh "T" in destruct H as [H1 H]).
  repeat match goal with
  | T : tag_if _ _ = [] |- _ => apply tag_if_nil, negb_false_iff in T
  end.
  destruct (strs_eqb (p_installif a) (p_installif b)) eqn:EI;
    [| destruct ((k =? "installed") && _); discriminate ].
  destruct (strs_eqb (p_replaces a) (p_replaces b)) eqn:ER;
    [| destruct ((k =? "index") && _); discriminate ].
  constructor;
    first [ apply String.eqb_eq; assumption | apply N.eqb_eq; assumption | apply Z.eqb_eq; assumption
          | apply strs_eqb_eq; assumption | apply bytes_eqb_eq; assumption ].
Qed.
Lemma pkg_tags_complete k a b : SamePkg a b -> pkg_tags k a b = [].
Proof.
  intros []. unfold pkg_tags.
  repeat match goal with E : _ = _ |- _ => rewrite <- E; clear E end.
  rewrite !String.eqb_refl, !N.eqb_refl, !Z.eqb_refl, !strs_eqb_refl, bytes_eqb_refl. reflexivity.
Qed.
Lemma pkgs_tags_iff k a : forall b, pkgs_tags k a b = [] <-> Forall2 SamePkg a b.
Proof.
  induction a as [|x a IH]; intros [|y b]; cbn [pkgs_tags].
  - split; intros _; [constructor | reflexivity].
  - split; intro H; [discriminate | inversion H].
  - split; intro H; [discriminate | inversion H].
  - split; intro H.
    + apply app_eq_nil in H. destruct H as [H1 H2].
      constructor; [eapply pkg_tags_sound; eauto | apply IH; assumption].
    + inversion H as [|? ? ? ? Hxy Hab]; subst.
      rewrite (pkg_tags_complete k x y) by assumption. apply IH. assumption.
Qed.
Theorem index_validator_decides orig rb : index_rt_tags orig rb = [] <-> IndexRoundTrip orig rb.
Proof.
  unfold index_rt_tags, IndexRoundTrip. destruct rb as [l| | |].
  - rewrite pkgs_tags_iff. split; [intro H; exists l; auto | intros (l' & E & H); injection E as <-; exact H].
  - split; [discriminate | intros (l' & E & _); discriminate].
  - split; [discriminate | intros (l' & E & _); discriminate].
  - split; [discriminate | intros (l' & E & _); discriminate].
Qed.
