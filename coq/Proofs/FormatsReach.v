(* C16 — the fuel of the validator's [reachable] test (Spec/FormatsSpec.v):
   S (length c) steps of filepath.Dir are enough for every path c from which
   "." is reached at all, because each step that does not end in "." or "/"
   removes at least one '/'-separated component, and "/" never leads to ".".
   So an entry is called unreachable (finding C16-F5) only when it is. *)
From Apko Require Import Base.Prelude Base.C16Lib Model.Formats Spec.FormatsSpec Proofs.FormatsPath Proofs.FormatsSort.
Open Scope string_scope. Open Scope list_scope.

Local Notation comps := (split_on ch_slash).
Local Notation rt := starts_with_slash.

Definition nsl (c : string) : nat := List.length (comps c).
Lemma nsl_le c : nsl c <= S (String.length c).
Proof.
  unfold nsl. induction c as [|a c IH]; [cbn; lia|]. cbn [split_on String.length].
  destruct (Ascii.eqb a ch_slash); [cbn [List.length]; lia|].
  destruct (comps c) as [|x xs]; cbn [List.length] in *; lia.
Qed.

Definition npush (cs : list string) : nat := List.length (filter (fun c => negb (c =? "")) cs).
Lemma push_len r out c : List.length (push r out c) <= List.length out + (if c =? "" then 0 else 1).
Proof.
  unfold push. destruct (c =? "") eqn:E1; [cbn [orb]; lia|]. destruct (c =? "."); cbn [orb]; [lia|].
  destruct (c =? ".."); [|cbn [List.length]; lia].
  destruct out as [|top out']; [destruct r; cbn [List.length]; lia|]. destruct (top =? ".."); cbn [List.length]; lia.
Qed.
Lemma fold_push_len r cs : forall out, List.length (fold_left (push r) cs out) <= List.length out + npush cs.
Proof.
  unfold npush. induction cs as [|c cs IH]; intro out; [cbn; lia|]. cbn [fold_left filter].
  specialize (IH (push r out c)). pose proof (push_len r out c) as P.
  destruct (c =? ""); cbn [negb List.length] in *; lia.
Qed.
Lemma npush_le cs : npush cs <= List.length cs.
Proof. unfold npush. induction cs as [|c cs IH]; [cbn; lia|]. cbn [filter List.length]. destruct (negb (c =? "")); cbn [List.length]; lia. Qed.

Lemma comps_rooted L : L <> [] -> Forall good L -> comps (String ch_slash (join "/" L)) = "" :: L.
Proof. intros N G. cbn [split_on]. rewrite Ascii.eqb_refl, split_join_good by assumption. reflexivity. Qed.

(* one step of filepath.Dir that ends neither in "." nor in "/" drops a component *)
Lemma path_dir_nsl c : path_dir c <> "." -> path_dir c <> "/" -> nsl (path_dir c) < nsl c.
Proof.
  unfold path_dir, nsl. destruct (rev (comps c)) as [|lst pre] eqn:E; [congruence|]. destruct pre as [|p1 pre']; [congruence|].
  set (pre := p1 :: pre') in *. intros N1 N2.
  assert (EC : comps c = rev pre ++ [lst]).
  { rewrite <- (rev_involutive (comps c)), E. reflexivity. }
  rewrite EC, app_length. cbn [List.length]. set (P := rev pre) in *.
  assert (NP : P <> []). { unfold P, pre. cbn [rev]. destruct (rev pre'); discriminate. }
  assert (FP : Forall (fun x => has_char ch_slash x = false) P).
  { pose proof (split_on_free ch_slash c) as F. rewrite EC in F. apply Forall_app in F. apply F. }
  set (s := join "/" P +++ "/") in *.
  assert (CS : comps s = P ++ [""]).
  { unfold s. change (join "/" P +++ "/") with (join "/" P +++ String ch_slash ""). rewrite split_on_cat.
    change "/" with (String ch_slash ""). rewrite split_join by assumption. reflexivity. }
  assert (ST : st s = fold_left (push (rt s)) P []).
  { unfold st. rewrite CS, fold_left_app. cbn [fold_left]. apply push_empty. }
  pose proof (st_vs s) as V. pose proof (vs_good _ _ V) as G.
  rewrite clean_eq in *. set (L := rev (st s)) in *.
  assert (LL : List.length L = List.length (st s)) by (unfold L; apply rev_length).
  pose proof (fold_push_len (rt s) P []) as B. rewrite <- ST in B. cbn [List.length Nat.add] in B.
  destruct (rt s) eqn:R.
  - (* rooted: the first component is empty and is not pushed *)
    assert (HP : exists P', P = "" :: P').
    { destruct P as [|x P']; [congruence|]. destruct (string_dec x "") as [->|Nx]; [eauto|]. exfalso.
      inversion FP; subst. unfold s in R. rewrite rt_app in R by (apply join_nonempty, Nx).
      rewrite rt_join in R by exact Nx. rewrite rt_free in R by assumption. discriminate. }
    destruct HP as (P' & EP). rewrite EP in B. unfold npush in B. cbn [filter String.eqb negb] in B. fold (npush P') in B.
    pose proof (npush_le P'). rewrite EP. cbn [List.length].
    destruct L as [|x L'] eqn:EL; [exfalso; apply N2; reflexivity|].
    rewrite render_true, comps_rooted by (try discriminate; exact G). cbn [List.length] in *. lia.
  - pose proof (npush_le P).
    destruct L as [|x L'] eqn:EL; [exfalso; apply N1; reflexivity|].
    rewrite (render_false_cons _ _ G), split_join_good by (try discriminate; exact G). cbn [List.length] in *. lia.
Qed.

(* how many Dir steps lead to "." *)
Inductive steps : nat -> string -> Prop :=
| steps0 c : path_dir c = "." -> steps 0 c
| stepsS n c : path_dir c <> "." -> steps n (path_dir c) -> steps (S n) c.

Lemma steps_root n : ~ steps n "/".
Proof.
  induction n as [|n IH]; intro H; inversion H; subst.
  - discriminate.
  - apply IH. assumption.
Qed.
Lemma steps_bound n c : steps n c -> S n <= nsl c.
Proof.
  induction 1 as [c _|n c Hp Hs IH].
  - unfold nsl. destruct (comps c) eqn:E; [exfalso; eapply split_on_nonnil; exact E|cbn; lia].
  - assert (path_dir c <> "/") by (intro E; rewrite E in Hs; exact (steps_root n Hs)).
    pose proof (path_dir_nsl c Hp H). lia.
Qed.

Lemma reachable_steps hs : forall f c, reachable f hs c = true -> exists n, steps n c /\ S n <= f /\ reachable (S n) hs c = true.
Proof.
  induction f as [|f IH]; intros c H; [discriminate|]. cbn [reachable] in H.
  destruct (path_dir c =? ".") eqn:E.
  - exists 0. split; [constructor; apply String.eqb_eq, E|]. split; [lia|]. cbn [reachable]. rewrite E. exact H.
  - apply andb_true_iff in H. destruct H as [H1 H2]. destruct (IH _ H2) as (n & Sn & Ln & Rn).
    exists (S n). split; [constructor; [apply String.eqb_neq, E|exact Sn]|]. split; [lia|].
    change (reachable (S (S n)) hs c) with
      (if path_dir c =? "." then existsb (fun h => path_dir (clean (h_name h)) =? c) hs
       else existsb (fun h => h_isdir h && (clean (h_name h) =? path_dir c)) hs && reachable (S n) hs (path_dir c)).
    rewrite E, H1, Rn. reflexivity.
Qed.
Lemma reachable_mono hs : forall f c f', reachable f hs c = true -> f <= f' -> reachable f' hs c = true.
Proof.
  induction f as [|f IH]; intros c f' H L; [discriminate|]. destruct f' as [|f']; [lia|]. cbn [reachable] in *.
  destruct (path_dir c =? "."); [exact H|]. apply andb_true_iff in H. destruct H as [H1 H2]. rewrite H1. apply (IH _ f' H2). lia.
Qed.

(* no fuel does better than the validator's *)
Theorem reachable_fuel_enough hs c f : reachable f hs c = true -> reachable (S (String.length c)) hs c = true.
Proof.
  intro H. destruct (reachable_steps hs f c H) as (n & Sn & _ & Rn).
  apply (reachable_mono hs (S n)); [exact Rn|]. pose proof (steps_bound n c Sn). pose proof (nsl_le c). lia.
Qed.
Corollary reachable_fuel_iff hs c : (exists f, reachable f hs c = true) <-> reachable (S (String.length c)) hs c = true.
Proof. split; [intros (f & H); eapply reachable_fuel_enough; exact H|eauto]. Qed.

(* the fuel-free reading: every ancestor is present as a directory entry and the
   top-level one has a child (FormatsSort.Reach) *)
Lemma reach_reachable hs c : Reach hs c -> exists f, reachable f hs c = true.
Proof.
  induction 1 as [c H0 _ (h & Ih & Eh)|c Hp (g & Ig & Dg & Eg) _ (f & IH)].
  - exists 1. cbn [reachable]. rewrite H0. cbn [String.eqb]. apply existsb_exists. exists h. split; [exact Ih|]. apply String.eqb_eq, Eh.
  - exists (S f). cbn [reachable]. apply String.eqb_neq in Hp. rewrite Hp, IH, andb_true_r.
    apply existsb_exists. exists g. split; [exact Ig|]. rewrite Dg. apply String.eqb_eq, Eg.
Qed.
Theorem reach_iff_reachable hs c : c <> "." -> (Reach hs c <-> reachable (S (String.length c)) hs c = true).
Proof.
  intro N. split.
  - intro R. destruct (reach_reachable hs c R) as (f & H). eapply reachable_fuel_enough; exact H.
  - apply reachable_reach, N.
Qed.
