(* C16 — the readers' switch tables: the case letters of ParsePackageIndex and
   ParseInstalled and the fields each case assigns, as goextract read them on this
   run, are the ones the model's pkg_field / inst_field implement; every other
   letter is ignored; a repeated field overwrites the earlier value; and the
   part counts of the passwd / group parsers. *)
From Apko Require Import Base.Prelude Base.C16Lib Model.Formats Spec.FormatsSpec Proofs.FormatsProofs Proofs.FormatsPasswd.
Open Scope string_scope. Open Scope list_scope.

Definition expected_pkg_cases (with_r : bool) : list (string * (list string * list string)) :=
  [("P", (["Name"], [])); ("V", (["Version"], [])); ("A", (["Arch"], [])); ("L", (["License"], []));
   ("T", (["Description"], [])); ("o", (["Origin"], [])); ("m", (["Maintainer"], [])); ("U", (["URL"], []));
   ("D", (["Dependencies"], ["splitRepeatedField()"])); ("p", (["Provides"], ["splitRepeatedField()"]))] ++
  (if with_r then [("r", (["Replaces"], ["splitRepeatedField()"]))] else []) ++
  [("c", (["RepoCommit"], []));
   ("t", (["BuildDate"; "BuildTime"], ["strconv.ParseInt(10,64)"; "time.Unix(0)"; "time.Unix(i, 0).UTC()"]));
   ("i", (["InstallIf"], ["splitRepeatedField()"]));
   ("S", (["Size"], ["strconv.ParseUint(10,64)"])); ("I", (["InstalledSize"], ["strconv.ParseUint(10,64)"]));
   ("k", (["ProviderPriority"], ["strconv.ParseUint(10,64)"]));
   ("C", (["Checksum"], ["base64.StdEncoding.DecodeString()"; "strings.HasPrefix()"]))].
Definition expected_file_cases : list (string * (list string * list string)) :=
  [("F", (["Files"; "Gid=0"; "Mode=493"; "Name=val"; "Typeflag=tar.TypeDir"; "Uid=0"], []));
   ("M", (["Gid"; "Mode"; "Uid"], ["parseInstalledPerms()"]));
   ("R", (["Files"; "Gid=0"; "Mode=420"; "Name=fullpath"; "Uid=0"], ["sanitizeArchivePath()"]));
   ("a", (["Gid"; "Mode"; "Uid"], ["parseInstalledPerms()"]))].
Lemma reader_cases_pinned :
  index_reader_cases = expected_pkg_cases false /\ installed_reader_cases = expected_pkg_cases true ++ expected_file_cases /\
  index_line_guards = ["len(line) == 0"; "len(line) < 2"; "line[1:2] != "":"""] /\
  installed_line_guards = ["line == """""; "len(line) < 2 || line[1:2] != "":"""].
Proof. vm_compute. repeat split. Qed.

Definition known_letter (cases : list (string * (list string * list string))) (tok : string) : bool :=
  existsb (String.eqb tok) (map fst cases).

Ltac split_false H :=
  repeat match type of H with (_ || _) = false => let A := fresh "A" in apply orb_false_iff in H; destruct H as [A H] end.

Lemma Ok_inj_opt {A} (a b : A) : Ok (Some a) = Ok (Some b) -> a = b.
Proof. intro H. injection H. auto. Qed.

Section Readers.
Variable dec : string -> option (list N).

(* a letter outside the switch is ignored by the package part of both readers *)
Lemma pkg_field_unknown with_r tok val p :
  known_letter (expected_pkg_cases with_r) tok = false -> pkg_field dec with_r tok val p = Ok None.
Proof.
  intro H. unfold known_letter, expected_pkg_cases in H. destruct with_r; cbn [map fst app existsb] in H; split_false H;
    unfold pkg_field;
    repeat match goal with A : (tok =? _) = false |- _ => rewrite A; clear A end; rewrite ?andb_false_r; reflexivity.
Qed.
(* a letter of the switch is not: the line sets a field or is an error *)
Lemma pkg_field_known with_r tok val p :
  known_letter (expected_pkg_cases with_r) tok = true -> pkg_field dec with_r tok val p <> Ok None.
Proof.
  intro H. unfold pkg_field. unfold known_letter, expected_pkg_cases in H.
  destruct with_r; cbn [map fst app existsb] in H; rewrite ?andb_true_r, ?andb_false_r.
  all: repeat match goal with
  | |- (if false then _ else _) <> _ => cbv iota
  | |- (if String.eqb ?t ?l then _ else _) <> _ => destruct (String.eqb t l) eqn:?;
      [try discriminate; try (destruct (from_opt _); discriminate);
       try (destruct (has_prefix _ _); [destruct (gslice_from _ _); try discriminate; cbn [rbind]; destruct (from_opt _); discriminate|discriminate])|]
  end.
  all: exfalso; repeat match goal with A : (_ =? _) = false |- _ => rewrite A in H; clear A end; discriminate.
Qed.

Theorem index_reader_letters tok val p :
  (known_letter index_reader_cases tok = false -> pkg_field dec false tok val p = Ok None) /\
  (known_letter index_reader_cases tok = true -> pkg_field dec false tok val p <> Ok None).
Proof. destruct reader_cases_pinned as (E & _). rewrite E. split; [apply pkg_field_unknown|apply pkg_field_known]. Qed.

(* ParseInstalled: a letter outside its switch leaves the whole reader state alone *)
Theorem installed_reader_unknown tok val st :
  known_letter installed_reader_cases tok = false -> inst_field dec tok val st = Ok st.
Proof.
  destruct reader_cases_pinned as (_ & E & _). rewrite E. intro H. unfold known_letter in H. rewrite map_app, existsb_app in H.
  apply orb_false_iff in H. destruct H as [H1 H2]. unfold inst_field. rewrite (pkg_field_unknown true tok val (i_pkg st) H1). cbn [rbind].
  cbn [expected_file_cases map fst existsb] in H2. split_false H2.
  repeat match goal with A : (tok =? _) = false |- _ => rewrite A; clear A end. reflexivity.
Qed.

(* whole lines: "x:..." with x outside the switch *)
Lemma idx_step_unknown (a : ascii) val cur :
  known_letter index_reader_cases (String a "") = false -> idx_step dec (String a (String ":" val)) cur = Ok cur.
Proof.
  intro H. unfold idx_step. change (idx_split (String a (String ":" val))) with (Ok (String a "", val)). cbn [rbind fst snd].
  rewrite (proj1 (index_reader_letters _ val cur) H). reflexivity.
Qed.

(* a repeated field: the later line wins, whatever the earlier one set -- except C:,
   where a later value without the Q1 prefix is ignored and the earlier checksum stays *)
Lemma pkg_field_overwrites with_r tok v1 v2 p p1 : tok <> "C" ->
  pkg_field dec with_r tok v1 p = Ok (Some p1) -> pkg_field dec with_r tok v2 p1 = pkg_field dec with_r tok v2 p.
Proof.
  intro NC. apply String.eqb_neq in NC. unfold pkg_field. rewrite NC.
  repeat match goal with
  | |- (if (tok =? ?l) && ?b then _ else _) = _ -> _ => destruct (tok =? l) eqn:?; cbn [andb]; [destruct b eqn:?|]
  | |- (if tok =? ?l then _ else _) = _ -> _ => destruct (tok =? l) eqn:?
  end; try discriminate.
  all: try (intro H; apply Ok_inj_opt in H; subst p1; destruct p; reflexivity).
  all: try (destruct (from_opt _) as [x| | |]; cbn [rbind]; try discriminate; intro H; apply Ok_inj_opt in H; subst p1; destruct p; reflexivity).
Qed.
Lemma pkg_field_C_unprefixed with_r v p : has_prefix "Q1" v = false -> pkg_field dec with_r "C" v p = Ok (Some p).
Proof. intro H. unfold pkg_field. cbn [String.eqb Ascii.eqb Bool.eqb andb]. rewrite H. reflexivity. Qed.
End Readers.

(* ---- passwd / group: the number of colon-separated parts ------------------------------- *)
Theorem parse_user_parts line :
  List.length (split_on ":" (trim_space line)) <> passwd_part_count -> parse_user line = Err.
Proof.
  destruct passwd_formats_pinned as (_ & _ & _ & _ & _ & E & _). rewrite E. unfold parse_user.
  destruct (split_on ":" (trim_space line)) as [|a [|b [|c [|d [|e [|f [|g [|h l]]]]]]]]; cbn [List.length]; intro H; try reflexivity. congruence.
Qed.
Theorem parse_group_parts line :
  List.length (split_on ":" (trim_space line)) <> group_part_count -> parse_group line = Err.
Proof.
  destruct passwd_formats_pinned as (_ & _ & _ & _ & _ & _ & E). rewrite E. unfold parse_group.
  destruct (split_on ":" (trim_space line)) as [|a [|b [|c [|d [|e l]]]]]; cbn [List.length]; intro H; try reflexivity. congruence.
Qed.
(* an extra colon anywhere (a trailing field, a colon inside a field) makes one part too many *)
Lemma split_on_count c s : List.length (split_on c s) = S (List.length (filter (Ascii.eqb c) (list_ascii_of_string s))).
Proof.
  induction s as [|a s IH]; [reflexivity|]. cbn [split_on list_ascii_of_string filter]. rewrite (Ascii.eqb_sym c a).
  destruct (Ascii.eqb a c); cbn [List.length]; [rewrite IH; reflexivity|].
  destruct (split_on c s) as [|x xs] eqn:E; [exfalso; eapply split_on_nonnil; exact E|]. exact IH.
Qed.
Theorem parse_user_colons line :
  List.length (filter (Ascii.eqb ":") (list_ascii_of_string (trim_space line))) <> 6 -> parse_user line = Err.
Proof.
  intro H. apply parse_user_parts. rewrite split_on_count. destruct passwd_formats_pinned as (_ & _ & _ & _ & _ & E & _). rewrite E. lia.
Qed.
Theorem parse_group_colons line :
  List.length (filter (Ascii.eqb ":") (list_ascii_of_string (trim_space line))) <> 3 -> parse_group line = Err.
Proof.
  intro H. apply parse_group_parts. rewrite split_on_count. destruct passwd_formats_pinned as (_ & _ & _ & _ & _ & _ & E). rewrite E. lia.
Qed.

(* ---- one entry per line ------------------------------------------------------------------------ *)
Lemma take_short_all_len max l : forall r, take_short max l = (r, false) -> List.length r = List.length l.
Proof.
  induction l as [|x l IH]; intros r H; cbn [take_short] in H; [injection H as <-; reflexivity|].
  destruct (nlen x + 1 <=? max)%N; [|discriminate]. destruct (take_short max l) as [r' t] eqn:E.
  injection H as <- ->. cbn [List.length]. f_equal. apply IH. reflexivity.
Qed.
Lemma map_res_len {A B} (f : A -> res B) l : forall ys, map_res f l = Ok ys -> List.length ys = List.length l.
Proof.
  induction l as [|x l IH]; intros ys H; cbn [map_res] in H; [injection H as <-; reflexivity|].
  destruct (f x) as [y| | |]; cbn [rbind] in H; try discriminate. destruct (map_res f l) as [ys'| | |]; cbn [rbind] in H; try discriminate.
  injection H as <-. cbn [List.length]. f_equal. apply IH. reflexivity.
Qed.
Theorem load_file_count {A} (parse : string -> res A) max s l :
  load_file parse max s = Ok l -> List.length l = text_line_count s.
Proof.
  unfold load_file, scan_lines, text_line_count. destruct (take_short max (raw_lines s)) as [lines toolong] eqn:E.
  destruct (map_res parse lines) as [r| | |] eqn:M; cbn [rbind]; try discriminate. destruct toolong; [discriminate|].
  intro H. injection H as <-. rewrite (map_res_len _ _ _ M). apply take_short_all_len with (max := max), E.
Qed.
Theorem entry_count_tags_iff {A} k text (rb : res (list A)) :
  entry_count_tags k text rb = [] <-> (forall l, rb = Ok l -> List.length l = text_line_count text).
Proof.
  unfold entry_count_tags. destruct rb as [l| | |]; try (split; [intros _ l' H; discriminate|reflexivity]).
  rewrite tag_if_nil, negb_false_iff, Nat.eqb_eq. split; [intros H l' E; injection E as <-; exact H|intro H; apply H; reflexivity].
Qed.
