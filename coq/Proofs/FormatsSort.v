(* C16 — sortTarHeaders (Model/Formats.v sort_headers_ord / sort_children):
   independence of the map iteration order, permutation, the "every file
   directly follows its directory" shape the installed format needs, and the
   fuel bound, inside the envelope outside which is finding C16-F5. *)
From Apko Require Import Base.Prelude Base.C16Lib Model.Formats Spec.FormatsSpec Proofs.FormatsProofs Proofs.FormatsPath.
From Coq Require Import Permutation Sorted OrderedTypeEx.
Open Scope string_scope. Open Scope list_scope.

(* ---- sort.Strings gives one answer per multiset -------------------------------- *)
Lemma leb_iff a b : String.leb a b = true <-> String_as_OT.lt a b \/ a = b.
Proof.
  unfold String.leb. destruct (String.compare a b) eqn:E.
  - apply String_as_OT.cmp_eq in E. split; auto.
  - apply String_as_OT.cmp_lt in E. split; auto.
  - split; [discriminate|]. intros [H| ->].
    + apply String_as_OT.cmp_lt in H. unfold String_as_OT.cmp in H. congruence.
    + assert (H : String_as_OT.cmp b b = Eq) by (apply String_as_OT.cmp_eq; reflexivity). unfold String_as_OT.cmp in H. congruence.
Qed.
Lemma leb_trans a b c : String.leb a b = true -> String.leb b c = true -> String.leb a c = true.
Proof.
  rewrite !leb_iff. intros [H1| ->] [H2| ->]; auto. left. eapply String_as_OT.lt_trans; eauto.
Qed.
Lemma leb_refl a : String.leb a a = true.
Proof. apply leb_iff. auto. Qed.

Definition le (a b : string) : Prop := String.leb a b = true.
Definition sorted := StronglySorted le.

Lemma sinsert_perm x l : Permutation (sinsert x l) (x :: l).
Proof.
  induction l as [|y l IH]; cbn [sinsert]; [reflexivity|].
  destruct (String.leb x y); [reflexivity|]. rewrite IH. apply perm_swap.
Qed.
Lemma ssort_perm l : Permutation (ssort l) l.
Proof. induction l as [|x l IH]; cbn [ssort]; [reflexivity|]. rewrite sinsert_perm, IH. reflexivity. Qed.

Lemma sinsert_sorted x l : sorted l -> sorted (sinsert x l).
Proof.
  induction 1 as [|y l Hl IH Hy]; cbn [sinsert].
  - constructor; constructor.
  - destruct (String.leb x y) eqn:E.
    + constructor; [constructor; assumption|]. constructor; [exact E|].
      eapply Forall_impl; [|exact Hy]. intros z Hz. eapply leb_trans; eauto.
    + constructor; [exact IH|].
      assert (Hyx : le y x). { destruct (String.leb_total x y) as [H|H]; [unfold le; congruence|exact H]. }
      eapply Permutation_Forall; [symmetry; apply sinsert_perm|]. constructor; assumption.
Qed.
Lemma ssort_sorted l : sorted (ssort l).
Proof. induction l; cbn [ssort]; [constructor|apply sinsert_sorted; assumption]. Qed.

Lemma sorted_perm_eq l : forall l', sorted l -> sorted l' -> Permutation l l' -> l = l'.
Proof.
  induction l as [|a l IH]; intros l' Hs Hs' P.
  - apply Permutation_nil in P. congruence.
  - destruct l' as [|b l']; [apply Permutation_sym, Permutation_nil in P; discriminate|].
    inversion Hs as [|? ? Hl Ha]; subst. inversion Hs' as [|? ? Hl' Hb]; subst.
    assert (a = b) as ->.
    { assert (I1 : In a (b :: l')) by (eapply Permutation_in; [exact P|left; reflexivity]).
      assert (I2 : In b (a :: l)) by (eapply Permutation_in; [symmetry; exact P|left; reflexivity]).
      destruct I1 as [->|I1]; [reflexivity|]. destruct I2 as [->|I2]; [reflexivity|].
      rewrite Forall_forall in Ha, Hb. apply String.leb_antisym; [apply Ha, I2|apply Hb, I1]. }
    f_equal. apply IH; try assumption. eapply Permutation_cons_inv; exact P.
Qed.
Lemma ssort_perm_eq l l' : Permutation l l' -> ssort l = ssort l'.
Proof.
  intro P. apply sorted_perm_eq; try apply ssort_sorted.
  rewrite !ssort_perm. exact P.
Qed.
Lemma ssort_in x l : In x (ssort l) <-> In x l.
Proof. split; apply Permutation_in; [|symmetry]; apply ssort_perm. Qed.
Lemma ssort_nodup l : NoDup l -> NoDup (ssort l).
Proof. intro H. eapply Permutation_NoDup; [symmetry; apply ssort_perm|exact H]. Qed.

(* (a) the order in which Go ranges over the directoryChildren map does not matter *)
Theorem sort_headers_ord_indep_raw ord hs :
  Permutation ord (map fst (dir_children hs)) -> sort_headers_ord_raw ord hs = sort_headers_raw hs.
Proof. intro P. unfold sort_headers_raw, sort_headers_ord_raw. rewrite (ssort_perm_eq _ _ P). reflexivity. Qed.
(* the map Go ranges over is filled from the entries that are kept (fix f716198: not the archive root) *)
Theorem sort_headers_ord_indep ord hs :
  Permutation ord (map fst (dir_children (filter not_dot hs))) -> sort_headers_ord ord hs = sort_headers hs.
Proof. intro P. unfold sort_headers, sort_headers_ord. apply sort_headers_ord_indep_raw, P. Qed.
Lemma filter_not_dot_id hs : (forall h, In h hs -> clean (h_name h) <> ".") -> filter not_dot hs = hs.
Proof.
  induction hs as [|h hs IH]; intro H; [reflexivity|]. cbn [filter]. unfold not_dot at 1.
  destruct (clean (h_name h) =? ".") eqn:E; [apply String.eqb_eq in E; exfalso; exact (H h (or_introl eq_refl) E)|].
  cbn [negb]. rewrite IH; [reflexivity|]. intros x I. apply H. right. exact I.
Qed.

(* ---- the two Go maps --------------------------------------------------------------- *)
Definition ckey (h : hdr) : string := clean (h_name h).
Definition kids (d : string) (hs : list hdr) : list string :=
  map ckey (filter (fun h => path_dir (ckey h) =? d) hs).

Lemma alookup_aappend_same k v m :
  alookup k (aappend k v m) = Some (match alookup k m with Some vs => vs ++ [v] | None => [v] end).
Proof.
  induction m as [|[k' vs] m IH]; cbn [aappend alookup].
  - rewrite String.eqb_refl. reflexivity.
  - destruct (k' =? k) eqn:E; cbn [alookup]; rewrite E; [reflexivity|exact IH].
Qed.
Lemma alookup_aappend_other k k0 v m : k0 <> k -> alookup k (aappend k0 v m) = alookup k m.
Proof.
  intro N. apply String.eqb_neq in N. induction m as [|[k' vs] m IH]; cbn [aappend alookup].
  - rewrite N. reflexivity.
  - destruct (k' =? k0) eqn:E; cbn [alookup].
    + apply String.eqb_eq in E. subst k'. rewrite N. reflexivity.
    + destruct (k' =? k); [reflexivity|exact IH].
Qed.

Definition dc_step (m : list (string * list string)) (h : hdr) := aappend (path_dir (ckey h)) (ckey h) m.
Lemma dc_fold hs : forall m d,
  alookup d (fold_left dc_step hs m) =
  match alookup d m, kids d hs with
  | None, [] => None
  | None, l => Some l
  | Some vs, l => Some (vs ++ l)
  end.
Proof.
  unfold kids. induction hs as [|h hs IH]; intros m d; cbn [fold_left filter map].
  - destruct (alookup d m); [rewrite app_nil_r|]; reflexivity.
  - rewrite IH. unfold dc_step. destruct (path_dir (ckey h) =? d) eqn:E.
    + apply String.eqb_eq in E. rewrite E, alookup_aappend_same. cbn [map].
      destruct (alookup d m); [rewrite <- app_assoc|]; reflexivity.
    + apply String.eqb_neq in E. rewrite (alookup_aappend_other _ _ _ _ E). reflexivity.
Qed.
Lemma dc_lookup hs d :
  alookup d (dir_children hs) = match kids d hs with [] => None | l => Some l end.
Proof. unfold dir_children. change (alookup d (fold_left dc_step hs []) = match kids d hs with [] => None | l => Some l end). rewrite dc_fold. reflexivity. Qed.

Lemma alookup_in {A} k (m : list (string * A)) : In k (map fst m) <-> alookup k m <> None.
Proof.
  induction m as [|[k' v] m IH]; cbn [map fst alookup In]; [tauto|].
  destruct (k' =? k) eqn:E.
  - apply String.eqb_eq in E. split; [discriminate|auto].
  - apply String.eqb_neq in E. rewrite <- IH. tauto.
Qed.
Lemma aappend_keys k v m : NoDup (map fst m) -> NoDup (map fst (aappend k v m)).
Proof.
  induction m as [|[k' vs] m IH]; cbn [aappend map fst]; intro H.
  - constructor; [intros []|constructor].
  - inversion H as [|? ? Hn Hm]; subst. destruct (k' =? k) eqn:E; cbn [map fst].
    + constructor; assumption.
    + constructor; [|apply IH, Hm]. intro I. apply alookup_in in I. apply String.eqb_neq in E.
      rewrite alookup_aappend_other in I by congruence. apply Hn, alookup_in, I.
Qed.
Lemma dc_keys_nodup hs : NoDup (map fst (dir_children hs)).
Proof.
  unfold dir_children. change (NoDup (map fst (fold_left dc_step hs []))).
  assert (G : forall m, NoDup (map fst m) -> NoDup (map fst (fold_left dc_step hs m))).
  { induction hs as [|h hs IH]; intros m Hm; cbn [fold_left]; [exact Hm|]. apply IH, aappend_keys, Hm. }
  apply G. constructor.
Qed.

Lemma kids_in d hs c : In c (kids d hs) <-> exists h, In h hs /\ ckey h = c /\ path_dir c = d.
Proof.
  unfold kids. rewrite in_map_iff. split.
  - intros (h & <- & I). apply filter_In in I. destruct I as [I E]. apply String.eqb_eq in E. eauto.
  - intros (h & I & <- & E). exists h. split; [reflexivity|]. apply filter_In. split; [exact I|]. apply String.eqb_eq, E.
Qed.
Lemma nodup_map_filter {A B} (f : A -> B) p (l : list A) : NoDup (map f l) -> NoDup (map f (filter p l)).
Proof.
  induction l as [|x l IH]; cbn [map filter]; intro H; [constructor|].
  inversion H as [|? ? Hn Hl]; subst. destruct (p x); cbn [map]; [|apply IH, Hl].
  constructor; [|apply IH, Hl]. intro I. apply Hn. apply in_map_iff in I. destruct I as (y & E & I).
  apply filter_In in I. apply in_map_iff. exists y. tauto.
Qed.

Lemma alookup_aset {A} k k0 (v : A) m : alookup k (aset k0 v m) = if k0 =? k then Some v else alookup k m.
Proof.
  induction m as [|[k' v'] m IH]; cbn [aset alookup]; [reflexivity|].
  destruct (k' =? k0) eqn:E; cbn [alookup].
  - apply String.eqb_eq in E. subst k'. destruct (k0 =? k); reflexivity.
  - destruct (k' =? k) eqn:E2; [|exact IH].
    apply String.eqb_eq in E2. subst k'. rewrite String.eqb_sym, E. reflexivity.
Qed.
Definition all_step (m : list (string * hdr)) (h : hdr) := aset (ckey h) h m.
Lemma all_fold_inv hs : forall m c h, alookup c (fold_left all_step hs m) = Some h ->
  (In h hs /\ ckey h = c) \/ alookup c m = Some h.
Proof.
  induction hs as [|x hs IH]; intros m c h H; cbn [fold_left] in H; [auto|].
  apply IH in H. destruct H as [[I E]|H]; [left; split; [right; exact I|exact E]|].
  unfold all_step in H. rewrite alookup_aset in H. destruct (ckey x =? c) eqn:E; [|auto].
  apply String.eqb_eq in E. injection H as <-. left. split; [left; reflexivity|exact E].
Qed.
Lemma all_fold_skip hs : forall m c, (forall y, In y hs -> ckey y <> c) ->
  alookup c (fold_left all_step hs m) = alookup c m.
Proof.
  induction hs as [|x hs IH]; intros m c H; cbn [fold_left]; [reflexivity|].
  rewrite IH by (intros y I; apply H; right; exact I). unfold all_step. rewrite alookup_aset.
  destruct (ckey x =? c) eqn:E; [|reflexivity]. apply String.eqb_eq in E. exfalso. eapply H; [left; reflexivity|exact E].
Qed.
Lemma all_fold_in hs : forall m h, NoDup (map ckey hs) -> In h hs -> alookup (ckey h) (fold_left all_step hs m) = Some h.
Proof.
  induction hs as [|x hs IH]; intros m h N I; [destruct I|]. cbn [fold_left]. cbn [map] in N. inversion N as [|? ? Hn Hl]; subst.
  destruct I as [->|I]; [|apply IH; assumption].
  rewrite all_fold_skip.
  - unfold all_step. rewrite alookup_aset, String.eqb_refl. reflexivity.
  - intros y Iy E. apply Hn. rewrite <- E. apply in_map, Iy.
Qed.
Lemma all_lookup_inv hs c h : alookup c (all_headers hs) = Some h -> In h hs /\ ckey h = c.
Proof. intro H. apply (all_fold_inv hs [] c h) in H. destruct H as [H|H]; [exact H|discriminate]. Qed.
Lemma all_lookup_in hs h : NoDup (map ckey hs) -> In h hs -> alookup (ckey h) (all_headers hs) = Some h.
Proof. intros N I. exact (all_fold_in hs [] h N I). Qed.
Lemma all_lookup_none hs c : (forall y, In y hs -> ckey y <> c) -> alookup c (all_headers hs) = None.
Proof. intro H. exact (all_fold_skip hs [] c H). Qed.

(* ---- the recursion, with its inner loop named ---------------------------------------- *)
Definition files_of (all : list (string * hdr)) (cs : list string) : list hdr :=
  flat_map (fun c => match alookup c all with Some h => if h_isdir h then [] else [h] | None => [] end) cs.
Section Dirs.
Variables (f : nat) (dc : list (string * list string)) (all : list (string * hdr)).
Fixpoint dirs_of (l : list string) : res (list hdr) :=
  match l with
  | [] => Ok []
  | c :: l' =>
      match alookup c all with
      | Some h =>
          if h_isdir h then
            do sub <- match alookup c dc with
                      | Some (x :: xs) => sort_children f dc all (x :: xs)
                      | _ => Ok []
                      end;
            do rest <- dirs_of l';
            Ok (h :: sub ++ rest)
          else dirs_of l'
      | None => dirs_of l'
      end
  end.
End Dirs.
Lemma sort_children_S f dc all children :
  sort_children (S f) dc all children =
  do dirs <- dirs_of f dc all (ssort children); Ok (files_of all (ssort children) ++ dirs).
Proof. reflexivity. Qed.

(* ---- generic list facts ---------------------------------------------------------------- *)
Lemma nodup_map_inj {A B} (f : A -> B) (l : list A) x y :
  NoDup (map f l) -> In x l -> In y l -> f x = f y -> x = y.
Proof.
  induction l as [|a l IH]; intros N Ix Iy E; [destruct Ix|]. cbn [map] in N. inversion N as [|? ? Hn Hl]; subst.
  destruct Ix as [->|Ix], Iy as [->|Iy]; try reflexivity.
  - exfalso. apply Hn. rewrite E. apply in_map, Iy.
  - exfalso. apply Hn. rewrite <- E. apply in_map, Ix.
  - apply IH; assumption.
Qed.
Lemma nodup_map_inj_on {A B} (f : A -> B) (l : list A) :
  (forall x y, In x l -> In y l -> f x = f y -> x = y) -> NoDup l -> NoDup (map f l).
Proof.
  intros Hf N. induction N as [|a l Hn Hl IH]; cbn [map]; [constructor|]. constructor.
  - intro I. apply in_map_iff in I. destruct I as (y & E & Iy). apply Hn.
    rewrite (Hf a y); [exact Iy|left; reflexivity|right; exact Iy|congruence].
  - apply IH. intros x y Ix Iy. apply Hf; right; assumption.
Qed.
Lemma nodup_app {A} (a b : list A) : NoDup a -> NoDup b -> (forall x, In x a -> In x b -> False) -> NoDup (a ++ b).
Proof.
  intros Na Nb D. induction Na as [|x a Hn Ha IH]; cbn [app]; [exact Nb|]. constructor.
  - intro I. apply in_app_or in I. destruct I as [I|I]; [exact (Hn I)|]. apply (D x); [left; reflexivity|exact I].
  - apply IH. intros y Iy. apply D. right. exact Iy.
Qed.

(* ---- what `governed` needs of a concatenation ---------------------------------------- *)
Definition file_ok (ld : option string) (h : hdr) : Prop :=
  match ld with
  | Some d => (sanitize_archive_path d (path_base (h_name h)) =? clean (h_name h)) = true
  | None => False
  end.
Definition dirfirst (l : list hdr) : Prop := match l with [] => True | h :: _ => h_isdir h = true end.

Lemma governed_files ld files rest :
  Forall (fun h => h_isdir h = false /\ file_ok ld h) files -> governed ld (files ++ rest) = governed ld rest.
Proof.
  induction 1 as [|h files [Hd Hok] _ IH]; [reflexivity|]. cbn [app governed]. rewrite Hd.
  destruct ld as [d|]; [|destruct Hok]. cbn [file_ok] in Hok. rewrite Hok. exact IH.
Qed.
Lemma governed_app a : forall ld b, governed ld a = true -> (forall ld', governed ld' b = true) -> governed ld (a ++ b) = true.
Proof.
  induction a as [|h a IH]; intros ld b Ha Hb; cbn [app]; [apply Hb|]. cbn [governed] in *.
  destruct (h_isdir h); [apply IH; assumption|]. destruct ld as [d|]; [|discriminate].
  apply andb_true_iff in Ha. destruct Ha as [H1 H2]. rewrite H1. apply IH; assumption.
Qed.

(* ---- levels: how many filepath.Dir steps lead to "." -------------------------------- *)
Lemma path_dir_dot : path_dir "." = ".".
Proof. reflexivity. Qed.

Fixpoint up (k : nat) (c : string) : string := match k with O => c | S k' => up k' (path_dir c) end.
Lemma up_S k : forall c, up (S k) c = path_dir (up k c).
Proof. induction k as [|k IH]; intro c; [reflexivity|]. change (up (S (S k)) c) with (up (S k) (path_dir c)). rewrite IH. reflexivity. Qed.

Inductive lvl : nat -> string -> Prop :=
| lvl0 c : path_dir c = "." -> c <> "." -> lvl 0 c
| lvlS n c : path_dir c <> "." -> lvl n (path_dir c) -> lvl (S n) c.

Lemma lvl_not_dot n c : lvl n c -> c <> ".".
Proof. destruct 1 as [c _ H|n c H _]; [exact H|]. intros ->. apply H, path_dir_dot. Qed.
Lemma lvl_fun n c : lvl n c -> forall m, lvl m c -> n = m.
Proof.
  induction 1 as [c H0 _|n c Hp _ IH]; intros m L; inversion L; subst; try reflexivity; try contradiction.
  f_equal. apply IH. assumption.
Qed.
Lemma lvl_up n c : lvl n c -> forall k x, up k x = c -> lvl (k + n) x.
Proof.
  intros L k. induction k as [|k IH]; intros x E; cbn [up] in E.
  - subst. exact L.
  - specialize (IH _ E). cbn [Nat.add]. constructor; [eapply lvl_not_dot; exact IH|exact IH].
Qed.
Lemma lvl_same n c c' x k k' : lvl n c -> lvl n c' -> up k x = c -> up k' x = c' -> c = c'.
Proof.
  intros L L' E E'. pose proof (lvl_up _ _ L _ _ E) as A. pose proof (lvl_up _ _ L' _ _ E') as B.
  pose proof (lvl_fun _ _ A _ B) as K. assert (k = k') by lia. subst. congruence.
Qed.
Lemma lvl_down j : forall n c, lvl n c -> j <= n -> lvl (n - j) (up j c).
Proof.
  induction j as [|j IH]; intros n c L Hj; cbn [up]; [rewrite Nat.sub_0_r; exact L|].
  destruct L as [c H0 _|n c Hp L]; [lia|]. cbn [Nat.sub]. apply IH; [exact L|lia].
Qed.

(* ======================================================================================== *)
Section Env.
Variable hs : list hdr.
Hypothesis ND : NoDup (map ckey hs).

Local Notation DC := (dir_children hs).
Local Notation ALL := (all_headers hs).

Definition is_ent (c : string) : Prop := exists h, In h hs /\ ckey h = c.
Definition is_dirent (c : string) : Prop := exists g, In g hs /\ h_isdir g = true /\ ckey g = c.
Lemma dirent_ent c : is_dirent c -> is_ent c.
Proof. intros (g & I & _ & E). exists g. auto. Qed.

(* every ancestor is present as a directory entry, and the top-level one has a child *)
Inductive Reach : string -> Prop :=
| R_top c : path_dir c = "." -> c <> "." -> (exists h, In h hs /\ path_dir (ckey h) = c) -> Reach c
| R_sub c : path_dir c <> "." -> is_dirent (path_dir c) -> Reach (path_dir c) -> Reach c.
Hypothesis ENV : forall h, In h hs -> Reach (ckey h).

Hypothesis GOV : forall h g, In h hs -> In g hs -> h_isdir h = false -> h_isdir g = true ->
  ckey g = path_dir (ckey h) -> file_ok (Some (dir_trim (h_name g))) h.

Lemma key_inj h g : In h hs -> In g hs -> ckey h = ckey g -> h = g.
Proof. apply nodup_map_inj, ND. Qed.
Lemma ent_lookup h : In h hs -> alookup (ckey h) ALL = Some h.
Proof. apply all_lookup_in, ND. Qed.
Lemma lookup_ent c h : alookup c ALL = Some h -> In h hs /\ ckey h = c.
Proof. apply all_lookup_inv. Qed.

Lemma reach_lvl c : Reach c -> exists n, lvl n c.
Proof.
  induction 1 as [c H0 Hd _|c Hp _ _ [n IH]]; [exists 0; constructor; assumption|].
  exists (S n). constructor; assumption.
Qed.
Lemma reach_anc c : Reach c -> forall n, lvl n c -> forall j, 1 <= j <= n -> is_dirent (up j c).
Proof.
  induction 1 as [c H0 Hd _|c Hp Hdir _ IH]; intros n L j Hj.
  - inversion L; subst; [lia|contradiction].
  - inversion L as [|n' ? _ L']; subst; [contradiction|].
    destruct j as [|j]; [lia|]. cbn [up]. destruct j as [|j]; [exact Hdir|].
    apply (IH n' L'). lia.
Qed.
Lemma ent_lvl c : is_ent c -> exists n, lvl n c.
Proof. intros (h & I & <-). apply reach_lvl, ENV, I. Qed.
Lemma ent_anc c n j : is_ent c -> lvl n c -> 1 <= j <= n -> is_dirent (up j c).
Proof. intros (h & I & <-) L Hj. exact (reach_anc _ (ENV h I) n L j Hj). Qed.

(* the recursion is never deeper than the number of entries *)
Lemma depth_bound c n : is_ent c -> lvl n c -> n < List.length hs.
Proof.
  intros He L.
  set (chain := map (fun j => up j c) (seq 0 (S n))).
  assert (N : NoDup chain).
  { apply nodup_map_inj_on; [|apply seq_NoDup]. intros i j Hi Hj E. apply in_seq in Hi, Hj.
    pose proof (lvl_down i n c L ltac:(lia)) as A. pose proof (lvl_down j n c L ltac:(lia)) as B.
    rewrite E in A. pose proof (lvl_fun _ _ A _ B). lia. }
  assert (I : incl chain (map ckey hs)).
  { intros x Hx. apply in_map_iff in Hx. destruct Hx as (j & <- & Hj). apply in_seq in Hj.
    assert (E : is_ent (up j c)).
    { destruct j as [|j]; [exact He|]. apply dirent_ent. apply (ent_anc c n); [exact He|exact L|lia]. }
    destruct E as (h & Ih & <-). apply in_map, Ih. }
  pose proof (NoDup_incl_length N I) as B. unfold chain in B. rewrite !map_length, seq_length in B. lia.
Qed.

Definition lev_ok (n : nat) (cs : list string) : Prop :=
  forall c, In c cs -> alookup c ALL = None \/ (is_ent c /\ lvl n c).
Definition covers (cs : list string) (h : hdr) : Prop :=
  exists c k, In c cs /\ is_ent c /\ up k (ckey h) = c.

Lemma lev_ok_lvl n cs c : lev_ok n cs -> In c cs -> is_ent c -> lvl n c.
Proof.
  intros H I (h & Ih & E). destruct (H c I) as [N|[_ L]]; [|exact L].
  subst c. rewrite (ent_lookup h Ih) in N. discriminate.
Qed.

Definition sc_post (cs : list string) (out : list hdr) : Prop :=
  (forall h, In h out <-> In h hs /\ covers cs h) /\ NoDup out /\
  (forall ld, (forall c h, In c cs -> alookup c ALL = Some h -> h_isdir h = false -> file_ok ld h) -> governed ld out = true).

Lemma files_spec l x : In x (files_of ALL l) <-> exists c, In c l /\ alookup c ALL = Some x /\ h_isdir x = false.
Proof.
  unfold files_of. rewrite in_flat_map. split.
  - intros (c & I & H). exists c. destruct (alookup c ALL) as [h|]; [|destruct H].
    destruct (h_isdir h) eqn:D; [destruct H|]. destruct H as [<-|[]]. auto.
  - intros (c & I & E & D). exists c. rewrite E, D. split; [exact I|left; reflexivity].
Qed.
Lemma files_nodup l : NoDup l -> NoDup (files_of ALL l).
Proof.
  induction 1 as [|c l Hn Hl IH]; [constructor|]. cbn [files_of flat_map]. fold (files_of ALL l).
  destruct (alookup c ALL) as [h|] eqn:E; [|exact IH]. destruct (h_isdir h); [exact IH|]. cbn [app].
  constructor; [|exact IH]. intro I. apply files_spec in I. destruct I as (c' & I' & E' & _).
  apply lookup_ent in E, E'. destruct E as [_ <-], E' as [_ <-]. exact (Hn I').
Qed.

Lemma dirs_spec f n (Hfuel : List.length hs <= S f + n)
  (IHf : 1 <= f -> forall cs, NoDup cs -> lev_ok (S n) cs -> exists out, sort_children f DC ALL cs = Ok out /\ sc_post cs out) :
  forall l, NoDup l -> lev_ok n l ->
  exists dirs, dirs_of f DC ALL l = Ok dirs /\
    (forall h, In h dirs <-> In h hs /\ exists c k, In c l /\ is_dirent c /\ up k (ckey h) = c) /\
    NoDup dirs /\ dirfirst dirs /\ (forall ld, governed ld dirs = true).
Proof.
  induction l as [|c l IHl]; intros Nl Lv.
  - exists []. split; [reflexivity|]. split; [|split; [constructor|split; [exact I|reflexivity]]].
    intro h. split; [intros []|intros (_ & c & k & [] & _)].
  - inversion Nl as [|? ? Hc Nl']; subst.
    assert (Lv' : lev_ok n l) by (intros c' I; apply Lv; right; exact I).
    destruct (IHl Nl' Lv') as (rest & Er & Mr & Nr & Dr & Gr).
    cbn [dirs_of].
    assert (SKIP : (forall g, In g hs -> h_isdir g = true -> ckey g = c -> False) ->
       forall h, (In h hs /\ exists c0 k, In c0 l /\ is_dirent c0 /\ up k (ckey h) = c0) <->
                 (In h hs /\ exists c0 k, In c0 (c :: l) /\ is_dirent c0 /\ up k (ckey h) = c0)).
    { intros No h. split; intros (Ih & c0 & k & I0 & D0 & E0); (split; [exact Ih|]).
      - exists c0, k. split; [right; exact I0|auto].
      - destruct I0 as [<-|I0]; [|exists c0, k; auto]. exfalso. destruct D0 as (g & Ig & Dg & Eg). eapply No; eauto. }
    destruct (alookup c ALL) as [h|] eqn:Eh.
    2:{ exists rest. split; [exact Er|]. split; [|auto]. intro x. rewrite Mr. apply SKIP.
        intros g Ig _ Eg. rewrite <- Eg, (ent_lookup g Ig) in Eh. discriminate. }
    destruct (lookup_ent _ _ Eh) as [Ih Ek].
    destruct (h_isdir h) eqn:Dh.
    2:{ exists rest. split; [exact Er|]. split; [|auto]. intro x. rewrite Mr. apply SKIP.
        intros g Ig Dg Eg. assert (g = h) by (apply key_inj; congruence). congruence. }
    assert (Lc : lvl n c). { apply (lev_ok_lvl n (c :: l)); [exact Lv|left; reflexivity|exists h; auto]. }
    assert (Hd : is_dirent c) by (exists h; auto).
    (* the children of c *)
    assert (SUB : exists sub,
      match alookup c DC with Some (x :: xs) => sort_children f DC ALL (x :: xs) | _ => Ok [] end = Ok sub /\
      (forall x, In x sub <-> In x hs /\ covers (kids c hs) x) /\ NoDup sub /\
      governed (Some (dir_trim (h_name h))) sub = true).
    { rewrite dc_lookup. destruct (kids c hs) as [|k0 ks] eqn:K.
      - exists []. split; [reflexivity|]. split; [|split; [constructor|reflexivity]].
        intro x. split; [intros []|]. intros (_ & c' & k & [] & _).
      - rewrite <- K.
        assert (KL : lev_ok (S n) (kids c hs)).
        { intros c' I. right. apply kids_in in I. destruct I as (e & Ie & Ee & Ep). split; [exists e; auto|].
          constructor; rewrite Ep; [eapply lvl_not_dot; exact Lc|exact Lc]. }
        assert (F1 : 1 <= f).
        { assert (I0 : In k0 (kids c hs)) by (rewrite K; left; reflexivity).
          destruct (KL k0 I0) as [Hn|[He Ll]].
          - apply kids_in in I0. destruct I0 as (e & Ie & Ee & _). rewrite <- Ee, (ent_lookup e Ie) in Hn. discriminate.
          - pose proof (depth_bound _ _ He Ll). lia. }
        destruct (IHf F1 (kids c hs)) as (sub & Es & Ms & Ns & Gs); [apply nodup_map_filter, ND|exact KL|].
        exists sub. split; [exact Es|]. split; [exact Ms|]. split; [exact Ns|].
        apply Gs. intros c' e I Ee De. apply kids_in in I. destruct I as (e' & Ie' & Ee' & Ep).
        destruct (lookup_ent _ _ Ee) as [Ie Eke]. apply GOV; try assumption. rewrite Eke. congruence. }
    destruct SUB as (sub & Es & Ms & Ns & Gs). rewrite Es, Er. cbn [rbind].
    exists (h :: sub ++ rest). split; [reflexivity|].
    (* what lies under c in [sub] is strictly below it *)
    assert (SUBUP : forall x, In x sub -> exists k, up (S k) (ckey x) = c).
    { intros x Ix. apply Ms in Ix. destruct Ix as (_ & c' & k & Ic' & _ & Eu). apply kids_in in Ic'.
      destruct Ic' as (_ & _ & _ & Ep). exists k. rewrite up_S, Eu. exact Ep. }
    assert (RESTUP : forall x, In x rest -> exists c0 k, In c0 l /\ lvl n c0 /\ up k (ckey x) = c0).
    { intros x Ix. apply Mr in Ix. destruct Ix as (_ & c0 & k & I0 & D0 & E0). exists c0, k. split; [exact I0|]. split; [|exact E0].
      apply (lev_ok_lvl n l); [exact Lv'|exact I0|apply dirent_ent, D0]. }
    split; [|split; [|split; [exact Dh|]]].
    + intro x. cbn [In]. rewrite in_app_iff. split.
      * intros [<-|[Ix|Ix]].
        -- split; [exact Ih|]. exists c, 0. split; [left; reflexivity|]. split; [exact Hd|exact Ek].
        -- destruct (SUBUP x Ix) as (k & Ek'). apply Ms in Ix. destruct Ix as (Ixh & _).
           split; [exact Ixh|]. exists c, (S k). split; [left; reflexivity|auto].
        -- apply Mr in Ix. destruct Ix as (Ixh & c0 & k & I0 & D0 & E0). split; [exact Ixh|]. exists c0, k. split; [right; exact I0|auto].
      * intros (Ixh & c0 & k & [<-|I0] & D0 & E0).
        -- destruct k as [|k].
           ++ left. apply key_inj; try assumption. cbn [up] in E0. congruence.
           ++ right. left. apply Ms. split; [exact Ixh|]. exists (up k (ckey x)), k.
              assert (Ep : path_dir (up k (ckey x)) = c) by (rewrite <- up_S; exact E0).
              assert (Ent : is_ent (up k (ckey x))).
              { destruct k as [|k]; [exists x; auto|]. apply dirent_ent.
                apply (ent_anc (ckey x) (S (S k) + n)); [exists x; auto|eapply lvl_up; [exact Lc|exact E0]|lia]. }
              split; [|split; [exact Ent|reflexivity]]. apply kids_in. destruct Ent as (e & Ie & Ee). exists e. auto.
        -- right. right. apply Mr. split; [exact Ixh|]. exists c0, k. auto.
    + constructor.
      * intro I. apply in_app_or in I. destruct I as [I|I].
        -- destruct (SUBUP h I) as (k & Eu). rewrite Ek in Eu. pose proof (lvl_up _ _ Lc _ _ Eu) as A.
           pose proof (lvl_fun _ _ A _ Lc). lia.
        -- destruct (RESTUP h I) as (c0 & k & I0 & L0 & E0). rewrite Ek in E0.
           assert (X : c0 = c) by (eapply (lvl_same n c0 c c k 0); [exact L0|exact Lc|exact E0|reflexivity]). rewrite X in I0. exact (Hc I0).
      * apply nodup_app; try assumption. intros x I1 I2.
        destruct (SUBUP x I1) as (k & Eu). destruct (RESTUP x I2) as (c0 & k' & I0 & L0 & E0).
        assert (X : c0 = c) by (eapply (lvl_same n c0 c (ckey x) k' (S k)); eassumption). rewrite X in I0. exact (Hc I0).
    + intro ld. cbn [governed]. rewrite Dh. apply governed_app; assumption.
Qed.

Lemma sc_spec : forall f n cs, NoDup cs -> lev_ok n cs -> List.length hs <= f + n -> 1 <= f ->
  exists out, sort_children f DC ALL cs = Ok out /\ sc_post cs out.
Proof.
  induction f as [|f IHf]; intros n cs Ncs Lv Hfuel F1; [lia|].
  rewrite sort_children_S.
  assert (Ns : NoDup (ssort cs)) by (apply ssort_nodup, Ncs).
  assert (Ls : lev_ok n (ssort cs)) by (intros c I; apply Lv, ssort_in, I).
  destruct (dirs_spec f n Hfuel) with (l := ssort cs) as (dirs & Ed & Md & Nd & Dd & Gd); try assumption.
  { intros F cs' N' L'. apply (IHf (S n)); try assumption. lia. }
  rewrite Ed. cbn [rbind]. eexists. split; [reflexivity|]. split; [|split].
  - intro x. rewrite in_app_iff, files_spec, Md. split.
    + intros [(c & I & E & D)|(Ix & c & k & I & D & E)].
      * destruct (lookup_ent _ _ E) as [Ix Ek]. split; [exact Ix|]. exists c, 0. split; [apply ssort_in, I|]. split; [exists x; auto|exact Ek].
      * split; [exact Ix|]. exists c, k. split; [apply ssort_in, I|]. split; [apply dirent_ent, D|exact E].
    + intros (Ix & c & k & I & (e & Ie & Ee) & E).
      destruct (h_isdir e) eqn:De.
      * right. split; [exact Ix|]. exists c, k. split; [apply ssort_in, I|]. split; [exists e; auto|exact E].
      * left. exists c. split; [apply ssort_in, I|].
        assert (Lc : lvl n c) by (apply (lev_ok_lvl n cs); [exact Lv|exact I|exists e; auto]).
        destruct k as [|k].
        -- cbn [up] in E. assert (x = e) by (apply key_inj; congruence). subst x. rewrite <- Ee. split; [apply ent_lookup, Ie|exact De].
        -- exfalso. assert (Dc : is_dirent (up (S k) (ckey x))).
           { apply (ent_anc (ckey x) (S k + n)); [exists x; auto|eapply lvl_up; [exact Lc|exact E]|lia]. }
           rewrite E in Dc. destruct Dc as (g & Ig & Dg & Eg). assert (g = e) by (apply key_inj; congruence). congruence.
  - apply nodup_app; [apply files_nodup, Ns|exact Nd|]. intros x I1 I2.
    apply files_spec in I1. destruct I1 as (c & I & E & D). apply Md in I2. destruct I2 as (Ix & c0 & k & I0 & D0 & E0).
    destruct (lookup_ent _ _ E) as [_ Ek].
    assert (Lc : lvl n c) by (apply (lev_ok_lvl n (ssort cs)); [exact Ls|exact I|exists x; auto]).
    assert (L0 : lvl n c0) by (apply (lev_ok_lvl n (ssort cs)); [exact Ls|exact I0|apply dirent_ent, D0]).
    assert (X : c0 = c) by (eapply (lvl_same n c0 c (ckey x) k 0); eassumption). rewrite X in D0.
    destruct D0 as (g & Ig & Dg & Eg). assert (g = x) by (apply key_inj; congruence). congruence.
  - intros ld Hld. rewrite governed_files; [apply Gd|].
    apply Forall_forall. intros x Ix. apply files_spec in Ix. destruct Ix as (c & I & E & D). split; [exact D|].
    apply (Hld c); [apply ssort_in, I|exact E|exact D].
Qed.

(* ---- the whole of sortTarHeaders --------------------------------------------------------- *)
Hypothesis NODOT : forall h, In h hs -> ckey h <> ".".

Lemma top_dir c : is_ent c -> lvl 0 c -> is_dirent c.
Proof.
  intros (h & Ih & Eh) L. pose proof (ENV h Ih) as R. rewrite Eh in R.
  assert (H0 : path_dir c = "." /\ c <> ".") by (inversion L; auto).
  destruct R as [c _ _ (h' & Ih' & Ep)|c Hp _ _]; [|tauto].
  pose proof (ENV h' Ih') as R'. remember (ckey h') as c' eqn:Ec.
  destruct R' as [c' H0' _ _|c' _ Hdir _]; rewrite Ep in *; [tauto|exact Hdir].
Qed.

Theorem sort_headers_spec :
  exists out, sort_headers_raw hs = Ok out /\ Permutation out hs /\ governed None out = true.
Proof.
  unfold sort_headers_raw, sort_headers_ord_raw.
  set (top := ssort (filter (fun d => path_dir d =? ".") (ssort (map fst DC)))).
  assert (Itop : forall d, In d top <-> path_dir d = "." /\ alookup d DC <> None).
  { intro d. unfold top. rewrite ssort_in, filter_In, ssort_in, alookup_in, String.eqb_eq. tauto. }
  assert (Ntop : NoDup top).
  { unfold top. apply ssort_nodup, NoDup_filter, ssort_nodup, dc_keys_nodup. }
  assert (Ltop : lev_ok 0 top).
  { intros d I. apply Itop in I. destruct I as [H0 Hk]. rewrite dc_lookup in Hk.
    destruct (string_dec d ".") as [->|Hd].
    - left. apply all_lookup_none. exact NODOT.
    - right. destruct (kids d hs) as [|c l] eqn:K; [congruence|].
      assert (I : In c (kids d hs)) by (rewrite K; left; reflexivity). apply kids_in in I. destruct I as (h & Ih & Eh & Ep).
      pose proof (ENV h Ih) as R. rewrite Eh in R.
      destruct R as [c' H0' _ _|c' _ Hdir _]; [congruence|]. rewrite Ep in Hdir.
      split; [apply dirent_ent, Hdir|constructor; assumption]. }
  destruct (sc_spec (S (S (List.length hs))) 0 top Ntop Ltop) as (out & Eo & Mo & No & Go); try lia.
  exists out. split; [exact Eo|]. split.
  - apply NoDup_Permutation; [exact No|eapply NoDup_map_inv; exact ND|].
    intro x. rewrite Mo. split; [tauto|]. intro Ix. split; [exact Ix|].
    destruct (ent_lvl (ckey x)) as (m & L); [exists x; auto|].
    pose proof (lvl_down m m (ckey x) L (le_n _)) as L0. rewrite Nat.sub_diag in L0.
    assert (Ent : is_ent (up m (ckey x))).
    { destruct m as [|m]; [exists x; auto|]. apply dirent_ent, (ent_anc (ckey x) (S m)); [exists x; auto|exact L|lia]. }
    exists (up m (ckey x)), m. split; [|split; [exact Ent|reflexivity]].
    apply Itop. inversion L0 as [? H0 Hd|]; subst. split; [exact H0|]. rewrite dc_lookup.
    (* the top-level ancestor has a child among the entries *)
    assert (K : exists c, In c (kids (up m (ckey x)) hs)).
    { destruct m as [|m].
      - cbn [up] in *. pose proof (ENV x Ix) as R. destruct R as [c _ _ (h' & Ih' & Ep)|c Hp _ _]; [|contradiction].
        exists (ckey h'). apply kids_in. exists h'. auto.
      - assert (E' : is_ent (up m (ckey x))).
        { destruct m as [|m]; [exists x; auto|]. apply dirent_ent, (ent_anc (ckey x) (S (S m))); [exists x; auto|exact L|lia]. }
        destruct E' as (e & Ie & Ee). exists (ckey e). apply kids_in. exists e. split; [exact Ie|]. split; [reflexivity|].
        rewrite Ee, <- up_S. reflexivity. }
    destruct K as (c & Ic). destruct (kids (up m (ckey x)) hs); [destruct Ic|discriminate].
  - apply Go. intros c h I E D. exfalso. destruct (lookup_ent _ _ E) as [Ih Ek].
    assert (L : lvl 0 c) by (apply (lev_ok_lvl 0 top); [exact Ltop|exact I|exists h; auto]).
    destruct (top_dir c) as (g & Ig & Dg & Eg); [exists h; auto|exact L|].
    assert (g = h) by (apply key_inj; congruence). congruence.
Qed.
End Env.

(* ---- the envelope, in the terms of the validator ------------------------------------------ *)
Lemma reachable_reach hs f : forall c, c <> "." -> reachable f hs c = true -> Reach hs c.
Proof.
  induction f as [|f IH]; intros c N H; [discriminate|]. cbn [reachable] in H.
  destruct (path_dir c =? ".") eqn:E.
  - apply String.eqb_eq in E. apply existsb_exists in H. destruct H as (h & I & Hh). apply String.eqb_eq in Hh.
    apply R_top; [exact E|exact N|]. exists h. auto.
  - apply String.eqb_neq in E. apply andb_true_iff in H. destruct H as [H1 H2].
    apply existsb_exists in H1. destruct H1 as (g & Ig & Hg). apply andb_true_iff in Hg. destruct Hg as [Dg Eg]. apply String.eqb_eq in Eg.
    apply R_sub; [exact E|exists g; auto|apply IH; assumption].
Qed.
Lemma reach_not_root hs c : Reach hs c -> c <> "/".
Proof.
  induction 1 as [c H0 _ _|c _ _ _ IH]; intros ->.
  - rewrite path_dir_root in H0. discriminate.
  - apply IH. apply path_dir_root.
Qed.

(* Inside: cleaned names are pairwise different and none is "."; every entry is
   reachable (each ancestor is present as a DIRECTORY entry and the top-level
   ancestor has a child — the validator's own test, outside which is finding
   C16-F5); a non-directory entry's name ends in an ordinary component (not in
   "/", "/." or "/..", which no file can be called). *)
Record sort_envelope (hs : list hdr) : Prop := {
  se_nodup : NoDup (map (fun h => clean (h_name h)) hs);
  se_nodot : forall h, In h hs -> clean (h_name h) <> ".";
  se_reach : forall h, In h hs -> reachable (S (String.length (clean (h_name h)))) hs (clean (h_name h)) = true;
  se_base : forall h, In h hs -> h_isdir h = false -> plain_base (h_name h) }.

Lemma envelope_reach hs : sort_envelope hs -> forall h, In h hs -> Reach hs (ckey h).
Proof. intros E h I. eapply reachable_reach; [apply (se_nodot hs E h I)|apply (se_reach hs E h I)]. Qed.

Lemma envelope_gov hs : sort_envelope hs -> forall h g, In h hs -> In g hs -> h_isdir h = false -> h_isdir g = true ->
  ckey g = path_dir (ckey h) -> file_ok (Some (dir_trim (h_name g))) h.
Proof.
  intros E h g Ih Ig Dh Dg Ek. cbn [file_ok]. apply String.eqb_eq. apply join_dir_trim.
  - apply (se_base hs E h Ih Dh).
  - exact (se_nodot hs E g Ig).
  - exact (reach_not_root hs (ckey g) (envelope_reach hs E g Ig)).
  - exact Ek.
Qed.

Theorem sort_headers_in_envelope hs : sort_envelope hs ->
  exists out, sort_headers hs = Ok out /\ Permutation out hs /\ governed None out = true.
Proof.
  intro E. unfold sort_headers. rewrite (filter_not_dot_id hs (se_nodot hs E)). apply sort_headers_spec.
  - exact (se_nodup hs E).
  - exact (envelope_reach hs E).
  - exact (envelope_gov hs E).
  - exact (se_nodot hs E).
Qed.

(* ---- the validator decides the readable statement ----------------------------------------- *)
Lemma hdr_eqb_eq a b : hdr_eqb a b = true <-> a = b.
Proof.
  unfold hdr_eqb. split.
  - intro H. repeat (apply andb_true_iff in H; destruct H as [H ?]).
    apply String.eqb_eq in H, H0. apply Z.eqb_eq in H1, H2, H3. apply Bool.eqb_prop in H4.
    destruct a, b; cbn in *; subst; reflexivity.
  - intros <-. rewrite !String.eqb_refl, !Z.eqb_refl, Bool.eqb_reflx. reflexivity.
Qed.
Lemma existsb_hdr x l : existsb (hdr_eqb x) l = true <-> In x l.
Proof.
  rewrite existsb_exists. split.
  - intros (y & I & E). apply hdr_eqb_eq in E. subst. exact I.
  - intro I. exists x. split; [exact I|apply hdr_eqb_eq; reflexivity].
Qed.
Lemma flat_map_nil {A B} (f : A -> list B) l : flat_map f l = [] <-> forall x, In x l -> f x = [].
Proof.
  induction l as [|a l IH]; cbn [flat_map]; [split; [intros _ x []|reflexivity]|].
  split.
  - intro H. apply app_eq_nil in H. destruct H as [H1 H2]. intros x [<-|I]; [exact H1|apply IH; assumption].
  - intro H. rewrite (H a (or_introl eq_refl)). apply IH. intros x I. apply H. right. exact I.
Qed.
Theorem sort_validator_decides input output : sort_tags input output = [] <-> SortedWell input output.
Proof.
  unfold sort_tags, SortedWell. split.
  - intro H. apply app_eq_nil in H. destruct H as [H1 H]. apply app_eq_nil in H. destruct H as [H2 H3].
    apply tag_if_nil, negb_false_iff in H1, H2. split; [exact H1|]. split.
    + intros o Io. rewrite forallb_forall in H2. apply existsb_hdr, H2, Io.
    + intros h Ih. rewrite flat_map_nil in H3. specialize (H3 h Ih). apply existsb_hdr.
      destruct (existsb (hdr_eqb h) output); [reflexivity|]. destruct (reachable _ _ _); discriminate.
  - intros (H1 & H2 & H3). rewrite H1. cbn [negb tag_if app].
    assert (F : forallb (fun o => existsb (hdr_eqb o) input) output = true).
    { apply forallb_forall. intros o Io. apply existsb_hdr, H2, Io. }
    rewrite F. cbn [negb tag_if app]. apply flat_map_nil. intros h Ih.
    assert (X : existsb (hdr_eqb h) output = true) by (apply existsb_hdr, H3, Ih). rewrite X. reflexivity.
Qed.

(* (a)+(b)+(c), the fuel bound, and the validator's verdict, for every map iteration order *)
Theorem sort_headers_envelope hs ord : sort_envelope hs -> Permutation ord (map fst (dir_children hs)) ->
  exists out, sort_headers_ord ord hs = Ok out /\ sort_headers hs = Ok out /\
    Permutation out hs /\ governed None out = true /\ sort_tags hs out = [].
Proof.
  intros E P. destruct (sort_headers_in_envelope hs E) as (out & Eo & Po & Go).
  exists out. rewrite (sort_headers_ord_indep ord hs) by (rewrite (filter_not_dot_id hs (se_nodot hs E)); exact P). repeat split; try assumption.
  apply sort_validator_decides. split; [exact Go|]. split; intros x I; eapply Permutation_in; try exact I; [exact Po|symmetry; exact Po].
Qed.

(* ---- each envelope condition is needed ---------------------------------------------------------- *)
Theorem sort_envelope_needed :
  (* a "./" directory entry is left out of the result (fix f716198); before the fix it was its own child
     and the recursion did not end (finding C15-F4): [sort_headers_raw], hypothetical now *)
  (sort_headers [mkHdr "./" true 493 0 0 ""] = Ok [] /\ sort_headers_raw [mkHdr "./" true 493 0 0 ""] = OutOfFuel) /\
  (* a top-level entry without children is not reached (finding C16-F5) *)
  sort_headers [mkHdr "dev/" true 493 0 0 ""; mkHdr "usr/" true 493 0 0 ""; mkHdr "usr/bin/" true 493 0 0 ""] =
    Ok [mkHdr "usr/" true 493 0 0 ""; mkHdr "usr/bin/" true 493 0 0 ""] /\
  (* an entry whose parent has no header is dropped (finding C16-F5) *)
  sort_headers [mkHdr "usr/" true 493 0 0 ""; mkHdr "usr/bin/ls" false 420 0 0 ""; mkHdr "usr/lib/" true 493 0 0 ""] =
    Ok [mkHdr "usr/" true 493 0 0 ""; mkHdr "usr/lib/" true 493 0 0 ""] /\
  (* a directory named twice is emitted twice, with its children under each (finding C16-F7) *)
  sort_headers [mkHdr "s/" true 493 0 0 ""; mkHdr "s/d/" true 493 0 0 ""; mkHdr "s/d/x" false 420 0 0 ""; mkHdr "s/d/" true 493 0 0 ""] =
    Ok [mkHdr "s/" true 493 0 0 ""; mkHdr "s/d/" true 493 0 0 ""; mkHdr "s/d/x" false 420 0 0 ""; mkHdr "s/d/" true 493 0 0 ""; mkHdr "s/d/x" false 420 0 0 ""] /\
  (* a non-directory name ending in "/." is written as R:. and does not lead back to its path *)
  (exists out, sort_headers [mkHdr "a/" true 493 0 0 ""; mkHdr "a/b/" true 493 0 0 ""; mkHdr "a/b/c/." false 420 0 0 ""] = Ok out /\
     Permutation out [mkHdr "a/" true 493 0 0 ""; mkHdr "a/b/" true 493 0 0 ""; mkHdr "a/b/c/." false 420 0 0 ""] /\ governed None out = false).
Proof.
  split; [split; vm_compute; reflexivity|]. split; [vm_compute; reflexivity|]. split; [vm_compute; reflexivity|]. split; [vm_compute; reflexivity|].
  eexists. split; [vm_compute; reflexivity|]. split; [reflexivity|vm_compute; reflexivity].
Qed.
