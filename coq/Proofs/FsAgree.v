(* C17 — a syntactic sufficient condition for the lookup-agreement clause of
   the envelope, whole-path lookups (getNode): on a filesystem without symbolic
   links and for a normalised path, the code's lookup and the reference's
   resolution return the same inode / NotExist, the only difference left being
   the recorded corner "a non-directory in the middle of the path is NotExist
   instead of ENOTDIR". *)
From Apko Require Import Base.Prelude Model.MemFS Spec.FsSpec Proofs.FsProofs.
Open Scope string_scope. Open Scope list_scope.

Definition no_links (h : list node) : Prop := forall j, is_sym h j = false.

(* what the code's answer must be, given the reference's *)
Definition agrees (m : eres nat) (r : rres) : Prop :=
  match r with
  | RFound st _ => m = inl (cur st)
  | RMissing _ _ => m = inr ENotExist
  | RErr ENotExist => m = inr ENotExist
  | RErr EOther => m = inr ENotExist            (* the non-directory-prefix corner *)
  | RErr _ => False
  end.

Lemma clean_name_eqb : forall c, clean_name c = true ->
  String.eqb c "" = false /\ String.eqb c "." = false /\ String.eqb c ".." = false.
Proof.
  intros c H. unfold clean_name in H. apply negb_true_iff in H.
  apply orb_false_iff in H. destruct H as [H H3]. apply orb_false_iff in H. destruct H as [H1 H2]. auto.
Qed.

Lemma loop_walk_agree : forall rec h, no_links h ->
  forall parts c st nm trav, forallb clean_name parts = true ->
  exists r, s_walk h (c :: st) nm parts true = WEnd r /\ agrees (get_loop rec h parts c trav) r.
Proof.
  intros rec h NL. induction parts as [|part rest IH]; intros c st nm trav Hc; cbn [get_loop s_walk].
  - eexists. split; reflexivity.
  - cbn [forallb] in Hc. apply andb_true_iff in Hc. destruct Hc as [Hp Hr].
    destruct (clean_name_eqb part Hp) as [E1 [E2 E3]]. rewrite E1, E2, E3. cbn [cur hd].
    destruct (is_dir h c); cbn [negb]; [|eexists; split; reflexivity].
    destruct (lookup part (n_children (get h c))) as [i|].
    + rewrite (NL i). cbn [andb]. apply IH, Hr.
    + destruct rest; eexists; split; reflexivity.
Qed.

Lemma resolve_no_link : forall h n st nm p r, s_walk h st nm p true = WEnd r -> s_resolve n h st nm p true = r.
Proof. intros h n st nm p r H. destruct n; cbn [s_resolve]; rewrite H; reflexivity. Qed.

Lemma node_of_agrees : forall m r, agrees m r ->
  let s := match r with RFound st _ => inl (cur st) | RMissing _ _ => inr ENotExist | RErr e => inr e end in
  m = s \/ (m = inr ENotExist /\ s = inr EOther).
Proof.
  intros m r H. destruct r as [st o|st o|e]; cbn in *; [left; exact H | left; exact H|].
  destruct e; try contradiction; [left; exact H | right; split; [exact H | reflexivity]].
Qed.

Theorem lookup_agree_nolinks : forall d h p, no_links h -> is_dir h 0 = true -> clean_path p = true ->
  get_at d h p = s_node h p \/ (get_at d h p = inr ENotExist /\ s_node h p = inr EOther).
Proof.
  intros d h p NL Hroot Hc. unfold s_node, s_path. rewrite (clean_path_not_empty p Hc).
  unfold clean_path in Hc. destruct (is_root_path p) eqn:Er.
  - (* "/" or "." *)
    left. assert (get_at d h p = inl 0) as -> by (destruct d; cbn [get_at]; rewrite Er; reflexivity).
    unfold is_root_path in Er. apply orb_true_iff in Er. destruct Er as [Er|Er]; apply path_eqb_eq in Er; subst p.
    + rewrite (resolve_no_link h spec_max_links [0] None [""; ""] (RFound [0] None)); reflexivity.
    + rewrite (resolve_no_link h spec_max_links [0] None ["."] (RFound [0] None)); [reflexivity|].
      cbn [s_walk cur hd]. rewrite Hroot. reflexivity.
  - cbn [orb] in Hc.
    assert (Hg : get_at d h p = get_loop
               (match d with O => fun _ : path => inr EOther | S d' => get_at d' h end) h p 0 [])
      by (destruct d; cbn [get_at]; rewrite Er; reflexivity).
    rewrite Hg. clear Hg.
    match goal with |- context [get_loop ?r h p 0 []] => set (rec := r) end.
    assert (Hq : exists q, forallb clean_name q = true /\
                 get_loop rec h p 0 [] = get_loop rec h q 0 [] /\
                 s_walk h [0] None p true = s_walk h [0] None q true).
    { destruct p as [|c q]; [discriminate|]. destruct (String.eqb c "") eqn:Ec.
      - apply String.eqb_eq in Ec. subst c. apply andb_true_iff in Hc. destruct Hc as [_ Hc].
        exists q. split; [exact Hc|]. split; reflexivity.
      - exists (c :: q). assert (Hc' : nonempty (c :: q) && forallb clean_name (c :: q) = true).
        { destruct c as [|a c']; [discriminate Ec | exact Hc]. }
        apply andb_true_iff in Hc'. destruct Hc' as [_ Hc']. split; [exact Hc'|]. split; reflexivity. }
    destruct Hq as [q [Hq [G1 G2]]]. rewrite G1.
    destruct (loop_walk_agree rec h NL q 0 [] None [] Hq) as [r [Hw Ha]].
    rewrite (resolve_no_link h spec_max_links [0] None p r) by (rewrite G2; exact Hw).
    exact (node_of_agrees _ r Ha).
Qed.

Lemma eres_nat_eqb_refl : forall r : eres nat, eres_nat_eqb r r = true.
Proof. intros [n|e]; simpl; [apply Nat.eqb_refl | destruct e; reflexivity]. Qed.

(* hence the whole-path operations are inside the envelope there, unless the
   reference itself answers ENOTDIR (the recorded corner) *)
Theorem node_ops_in_envelope_nolinks : forall b s p,
  no_links (heap s) -> is_dir (heap s) 0 = true -> clean_path p = true ->
  s_node (heap s) p <> inr EOther ->
  first_corner (node_corner b (heap s) p) = None /\
  E b s (Stat p) = true /\ E b s (ReadDir p) = true /\
  (forall m, E b s (Chmod p m) = true) /\ (forall u g, E b s (Chown p u g) = true) /\
  (forall t, E b s (Chtimes p t) = true).
Proof.
  intros b s p NL Hr Hc Hn.
  assert (A : first_corner (node_corner b (heap s) p) = None).
  { unfold node_corner, get_node. rewrite Hc.
    destruct (lookup_agree_nolinks (getnode_depth b) (heap s) p NL Hr Hc) as [Ha|[_ Hb]]; [|contradiction].
    rewrite Ha, eres_nat_eqb_refl.
    destruct (s_node (heap s) p) as [i|e]; [reflexivity|]. destruct e; reflexivity. }
  split; [exact A|]. unfold E, corner. cbn [corners]. rewrite A. repeat split; reflexivity.
Qed.
