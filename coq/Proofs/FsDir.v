(* C17 — the directory-backed filesystem (Model/DirFS.v) refines the reference.

   [dsync d]: overlay and host have the same tree — every inode the same
   kind, permission bits, owner, time, target, device number and directory
   entries; file contents (only on the host) and extended attributes (only in
   the overlay) are left out.

   On a synchronised state, for normalised relative names (which do not climb
   and which filepath.Join leaves alone) and inside the overlay's envelope
   (which contains the symbolic-link conditions: Proofs/FsTameOps.v gives the
   syntactic class), one step of dirFS IS the reference's step on the host
   state (result and next host state) and the overlay follows it — except for
   the operations dirFS answers from the overlay alone and which the host
   cannot answer alike (Lstat: sizes; extended attributes), where it is the
   reference's step on the overlay state.

   The proof: the reference's path operations commute with erasing contents and
   attributes ([strip]), so on two states with the same stripped heap they fail
   or succeed together and leave states with the same stripped heap. *)
From Apko Require Import Base.Prelude Model.MemFS Spec.FsSpec Model.DirFS
  Proofs.FsProofs Proofs.FsLaws Proofs.FsWf Proofs.FsAgree Proofs.FsTame.
Open Scope string_scope. Open Scope list_scope.

Definition strip (n : node) : node := set_data [] (set_xattrs [] n).
Definition sh (h : list node) : list node := List.map strip h.

(* ---- the stripped heap has the same shape ------------------------------------------------ *)
Lemma strip_default : strip (empty_node KReg 0%N) = empty_node KReg 0%N.
Proof. reflexivity. Qed.
Lemma get_sh : forall h i, get (sh h) i = strip (get h i).
Proof. intros h i. unfold get, sh. rewrite <- strip_default at 1. apply map_nth. Qed.
Lemma sh_length : forall h, List.length (sh h) = List.length h.
Proof. intros. unfold sh. apply map_length. Qed.
Lemma sh_shape : forall h, same_shape h (sh h).
Proof. intros h j. rewrite get_sh. repeat split. Qed.
Lemma is_dir_sh : forall h i, is_dir (sh h) i = is_dir h i.
Proof. intros. unfold is_dir. rewrite get_sh. reflexivity. Qed.
Lemma is_sym_sh : forall h i, is_sym (sh h) i = is_sym h i.
Proof. intros. unfold is_sym. rewrite get_sh. reflexivity. Qed.
Lemma children_sh : forall h i, n_children (get (sh h) i) = n_children (get h i).
Proof. intros. rewrite get_sh. reflexivity. Qed.

Lemma s_path_sh : forall h p f, s_path (sh h) p f = s_path h p f.
Proof. intros. unfold s_path. rewrite (s_resolve_shape h (sh h) (sh_shape h)). reflexivity. Qed.
Lemma s_node_sh : forall h p, s_node (sh h) p = s_node h p.
Proof. intros. unfold s_node. rewrite s_path_sh. reflexivity. Qed.
Lemma s_lnode_sh : forall h p, s_lnode (sh h) p = s_lnode h p.
Proof. intros. unfold s_lnode. rewrite s_path_sh. reflexivity. Qed.
Lemma s_leaf_sh : forall h p, s_leaf (sh h) p = s_leaf h p.
Proof. intros. unfold s_leaf. rewrite s_path_sh. reflexivity. Qed.

(* ---- heap updates commute with stripping ---------------------------------------------------- *)
Lemma sh_upd : forall h i f g, (forall n, strip (f n) = g (strip n)) -> sh (upd h i f) = upd (sh h) i g.
Proof.
  induction h as [|x h IH]; intros [|i] f g H; cbn [upd sh List.map]; try reflexivity.
  - rewrite H. reflexivity.
  - f_equal. apply IH, H.
Qed.
Lemma sh_app : forall h n, sh (h ++ [n]) = sh h ++ [strip n].
Proof. intros. unfold sh. rewrite map_app. reflexivity. Qed.
Lemma sh_add_child : forall h d nm t, sh (add_child h d nm t) = add_child (sh h) d nm t.
Proof. intros. unfold add_child. apply sh_upd. reflexivity. Qed.
Lemma sh_del_child : forall h d nm, sh (del_child h d nm) = del_child (sh h) d nm.
Proof. intros. unfold del_child. apply sh_upd. reflexivity. Qed.
Lemma sh_create : forall h d nm n, strip n = n ->
  sh (fst (create h d nm n)) = fst (create (sh h) d nm n) /\ snd (create h d nm n) = snd (create (sh h) d nm n).
Proof.
  intros h d nm n Hn. unfold create. cbn [fst snd]. rewrite sh_length. split; [|reflexivity].
  rewrite sh_add_child, sh_app, Hn. reflexivity.
Qed.

(* ---- outputs, up to what stripping forgets ---------------------------------------------------- *)
Definition strip_out (r : out) : out :=
  match r with
  | OBytes _ => OBytes []
  | OInfo k perm _ u g t => OInfo k perm 0%N u g t
  | OXattrs _ => OXattrs []
  | r => r
  end.
Lemma strip_out_failure : forall r, is_failure (strip_out r) = is_failure r.
Proof. intros []; reflexivity. Qed.

(* operations, up to the bytes they carry *)
Definition strip_op (o : op) : op :=
  match o with
  | WriteFile p _ perm => WriteFile p [] perm
  | o => o
  end.

(* the path operations the theorem is about (the handle operations and the
   attribute operations do not go through this lemma) *)
Definition tree_op (o : op) : bool :=
  match o with
  | Mkdir _ _ | MkdirAll _ _ | OpenFile _ _ _ | Create _ | WriteFile _ _ _ | ReadFile _
  | ReadDir _ | Stat _ | Lstat _ | Symlink _ _ | Link _ _ | Readlink _ | Remove _
  | Chmod _ _ | Chown _ _ _ | Chtimes _ _ | Mknod _ _ _ | Readnod _ => true
  | _ => false
  end.

Lemma s_open_sh : forall h p fl perm,
  s_open (sh h) p fl perm =
  match s_open h p fl perm with OpErr e => OpErr e | OpNode h' i => OpNode (sh h') i end.
Proof.
  intros h p fl perm. unfold s_open. rewrite s_path_sh.
  destruct (s_path h p true) as [st nm|st nm|e]; try reflexivity.
  - destruct (f_creat fl && f_excl fl); [reflexivity|]. rewrite is_dir_sh.
    destruct (is_dir h (cur st)); [|reflexivity].
    destruct (f_acc fl); try reflexivity. destruct (f_creat fl || f_trunc fl); reflexivity.
  - destruct (f_creat fl); [|reflexivity].
    destruct (sh_create h (cur st) nm (empty_node KReg perm) eq_refl) as [A B].
    destruct (create h (cur st) nm (empty_node KReg perm)) as [h1 i1].
    destruct (create (sh h) (cur st) nm (empty_node KReg perm)) as [h2 i2]. cbn [fst snd] in *. subst. reflexivity.
Qed.

Lemma s_mkdirall_sh : forall p h stk perm,
  s_mkdirall (sh h) stk p perm = (sh (fst (s_mkdirall h stk p perm)), snd (s_mkdirall h stk p perm)).
Proof.
  induction p as [|c rest IH]; intros h stk perm; cbn [s_mkdirall]; [reflexivity|].
  destruct (String.eqb c "" || String.eqb c "."); [apply IH|].
  destruct (String.eqb c ".."); [apply IH|].
  rewrite is_dir_sh, children_sh. destruct (negb (is_dir h (cur stk))); [reflexivity|].
  destruct (lookup c (n_children (get h (cur stk)))) as [x|].
  - rewrite (s_resolve_shape h (sh h) (sh_shape h)).
    destruct (s_resolve spec_max_links h stk None [c] true) as [st' o|st' o|e]; try reflexivity.
    rewrite is_dir_sh. destruct (is_dir h (cur st')); [apply IH | reflexivity].
  - destruct (sh_create h (cur stk) c (empty_node KDir perm) eq_refl) as [A B].
    destruct (create h (cur stk) c (empty_node KDir perm)) as [h1 i1].
    destruct (create (sh h) (cur stk) c (empty_node KDir perm)) as [h2 i2]. cbn [fst snd] in *. subst. apply IH.
Qed.

(* the heap and the result of a tree operation depend on the heap alone *)
Definition sph (h : list node) (o : op) : list node * out :=
  let '(s', r) := spec_raw (mkSt h []) o in (heap s', r).

Lemma sph_ok : forall s o, tree_op o = true ->
  heap (fst (spec_raw s o)) = fst (sph (heap s) o) /\ snd (spec_raw s o) = snd (sph (heap s) o).
Proof.
  intros [h hs] o Ho. unfold sph. destruct o; try discriminate Ho; cbn [spec_raw heap];
    unfold s_with_leaf, s_with_node, s_enter_new, s_do_open, s_new_handle; cbn [heap];
    repeat match goal with
           | |- context [match ?x with _ => _ end] =>
               lazymatch x with
               | context [match _ with _ => _ end] => fail
               | _ => destruct x eqn:?
               end
           end; cbn [fst snd heap seth]; split; reflexivity.
Qed.

Lemma sort_keys_map_kind : forall h (l : list (string * nat)),
  List.map (fun '(nm, c) => (nm, n_kind (get (sh h) c))) l = List.map (fun '(nm, c) => (nm, n_kind (get h c))) l.
Proof. intros. apply map_ext. intros [nm c]. rewrite get_sh. reflexivity. Qed.

(* the commutation *)
Theorem sph_strip : forall h o, tree_op o = true ->
  sph (sh h) (strip_op o) = (sh (fst (sph h o)), strip_out (snd (sph h o))).
Proof.
  intros h o Ho. unfold sph. destruct o; try discriminate Ho; cbn [strip_op spec_raw heap];
    unfold s_with_leaf, s_with_node, s_enter_new, s_do_open; cbn [heap].
  - (* Mkdir *)
    rewrite s_leaf_sh. destruct (s_leaf h p) as [[[d nm] c]|e]; [|reflexivity].
    rewrite is_dir_sh. destruct (negb (is_dir h d)); [reflexivity|]. destruct c; [reflexivity|].
    cbn [seth heap fst snd strip_out]. rewrite (proj1 (sh_create h d nm (empty_node KDir perm) eq_refl)). reflexivity.
  - (* MkdirAll *)
    destruct (path_eqb p [""]); [reflexivity|]. rewrite s_mkdirall_sh.
    destruct (s_mkdirall h [0] p perm) as [h1 e]. cbn [fst snd seth heap]. destruct e; reflexivity.
  - (* OpenFile *)
    rewrite s_open_sh. destruct (s_open h p fl perm) as [e|h1 i]; [reflexivity|].
    unfold s_new_handle. cbn [fst snd heap strip_out]. destruct (f_trunc fl); [|reflexivity].
    rewrite (sh_upd h1 i (set_data []) (set_data [])) by reflexivity. reflexivity.
  - (* Create *)
    rewrite s_open_sh. destruct (s_open h p rdwr_create_trunc 438%N) as [e|h1 i]; [reflexivity|].
    unfold s_new_handle. cbn [fst snd heap strip_out rdwr_create_trunc f_trunc].
    rewrite (sh_upd h1 i (set_data []) (set_data [])) by reflexivity. reflexivity.
  - (* ReadFile *)
    rewrite s_node_sh. destruct (s_node h p) as [i|e]; [|reflexivity]. rewrite is_dir_sh.
    destruct (is_dir h i); [reflexivity|]. cbn [fst snd heap strip_out]. rewrite get_sh. reflexivity.
  - (* WriteFile *)
    rewrite s_open_sh. destruct (s_open h p rdwr_create_trunc perm) as [e|h1 i]; [reflexivity|].
    cbn [seth heap fst snd strip_out]. rewrite (sh_upd h1 i (set_data b) (set_data [])) by reflexivity. reflexivity.
  - (* ReadDir *)
    rewrite s_node_sh. destruct (s_node h p) as [i|e]; [|reflexivity]. rewrite is_dir_sh.
    destruct (negb (is_dir h i)); [reflexivity|]. cbn [fst snd heap strip_out].
    rewrite children_sh, sort_keys_map_kind. reflexivity.
  - (* Stat *)
    rewrite s_node_sh. destruct (s_node h p) as [i|e]; [|reflexivity]. cbn [fst snd heap]. rewrite get_sh. reflexivity.
  - (* Lstat *)
    rewrite s_lnode_sh. destruct (s_lnode h p) as [i|e]; [|reflexivity]. cbn [fst snd heap]. rewrite get_sh. reflexivity.
  - (* Symlink *)
    rewrite s_leaf_sh. destruct (s_leaf h p) as [[[d nm] c]|e]; [|reflexivity].
    rewrite is_dir_sh. destruct (negb (is_dir h d)); [reflexivity|]. destruct c; [reflexivity|].
    cbn [seth heap fst snd strip_out].
    rewrite (proj1 (sh_create h d nm (mkNode KSym 511%N 0%Z 0%Z [] None tgt 0%N [] []) eq_refl)). reflexivity.
  - (* Link *)
    rewrite s_leaf_sh. destruct (s_leaf h new) as [[[d nm] c]|e]; [|reflexivity].
    rewrite is_dir_sh. destruct (negb (is_dir h d)); [reflexivity|].
    rewrite s_node_sh. destruct (s_node h old) as [t|e]; [|reflexivity].
    rewrite is_dir_sh. destruct (is_dir h t); [reflexivity|]. cbn [negb]. destruct c; [reflexivity|].
    cbn [seth heap fst snd strip_out]. rewrite sh_add_child. reflexivity.
  - (* Readlink *)
    rewrite s_leaf_sh. destruct (s_leaf h p) as [[[d nm] c]|e]; [|reflexivity]. destruct c as [c|]; [|reflexivity].
    rewrite is_sym_sh. destruct (is_sym h c); [|reflexivity]. cbn [fst snd heap strip_out]. rewrite get_sh. reflexivity.
  - (* Remove *)
    rewrite s_leaf_sh. destruct (s_leaf h p) as [[[d nm] c]|e]; [|reflexivity]. destruct c as [c|]; [|reflexivity].
    rewrite is_dir_sh, children_sh.
    destruct (is_dir h c && negb match n_children (get h c) with [] => true | _ :: _ => false end); [reflexivity|].
    cbn [seth heap fst snd strip_out]. rewrite sh_del_child. reflexivity.
  - (* Chmod *)
    rewrite s_node_sh. destruct (s_node h p) as [i|e]; [|reflexivity]. cbn [seth heap fst snd strip_out].
    rewrite (sh_upd h i (set_perm perm) (set_perm perm)) by reflexivity. reflexivity.
  - (* Chown *)
    rewrite s_node_sh. destruct (s_node h p) as [i|e]; [|reflexivity]. cbn [seth heap fst snd strip_out].
    rewrite (sh_upd h i (set_owner uid gid) (set_owner uid gid)) by reflexivity. reflexivity.
  - (* Chtimes *)
    rewrite s_node_sh. destruct (s_node h p) as [i|e]; [|reflexivity]. cbn [seth heap fst snd strip_out].
    rewrite (sh_upd h i (set_mtime (Some t)) (set_mtime (Some t))) by reflexivity. reflexivity.
  - (* Mknod *)
    rewrite s_leaf_sh. destruct (s_leaf h p) as [[[d nm] c]|e]; [|reflexivity].
    rewrite is_dir_sh. destruct (negb (is_dir h d)); [reflexivity|]. destruct c; [reflexivity|].
    cbn [seth heap fst snd strip_out].
    rewrite (proj1 (sh_create h d nm (mkNode KDev perm 0%Z 0%Z [] None [] dev [] []) eq_refl)). reflexivity.
  - (* Readnod *)
    rewrite s_leaf_sh. destruct (s_leaf h p) as [[[d nm] c]|e]; [|reflexivity]. destruct c as [c|]; [|reflexivity].
    rewrite get_sh. cbn [strip set_data set_xattrs n_kind n_dev].
    destruct (n_kind (get h c)); reflexivity.
Qed.

(* ---- the same at the level of steps ------------------------------------------------------------ *)
Definition hstep (h : list node) (o : op) : list node * out :=
  let '(h', r) := sph h o in
  if is_failure r && negb (is_mkdirall o) then (h, r) else (h', r).

Lemma spec_step_hstep : forall s o, tree_op o = true ->
  heap (fst (spec_step s o)) = fst (hstep (heap s) o) /\ snd (spec_step s o) = snd (hstep (heap s) o).
Proof.
  intros s o Ho. destruct (sph_ok s o Ho) as [A B]. unfold spec_step, hstep.
  destruct (spec_raw s o) as [s' r]. destruct (sph (heap s) o) as [h' r']. cbn [fst snd] in *. subst.
  destruct (is_failure r' && negb (is_mkdirall o)); split; reflexivity.
Qed.
Lemma strip_op_tree : forall o, tree_op (strip_op o) = tree_op o.
Proof. intros []; reflexivity. Qed.
Lemma strip_op_mkdirall : forall o, is_mkdirall (strip_op o) = is_mkdirall o.
Proof. intros []; reflexivity. Qed.
Lemma hstep_strip : forall h o, tree_op o = true ->
  hstep (sh h) (strip_op o) = (sh (fst (hstep h o)), strip_out (snd (hstep h o))).
Proof.
  intros h o Ho. unfold hstep. rewrite (sph_strip h o Ho). destruct (sph h o) as [h' r]. cbn [fst snd].
  rewrite strip_out_failure, strip_op_mkdirall. destruct (is_failure r && negb (is_mkdirall o)); reflexivity.
Qed.

(* two states with the same tree answer a tree operation alike and keep the same tree *)
Theorem pair_step : forall s1 s2 o1 o2,
  sh (heap s1) = sh (heap s2) -> tree_op o1 = true -> tree_op o2 = true -> strip_op o1 = strip_op o2 ->
  sh (heap (fst (spec_step s1 o1))) = sh (heap (fst (spec_step s2 o2))) /\
  strip_out (snd (spec_step s1 o1)) = strip_out (snd (spec_step s2 o2)).
Proof.
  intros s1 s2 o1 o2 Hs H1 H2 Ho.
  destruct (spec_step_hstep s1 o1 H1) as [A1 B1]. destruct (spec_step_hstep s2 o2 H2) as [A2 B2].
  pose proof (hstep_strip (heap s1) o1 H1) as C1. pose proof (hstep_strip (heap s2) o2 H2) as C2.
  rewrite Hs, Ho, C2 in C1. inversion C1 as [[D1 D2]]. rewrite A1, A2, B1, B2. split; [symmetry; exact D1 | symmetry; exact D2].
Qed.

(* ---- results that stripping keeps ------------------------------------------------------------------ *)
Definition keeps (r : out) : bool :=
  match r with OBytes _ | OInfo _ _ _ _ _ _ | OXattrs _ => false | _ => true end.
Lemma keeps_eq : forall a b, keeps a = true -> keeps b = true -> strip_out a = strip_out b -> a = b.
Proof. intros a b Ha Hb H. destruct a; try discriminate Ha; destruct b; try discriminate Hb; exact H. Qed.
Definition keep_op (o : op) : bool :=
  match o with
  | Mkdir _ _ | MkdirAll _ _ | OpenFile _ _ _ | Create _ | WriteFile _ _ _ | ReadDir _ | Symlink _ _ | Link _ _ | Readlink _
  | Remove _ | Chmod _ _ | Chown _ _ _ | Chtimes _ _ | Mknod _ _ _ | Readnod _ => true
  | _ => false
  end.
Lemma keep_ops : forall s o, keep_op o = true -> keeps (snd (spec_step s o)) = true.
Proof.
  intros s o Ho. unfold spec_step.
  assert (K : keeps (snd (spec_raw s o)) = true).
  { destruct o; try discriminate Ho; cbn [spec_raw];
      unfold s_with_leaf, s_with_node, s_enter_new, s_do_open, s_new_handle;
      repeat match goal with
             | |- context [match ?x with _ => _ end] =>
                 lazymatch x with
                 | context [match _ with _ => _ end] => fail
                 | _ => destruct x eqn:?
                 end
             end; reflexivity. }
  destruct (spec_raw s o) as [s' r]. destruct (is_failure r && negb (is_mkdirall o)); exact K.
Qed.

(* operations that only look *)
Definition ro_op (o : op) : bool :=
  match o with ReadDir _ | Stat _ | Lstat _ | Readlink _ | ReadFile _ | GetXattr _ _ | ListXattrs _ | Readnod _ => true | _ => false end.
Lemma ro_ops : forall s o, ro_op o = true -> fst (spec_step s o) = s.
Proof.
  intros s o Ho. unfold spec_step.
  assert (K : fst (spec_raw s o) = s).
  { destruct o; try discriminate Ho; cbn [spec_raw]; unfold s_with_leaf, s_with_node;
      repeat match goal with
             | |- context [match ?x with _ => _ end] =>
                 lazymatch x with
                 | context [match _ with _ => _ end] => fail
                 | _ => destruct x eqn:?
                 end
             end; reflexivity. }
  destruct (spec_raw s o) as [s' r]. cbn [fst] in K. subst. destruct (is_failure r && negb (is_mkdirall o)); reflexivity.
Qed.

Lemma sh_upd_same : forall h i f, (forall n, strip (f n) = strip n) -> sh (upd h i f) = sh h.
Proof.
  induction h as [|x h IH]; intros [|i] f H; cbn [upd sh List.map]; try reflexivity.
  - rewrite H. reflexivity.
  - f_equal. apply IH, H.
Qed.

(* operations that change at most contents or attributes *)
Definition data_op (o : op) : bool :=
  match o with
  | Read _ _ | ReadAt _ _ _ | Write _ _ | Seek _ _ _ | Close _ | SetXattr _ _ _ | RemoveXattr _ _ => true
  | OpenFile _ fl _ => negb (f_creat fl)
  | o => ro_op o
  end.
Lemma data_ops : forall s o, data_op o = true -> sh (heap (fst (spec_step s o))) = sh (heap s).
Proof.
  intros s o Ho. destruct (ro_op o) eqn:Er; [rewrite (ro_ops s o Er); reflexivity|].
  unfold spec_step.
  assert (K : sh (heap (fst (spec_raw s o))) = sh (heap s)).
  { destruct o; try discriminate Ho; try discriminate Er; cbn [spec_raw];
      unfold s_with_node, with_handle, s_do_open, s_new_handle.
    - (* OpenFile without O_CREATE *)
      cbn [data_op] in Ho. apply negb_true_iff in Ho. unfold s_open. rewrite Ho.
      destruct (s_path (heap s) p true) as [st nm|st nm|e]; try reflexivity. cbn [andb orb].
      destruct (is_dir (heap s) (cur st)).
      + destruct (f_acc fl); try reflexivity. destruct (f_trunc fl); [reflexivity|]. reflexivity.
      + cbn [fst heap]. destruct (f_trunc fl); [apply sh_upd_same; reflexivity | reflexivity].
    - destruct (nth_error (handles s) h) as [hd|]; [|reflexivity]. destruct (h_open hd); [|reflexivity].
      repeat match goal with |- context [if ?x then _ else _] => destruct x end; reflexivity.
    - destruct (nth_error (handles s) h) as [hd|]; [|reflexivity]. destruct (h_open hd); [|reflexivity].
      repeat match goal with |- context [if ?x then _ else _] => destruct x end; reflexivity.
    - destruct (nth_error (handles s) h) as [hd|]; [|reflexivity]. destruct (h_open hd); [|reflexivity].
      repeat match goal with |- context [if ?x then _ else _] => destruct x end; try reflexivity;
        cbn [fst heap]; apply sh_upd_same; reflexivity.
    - destruct (nth_error (handles s) h) as [hd|]; [|reflexivity]. destruct (h_open hd); [|reflexivity].
      destruct wh as [|[|[|wh]]]; try reflexivity; match goal with |- context [if ?x then _ else _] => destruct x end; reflexivity.
    - destruct (nth_error (handles s) h) as [hd|]; [|reflexivity]. destruct (h_open hd); reflexivity.
    - destruct (s_node (heap s) p); [|reflexivity]. cbn [fst seth heap]. apply sh_upd_same. reflexivity.
    - destruct (s_node (heap s) p); [|reflexivity]. cbn [fst seth heap]. apply sh_upd_same. reflexivity. }
  destruct (spec_raw s o) as [s' r]. cbn [fst] in *. destruct (is_failure r && negb (is_mkdirall o)); [reflexivity | exact K].
Qed.

(* ---- names that filepath.Join leaves alone --------------------------------------------------------- *)
Definition relpath (p : path) : bool := clean_path p && negb (rooted p).
Definition relleaf (p : path) : bool := clean_leaf_path p && negb (rooted p).

Lemma relleaf_relpath : forall p, relleaf p = true -> relpath p = true.
Proof.
  unfold relleaf, relpath, clean_leaf_path. intros p H. apply andb_true_iff in H. destruct H as [H R].
  apply andb_true_iff in H. destruct H as [H _]. rewrite H, R. reflexivity.
Qed.
Lemma hp_rel : forall p, relpath p = true -> hp p = p.
Proof.
  intros p H. unfold relpath in H. apply andb_true_iff in H. destruct H as [Hc Hr]. apply negb_true_iff in Hr.
  destruct (clean_path_cases p Hc) as [Er|[_ [N [C [Ep|Ep]]]]].
  - unfold is_root_path in Er. apply orb_true_iff in Er. destruct Er as [Er|Er]; apply path_eqb_eq in Er; subst p; [discriminate Hr | reflexivity].
  - rewrite Ep. apply go_clean_rel; assumption.
  - rewrite Ep in Hr. destruct (strip_slash p); discriminate.
Qed.

Lemma leaf_split : forall p, clean_leaf_path p = true -> exists x base, p = x ++ [base] /\ clean_name base = true.
Proof.
  intros p H. unfold clean_leaf_path in H. apply andb_true_iff in H. destruct H as [Hc Hnr]. apply negb_true_iff in Hnr.
  destruct (clean_path_cases p Hc) as [Er|[_ [N [C Ep]]]]; [congruence|].
  assert (Hn : strip_slash p <> []) by (destruct (strip_slash p); [discriminate N | discriminate]).
  destruct (exists_last Hn) as [q [base Eq]]. rewrite Eq in C. rewrite forallb_clean_app in C.
  apply andb_true_iff in C. destruct C as [_ Cb]. cbn [forallb] in Cb. rewrite andb_true_r in Cb.
  destruct Ep as [Ep|Ep]; rewrite Eq in Ep.
  - exists q, base. split; assumption.
  - exists ("" :: q), base. split; assumption.
Qed.

Lemma dot_last_false : forall h p, clean_leaf_path p = true -> dot_last h p = false.
Proof.
  intros h p H. destruct (leaf_split p H) as [x [base [Ep Cb]]]. destruct (clean_name_eqb base Cb) as [B1 [B2 B3]].
  assert (Hc : clean_path p = true) by (unfold clean_leaf_path in H; apply andb_true_iff in H; apply H).
  unfold dot_last, s_path. rewrite (clean_path_not_empty p Hc), <- rs_resolve, Ep, (rs_app h [base] false eq_refl).
  destruct (rs spec_max_links h [0] None x true) as [[st' nm'|a b|e] k|] eqn:Ex; try reflexivity.
  assert (Hne : st' <> []) by (eapply rs_stack; [|exact Ex]; discriminate).
  rewrite rs_eq. cbn [s_walk]. rewrite B1, B2, B3.
  destruct (is_dir h (cur st')); cbn [negb]; [|reflexivity].
  destruct (lookup base (n_children (get h (cur st')))) as [i|]; [|reflexivity].
  cbn [orb]. rewrite andb_false_r. cbn [s_walk norm to_rres]. destruct st'; [congruence | reflexivity].
Qed.

(* when a host call is the reference's step *)
Definition hplain (o : op) : bool :=
  match o with
  | Mkdir p _ | Remove p | Symlink _ p => relleaf p
  | MkdirAll p _ | OpenFile p _ _ | Create p | ReadFile p | WriteFile p _ _ | ReadDir p | Stat p | Lstat p
  | Readlink p | Chmod p _ | Chown p _ _ | Chtimes p _ | Readnod p
  | SetXattr p _ _ | GetXattr p _ | RemoveXattr p _ | ListXattrs p => relpath p
  | Read _ n | ReadAt _ n _ => negb (Nat.eqb n 0)
  | Write _ _ | Seek _ _ _ | Close _ => true
  | Link _ _ | Mknod _ _ _ => false
  end.
Lemma host_call_plain : forall s o, hplain o = true -> host_call s o = spec_step s o.
Proof.
  intros s o H. unfold host_call. destruct o; try discriminate H; cbn [hplain] in H; cbn [host_op];
    try (rewrite (hp_rel _ H); reflexivity); try reflexivity.
  - (* Mkdir *) rewrite (hp_rel _ (relleaf_relpath _ H)). cbn [host_step].
    unfold relleaf in H. apply andb_true_iff in H. destruct H as [H _]. rewrite (dot_last_false _ _ H). reflexivity.
  - (* Read *) destruct n; [discriminate H | reflexivity].
  - (* ReadAt *) destruct n; [discriminate H | reflexivity].
  - (* Symlink *) rewrite (hp_rel _ (relleaf_relpath _ H)). cbn [host_step].
    unfold relleaf in H. apply andb_true_iff in H. destruct H as [H _]. rewrite (dot_last_false _ _ H). reflexivity.
  - (* Remove *) rewrite (hp_rel _ (relleaf_relpath _ H)). cbn [host_step].
    unfold relleaf, clean_leaf_path in H. apply andb_true_iff in H. destruct H as [H _]. apply andb_true_iff in H.
    destruct H as [_ H]. apply negb_true_iff in H. rewrite H. reflexivity.
Qed.

(* without symbolic links lstat is stat *)
Lemma s_walk_nolinks : forall h, no_links h -> forall p st nm, s_walk h st nm p false = s_walk h st nm p true.
Proof.
  intros h NL. induction p as [|c p IH]; intros st nm; cbn [s_walk]; [reflexivity|].
  rewrite !IH. destruct (lookup c (n_children (get h (cur st)))) as [i|]; [|reflexivity]. rewrite (NL i), ?IH. reflexivity.
Qed.
Lemma s_resolve_nolinks : forall h, no_links h -> forall n st nm p, s_resolve n h st nm p false = s_resolve n h st nm p true.
Proof.
  intros h NL. induction n as [|n IH]; intros st nm p; cbn [s_resolve]; rewrite (s_walk_nolinks h NL);
    destruct (s_walk h st nm p true); try reflexivity.
  destruct (path_eqb tgt [""]); [reflexivity | apply IH].
Qed.
Lemma s_lnode_nolinks : forall h p, no_links h -> s_lnode h p = s_node h p.
Proof. intros h p NL. unfold s_lnode, s_node, s_path. rewrite (s_resolve_nolinks h NL). reflexivity. Qed.

(* link(2) as the kernel orders it = the reference's Link, when the old name is not
   itself a symbolic link (link(2) does not follow it: C17-F19), is a file, and the
   new name's directory exists (then at most "exists" can go wrong) *)
Definition link_ok (h : list node) (old new : path) : bool :=
  eres_nat_eqb (s_lnode h old) (s_node h old) &&
  match s_node h old, s_leaf h new with
  | inl t, inl (pi, _, _) => negb (is_dir h t) && is_dir h pi
  | _, _ => false
  end.
Lemma host_link_spec : forall s old new, clean_leaf_path new = true -> link_ok (heap s) old new = true ->
  host_link s old new = spec_step s (Link old new).
Proof.
  intros s old new Hn Hk. unfold host_link, spec_step. cbn [spec_raw]. unfold s_with_leaf, link_ok in *.
  apply andb_true_iff in Hk. destruct Hk as [Hl Hk]. apply eres_nat_eqb_eq in Hl.
  rewrite Hl, (dot_last_false _ _ Hn).
  destruct (s_node (heap s) old) as [t|e]; [|discriminate Hk].
  destruct (s_leaf (heap s) new) as [[[pi nm] c]|e]; [|discriminate Hk].
  apply andb_true_iff in Hk. destruct Hk as [Ht Hp]. apply negb_true_iff in Ht. rewrite Hp, Ht. cbn [negb].
  unfold s_enter_new. rewrite Hp. cbn [negb]. destruct c; reflexivity.
Qed.

(* ---- the refinement ------------------------------------------------------------------------------------ *)
Definition dsync (d : dst) : Prop := sh (heap (d_ov d)) = sh (heap (d_host d)).

(* answered from the overlay alone, and not comparable with the host (sizes,
   attributes): there dirFS is the reference on the overlay state *)
Definition ov_only (o : op) : bool :=
  match o with Lstat _ | SetXattr _ _ _ | GetXattr _ _ | RemoveXattr _ _ | ListXattrs _ => true | _ => false end.

Definition denv (d : dst) (o : op) : bool :=
  match o with
  | Mknod _ _ _ | Readnod _ => false
  | Link old new =>
      relpath old && relleaf new && negb (climbs old) && link_ok (heap (d_host d)) old new && E MemFS (d_ov d) o
  | MkdirAll _ _ => hplain o && E MemFS (d_ov d) o && negb (is_failure (snd (spec_step (d_host d) o)))
  | OpenFile _ fl _ => hplain o && (negb (f_creat fl) || E MemFS (d_ov d) o)
  | ReadFile _ | Read _ _ | ReadAt _ _ _ | Write _ _ | Seek _ _ _ | Close _ => hplain o
  | _ => hplain o && E MemFS (d_ov d) (strip_op o)
  end.

Definition dref (d : dst) (o : op) : Prop :=
  let '(d', r) := dirfs_step d o in
  dsync d' /\
  if ov_only o then d_host d' = d_host d /\ spec_step (d_ov d) o = (d_ov d', r)
  else spec_step (d_host d) o = (d_host d', r).

Lemma fail_same : forall s o, is_mkdirall o = false -> is_failure (snd (spec_step s o)) = true -> fst (spec_step s o) = s.
Proof.
  intros s o Hm Hf. destruct (spec_step s o) as [s' r] eqn:E1. cbn [fst snd] in *.
  exact (spec_failure_no_change s o s' r E1 Hf Hm).
Qed.

Lemma L_hto : forall d oh oo, dsync d -> tree_op oh = true -> tree_op oo = true -> strip_op oo = strip_op oh ->
  keep_op oh = true -> keep_op oo = true ->
  host_call (d_host d) oh = spec_step (d_host d) oh -> E MemFS (d_ov d) oo = true ->
  (is_failure (snd (spec_step (d_host d) oh)) = true -> fst (spec_step (d_host d) oh) = d_host d) ->
  let '(d', r) := host_then_ov d oh oo in dsync d' /\ spec_step (d_host d) oh = (d_host d', r).
Proof.
  intros d oh oo Hs Hth Hto Hst Hkh Hko Hcall HE Hfail. unfold host_then_ov. rewrite Hcall.
  pose proof (keep_ops (d_host d) oh Hkh) as Kh. pose proof (keep_ops (d_ov d) oo Hko) as Ko.
  pose proof (pair_step (d_ov d) (d_host d) oo oh Hs Hto Hth Hst) as [P1 P2].
  destruct (spec_step (d_host d) oh) as [h1 r] eqn:Eh. cbn [fst snd] in *.
  destruct (is_failure r) eqn:Ef.
  - split; [|reflexivity]. unfold dsync. cbn [d_ov d_host]. rewrite (Hfail eq_refl). exact Hs.
  - unfold ov_step. rewrite (refines MemFS (d_ov d) oo HE).
    destruct (spec_step (d_ov d) oo) as [v1 r'] eqn:Ev. cbn [fst snd] in *.
    rewrite (keeps_eq r' r Ko Kh P2). split; [exact P1 | reflexivity].
Qed.

Lemma L_hio : forall d o, dsync d -> tree_op o = true -> keep_op o = true ->
  host_call (d_host d) o = spec_step (d_host d) o -> E MemFS (d_ov d) o = true ->
  let '(d', r) := host_ignored_then_ov d o in dsync d' /\ spec_step (d_host d) o = (d_host d', r).
Proof.
  intros d o Hs Ht Hk Hcall HE. unfold host_ignored_then_ov. rewrite Hcall.
  pose proof (keep_ops (d_host d) o Hk) as Kh. pose proof (keep_ops (d_ov d) o Hk) as Ko.
  pose proof (pair_step (d_ov d) (d_host d) o o Hs Ht Ht eq_refl) as [P1 P2].
  destruct (spec_step (d_host d) o) as [h1 r] eqn:Eh. unfold ov_step. rewrite (refines MemFS (d_ov d) o HE).
  destruct (spec_step (d_ov d) o) as [v1 r'] eqn:Ev. cbn [fst snd] in *.
  rewrite (keeps_eq r' r Ko Kh P2). split; [exact P1 | reflexivity].
Qed.

Lemma L_oth : forall d o, dsync d -> tree_op o = true -> keep_op o = true -> is_mkdirall o = false ->
  host_call (d_host d) o = spec_step (d_host d) o -> E MemFS (d_ov d) o = true ->
  let '(d', r) := ov_then_host d o o in dsync d' /\ spec_step (d_host d) o = (d_host d', r).
Proof.
  intros d o Hs Ht Hk Hm Hcall HE. unfold ov_then_host, ov_step. rewrite (refines MemFS (d_ov d) o HE), Hcall.
  pose proof (keep_ops (d_host d) o Hk) as Kh. pose proof (keep_ops (d_ov d) o Hk) as Ko.
  pose proof (pair_step (d_ov d) (d_host d) o o Hs Ht Ht eq_refl) as [P1 P2].
  pose proof (fail_same (d_ov d) o Hm) as Fv. pose proof (fail_same (d_host d) o Hm) as Fh.
  destruct (spec_step (d_ov d) o) as [v1 r] eqn:Ev. destruct (spec_step (d_host d) o) as [h1 r'] eqn:Eh. cbn [fst snd] in *.
  pose proof (keeps_eq r r' Ko Kh P2) as Er. subst r'.
  destruct (is_failure r) eqn:Ef.
  - rewrite (Fv eq_refl), (Fh eq_refl). split; [exact Hs | reflexivity].
  - split; [exact P1 | reflexivity].
Qed.

Lemma close_heap : forall b s i, heap (fst (model_step b s (Close i))) = heap s.
Proof.
  intros b s i. cbn [model_step]. unfold with_handle. destruct (nth_error (handles s) i) as [hd|]; [|reflexivity].
  destruct (h_open hd); reflexivity.
Qed.

Lemma L_open : forall d o, dsync d -> tree_op o = true -> keep_op o = true -> is_mkdirall o = false ->
  host_call (d_host d) o = spec_step (d_host d) o -> E MemFS (d_ov d) o = true ->
  let '(d', r) := open_both d o in dsync d' /\ spec_step (d_host d) o = (d_host d', r).
Proof.
  intros d o Hs Ht Hk Hm Hcall HE. unfold open_both, ov_step. rewrite (refines MemFS (d_ov d) o HE), Hcall.
  pose proof (keep_ops (d_host d) o Hk) as Kh. pose proof (keep_ops (d_ov d) o Hk) as Ko.
  pose proof (pair_step (d_ov d) (d_host d) o o Hs Ht Ht eq_refl) as [P1 P2].
  pose proof (fail_same (d_ov d) o Hm) as Fv. pose proof (fail_same (d_host d) o Hm) as Fh.
  destruct (spec_step (d_ov d) o) as [v1 r] eqn:Ev. destruct (spec_step (d_host d) o) as [h1 r'] eqn:Eh. cbn [fst snd] in *.
  pose proof (keeps_eq r r' Ko Kh P2) as Er. subst r'.
  destruct (is_failure r) eqn:Ef.
  - rewrite (Fv eq_refl), (Fh eq_refl). split; [exact Hs | reflexivity].
  - pose proof (close_heap MemFS v1 (List.length (handles (d_ov d)))) as Hc.
    destruct (model_step MemFS v1 (Close (List.length (handles (d_ov d))))) as [v2 rc]. cbn [fst] in Hc.
    split; [|reflexivity]. unfold dsync. cbn [d_ov d_host]. rewrite Hc. exact P1.
Qed.

Lemma L_host : forall d o, dsync d -> data_op o = true -> host_call (d_host d) o = spec_step (d_host d) o ->
  let '(d', r) := only_host d o in dsync d' /\ spec_step (d_host d) o = (d_host d', r).
Proof.
  intros d o Hs Hd Hcall. unfold only_host. rewrite Hcall. pose proof (data_ops (d_host d) o Hd) as D.
  destruct (spec_step (d_host d) o) as [h1 r]. cbn [fst] in D. split; [|reflexivity].
  unfold dsync. cbn [d_ov d_host]. rewrite D. exact Hs.
Qed.

Lemma L_ov : forall d o, dsync d -> data_op o = true -> E MemFS (d_ov d) o = true ->
  let '(d', r) := only_ov d o in dsync d' /\ d_host d' = d_host d /\ spec_step (d_ov d) o = (d_ov d', r).
Proof.
  intros d o Hs Hd HE. unfold only_ov, ov_step. rewrite (refines MemFS (d_ov d) o HE).
  pose proof (data_ops (d_ov d) o Hd) as D. destruct (spec_step (d_ov d) o) as [v1 r]. cbn [fst] in D.
  split; [|split; reflexivity]. unfold dsync. cbn [d_ov d_host]. rewrite D. exact Hs.
Qed.

Lemma stat_out : forall s p, match snd (spec_step s (Stat p)) with OInfo _ _ _ _ _ _ | OErr _ => True | _ => False end.
Proof.
  intros s p. unfold spec_step. cbn [spec_raw]. unfold s_with_node. destruct (s_node (heap s) p); cbn; exact I.
Qed.

Ltac env2 H H' := apply andb_true_iff in H; destruct H as [H H'].

Theorem dirfs_refines : forall d o, dsync d -> denv d o = true -> dref d o.
Proof.
  intros d o Hs Hv. unfold dref. destruct o; cbn [denv] in Hv; try discriminate Hv; cbn [dirfs_step ov_only strip_op] in *.
  - (* Mkdir *) env2 Hv HE.
    apply (L_hto d (Mkdir p perm) (Mkdir p perm) Hs eq_refl eq_refl eq_refl eq_refl eq_refl (host_call_plain _ _ Hv) HE).
    apply fail_same. reflexivity.
  - (* MkdirAll *) env2 Hv HF. env2 Hv HE. apply negb_true_iff in HF.
    apply (L_hto d (MkdirAll p perm) (MkdirAll p perm) Hs eq_refl eq_refl eq_refl eq_refl eq_refl (host_call_plain _ _ Hv) HE).
    intro F. congruence.
  - (* OpenFile *) env2 Hv HE. destruct (f_creat fl) eqn:Ec.
    + cbn [negb orb] in HE. apply (L_open d (OpenFile p fl perm) Hs eq_refl eq_refl eq_refl (host_call_plain _ _ Hv) HE).
    + apply (L_host d (OpenFile p fl perm) Hs); [cbn [data_op]; rewrite Ec; reflexivity | apply host_call_plain, Hv].
  - (* Create *) env2 Hv HE. apply (L_open d (Create p) Hs eq_refl eq_refl eq_refl (host_call_plain _ _ Hv) HE).
  - (* Read *) apply (L_host d (Read h n) Hs eq_refl (host_call_plain _ _ Hv)).
  - (* ReadAt *) apply (L_host d (ReadAt h n off) Hs eq_refl (host_call_plain _ _ Hv)).
  - (* Write *) apply (L_host d (Write h b) Hs eq_refl (host_call_plain _ _ Hv)).
  - (* Seek *) apply (L_host d (Seek h off wh) Hs eq_refl (host_call_plain _ _ Hv)).
  - (* Close *) apply (L_host d (Close h) Hs eq_refl (host_call_plain _ _ Hv)).
  - (* ReadFile *) apply (L_host d (ReadFile p) Hs eq_refl (host_call_plain _ _ Hv)).
  - (* WriteFile *) env2 Hv HE.
    apply (L_hto d (WriteFile p b perm) (WriteFile p [] perm) Hs eq_refl eq_refl eq_refl eq_refl eq_refl (host_call_plain _ _ Hv) HE).
    apply fail_same. reflexivity.
  - (* ReadDir: the host's error first, then the overlay's listing *) env2 Hv HE.
    rewrite (host_call_plain _ _ Hv).
    pose proof (pair_step (d_ov d) (d_host d) (ReadDir p) (ReadDir p) Hs eq_refl eq_refl eq_refl) as [P1 P2].
    pose proof (ro_ops (d_host d) (ReadDir p) eq_refl) as Rh. pose proof (ro_ops (d_ov d) (ReadDir p) eq_refl) as Rv.
    pose proof (keep_ops (d_host d) (ReadDir p) eq_refl) as Kh. pose proof (keep_ops (d_ov d) (ReadDir p) eq_refl) as Kv.
    destruct (spec_step (d_host d) (ReadDir p)) as [h1 r] eqn:Eh. cbn [fst snd] in *. subst h1.
    destruct (is_failure r); [split; [exact Hs | reflexivity]|].
    unfold only_ov, ov_step. rewrite (refines MemFS (d_ov d) _ HE).
    destruct (spec_step (d_ov d) (ReadDir p)) as [v1 r'] eqn:Ev. cbn [fst snd] in *. subst v1.
    rewrite (keeps_eq r' r Kv Kh P2). destruct d; split; [exact Hs | reflexivity].
  - (* Stat: mode and owner from the overlay, size from the host *) env2 Hv HE.
    rewrite (host_call_plain _ _ Hv). unfold ov_step. rewrite (refines MemFS (d_ov d) _ HE).
    pose proof (pair_step (d_ov d) (d_host d) (Stat p) (Stat p) Hs eq_refl eq_refl eq_refl) as [P1 P2].
    pose proof (ro_ops (d_host d) (Stat p) eq_refl) as Rh.
    destruct (spec_step (d_host d) (Stat p)) as [h1 r] eqn:Eh. destruct (spec_step (d_ov d) (Stat p)) as [v1 r'] eqn:Ev.
    pose proof (stat_out (d_host d) p) as Oh. pose proof (stat_out (d_ov d) p) as Ov. rewrite Eh in Oh. rewrite Ev in Ov.
    cbn [fst snd] in *. subst h1.
    destruct r'; try contradiction; destruct r; try contradiction; cbn [strip_out] in P2; try discriminate P2;
      inversion P2; subst; split; try exact Hs; reflexivity.
  - (* Lstat *) env2 Hv HE. apply (L_ov d (Lstat p) Hs eq_refl HE).
  - (* Symlink *) env2 Hv HE.
    apply (L_hto d (Symlink tgt p) (Symlink tgt p) Hs eq_refl eq_refl eq_refl eq_refl eq_refl (host_call_plain _ _ Hv) HE).
    apply fail_same. reflexivity.
  - (* Link *) env2 Hv HE. env2 Hv HK. env2 Hv HC. env2 Hv HN. apply negb_true_iff in HC.
    rewrite HC.
    assert (Hcall : host_call (d_host d) (Link old new) = spec_step (d_host d) (Link old new)).
    { unfold host_call. cbn [host_op host_step]. rewrite (hp_rel _ Hv), (hp_rel _ (relleaf_relpath _ HN)).
      apply host_link_spec; [| exact HK]. unfold relleaf in HN. apply andb_true_iff in HN. apply HN. }
    apply (L_hto d (Link old new) (Link old new) Hs eq_refl eq_refl eq_refl eq_refl eq_refl Hcall HE). apply fail_same. reflexivity.
  - (* Readlink: from the overlay, and the host would say the same *) env2 Hv HE.
    pose proof (L_ov d (Readlink p) Hs eq_refl HE) as L. unfold only_ov, ov_step in *. rewrite (refines MemFS (d_ov d) _ HE) in *.
    pose proof (pair_step (d_ov d) (d_host d) (Readlink p) (Readlink p) Hs eq_refl eq_refl eq_refl) as [P1 P2].
    pose proof (ro_ops (d_host d) (Readlink p) eq_refl) as Rh.
    pose proof (keep_ops (d_host d) (Readlink p) eq_refl) as Kh. pose proof (keep_ops (d_ov d) (Readlink p) eq_refl) as Kv.
    destruct (spec_step (d_ov d) (Readlink p)) as [v1 r'] eqn:Ev. destruct (spec_step (d_host d) (Readlink p)) as [h1 r] eqn:Eh.
    cbn [fst snd d_host] in *. subst h1. rewrite (keeps_eq r' r Kv Kh P2). destruct L as [L1 _]. split; [exact L1 | reflexivity].
  - (* Remove *) env2 Hv HE. apply (L_oth d (Remove p) Hs eq_refl eq_refl eq_refl (host_call_plain _ _ Hv) HE).
  - (* Chmod *) env2 Hv HE. apply (L_hio d (Chmod p perm) Hs eq_refl eq_refl (host_call_plain _ _ Hv) HE).
  - (* Chown *) env2 Hv HE. apply (L_hio d (Chown p uid gid) Hs eq_refl eq_refl (host_call_plain _ _ Hv) HE).
  - (* Chtimes *) env2 Hv HE.
    apply (L_hto d (Chtimes p t) (Chtimes p t) Hs eq_refl eq_refl eq_refl eq_refl eq_refl (host_call_plain _ _ Hv) HE).
    apply fail_same. reflexivity.
  - (* SetXattr *) env2 Hv HE. apply (L_ov d (SetXattr p a v) Hs eq_refl HE).
  - (* GetXattr *) env2 Hv HE. apply (L_ov d (GetXattr p a) Hs eq_refl HE).
  - (* RemoveXattr *) env2 Hv HE. apply (L_ov d (RemoveXattr p a) Hs eq_refl HE).
  - (* ListXattrs *) env2 Hv HE. apply (L_ov d (ListXattrs p) Hs eq_refl HE).
Qed.

Lemma dsync_init : dsync dinit.
Proof. reflexivity. Qed.

(* sequences: every step inside [denv] *)
Fixpoint run_in_denv (d : dst) (ops : list op) : bool :=
  match ops with
  | [] => true
  | o :: ops' => denv d o && run_in_denv (fst (dirfs_step d o)) ops'
  end.
Definition host_ops (ops : list op) : list op := filter (fun o => negb (ov_only o)) ops.
Fixpoint host_obs (ops : list op) (rs : list out) : list out :=
  match ops, rs with
  | o :: ops', r :: rs' => if ov_only o then host_obs ops' rs' else r :: host_obs ops' rs'
  | _, _ => []
  end.

(* the host sees exactly the reference run of the operations that reach it, and
   what dirFS answers to them is what the reference answers *)
Theorem dirfs_run_refines : forall ops d, dsync d -> run_in_denv d ops = true ->
  dsync (fst (dirfs_run d ops)) /\
  d_host (fst (dirfs_run d ops)) = fst (spec_run (d_host d) (host_ops ops)) /\
  host_obs ops (snd (dirfs_run d ops)) = snd (spec_run (d_host d) (host_ops ops)).
Proof.
  induction ops as [|o ops IH]; intros d Hs Hr; [repeat split; exact Hs|].
  cbn [run_in_denv] in Hr. apply andb_true_iff in Hr. destruct Hr as [Hv Hr].
  pose proof (dirfs_refines d o Hs Hv) as R. unfold dref in R.
  cbn [dirfs_run host_ops filter host_obs]. destruct (dirfs_step d o) as [d1 r] eqn:E1. cbn [fst] in Hr.
  destruct R as [Hs1 R]. destruct (IH d1 Hs1 Hr) as [A [B C]].
  destruct (dirfs_run d1 ops) as [d2 rs] eqn:E2. cbn [fst snd] in *.
  destruct (ov_only o); cbn [negb].
  - destruct R as [R1 _]. rewrite <- R1. repeat split; assumption.
  - cbn [spec_run]. rewrite R. fold (host_ops ops). destruct (spec_run (d_host d1) (host_ops ops)) as [s2 rs2].
    cbn [fst snd] in *. subst. repeat split; assumption.
Qed.
